package main

import (
	"bytes"
	"context"
	"fmt"
	"os"
	"os/exec"
	"path/filepath"
	"regexp"
	"sort"
	"strings"
	"sync"
	"time"

	"verifharness/lib"
)

func repoDir() string {
	if r := os.Getenv("VERIF_REPO"); r != "" {
		return r
	}
	return "/repo"
}

func buildCLI(dir string) (string, error) {
	bin := filepath.Join(dir, "octosql")
	cmd := exec.Command("go", "build", "-o", bin, ".")
	cmd.Dir = repoDir()
	cmd.Env = append(os.Environ(), "GOFLAGS=-mod=mod", "GOPROXY=off", "GOSUMDB=off", "GOTOOLCHAIN=local", "CGO_ENABLED=0")
	out, err := cmd.CombinedOutput()
	if err != nil {
		return "", fmt.Errorf("go build of the CLI failed: %v\n%s", err, out)
	}
	return bin, nil
}

type cliResult struct {
	exit     int
	stdout   string
	stderr   string
	timedOut bool
}

func (r cliResult) crashed() bool {
	return !r.timedOut && (r.exit == 2 || strings.Contains(r.stderr, "panic:") && strings.Contains(r.stderr, "goroutine ") || strings.Contains(r.stderr, "fatal error:"))
}

func runOcto(bin, home, dir string, args []string) cliResult {
	ctx, cancel := context.WithTimeout(context.Background(), 6*time.Second)
	defer cancel()
	cmd := exec.CommandContext(ctx, bin, args...)
	cmd.Dir = dir
	cmd.Env = []string{"OCTOSQL_NO_TELEMETRY=1", "HOME=" + home, "PATH=/usr/bin:/bin", "GOMEMLIMIT=1GiB"}
	cmd.Stdin = strings.NewReader("")
	var so, se bytes.Buffer
	cmd.Stdout, cmd.Stderr = &so, &se
	err := cmd.Run()
	res := cliResult{stdout: so.String(), stderr: se.String()}
	if ctx.Err() != nil {
		res.timedOut = true
		res.exit = -1
		return res
	}
	if err != nil {
		if ee, ok := err.(*exec.ExitError); ok {
			res.exit = ee.ExitCode()
		} else {
			res.exit = -2
		}
	}
	return res
}

// ---- classification of a crash by the panic message and the first frames inside the repository ----

// frames of the tree under check in a goroutine trace: "\t<VERIF_REPO>/<dir>/<file>.go:<line>"
var frameRe = regexp.MustCompile(`(?m)^\s+` + regexp.QuoteMeta(filepath.Clean(repoDir())) + `/((?:[a-z_0-9]+/)*[a-z_0-9]+\.go):(\d+)`)

type crash struct {
	msg   string
	files []string // repository files in the trace, innermost first
	fn    string   // name of the SQL function (key of functions.FunctionMap) whose body the innermost functions.go frame lies in
}

// functionAt: the key of the FunctionMap literal that encloses a line of functions/functions.go (read from the tree under check)
var fnKeyRe = regexp.MustCompile(`^\t\t"([^"]+)": \{`)
var fnLines []string

func functionAt(line int) string {
	if fnLines == nil {
		data, _ := os.ReadFile(filepath.Join(repoDir(), "functions/functions.go"))
		fnLines = strings.Split(string(data), "\n")
	}
	for i := line - 1; i >= 0 && i < len(fnLines); i-- {
		if m := fnKeyRe.FindStringSubmatch(fnLines[i]); m != nil {
			return m[1]
		}
	}
	return ""
}

func parseCrash(stderr string) crash {
	c := crash{}
	for _, l := range strings.Split(stderr, "\n") {
		if strings.HasPrefix(l, "panic:") || strings.HasPrefix(l, "fatal error:") {
			c.msg = l
			break
		}
	}
	for _, m := range frameRe.FindAllStringSubmatch(stderr, -1) {
		c.files = append(c.files, m[1])
		if m[1] == "functions/functions.go" && c.fn == "" {
			var line int
			fmt.Sscan(m[2], &line)
			c.fn = functionAt(line)
		}
	}
	return c
}

func (c crash) has(file string) bool {
	for _, f := range c.files {
		if f == file {
			return true
		}
	}
	return false
}

// classify maps a crash to the known-finding class of the site it died in ("" = not a known site).
func classify(c crash) string {
	m := c.msg
	switch {
	case strings.Contains(m, "integer divide by zero") && c.has("table_valued_functions/max_diff_watermark.go"):
		return "c20-resolution-zero"
	case strings.Contains(m, "integer divide by zero") && c.fn == "/":
		return "c13-div-zero"
	case (strings.Contains(m, "Repeat") || strings.Contains(m, "makeslice") || strings.Contains(m, "out of memory")) && c.fn == "*":
		return "c13-repeat"
	case strings.Contains(m, "slice bounds out of range") && c.fn == "substr":
		return "c12-substr"
	case strings.Contains(m, "index out of range [-") && c.fn == "[]":
		return "c13-list-index"
	case strings.Contains(m, "index out of range") && c.has("parser/parser.go"):
		return "c01-count-no-arg"
	case strings.Contains(m, "unexhaustive expression type match"):
		return "c04-variables-used"
	case strings.Contains(m, "unnest field") && c.has("physical/nodes.go"),
		strings.Contains(m, "index out of range") && c.has("execution/nodes/unnest.go"):
		return "c04-unnest-pruned"
	case strings.Contains(m, "invalid value type to print in CSV"):
		return "c25-csv-nonscalar"
	case strings.Contains(m, "nil pointer") && c.has("table_valued_functions/poll.go"):
		return "c21-poll-nil"
	case strings.Contains(m, "slice bounds out of range [1:0]") && len(c.files) > 0 &&
		(c.files[0] == "execution/nodes/stream_join.go" || c.files[0] == "execution/nodes/outer_join.go"):
		return "c18-join-retraction-unmatched"
	case strings.Contains(m, "nil pointer") && c.limitExprCrash():
		return "c07-limit-column"
	case c.has("execution/expressions.go") && (strings.Contains(m, "index out of range") || strings.Contains(m, "nil pointer") || strings.Contains(m, "unreachable")):
		return "c13-fixlayout"
	}
	return ""
}

// limitExprCrash: the innermost repository frames are expression evaluation, called straight from where a LIMIT
// expression is evaluated without a record (Limit.Run, OrderSensitiveTransform.Run, cmd/root.go)
func (c crash) limitExprCrash() bool {
	for _, f := range c.files {
		switch f {
		case "execution/expressions.go", "functions/functions.go":
			continue
		case "execution/nodes/limit.go", "execution/nodes/order_sensitive_transform.go", "cmd/root.go":
			return true
		}
		return false
	}
	return false
}

func (c crash) key() string {
	f := ""
	if len(c.files) > 0 {
		f = c.files[0] + " " + c.fn
	}
	m := regexp.MustCompile(`\[[^\]]*\]|\d+`).ReplaceAllString(c.msg, "#")
	return m + " @ " + f
}

// ---- input files ----

func writeInputs(dir string, r *lib.Rng) error {
	var b strings.Builder
	// e.csv: i Int (edge values), s String, f Float, b Boolean, t Time; after row 100 the kinds change
	b.WriteString("i,s,f,b,t\n")
	ints := []string{"0", "-1", "1", "2", "-9223372036854775808", "9223372036854775807", "7", "", "3", "-3"}
	strs := []string{"a", "", "test", "日本", "a b", "%_", "x", "hello", "-1", "0"}
	for k := 0; k < 130; k++ {
		i, s, fl := ints[k%len(ints)], strs[(k/2)%len(strs)], fmt.Sprintf("%d.5", k-3)
		bo, tm := []string{"true", "false", ""}[k%3], fmt.Sprintf("2020-01-01T00:00:%02dZ", k%60)
		if k >= 104 { // differs from the 100-row preview
			i, fl, bo, tm = []string{"abc", "1.5", "+5", "9223372036854775808"}[k%4], "x", "maybe", "yesterday"
		}
		b.WriteString(fmt.Sprintf("%s,%s,%s,%s,%s\n", i, s, fl, bo, tm))
	}
	if err := os.WriteFile(filepath.Join(dir, "e.csv"), []byte(b.String()), 0o644); err != nil {
		return err
	}
	// small.csv: a few rows only
	os.WriteFile(filepath.Join(dir, "small.csv"), []byte("i,s,f,b,t\n0,a,0.5,true,2020-01-01T00:00:00Z\n-1,b,-1.5,false,2020-01-01T00:00:01Z\n2,,,,\n"), 0o644)
	os.WriteFile(filepath.Join(dir, "empty.csv"), []byte("i,s,f,b,t\n"), 0o644)
	os.WriteFile(filepath.Join(dir, "empty.json"), []byte(""), 0o644)
	// j.json: n number, s string, l list (sometimes empty), o object, t time string, m mixed; rows after 100 differ
	b.Reset()
	for k := 0; k < 125; k++ {
		l := []string{"[]", "[1]", "[1, 2, 3]", "[0, -1]"}[k%4]
		switch {
		case k >= 102 && k%3 == 0:
			b.WriteString(fmt.Sprintf("{\"n\": \"str%d\", \"s\": %d, \"l\": 5, \"o\": [1], \"t\": 7, \"m\": {\"x\": 1}, \"extra\": true}\n", k, k))
		case k >= 102 && k%3 == 1:
			b.WriteString("{\"n\": null}\n")
		default:
			b.WriteString(fmt.Sprintf("{\"n\": %d, \"s\": \"v%d\", \"l\": %s, \"o\": {\"x\": %d, \"y\": \"q\"}, \"t\": \"2021-03-04T05:06:%02dZ\", \"m\": %s}\n",
				k%5-2, k, l, k, k%60, []string{"1", "\"a\"", "null", "[1]", "{\"z\": 0}", "1.5"}[k%6]))
		}
	}
	os.WriteFile(filepath.Join(dir, "j.json"), []byte(b.String()), 0o644)
	// k.json: list / object / nullable fields that are empty ([], {}, null, [[],[]]) in every row of the 100-row schema
	// preview and filled afterwards (no element / field type can be inferred from the preview)
	b.Reset()
	for k := 0; k < 140; k++ {
		if k < 110 {
			b.WriteString(fmt.Sprintf("{\"id\": %d, \"tags\": [], \"m\": [[], []], \"o\": {}, \"z\": null, \"lo\": [{}]}\n", k))
		} else {
			b.WriteString(fmt.Sprintf("{\"id\": %d, \"tags\": [\"x\", \"y%d\"], \"m\": [[], [1.5]], \"o\": {\"x\": %d}, \"z\": %s, \"lo\": [{\"q\": [1]}]}\n",
				k, k, k, []string{"5", "\"s\"", "[1]", "{\"w\": 1}"}[k%4]))
		}
	}
	os.WriteFile(filepath.Join(dir, "k.json"), []byte(b.String()), 0o644)
	// k2.json: the same with the first filled row exactly at the preview boundary and a single filled row at the very end
	b.Reset()
	for k := 0; k < 131; k++ {
		if k == 100 || k == 130 {
			b.WriteString(fmt.Sprintf("{\"id\": %d, \"tags\": [1], \"m\": [[2]], \"o\": {\"x\": [3]}, \"z\": [], \"lo\": []}\n", k))
		} else {
			b.WriteString(fmt.Sprintf("{\"id\": %d, \"tags\": [], \"m\": [], \"o\": {}, \"z\": null, \"lo\": []}\n", k))
		}
	}
	os.WriteFile(filepath.Join(dir, "k2.json"), []byte(b.String()), 0o644)
	// ev.csv: keyed events whose event times are out of order within a few seconds; kk.csv: a small dimension table
	b.Reset()
	b.WriteString("k,v,t\n")
	for k := 0; k < 90; k++ {
		sec := (k*2 + []int{0, -5, 4, -2, 7, 0, 0, -9}[k%8] + 60) % 60
		b.WriteString(fmt.Sprintf("%d,%d,2020-01-01T00:%02d:%02dZ\n", k%3, k%7, k/30, sec))
	}
	os.WriteFile(filepath.Join(dir, "ev.csv"), []byte(b.String()), 0o644)
	os.WriteFile(filepath.Join(dir, "kk.csv"), []byte("k,w\n0,a\n1,b\n2,c\n1,d\n"), 0o644)
	os.WriteFile(filepath.Join(dir, "l.lines"), []byte("first\n\nthird line\n日本\n"+strings.Repeat("y", 300)+"\nlast"), 0o644)
	// fixtures of the scenario corpus
	fix := filepath.Join(dir, "fixtures")
	os.MkdirAll(fix, 0o755)
	matches, _ := filepath.Glob(filepath.Join(repoDir(), "tests/scenarios/*/fixtures/*"))
	more, _ := filepath.Glob(filepath.Join(repoDir(), "tests/scenarios/*/*/fixtures/*"))
	for _, m := range append(matches, more...) {
		data, err := os.ReadFile(m)
		if err == nil && len(data) < 200000 {
			os.WriteFile(filepath.Join(fix, filepath.Base(m)), data, 0o644)
		}
	}
	return nil
}

// ---- grammar ----

type gen struct{ r *lib.Rng }

func (g gen) pick(xs ...string) string { return xs[g.r.Intn(len(xs))] }

func (g gen) intLit() string {
	return g.pick("0", "1", "-1", "2", "3", "9223372036854775807", "-9223372036854775807", "(-9223372036854775807 - 1)", "100", "-5", "4611686018427387904")
}

func (g gen) intE(d int, t string) string {
	if d <= 0 || g.r.Chance(1, 3) {
		if t == "e" && g.r.Chance(1, 2) {
			return "e.i"
		}
		return g.intLit()
	}
	switch g.r.Intn(9) {
	case 0:
		return "(" + g.intE(d-1, t) + " + " + g.intE(d-1, t) + ")"
	case 1:
		return "(" + g.intE(d-1, t) + " - " + g.intE(d-1, t) + ")"
	case 2:
		return "(" + g.intE(d-1, t) + " * " + g.intE(d-1, t) + ")"
	case 3:
		return "(" + g.intE(d-1, t) + " / " + g.intE(d-1, t) + ")"
	case 4:
		return "abs(" + g.intE(d-1, t) + ")"
	case 5:
		return "len(" + g.strE(d-1, t) + ")"
	case 6:
		return "int(" + g.pick(g.strE(d-1, t), g.floatE(d-1, t), g.boolE(d-1, t)) + ")"
	case 7:
		return "position(" + g.strE(d-1, t) + ", " + g.strE(d-1, t) + ")"
	}
	return "time_to_unix(" + g.timeE(d-1, t) + ")"
}

func (g gen) strE(d int, t string) string {
	if d <= 0 || g.r.Chance(1, 3) {
		if t == "e" && g.r.Chance(1, 2) {
			return "e.s"
		}
		if t == "j" && g.r.Chance(1, 2) {
			return "j.s"
		}
		return g.pick("''", "'a'", "'test'", "'日本'", "'%'", "'a_b'", "'(['")
	}
	switch g.r.Intn(8) {
	case 0:
		return "(" + g.strE(d-1, t) + " + " + g.strE(d-1, t) + ")"
	case 1:
		return "(" + g.strE(d-1, t) + " * " + g.pick("0", "1", "2", "-1", "3") + ")"
	case 2:
		return "(" + g.pick("0", "2", "-1", "-3") + " * " + g.strE(d-1, t) + ")"
	case 3:
		return g.pick("upper", "lower", "reverse") + "(" + g.strE(d-1, t) + ")"
	case 4:
		return "substr(" + g.strE(d-1, t) + ", " + g.intE(d-1, t) + ")"
	case 5:
		return "substr(" + g.strE(d-1, t) + ", " + g.intE(d-1, t) + ", " + g.intE(d-1, t) + ")"
	case 6:
		return "replace(" + g.strE(d-1, t) + ", " + g.strE(d-1, t) + ", " + g.strE(d-1, t) + ")"
	}
	return "string(" + g.pick(g.intE(d-1, t), g.floatE(d-1, t), g.boolE(d-1, t), g.durE(d-1, t)) + ")"
}

func (g gen) floatE(d int, t string) string {
	if d <= 0 || g.r.Chance(1, 3) {
		if t == "e" && g.r.Chance(1, 2) {
			return "e.f"
		}
		if t == "j" && g.r.Chance(1, 2) {
			return "j.n"
		}
		return g.pick("0.0", "1.5", "-2.25", "1e308", "-0.0", "3.0")
	}
	switch g.r.Intn(6) {
	case 0:
		return "(" + g.floatE(d-1, t) + " " + g.pick("+", "-", "*", "/") + " " + g.floatE(d-1, t) + ")"
	case 1:
		return g.pick("sqrt", "ceil", "floor", "log", "log2", "log10", "abs") + "(" + g.floatE(d-1, t) + ")"
	case 2:
		return "pow(" + g.floatE(d-1, t) + ", " + g.floatE(d-1, t) + ")"
	case 3:
		return "float(" + g.pick(g.intE(d-1, t), g.strE(d-1, t)) + ")"
	case 4:
		return "(" + g.durE(d-1, t) + " / " + g.durE(d-1, t) + ")"
	}
	if t == "j" {
		return "j.l[" + g.intE(d-1, t) + "]"
	}
	return g.floatE(d-1, t)
}

func (g gen) durE(d int, t string) string {
	if d <= 0 || g.r.Chance(1, 2) {
		return "INTERVAL " + g.pick("0", "1", "5", "90", "1000000") + " " + g.pick("SECONDS", "SECOND", "MINUTES", "HOURS", "DAYS", "MILLISECONDS")
	}
	switch g.r.Intn(4) {
	case 0:
		return "(" + g.durE(d-1, t) + " " + g.pick("+", "-") + " " + g.durE(d-1, t) + ")"
	case 1:
		return "(" + g.durE(d-1, t) + " * " + g.intE(d-1, t) + ")"
	case 2:
		return "(" + g.durE(d-1, t) + " / " + g.intE(d-1, t) + ")"
	}
	return "(" + g.intE(d-1, t) + " * " + g.durE(d-1, t) + ")"
}

func (g gen) timeE(d int, t string) string {
	if d <= 0 || g.r.Chance(1, 2) {
		if t == "e" {
			return "e.t"
		}
		return g.pick("now()", "time_from_unix(0)", "time_from_unix(-1)", "time_from_unix(9223372036854775807)", "time_from_unix(1655931949)")
	}
	switch g.r.Intn(3) {
	case 0:
		return "(" + g.timeE(d-1, t) + " " + g.pick("+", "-") + " " + g.durE(d-1, t) + ")"
	case 1:
		return "time_from_unix(" + g.pick(g.intE(d-1, t), g.floatE(d-1, t)) + ")"
	}
	return "parse_time(" + g.pick("'2006-01-02'", "''", "'x'", g.strE(d-1, t)) + ", " + g.strE(d-1, t) + ")"
}

func (g gen) boolE(d int, t string) string {
	if d <= 0 || g.r.Chance(1, 4) {
		if t == "e" && g.r.Chance(1, 2) {
			return "e.b"
		}
		return g.pick("true", "false", "NULL")
	}
	cmp := g.pick("=", "!=", "<", "<=", ">", ">=")
	switch g.r.Intn(10) {
	case 0:
		return "(" + g.intE(d-1, t) + " " + cmp + " " + g.intE(d-1, t) + ")"
	case 1:
		return "(" + g.strE(d-1, t) + " " + cmp + " " + g.strE(d-1, t) + ")"
	case 2:
		return "(" + g.boolE(d-1, t) + " " + g.pick("AND", "OR") + " " + g.boolE(d-1, t) + ")"
	case 3:
		return "not(" + g.boolE(d-1, t) + ")"
	case 4:
		return "(" + g.any(d-1, t) + " IS " + g.pick("NULL", "NOT NULL") + ")"
	case 5:
		return "(" + g.strE(d-1, t) + " " + g.pick("LIKE", "~", "~*", "!~", "!~*") + " " + g.pick("'%a%'", "'('", "'[a'", "'a|b'", "'*'", "'\\\\'", g.strE(d-1, t)) + ")"
	case 6:
		return "(" + g.intE(d-1, t) + " " + g.pick("IN", "NOT IN") + " (" + g.intE(d-1, t) + ", " + g.intE(d-1, t) + "))"
	case 7:
		return "(" + g.floatE(d-1, t) + " " + cmp + " " + g.floatE(d-1, t) + ")"
	case 8:
		return "(" + g.timeE(d-1, t) + " " + cmp + " " + g.timeE(d-1, t) + ")"
	}
	return "(" + g.durE(d-1, t) + " " + cmp + " " + g.durE(d-1, t) + ")"
}

func (g gen) any(d int, t string) string {
	switch g.r.Intn(8) {
	case 0:
		return g.intE(d, t)
	case 1:
		return g.strE(d, t)
	case 2:
		return g.floatE(d, t)
	case 3:
		return g.boolE(d, t)
	case 4:
		return g.durE(d, t)
	case 5:
		return g.timeE(d, t)
	case 6:
		if t == "j" {
			return g.pick("j.l", "j.o", "j.m", "j.o->x", "j.l[0]", "j.l[-1]", "j.l[9223372036854775807]", "j.m->z", "j.o->*")
		}
		if t == "k" {
			return g.pick("k.tags", "k.m", "k.o", "k.z", "k.lo", "k.tags[0]", "k.m[1]", "k.m[1][0]", "k.o->x", "k.lo[0]", "k.id", "len(k.tags)", "k.o->*")
		}
		return "NULL"
	}
	return "(" + g.any(d-1, t) + ", " + g.any(d-1, t) + ")" // tuple
}

func (g gen) table() (string, string) {
	switch g.r.Intn(8) {
	case 0, 1, 2:
		return "e.csv e", "e"
	case 3, 4:
		return "j.json j", "j"
	case 5:
		if g.r.Bool() {
			return g.pick("k.json k", "k2.json k"), "k"
		}
		return g.pick("small.csv e", "empty.csv e"), "e"
	case 6:
		return "range(start=>" + g.intE(1, "") + ", end=>" + g.pick("3", "0", "-1", g.intE(1, "")) + ") r", "r"
	}
	return "l.lines l", "l"
}

func (g gen) tvf() string {
	dur := func() string {
		return g.pick("INTERVAL 0 SECONDS", "INTERVAL 1 SECOND", "INTERVAL 5 MINUTES", "INTERVAL -1 SECOND", g.durE(1, ""))
	}
	switch g.r.Intn(6) {
	case 0:
		return "SELECT * FROM max_diff_watermark(source=>TABLE(e.csv), max_diff=>" + dur() + ", time_field=>DESCRIPTOR(t)" + g.pick("", ", resolution=>"+dur()) + ") x"
	case 1:
		return "SELECT * FROM tumble(source=>TABLE(e.csv), window_length=>" + dur() + g.pick("", ", time_field=>DESCRIPTOR(t)") + g.pick("", ", offset=>"+dur()) + ") x"
	case 2:
		return "WITH w AS (SELECT * FROM max_diff_watermark(source=>TABLE(e.csv), max_diff=>" + dur() + ", time_field=>DESCRIPTOR(t)) m) SELECT x.window_end, COUNT(*) FROM tumble(source=>TABLE(w), window_length=>" + dur() + ", time_field=>DESCRIPTOR(t)) x GROUP BY x.window_end" + g.pick("", " TRIGGER COUNTING 2", " TRIGGER ON WATERMARK", " TRIGGER ON END OF STREAM")
	case 3:
		return "SELECT * FROM max_diff_watermark(source=>" + g.pick("TABLE(j.json)", "1", "DESCRIPTOR(t)", "TABLE(nosuch.csv)") + ", max_diff=>" + g.pick(dur(), "DESCRIPTOR(t)", "1", "TABLE(e.csv)") + ", time_field=>" + g.pick("DESCRIPTOR(t)", "DESCRIPTOR(nosuch)", "1", "DESCRIPTOR(s)") + ") x"
	case 4:
		return "SELECT * FROM poll(" + g.pick("source=>1", "poll_interval=>INTERVAL 1 SECOND", "source=>TABLE(small.csv), poll_interval=>DESCRIPTOR(i)", "source=>DESCRIPTOR(a)") + ") x LIMIT 1"
	}
	return "SELECT * FROM range(" + g.pick("start=>1", "end=>2", "start=>'a', end=>3", "start=>DESCRIPTOR(a), end=>1", "start=>1, end=>2, step=>0", "start=>1.5, end=>2") + ") r"
}

// retracting: a subquery (alias q, columns k and c) whose output stream carries retractions, with or without event times
func (g gen) retracting() string {
	src := g.pick("ev.csv m", "max_diff_watermark(source=>TABLE(ev.csv), max_diff=>INTERVAL "+g.pick("0", "3", "10", "100")+" SECONDS, time_field=>DESCRIPTOR(t)) m")
	trig := g.pick(" TRIGGER COUNTING 1", " TRIGGER COUNTING 2", " TRIGGER COUNTING 3", " TRIGGER ON WATERMARK, COUNTING 1", "")
	var inner string
	switch g.r.Intn(4) {
	case 0:
		inner = "SELECT m.v AS k, COUNT(*) AS c FROM " + src + " GROUP BY m.v"
	case 1:
		inner = "SELECT m.t AS t, m.k AS k, COUNT(*) AS c FROM " + src + " GROUP BY m.t, m.k"
	default:
		inner = "SELECT m.k AS k, " + g.pick("COUNT(*)", "SUM(m.v)", "MAX(m.v)") + " AS c FROM " + src + " GROUP BY m.k"
	}
	inner += trig
	switch g.r.Intn(4) {
	case 0:
		return "(SELECT DISTINCT g.k AS k, g.c AS c FROM (" + inner + ") g)"
	case 1:
		return "(SELECT g.k AS k, j.k AS c FROM (" + inner + ") g " + g.pick("LEFT JOIN", "OUTER JOIN", "RIGHT JOIN") + " kk.csv j ON g.c = j.k)"
	}
	return "(" + inner + ")"
}

// retractingJoin: joins whose inputs retract (trigger group-bys, DISTINCT over them, outer joins), keyed on values that
// change with every trigger firing
func (g gen) retractingJoin() string {
	a := g.retracting() + " a"
	b := g.pick("kk.csv b", g.retracting()+" b", g.retracting()+" b")
	on := g.pick("a.k = b.k", "a.c = b.k", "a.k = b.k AND a.c = b.c", "a.c = b.c")
	if strings.HasPrefix(b, "kk.csv") {
		on = g.pick("a.k = b.k", "a.c = b.k")
	}
	return "SELECT " + g.pick("*", "a.k, a.c", "a.k, b.k") + " FROM " + a + " " + g.pick("JOIN", "JOIN", "LEFT JOIN", "OUTER JOIN", "RIGHT JOIN") + " " + b + " ON " + on + g.pick("", "", " LIMIT 5")
}

func (g gen) query() string {
	if g.r.Chance(1, 8) {
		return g.tvf()
	}
	if g.r.Chance(1, 8) {
		return g.retractingJoin()
	}
	if g.r.Chance(1, 25) {
		tup := func() string {
			return g.pick("(1, 2)", "(1, 2, 3)", "(1, 'a')", "(NULL, 2)", "((1, 2), 3)", "(e.i, e.s)", "(e.i, e.s, e.f)")
		}
		return "SELECT COALESCE(" + tup() + ", " + tup() + g.pick("", ", "+tup()) + ") FROM " + g.pick("e.csv e", "small.csv e") + g.pick("", " LIMIT 2")
	}
	from, t := g.table()
	col := func() string {
		switch t {
		case "e":
			return g.pick("e.i", "e.s", "e.f", "e.b", "e.t")
		case "j":
			return g.pick("j.n", "j.s", "j.l", "j.o", "j.m", "j.t")
		case "r":
			return "r.i"
		case "k":
			return g.pick("k.id", "k.tags", "k.m", "k.o", "k.z", "k.lo")
		}
		return g.pick("l.text", "l.number")
	}
	if t == "r" || t == "l" {
		// expressions over literals only, plus the table's columns
		items := col() + ", " + g.any(2, "")
		q := "SELECT " + items + " FROM " + from
		if g.r.Chance(1, 3) {
			q += " WHERE " + g.boolE(2, "")
		}
		return q + g.tail(col)
	}
	switch g.r.Intn(10) {
	case 0, 1, 2: // plain select
		n := 1 + g.r.Intn(3)
		items := make([]string, n)
		for i := range items {
			items[i] = g.any(2, t)
			if g.r.Chance(1, 3) {
				items[i] += fmt.Sprintf(" AS c%d", i)
			}
		}
		q := "SELECT " + g.pick("", "", "DISTINCT ") + strings.Join(items, ", ") + " FROM " + from
		if g.r.Chance(1, 2) {
			q += " WHERE " + g.boolE(2, t)
		}
		return q + g.tail(col)
	case 3, 4: // group by
		agg := func() string {
			a := g.pick("count", "sum", "avg", "min", "max", "array_agg", "count", "sum")
			arg := g.pick(col(), g.intE(1, t), g.floatE(1, t), g.durE(1, t), "*", "", "DISTINCT "+col())
			return a + "(" + arg + ")"
		}
		key := g.pick(col(), g.intE(1, t), g.strE(1, t), g.boolE(1, t))
		q := "SELECT " + g.pick(key+", ", "") + agg() + g.pick("", ", "+agg()) + " FROM " + from
		if g.r.Chance(1, 3) {
			q += " WHERE " + g.boolE(1, t)
		}
		if g.r.Chance(4, 5) {
			q += " GROUP BY " + key
		}
		return q + g.tail(func() string { return key })
	case 5, 6: // joins with unusual ON conditions
		from2, t2 := g.table()
		a2 := t2 + "2"
		from2 = strings.TrimSuffix(from2, " "+t2) + " " + a2
		kcol := map[string]string{"e": "i", "j": "n", "r": "i", "l": "number"}
		on := g.pick(
			t+"."+kcol[t]+" = "+a2+"."+kcol[t2],
			t+"."+kcol[t]+" IN (1, 2)",
			"("+t+"."+kcol[t]+", 1) = ("+a2+"."+kcol[t2]+", 1)",
			t+"."+kcol[t]+" = "+a2+"."+kcol[t2]+" AND "+g.boolE(1, t),
			t+"."+kcol[t]+" + 1 = "+a2+"."+kcol[t2]+" * 1",
			"true", "NULL", g.boolE(2, t),
			t+"."+kcol[t]+" = (SELECT r.i FROM range(start=>0, end=>1) r)",
			"COALESCE("+t+"."+kcol[t]+", 0) = "+a2+"."+kcol[t2],
		)
		return "SELECT " + g.pick("*", t+"."+kcol[t], a2+"."+kcol[t2]+", "+g.any(1, t)) + " FROM " + from + " " + g.pick("JOIN", "LEFT JOIN", "RIGHT JOIN", "OUTER JOIN", "LOOKUP JOIN") + " " + from2 + " ON " + on + g.pick("", " LIMIT 3")
	case 7: // subqueries
		return g.pick(
			"SELECT q.x FROM (SELECT "+g.any(2, t)+" AS x FROM "+from+g.pick("", " LIMIT "+g.any(1, t), " LIMIT "+col())+") q"+g.pick("", " ORDER BY q.x", " LIMIT 2", " WHERE q.x IS NOT NULL", " LIMIT q.x", " LIMIT nosuch", " LIMIT 1.5"),
			"SELECT "+col()+", (SELECT "+g.any(1, "")+" FROM range(start=>0, end=>"+g.pick("0", "2", "-1")+") r) AS sub FROM "+from+" LIMIT 3",
			"WITH w AS (SELECT "+g.any(1, t)+" AS x FROM "+from+") SELECT * FROM w w"+g.pick("", " ORDER BY w.x DESC"),
			"SELECT "+col()+" FROM "+from+" WHERE "+g.intE(1, t)+" IN (SELECT r.i FROM range(start=>0, end=>3) r)",
		)
	case 8: // unnest / object explode / index
		if t == "j" {
			return g.pick("SELECT unnest(j.l) AS u FROM j.json j"+g.pick("", " WHERE j.n > 0.0", " LIMIT 4"),
				"SELECT j.n, unnest(j.l) FROM j.json j", "SELECT unnest(unnest(j.l)) FROM j.json j", "SELECT unnest(j.n) FROM j.json j",
				"SELECT j.n FROM (SELECT j.n AS n, unnest(j.l) AS u FROM j.json j) j", "SELECT j.o->* FROM j.json j", "SELECT j.o->x, j.o->nosuch FROM j.json j",
				"SELECT j.l["+g.intE(1, "")+"] FROM j.json j", "SELECT j.m->z FROM j.json j", "SELECT COUNT(*) FROM (SELECT unnest(j.l) AS u FROM j.json j) q")
		}
		if t == "k" {
			return g.pick("SELECT k.id, unnest(k.tags) AS u FROM "+from, "SELECT unnest(unnest(k.m)) FROM "+from, "SELECT k.id, k.tags, k.m, k.o, k.z, k.lo FROM "+from,
				"SELECT COUNT(*), array_agg(k.tags) FROM "+from, "SELECT * FROM "+from+" WHERE k.id >= 100.0", "SELECT DISTINCT k.tags, k.o FROM "+from) + g.tail(func() string { return "k.id" })
		}
		return "SELECT unnest(" + g.any(1, t) + ") FROM " + from
	}
	return "SELECT " + g.any(3, t) + ", " + g.any(3, t) + " FROM " + from + " WHERE " + g.boolE(3, t) + g.tail(col)
}

// tail: ORDER BY and LIMIT of the outermost query.  Both take expressions from the same grammar as everything else:
// columns, unknown names and functions, ill-typed operators, non-integer, negative, NULL, nested expressions.
func (g gen) tail(col func() string) string {
	s := ""
	if g.r.Chance(1, 2) {
		n := 1 + g.r.Intn(2)
		keys := make([]string, n)
		for i := range keys {
			switch g.r.Intn(6) {
			case 0, 1:
				keys[i] = col()
			case 2:
				keys[i] = g.any(2, "")
			case 3:
				keys[i] = g.pick("nosuchcolumn", "nosuchfn("+col()+")", col()+" + 'a'", "1", "NULL", "("+col()+", 1)")
			default:
				keys[i] = g.pick("abs", "len", "upper", "int", "string") + "(" + col() + ")"
			}
			keys[i] += g.pick("", " DESC", " ASC")
		}
		s += " ORDER BY " + strings.Join(keys, ", ")
	}
	if g.r.Chance(1, 2) {
		var lim string
		switch g.r.Intn(8) {
		case 0, 1:
			lim = g.pick("0", "1", "3", "-1", "9223372036854775807", "-9223372036854775807")
		case 2:
			lim = col() // a real column
		case 3:
			lim = g.pick("nosuchcolumn", "nosuchfn(2)", "1 + 'a'", "'a'", "NULL", "1.5", "-0.0", "true", "INTERVAL 1 SECOND", "(1, 2)")
		case 4:
			lim = g.intE(2, "")
		case 5:
			lim = g.any(2, "")
		case 6:
			lim = g.pick("abs", "len", "int") + "(" + col() + ")"
		default:
			lim = g.pick("(SELECT r.i FROM range(start=>1, end=>2) r)", "1 + 1", "2 * "+col(), "COALESCE(NULL, 2)", "int('3')", "int('x')", "1 / 0")
		}
		s += " LIMIT " + lim
	}
	return s
}

// ---- token mutation of the scenario corpus ----

var tokenRe = regexp.MustCompile(`'[^']*'|[A-Za-z_][A-Za-z_0-9.]*|\d+(?:\.\d+)?|=>|->|<=|>=|!=|!~\*|!~|~\*|[(),*+\-/<>=~\[\]]|\S`)

func corpus() []string {
	var out []string
	files, _ := filepath.Glob(filepath.Join(repoDir(), "tests/scenarios/*/*.in"))
	more, _ := filepath.Glob(filepath.Join(repoDir(), "tests/scenarios/*/*/*.in"))
	files = append(files, more...)
	sort.Strings(files)
	re := regexp.MustCompile(`(?s)octosql\s+"(.*?)"`)
	for _, f := range files {
		data, err := os.ReadFile(f)
		if err != nil {
			continue
		}
		if m := re.FindStringSubmatch(string(data)); m != nil && !strings.Contains(m[1], "stdin") {
			out = append(out, strings.Join(strings.Fields(m[1]), " "))
		}
	}
	return out
}

func (g gen) mutate(q string) string {
	toks := tokenRe.FindAllString(q, -1)
	if len(toks) == 0 {
		return q
	}
	n := 1
	if g.r.Chance(1, 3) {
		n = 2
	}
	numRe := regexp.MustCompile(`^\d`)
	for k := 0; k < n; k++ {
		i := g.r.Intn(len(toks))
		if g.r.Chance(3, 4) { // prefer a literal or an operator
			var cand []int
			for j, t := range toks {
				if numRe.MatchString(t) || strings.HasPrefix(t, "'") || t == "+" || t == "-" || t == "*" || t == "/" {
					cand = append(cand, j)
				}
			}
			if len(cand) > 0 {
				i = cand[g.r.Intn(len(cand))]
			}
		}
		isNum := numRe.MatchString(toks[i])
		switch {
		case isNum:
			toks[i] = g.pick("0", "-1", "9223372036854775807", "0.0", "-9223372036854775807", "1e400", "''", "NULL")
		case strings.HasPrefix(toks[i], "'"):
			toks[i] = g.pick("''", "'日本'", "'%'", "'('", "0", "NULL", "'\\\\'")
		case toks[i] == "+" || toks[i] == "-" || toks[i] == "*" || toks[i] == "/":
			toks[i] = g.pick("+", "-", "*", "/")
		default:
			switch g.r.Intn(6) {
			case 0:
				toks = append(toks[:i], toks[i+1:]...) // drop
			case 1:
				toks = append(toks[:i+1], append([]string{toks[i]}, toks[i+1:]...)...) // duplicate
			case 2:
				j := g.r.Intn(len(toks))
				toks[i], toks[j] = toks[j], toks[i]
			case 3:
				toks[i] = g.pick("abs", "sqrt", "substr", "len", "int", "float", "string", "panic", "count", "sum", "unnest", "COALESCE", "position", "reverse", "time_from_unix")
			case 4:
				toks[i] = g.pick("fixtures/objects.json", "e.csv", "j.json", "k.json", "k2.json", "small.csv", "empty.json", "l.lines", "fixtures/test.json")
			default:
				toks[i] = g.pick("NULL", "0", "-1", "''", "(", ")", ",", "DISTINCT", "LIMIT 0", "ORDER BY 1", "GROUP BY 1")
			}
		}
		if len(toks) == 0 {
			break
		}
	}
	return strings.Join(toks, " ")
}

// ---- the search ----

type cliCase struct {
	kind  string
	query string
	args  []string
}

func cliSearch(cf *lib.CaseFile, rng *lib.Rng, f lib.Flags) {
	n := f.Cases(360, 4000)
	work, err := os.MkdirTemp("", "c07cli")
	if err != nil {
		fmt.Fprintln(os.Stderr, err)
		os.Exit(2)
	}
	defer os.RemoveAll(work)
	bin, err := buildCLI(work)
	if err != nil {
		fmt.Fprintln(os.Stderr, err)
		os.Exit(2)
	}
	home := filepath.Join(work, "home")
	os.MkdirAll(home, 0o755)
	data := filepath.Join(work, "data")
	os.MkdirAll(data, 0o755)
	if err := writeInputs(data, rng.Fork()); err != nil {
		fmt.Fprintln(os.Stderr, err)
		os.Exit(2)
	}
	corp := corpus()
	cf.Side.Distribution["corpus_queries"] = len(corp)
	formatsList := []string{"json", "csv", "batch_table", "stream_native", "live_table"}

	cases := make([]cliCase, n)
	for i := range cases {
		g := gen{r: rng.Fork()}
		c := cliCase{}
		switch {
		case len(corp) > 0 && i%3 == 0:
			c.kind = "mutation"
			c.query = g.mutate(corp[g.r.Intn(len(corp))])
		default:
			c.kind = "grammar"
			c.query = g.query()
		}
		c.args = []string{c.query, "-o", formatsList[g.r.Intn(len(formatsList))]}
		if g.r.Chance(1, 3) {
			c.args = append(c.args, "--optimize=false")
		}
		if g.r.Chance(1, 12) {
			c.args = append(c.args, "--describe")
		}
		cases[i] = c
	}
	// deterministic part of every run: every generated input file read in full, in every eager format, plus a count and
	// the LIMIT / ORDER BY expression families over it
	for _, file := range []string{"e.csv", "j.json", "k.json", "k2.json", "ev.csv", "kk.csv", "small.csv", "empty.csv", "empty.json", "l.lines"} {
		for _, q := range []string{"SELECT * FROM " + file + " x", "SELECT COUNT(*) FROM " + file + " x"} {
			for _, format := range []string{"json", "csv", "batch_table"} {
				if strings.HasPrefix(q, "SELECT COUNT") && format != "json" {
					continue
				}
				cases = append(cases, cliCase{kind: "deterministic", query: q, args: []string{q, "-o", format}})
			}
		}
	}
	for _, lim := range []string{"x.i", "nosuchcolumn", "1 + 'a'", "1.5", "-1", "NULL", "nosuchfn(2)", "9223372036854775807", "(SELECT r.i FROM range(start=>1, end=>2) r)"} {
		for _, format := range []string{"json", "batch_table"} {
			q := "SELECT * FROM small.csv x LIMIT " + lim
			cases = append(cases, cliCase{kind: "deterministic", query: q, args: []string{q, "-o", format}})
			q = "SELECT * FROM small.csv x ORDER BY " + lim + " LIMIT 2"
			cases = append(cases, cliCase{kind: "deterministic", query: q, args: []string{q, "-o", format}})
		}
	}
	// every command-line option that changes what is run (--describe, --optimize=false) x query shapes with an outermost
	// ORDER BY, LIMIT, both, GROUP BY, join, subquery x every output format
	for _, q := range []string{"SELECT * FROM small.csv x ORDER BY x.i", "SELECT * FROM small.csv x ORDER BY x.i DESC, x.s LIMIT 2", "SELECT x.i FROM small.csv x LIMIT 1",
		"SELECT x.s, COUNT(*) AS c FROM small.csv x GROUP BY x.s ORDER BY c", "SELECT a.i, c.s FROM small.csv a JOIN small.csv c ON a.i = c.i ORDER BY a.i",
		"SELECT * FROM range(start=>0, end=>3) r ORDER BY r.i DESC", "SELECT q.i FROM (SELECT x.i AS i FROM small.csv x ORDER BY i LIMIT 2) q ORDER BY q.i", "SELECT * FROM j.json j ORDER BY j.n, j.s LIMIT 3",
		"SELECT * FROM small.csv x", "SELECT DISTINCT x.b FROM small.csv x ORDER BY x.b"} {
		for _, format := range []string{"json", "csv", "batch_table", "stream_native"} {
			for _, opts := range [][]string{{"--describe"}, {"--optimize=false"}, {"--describe", "--optimize=false"}} {
				cases = append(cases, cliCase{kind: "deterministic", query: q, args: append([]string{q, "-o", format}, opts...)})
			}
		}
	}
	// table valued function arguments from the expression grammar: every interval argument of every TVF with computed
	// intervals that are zero, negative, or ordinary (a check that only looks at literals misses the computed ones)
	intervals := []string{"INTERVAL 1 SECOND - INTERVAL 1 SECOND", "INTERVAL 5 SECONDS * 0", "0 * INTERVAL 1 HOUR", "INTERVAL 1 SECOND - INTERVAL 2 SECONDS",
		"INTERVAL 1 SECOND * -1", "INTERVAL 0 SECONDS", "INTERVAL 3 SECONDS / 2", "INTERVAL 1 SECOND / 2000000000", "INTERVAL 2 SECONDS", "INTERVAL 1 SECOND + INTERVAL 1 MINUTE",
		// every unit and sub-unit magnitudes: below one second, one nanosecond-ish, mixed, large
		"INTERVAL 500 MILLISECONDS", "INTERVAL 1 MILLISECOND", "INTERVAL 1500 MILLISECONDS", "INTERVAL 999 MILLISECONDS", "INTERVAL 1 MINUTE", "INTERVAL 1 HOUR", "INTERVAL 100000 DAYS"}
	for _, iv := range intervals {
		for _, q := range []string{
			"SELECT * FROM max_diff_watermark(source=>TABLE(ev.csv), max_diff=>INTERVAL 5 SECONDS, time_field=>DESCRIPTOR(t), resolution=>" + iv + ") x",
			"SELECT * FROM max_diff_watermark(source=>TABLE(ev.csv), max_diff=>" + iv + ", time_field=>DESCRIPTOR(t)) x",
			"SELECT * FROM tumble(source=>TABLE(ev.csv), window_length=>" + iv + ", time_field=>DESCRIPTOR(t)) x",
			"SELECT * FROM tumble(source=>TABLE(ev.csv), window_length=>INTERVAL 10 SECONDS, time_field=>DESCRIPTOR(t), offset=>" + iv + ") x",
		} {
			cases = append(cases, cliCase{kind: "deterministic", query: q, args: []string{q, "-o", "json"}})
		}
	}
	// WHERE / ON conjuncts of every expression shape above every join kind, optimizer on and off
	conjuncts := []string{"a.b", "NOT a.b", "a.b OR c.i > 1", "a.b AND c.b", "a.i IN (1, 2)", "a.i NOT IN (0)", "a.i IS NULL", "a.s IS NOT NULL", "COALESCE(a.b, true)",
		"(a.i, 1) = (c.i, 1)", "a.i > c.i", "a.i + 1 = c.i", "int(a.f) = c.i", "a.i = (SELECT r.i FROM range(start=>0, end=>1) r)", "a.i IN (SELECT r.i FROM range(start=>0, end=>3) r)",
		"true", "NULL", "a.b = c.b", "a.s LIKE 'a%'", "a.t < now()", "a.b OR (c.b AND a.i = c.i)",
		// equalities whose operands use one side, the other side, both sides or neither, in both operand positions
		"a.i = a.i + c.i", "a.i = c.i + a.i", "a.i + c.i = a.i", "c.i = a.i * c.i", "c.i + a.i = c.i", "a.i + c.i = c.i + a.i", "a.i = a.i", "c.i = c.i + 1", "1 = a.i + c.i", "a.i + c.i = 0", "1 = 1",
		"a.s = a.s + c.s", "a.f = c.f / a.f"}
	for _, cj := range conjuncts {
		for _, jk := range []string{"JOIN", "LEFT JOIN", "RIGHT JOIN", "OUTER JOIN", "LOOKUP JOIN"} {
			qs := []string{
				"SELECT a.i, c.i FROM small.csv a " + jk + " small.csv c ON a.i = c.i WHERE " + cj,
				"SELECT a.i, c.i FROM small.csv a " + jk + " small.csv c ON a.i = c.i AND " + cj,
			}
			if jk == "JOIN" {
				qs = append(qs, "SELECT a.i, c.i FROM small.csv a JOIN small.csv c ON "+cj,
					"SELECT q.x FROM (SELECT a.i AS x, a.b AS b FROM small.csv a JOIN small.csv c ON a.i = c.i) q WHERE q.b")
			}
			for _, q := range qs {
				cases = append(cases, cliCase{kind: "deterministic", query: q, args: []string{q, "-o", "json"}})
				if jk == "JOIN" {
					cases = append(cases, cliCase{kind: "deterministic", query: q, args: []string{q, "-o", "json", "--optimize=false"}})
				}
			}
		}
	}
	n = len(cases)
	results := make([]cliResult, n)
	var wg sync.WaitGroup
	sem := make(chan struct{}, 8)
	for i := range cases {
		wg.Add(1)
		go func(i int) {
			defer wg.Done()
			sem <- struct{}{}
			defer func() { <-sem }()
			results[i] = runOcto(bin, home, data, cases[i].args)
		}(i)
	}
	wg.Wait()

	shrunk := map[string]bool{}
	for i, c := range cases {
		res := results[i]
		crashed := res.crashed()
		executed := res.exit == 0 || strings.Contains(res.stderr, "couldn't run query")
		js := map[string]interface{}{"cli": c.kind, "query": c.query, "args": c.args[1:], "exit": res.exit, "crashed": crashed, "stderr": firstLine(res.stderr),
			"files": "generated by harness/cmd/c07 writeInputs (e.csv, j.json, small.csv, empty.csv, empty.json, l.lines, fixtures/)"}
		switch {
		case res.timedOut:
			cf.Count("cli_timeout")
		case crashed:
			cf.Count("cli_crashed")
		case res.exit == 0:
			cf.Count("cli_ok")
		case strings.Contains(res.stderr, "couldn't parse query"):
			cf.Count("cli_parse_error")
		case strings.Contains(res.stderr, "typecheck error"):
			cf.Count("cli_typecheck_error")
		case executed:
			cf.Count("cli_runtime_error")
		default:
			cf.Count("cli_other_error")
		}
		cf.Count("cli_kind_" + c.kind)
		if crashed {
			cr := parseCrash(res.stderr)
			class := classify(cr)
			// the replay carries the input files the query names (they do not depend on the seed)
			files := map[string]string{}
			for _, name := range []string{"e.csv", "j.json", "k.json", "k2.json", "ev.csv", "kk.csv", "small.csv", "empty.csv", "empty.json", "l.lines"} {
				if strings.Contains(c.query, name) {
					if content, err := os.ReadFile(filepath.Join(data, name)); err == nil {
						if len(content) > 6000 {
							content = append(content[:6000], []byte("\n...[truncated; regenerate with harness/cmd/c07 writeInputs]")...)
						}
						files[name] = string(content)
					}
				}
			}
			js["files"] = files
			js["panic"] = cr.msg
			js["trace_files"] = cr.files
			what := fmt.Sprintf("octosql died with a Go panic (exit %d): %s | query: %s | args: %v", res.exit, cr.msg, c.query, c.args[1:])
			if class == "" && !shrunk[cr.key()] {
				// shrink the first instance of every unknown crash
				shrunk[cr.key()] = true
				small := shrink(bin, home, data, c, cr.key())
				js["shrunk_query"] = small
				what += " | shrunk: " + small
			}
			idx := cf.Add(fmt.Sprintf("CCliRun %d true", i), js, true)
			if class != "" {
				cf.SetClass(idx, class)
				cf.Count("cli_crash_class_" + class)
			} else {
				cf.Count("cli_crash_unknown:" + cr.key())
			}
			cf.Violation(idx, what, class)
			continue
		}
		cf.Add(fmt.Sprintf("CCliRun %d false", i), js, executed)
	}
}

// shrink drops tokens greedily while the same crash (message shape and innermost repository frame) persists.
func shrink(bin, home, data string, c cliCase, key string) string {
	toks := tokenRe.FindAllString(c.query, -1)
	budget := 60
	for changed := true; changed && budget > 0; {
		changed = false
		for i := 0; i < len(toks) && budget > 0; i++ {
			cand := append(append([]string{}, toks[:i]...), toks[i+1:]...)
			args := append([]string{strings.Join(cand, " ")}, c.args[1:]...)
			budget--
			res := runOcto(bin, home, data, args)
			if res.crashed() && parseCrash(res.stderr).key() == key {
				toks = cand
				changed = true
				i--
			}
		}
	}
	return strings.Join(toks, " ")
}

func firstLine(s string) string {
	for _, l := range strings.Split(s, "\n") {
		if strings.HasPrefix(l, "Error:") || strings.HasPrefix(l, "panic:") || strings.HasPrefix(l, "fatal error:") {
			if len(l) > 300 {
				l = l[:300] + "..."
			}
			return l
		}
	}
	if i := strings.IndexByte(s, '\n'); i >= 0 {
		s = s[:i]
	}
	if len(s) > 200 {
		s = s[:200]
	}
	return s
}
