// c07: no query or input crashes the process.
// (a) in-process probes of the modelled panic sites (Model/NoPanic.v) with edge arguments;
// (b) CLI search: grammar-generated queries and token mutations of the scenario corpus over generated
//
//	JSON/CSV/lines inputs with edge values, every output format, --optimize on/off; a run whose stderr
//	has "panic:" / "goroutine " or whose exit status is 2 is a failing input; it is shrunk greedily.
package main

import (
	"fmt"
	"math"
	"os"
	"sort"
	"strings"
	"time"

	"github.com/cube2222/octosql/execution"
	"github.com/cube2222/octosql/execution/nodes"
	"github.com/cube2222/octosql/functions"
	"github.com/cube2222/octosql/octosql"
	"github.com/cube2222/octosql/outputs/formats"
	"github.com/cube2222/octosql/parser"
	"github.com/cube2222/octosql/parser/sqlparser"
	"github.com/cube2222/octosql/physical"

	"verifharness/lib"
)

func recovered(f func()) (p interface{}) {
	defer func() { p = recover() }()
	f()
	return nil
}

// findFn picks the descriptor of a function by its argument types.
func findFn(name string, args ...octosql.Type) func([]octosql.Value) (octosql.Value, error) {
	for _, d := range functions.FunctionMap()[name].Descriptors {
		if d.TypeFn != nil && len(args) == 0 {
			return d.Function
		}
		if len(d.ArgumentTypes) != len(args) {
			continue
		}
		ok := true
		for i := range args {
			if d.ArgumentTypes[i].TypeID != args[i].TypeID {
				ok = false
			}
		}
		if ok {
			return d.Function
		}
	}
	panic("c07: no descriptor for " + name)
}

var edgeInts = []int64{0, 1, -1, 2, 3, 5, -2, 7, math.MaxInt64, math.MinInt64, math.MaxInt64 - 1, math.MinInt64 + 1, 1 << 62, -(1 << 62), 100}

func edgeInt(r *lib.Rng) int64 { return edgeInts[r.Intn(len(edgeInts))] }

var probeStrings = []string{"", "a", "ab", "test", "日本語", "\xff\xfe", "hello world"}

func siteProbes(cf *lib.CaseFile, rng *lib.Rng, n int) {
	intDiv := findFn("/", octosql.Int, octosql.Int)
	durDiv := findFn("/", octosql.Duration, octosql.Int)
	strMul := findFn("*", octosql.String, octosql.Int)
	mulStr := findFn("*", octosql.Int, octosql.String)
	substr2 := findFn("substr", octosql.String, octosql.Int)
	substr3 := findFn("substr", octosql.String, octosql.Int, octosql.Int)
	index := findFn("[]")
	// a panic is tagged with the site's known-finding class only when the arguments lie in that class's decidable
	// input set (inClass); any other panic of the same function is a new failing input
	add := func(coq string, js map[string]interface{}, p interface{}, class string, inClass bool) {
		if !inClass {
			class = ""
		}
		js["panicked"] = p != nil
		if p != nil {
			js["panic"] = fmt.Sprint(p)
		}
		idx := cf.Add(fmt.Sprintf("%s %s", coq, lib.CoqBool(p != nil)), js, p != nil)
		cf.Count("site_" + js["site"].(string))
		if p != nil {
			cf.Count("site_panicked_" + js["site"].(string))
			if class != "" {
				cf.SetClass(idx, class)
			}
			cf.Violation(idx, fmt.Sprintf("%s panicked: %v on %v", js["site"], p, js["args"]), class)
		}
	}
	// deterministic part: every expression shape at the root, and as the only child of every wrapping shape
	{
		r := rng.Fork()
		wrap := func(parent int, e physical.Expression, c string) (physical.Expression, string) {
			one := []physical.Expression{e}
			switch parent {
			case 2:
				return physical.Expression{ExpressionType: physical.ExpressionTypeFunctionCall, FunctionCall: &physical.FunctionCall{Name: "f", Arguments: one}}, "(XCall [" + c + "])"
			case 3:
				return physical.Expression{ExpressionType: physical.ExpressionTypeAnd, And: &physical.And{Arguments: one}}, "(XAnd [" + c + "])"
			case 4:
				return physical.Expression{ExpressionType: physical.ExpressionTypeOr, Or: &physical.Or{Arguments: one}}, "(XOr [" + c + "])"
			case 6:
				return physical.Expression{ExpressionType: physical.ExpressionTypeCoalesce, Coalesce: &physical.Coalesce{Arguments: one}}, "(XCoalesce [" + c + "])"
			case 7:
				return physical.Expression{ExpressionType: physical.ExpressionTypeTuple, Tuple: &physical.Tuple{Arguments: one}}, "(XTuple [" + c + "])"
			case 8:
				return physical.Expression{ExpressionType: physical.ExpressionTypeTypeAssertion, TypeAssertion: &physical.TypeAssertion{Expression: e}}, "(XAssert " + c + ")"
			case 9:
				return physical.Expression{ExpressionType: physical.ExpressionTypeTypeCast, TypeCast: &physical.TypeCast{Expression: e}}, "(XCast " + c + ")"
			case 10:
				return physical.Expression{ExpressionType: physical.ExpressionTypeObjectFieldAccess, ObjectFieldAccess: &physical.ObjectFieldAccess{Object: e, Field: "x"}}, "(XField " + c + ")"
			}
			return e, c
		}
		for k := 0; k <= 10; k++ {
			for _, parent := range []int{-1, 2, 3, 4, 6, 7, 8, 9, 10} {
				e, coq := genPExprKind(r, 1, k)
				e, coq = wrap(parent, e, coq)
				p := recovered(func() { e.VariablesUsed() })
				add("CSiteVarsUsed "+coq, map[string]interface{}{"site": "variables_used", "args": coq, "deterministic_shape": true}, p, "c04-variables-used", reachesUnhandled(e))
			}
		}
	}
	for i := 0; i < n; i++ {
		r := rng.Fork()
		switch i % 9 {
		case 0:
			a, b := edgeInt(r), edgeInt(r)
			p := recovered(func() { intDiv([]octosql.Value{octosql.NewInt(a), octosql.NewInt(b)}) })
			add(fmt.Sprintf("CSiteIntDiv %s %s", lib.Z(a), lib.Z(b)), map[string]interface{}{"site": "int_div", "args": []int64{a, b}}, p, "c13-div-zero", b == 0)
		case 1:
			a, b := edgeInt(r), edgeInt(r)
			p := recovered(func() { durDiv([]octosql.Value{octosql.NewDuration(time.Duration(a)), octosql.NewInt(b)}) })
			add(fmt.Sprintf("CSiteDurDiv %s %s", lib.Z(a), lib.Z(b)), map[string]interface{}{"site": "dur_div", "args": []int64{a, b}}, p, "c13-div-zero", b == 0)
		case 2:
			s := probeStrings[r.Intn(len(probeStrings))]
			// counts: small, negative, or so large that len*count overflows (never a size the runtime would try to allocate)
			c := []int64{0, 1, 3, -1, -5, math.MinInt64, math.MaxInt64, 1 << 62}[r.Intn(8)]
			if len(s) < 2 && c > 100 {
				c = 7
			}
			f, order := strMul, []octosql.Value{octosql.NewString(s), octosql.NewInt(c)}
			if r.Bool() {
				f, order = mulStr, []octosql.Value{octosql.NewInt(c), octosql.NewString(s)}
			}
			p := recovered(func() { f(order) })
			add(fmt.Sprintf("CSiteRepeat %d %s", len(s), lib.Z(c)), map[string]interface{}{"site": "repeat", "args": []interface{}{s, c}}, p, "c13-repeat", c < 0 || (len(s) >= 2 && c >= 1<<62))
		case 3:
			s := probeStrings[r.Intn(len(probeStrings))]
			st := edgeInt(r)
			p := recovered(func() { substr2([]octosql.Value{octosql.NewString(s), octosql.NewInt(st)}) })
			add(fmt.Sprintf("CSiteSubstr2 %d %s", len(s), lib.Z(st)), map[string]interface{}{"site": "substr2", "args": []interface{}{s, st}}, p, "c12-substr", st < 0)
		case 4:
			s := probeStrings[r.Intn(len(probeStrings))]
			st, ln := edgeInt(r), edgeInt(r)
			if r.Bool() {
				st = int64(r.Intn(len(s) + 2))
			}
			p := recovered(func() { substr3([]octosql.Value{octosql.NewString(s), octosql.NewInt(st), octosql.NewInt(ln)}) })
			add(fmt.Sprintf("CSiteSubstr3 %d %s %s", len(s), lib.Z(st), lib.Z(ln)), map[string]interface{}{"site": "substr3", "args": []interface{}{s, st, ln}}, p, "c12-substr", st < 0 || ln < 0 || st+ln < st)
		case 5:
			m := r.Intn(4)
			l := make([]octosql.Value, m)
			for j := range l {
				l[j] = octosql.NewInt(int64(j))
			}
			ix := edgeInt(r)
			p := recovered(func() { index([]octosql.Value{octosql.NewList(l), octosql.NewInt(ix)}) })
			add(fmt.Sprintf("CSiteListIndex %s %s", lib.CoqValues(l), lib.Z(ix)), map[string]interface{}{"site": "list_index", "args": []interface{}{m, ix}}, p, "c13-list-index", ix < 0)
		case 6:
			q := []string{"SELECT count() FROM t", "SELECT count(*) FROM t", "SELECT count(a) FROM t", "SELECT sum() FROM t GROUP BY b", "SELECT avg(DISTINCT a) FROM t"}[r.Intn(5)]
			args := map[string]string{"SELECT count() FROM t": "[]", "SELECT count(*) FROM t": "[ArgStar]", "SELECT count(a) FROM t": "[ArgExpr]",
				"SELECT sum() FROM t GROUP BY b": "[]", "SELECT avg(DISTINCT a) FROM t": "[ArgExpr]"}[q]
			stmt, err := sqlparser.Parse(q)
			var p interface{}
			if err == nil {
				p = recovered(func() { parser.ParseNode(stmt.(sqlparser.SelectStatement)) })
			}
			add("CSiteAggregate "+args, map[string]interface{}{"site": "parse_aggregate", "args": q}, p, "c01-count-no-arg", args == "[]")
		case 7:
			e, coq := genPExpr(r, 3)
			p := recovered(func() { e.VariablesUsed() })
			add("CSiteVarsUsed "+coq, map[string]interface{}{"site": "variables_used", "args": coq}, p, "c04-variables-used", reachesUnhandled(e))
		case 8:
			v := lib.GenValue(r, lib.AllProfile, 1)
			if v.TypeID == octosql.TypeIDTime && v.Time.IsZero() {
				v = octosql.NewNull()
			}
			var b strings.Builder
			p := recovered(func() { formats.FormatCSVValue(&b, v.Type(), v) })
			add("CSiteCsv "+lib.CoqValue(v), map[string]interface{}{"site": "csv_value", "args": lib.ValueJSON(v)}, p, "c25-csv-nonscalar",
				v.TypeID == octosql.TypeIDList || v.TypeID == octosql.TypeIDStruct || v.TypeID == octosql.TypeIDTuple)
		}
	}
}

// reachesUnhandled: the traversal of the pinned VariablesUsed meets an expression shape it has no case for
func reachesUnhandled(e physical.Expression) bool {
	any := func(es []physical.Expression) bool {
		for _, x := range es {
			if reachesUnhandled(x) {
				return true
			}
		}
		return false
	}
	switch e.ExpressionType {
	case physical.ExpressionTypeVariable, physical.ExpressionTypeConstant:
		return false
	case physical.ExpressionTypeFunctionCall:
		return any(e.FunctionCall.Arguments)
	case physical.ExpressionTypeAnd:
		return any(e.And.Arguments)
	case physical.ExpressionTypeOr:
		return any(e.Or.Arguments)
	case physical.ExpressionTypeTypeAssertion:
		return reachesUnhandled(e.TypeAssertion.Expression)
	case physical.ExpressionTypeTypeCast:
		return reachesUnhandled(e.TypeCast.Expression)
	}
	return true
}

func genPExpr(r *lib.Rng, depth int) (physical.Expression, string) {
	k := r.Intn(11)
	if depth <= 0 {
		k = r.Intn(2)
	}
	return genPExprKind(r, depth, k)
}

// genPExprKind: an expression tree whose root has the given shape (0..10 = the eleven physical.ExpressionType values)
func genPExprKind(r *lib.Rng, depth int, k int) (physical.Expression, string) {
	kids := func() ([]physical.Expression, string) {
		n := r.Intn(3)
		es := make([]physical.Expression, n)
		cs := make([]string, n)
		for i := range es {
			es[i], cs[i] = genPExpr(r, depth-1)
		}
		return es, lib.CoqList(cs)
	}
	switch k {
	case 0:
		n := r.Intn(4)
		return physical.Expression{ExpressionType: physical.ExpressionTypeVariable, Variable: &physical.Variable{Name: fmt.Sprint(n)}}, fmt.Sprintf("(XVar %d)", n)
	case 1:
		return physical.Expression{ExpressionType: physical.ExpressionTypeConstant, Constant: &physical.Constant{Value: octosql.NewInt(1)}}, "XConst"
	case 2:
		es, c := kids()
		return physical.Expression{ExpressionType: physical.ExpressionTypeFunctionCall, FunctionCall: &physical.FunctionCall{Name: "f", Arguments: es}}, "(XCall " + c + ")"
	case 3:
		es, c := kids()
		return physical.Expression{ExpressionType: physical.ExpressionTypeAnd, And: &physical.And{Arguments: es}}, "(XAnd " + c + ")"
	case 4:
		es, c := kids()
		return physical.Expression{ExpressionType: physical.ExpressionTypeOr, Or: &physical.Or{Arguments: es}}, "(XOr " + c + ")"
	case 5:
		return physical.Expression{ExpressionType: physical.ExpressionTypeQueryExpression, QueryExpression: &physical.QueryExpression{Source: physical.Node{NodeType: physical.NodeTypeInMemoryRecords, InMemoryRecords: &physical.InMemoryRecords{}}}}, "XQuery"
	case 6:
		es, c := kids()
		return physical.Expression{ExpressionType: physical.ExpressionTypeCoalesce, Coalesce: &physical.Coalesce{Arguments: es}}, "(XCoalesce " + c + ")"
	case 7:
		es, c := kids()
		return physical.Expression{ExpressionType: physical.ExpressionTypeTuple, Tuple: &physical.Tuple{Arguments: es}}, "(XTuple " + c + ")"
	case 8:
		e, c := genPExpr(r, depth-1)
		return physical.Expression{ExpressionType: physical.ExpressionTypeTypeAssertion, TypeAssertion: &physical.TypeAssertion{Expression: e}}, "(XAssert " + c + ")"
	case 9:
		e, c := genPExpr(r, depth-1)
		return physical.Expression{ExpressionType: physical.ExpressionTypeTypeCast, TypeCast: &physical.TypeCast{Expression: e}}, "(XCast " + c + ")"
	}
	e, c := genPExpr(r, depth-1)
	return physical.Expression{ExpressionType: physical.ExpressionTypeObjectFieldAccess, ObjectFieldAccess: &physical.ObjectFieldAccess{Object: e, Field: "x"}}, "(XField " + c + ")"
}

func main() {
	f := lib.ParseFlags()
	if f.Cmd != "run" {
		fmt.Fprintln(os.Stderr, "c07: only 'run'")
		os.Exit(2)
	}
	rng := lib.NewRng(f.Seed)
	cf := lib.NewCaseFile("C07", f.Seed, f.Tier)
	cf.Imports = []string{"NoPanic"}
	cf.Preamble = []string{
		"Inductive c07_run :=",
		"| CSiteIntDiv (a b : Z) (p : bool) | CSiteDurDiv (a b : Z) (p : bool) | CSiteRepeat (len count : Z) (p : bool)",
		"| CSiteSubstr2 (len start : Z) (p : bool) | CSiteSubstr3 (len start length : Z) (p : bool)",
		"| CSiteListIndex (l : list value) (i : Z) (p : bool) | CSiteAggregate (args : list agg_arg) (p : bool)",
		"| CSiteVarsUsed (e : pexpr) (p : bool) | CSiteCsv (v : value) (p : bool) | CSiteFn (id : Z) (p : bool) | CSiteJoinRetract (ops : list bool) (p : bool) | CCliRun (id : Z) (crashed : bool).",
		"(* the implementation panics only where the pinned model has a panic site (and the repaired model has none: C07_no_panic_fragment_partial) *)",
		"Definition c07_tie_run (c : c07_run) : bool :=",
		"  match c with",
		"  | CSiteIntDiv a b p => implb p (is_panic (int_div_pinned a b)) | CSiteDurDiv a b p => implb p (is_panic (dur_div_pinned a b))",
		"  | CSiteRepeat l c p => implb p (is_panic (repeat_pinned l c))",
		"  | CSiteSubstr2 l s p => implb p (is_panic (substr2_pinned l s)) | CSiteSubstr3 l s n p => implb p (is_panic (substr3_pinned l s n))",
		"  | CSiteListIndex l i p => implb p (is_panic (list_index_pinned l i)) | CSiteAggregate a p => implb p (is_panic (parse_aggregate_pinned a))",
		"  | CSiteVarsUsed e p => implb p (is_panic (vars_used_pinned e)) | CSiteCsv v p => implb p (is_panic (csv_value_pinned v))",
		"  | CSiteFn _ _ => true",
		"  | CSiteJoinRetract ops p => Bool.eqb p (is_panic (join_row_history true [] ops))",
		"  | CCliRun _ _ => true",
		"  end.",
		"Definition c07_spec_run (c : c07_run) : bool :=",
		"  match c with",
		"  | CSiteIntDiv _ _ p | CSiteDurDiv _ _ p | CSiteRepeat _ _ p | CSiteSubstr2 _ _ p | CSiteSubstr3 _ _ _ p",
		"  | CSiteListIndex _ _ p | CSiteAggregate _ p | CSiteVarsUsed _ p | CSiteCsv _ p | CSiteFn _ p | CSiteJoinRetract _ p => c07_spec p",
		"  | CCliRun _ crashed => c07_spec crashed",
		"  end.",
	}
	cf.CaseType = "c07_run"
	cf.Checks = []lib.Check{{Name: "tie", Kind: "tie", Fn: "c07_tie_run"}, {Name: "spec", Kind: "spec", Fn: "c07_spec_run"}}
	cf.Side.Rule = "in-process probes of the modelled panic sites (integer/duration division, string repetition, substr, list index, aggregate parsing, VariablesUsed on random expression trees, CSV cell formatting) with edge arguments; " +
		"CLI search: grammar-generated queries (expressions over Int/Float/String/Boolean/Time/Duration/List columns with edge literals, WHERE, GROUP BY with every aggregate, ORDER BY, LIMIT, joins with unusual ON conditions, subqueries, table valued functions with edge arguments) " +
		"and token mutations of the tests/scenarios corpus over generated CSV/JSON/lines files (0, negatives, MinInt64, empty lists, rows that differ from the 100-row schema preview), every output format, --optimize on/off; " +
		"non-trivial = the run got past parsing and typechecking (it executed), or crashed; distinct by full case text"

	boundaryProbes(cf)
	joinRetractionProbes(cf, rng.Fork(), f.Cases(24, 240))
	siteProbes(cf, rng, f.Cases(270, 2700))
	cliSearch(cf, rng, f)

	if err := cf.Write(f.Out); err != nil {
		fmt.Fprintln(os.Stderr, err)
		os.Exit(2)
	}
}

// boundaryProbes: a deterministic part of every run (no random choice): every descriptor of functions.FunctionMap() that has
// integer argument positions is called with the int64 boundary family 0, 1, -1, MinInt64, MaxInt64, MaxInt64-1, len, len-1,
// len+1 (len = length of the string / list argument) in EVERY integer position (full cross product), the other positions
// holding an ordinary value of their type; plus list[index] on lists of length 0..3.  A panic is a failing input.
func boundaryProbes(cf *lib.CaseFile) {
	family := func(l int) []int64 {
		return []int64{0, 1, -1, math.MinInt64, math.MaxInt64, math.MaxInt64 - 1, int64(l), int64(l) - 1, int64(l) + 1}
	}
	isIntPos := func(t octosql.Type) bool {
		return octosql.Int.Is(t) == octosql.TypeRelationIs
	}
	ordinary := func(t octosql.Type, str string) (octosql.Value, bool) {
		switch {
		case octosql.String.Is(t) == octosql.TypeRelationIs:
			return octosql.NewString(str), true
		case octosql.Float.Is(t) == octosql.TypeRelationIs:
			return octosql.NewFloat(1.5), true
		case octosql.Boolean.Is(t) == octosql.TypeRelationIs:
			return octosql.NewBoolean(true), true
		case octosql.Duration.Is(t) == octosql.TypeRelationIs:
			return octosql.NewDuration(time.Second), true
		case octosql.Time.Is(t) == octosql.TypeRelationIs:
			return octosql.NewTime(time.Unix(1600000000, 0).UTC()), true
		case octosql.Null.Is(t) == octosql.TypeRelationIs:
			return octosql.NewNull(), true
		}
		return octosql.Value{}, false
	}
	id := 0
	record := func(site string, coq string, args interface{}, p interface{}, class string, inClass bool) {
		js := map[string]interface{}{"site": site, "args": args, "boundary_family": true, "panicked": p != nil}
		if coq == "" {
			coq = fmt.Sprintf("CSiteFn %d", id)
		}
		id++
		idx := cf.Add(fmt.Sprintf("%s %s", coq, lib.CoqBool(p != nil)), js, true)
		cf.Count("boundary_" + site)
		if p != nil {
			js["panic"] = fmt.Sprint(p)
			if !inClass {
				class = ""
			}
			if class != "" {
				cf.SetClass(idx, class)
			}
			cf.Violation(idx, fmt.Sprintf("%s panicked: %v on %v", site, p, args), class)
		}
	}
	fm := functions.FunctionMap()
	names := make([]string, 0, len(fm))
	for name := range fm {
		names = append(names, name)
	}
	sort.Strings(names)
	for _, name := range names {
		for di, d := range fm[name].Descriptors {
			if d.TypeFn != nil || d.Function == nil {
				continue
			}
			var intPos []int
			for i, t := range d.ArgumentTypes {
				if isIntPos(t) {
					intPos = append(intPos, i)
				}
			}
			if len(intPos) == 0 || len(intPos) > 3 {
				continue
			}
			for _, str := range []string{"test", "", "日本語"} {
				base := make([]octosql.Value, len(d.ArgumentTypes))
				usable, hasStr := true, false
				for i, t := range d.ArgumentTypes {
					if isIntPos(t) {
						continue
					}
					v, ok := ordinary(t, str)
					if !ok {
						usable = false
					}
					if v.TypeID == octosql.TypeIDString {
						hasStr = true
					}
					base[i] = v
				}
				if !usable || (!hasStr && str != "test") {
					continue
				}
				fam := family(len(str))
				total := 1
				for range intPos {
					total *= len(fam)
				}
				for combo := 0; combo < total; combo++ {
					vals := append([]octosql.Value{}, base...)
					ints := make([]int64, len(intPos))
					c := combo
					for k, pos := range intPos {
						ints[k] = fam[c%len(fam)]
						c /= len(fam)
						vals[pos] = octosql.NewInt(ints[k])
					}
					// string repetition: a count the runtime would really try to allocate is outside the model (memory)
					if name == "*" && hasStr && ints[0] > 1<<20 && ints[0] < math.MaxInt64-1 {
						continue
					}
					fn := d.Function
					p := recovered(func() { fn(vals) })
					site := fmt.Sprintf("%s#%d", name, di)
					coq, class, inClass := "", "", false
					switch {
					case name == "/" && d.ArgumentTypes[0].TypeID == octosql.TypeIDInt && len(intPos) == 2:
						coq, class, inClass = fmt.Sprintf("CSiteIntDiv %s %s", lib.Z(ints[0]), lib.Z(ints[1])), "c13-div-zero", ints[1] == 0
					case name == "/" && d.ArgumentTypes[0].TypeID == octosql.TypeIDDuration && len(intPos) == 1:
						coq, class, inClass = fmt.Sprintf("CSiteDurDiv %s %s", lib.Z(int64(time.Second)), lib.Z(ints[0])), "c13-div-zero", ints[0] == 0
					case name == "*" && hasStr:
						// beyond-memory counts (len*count fits an int but not the machine) are C13's open finding
						coq, class, inClass = fmt.Sprintf("CSiteRepeat %d %s", len(str), lib.Z(ints[0])), "c13-repeat", ints[0] >= math.MaxInt64-1 && len(str) == 1
						if inClass {
							coq = "" // the pinned site model has no memory bound: no tie for this class
						}
					case name == "substr" && len(intPos) == 1:
						coq, class, inClass = fmt.Sprintf("CSiteSubstr2 %d %s", len(str), lib.Z(ints[0])), "c12-substr", ints[0] < 0
					case name == "substr" && len(intPos) == 2:
						coq, class, inClass = fmt.Sprintf("CSiteSubstr3 %d %s %s", len(str), lib.Z(ints[0]), lib.Z(ints[1])), "c12-substr", ints[0] < 0 || ints[1] < 0 || ints[0]+ints[1] < ints[0]
					}
					record(site, coq, fmt.Sprintf("%v", vals), p, class, inClass)
				}
			}
		}
	}
	index := findFn("[]")
	for m := 0; m <= 3; m++ {
		l := make([]octosql.Value, m)
		for j := range l {
			l[j] = octosql.NewInt(int64(j))
		}
		for _, ix := range family(m) {
			p := recovered(func() { index([]octosql.Value{octosql.NewList(l), octosql.NewInt(ix)}) })
			record("[]", fmt.Sprintf("CSiteListIndex %s %s", lib.CoqValues(l), lib.Z(ix)), []interface{}{m, ix}, p, "c13-list-index", ix < 0)
		}
	}
}

// joinRetractionProbes: one row's history of insertions and retractions fed into the real StreamJoin / OuterJoin
// (Model/NoPanic.v join_row_history): the join code does EventTimes[1:] on a retraction, also for a row it does not hold.
func joinRetractionProbes(cf *lib.CaseFile, r *lib.Rng, n int) {
	row := []octosql.Value{octosql.NewInt(1), octosql.NewInt(1)}
	for i := 0; i < n; i++ {
		m := 1 + r.Intn(5)
		ops := make([]bool, m)
		coq := make([]string, m)
		bal, unmatched := 0, false
		var evs []lib.Event
		for k := range ops {
			ops[k] = r.Chance(2, 5)
			if i < 4 { // deterministic members of the family: -, +-, +--, -+
				ops = [][]bool{{true}, {false, true}, {false, true, true}, {true, false}}[i]
				coq = make([]string, len(ops))
				break
			}
		}
		for k, retr := range ops {
			coq[k] = lib.CoqBool(retr)
			if retr {
				if bal == 0 {
					unmatched = true
				} else {
					bal--
				}
			} else if !unmatched {
				bal++
			}
			evs = append(evs, lib.Event{Rec: execution.NewRecord(row, retr, lib.T(0))})
		}
		key := func() []execution.Expression { return []execution.Expression{&colExpr{0}} }
		// the other side stays open until this side's messages have been taken (a join stops keeping its tree once the
		// other stream has ended): it ends 20 ms after this side's source has returned
		done := make(chan struct{})
		left := &signalSource{inner: &lib.ScriptSource{Events: evs}, done: done}
		right := &waitSource{wait: done, extra: 20 * time.Millisecond}
		var node execution.Node
		kind := "StreamJoin"
		if i%2 == 1 {
			kind = "OuterJoin"
			node = nodes.NewOuterJoin(left, right, 2, 2, key(), key(), true, false)
		} else {
			node = nodes.NewStreamJoin(left, right, key(), key())
		}
		_, _, p := lib.RunNode(node)
		js := map[string]interface{}{"site": "join_retraction", "join": kind, "ops(true=retraction)": ops, "panicked": p != nil}
		idx := cf.Add(fmt.Sprintf("CSiteJoinRetract %s %s", lib.CoqList(coq), lib.CoqBool(p != nil)), js, p != nil)
		cf.Count("site_join_retraction")
		if p != nil {
			js["panic"] = fmt.Sprint(p)
			cf.Count("site_panicked_join_retraction")
			class := ""
			if unmatched {
				class = "c18-join-retraction-unmatched"
				cf.SetClass(idx, class)
			}
			cf.Violation(idx, fmt.Sprintf("%s panicked on the row history %v (true = retraction): %v", kind, ops, p), class)
		}
	}
}

type colExpr struct{ i int }

func (c *colExpr) Evaluate(ctx execution.ExecutionContext) (octosql.Value, error) {
	return ctx.VariableContext.Values[c.i], nil
}

type signalSource struct {
	inner execution.Node
	done  chan struct{}
}

func (s *signalSource) Run(ctx execution.ExecutionContext, produce execution.ProduceFn, metaSend execution.MetaSendFn) error {
	defer close(s.done)
	return s.inner.Run(ctx, produce, metaSend)
}

type waitSource struct {
	wait  chan struct{}
	extra time.Duration
}

func (w *waitSource) Run(ctx execution.ExecutionContext, produce execution.ProduceFn, metaSend execution.MetaSendFn) error {
	<-w.wait
	time.Sleep(w.extra)
	return nil
}
