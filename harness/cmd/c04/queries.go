package main

import (
	"fmt"
	"os"
	"path/filepath"
	"strings"

	pq "github.com/segmentio/parquet-go"

	"verifharness/lib"
)

// ---- generated inputs: a few small databases (CSV and JSON files) per run ----

type database struct {
	dir      string
	hasNulls bool
}

func intCell(r *lib.Rng, nullable bool) string {
	if nullable && r.Chance(1, 4) {
		return ""
	}
	return fmt.Sprint([]int{0, 1, 1, 2, 2, 3, 5, -1, 7}[r.Intn(9)])
}

var words = []string{"a", "b", "ab", "x", "m", "zz", "b"}

func writeDB(r *lib.Rng, dir string) (database, error) {
	if err := os.MkdirAll(dir, 0o755); err != nil {
		return database{}, err
	}
	var b strings.Builder
	// t.csv: a (nullable Int), b (Int), s (String).  First row fixes the inferred column types.
	b.WriteString("a,b,s\n1,2,a\n")
	for i, n := 0, 1+r.Intn(6); i < n; i++ {
		fmt.Fprintf(&b, "%s,%s,%s\n", intCell(r, true), intCell(r, false), words[r.Intn(len(words))])
	}
	b.WriteString(",3,m\n")  // at least one NULL key
	b.WriteString("2,0,x\n") // and a zero, for guarded divisions
	if err := os.WriteFile(filepath.Join(dir, "t.csv"), []byte(b.String()), 0o644); err != nil {
		return database{}, err
	}
	b.Reset()
	// u.csv: w comes first and is rarely used, so column pruning has to keep x and y aligned
	b.WriteString("w,x,y\nb,1,5\n")
	for i, n := 0, 1+r.Intn(6); i < n; i++ {
		fmt.Fprintf(&b, "%s,%s,%s\n", words[r.Intn(len(words))], intCell(r, true), intCell(r, false))
	}
	b.WriteString("zz,,2\n")
	b.WriteString("x,0,0\n")
	if err := os.WriteFile(filepath.Join(dir, "u.csv"), []byte(b.String()), 0o644); err != nil {
		return database{}, err
	}
	b.Reset()
	// l.json: k (Float), tag (String), l (list of Float), n (nullable Float)
	b.WriteString("{\"k\": 1, \"tag\": \"a\", \"l\": [1, 2], \"n\": 3}\n")
	for i, n := 0, 1+r.Intn(5); i < n; i++ {
		var items []string
		for j, m := 0, r.Intn(4); j < m; j++ {
			items = append(items, fmt.Sprint(r.Intn(4)))
		}
		nv := "null"
		if r.Chance(2, 3) {
			nv = fmt.Sprint(r.Intn(4))
		}
		fmt.Fprintf(&b, "{\"k\": %d, \"tag\": \"%s\", \"l\": [%s], \"n\": %s}\n", r.Intn(4), words[r.Intn(len(words))], strings.Join(items, ", "), nv)
	}
	b.WriteString("{\"k\": 2, \"tag\": \"m\", \"l\": [], \"n\": null}\n")
	if err := os.WriteFile(filepath.Join(dir, "l.json"), []byte(b.String()), 0o644); err != nil {
		return database{}, err
	}
	b.Reset()
	// ev.csv: event-time data.  The position of the time column varies per database; columns in front of it
	// that a query does not use are pruned by the optimizer, which must then shift every Schema.TimeField above.
	layouts := [][]string{{"id", "ts", "val"}, {"ts", "id", "val"}, {"id", "pad", "ts", "val"}, {"id", "val", "ts"}, {"pad", "id", "val", "ts"}}
	layout := layouts[r.Intn(len(layouts))]
	b.WriteString(strings.Join(layout, ",") + "\n")
	sec := 0
	for i, n := 0, 4+r.Intn(6); i < n; i++ {
		sec += 1 + r.Intn(70)
		cells := make([]string, len(layout))
		for k, c := range layout {
			switch c {
			case "id":
				cells[k] = fmt.Sprint(i + 1)
			case "pad":
				cells[k] = words[r.Intn(len(words))]
			case "val":
				cells[k] = fmt.Sprint(10 * (1 + r.Intn(5)))
			case "ts":
				cells[k] = fmt.Sprintf("2021-01-01T00:%02d:%02dZ", sec/60, sec%60)
			}
		}
		b.WriteString(strings.Join(cells, ",") + "\n")
	}
	if err := os.WriteFile(filepath.Join(dir, "ev.csv"), []byte(b.String()), 0o644); err != nil {
		return database{}, err
	}
	b.Reset()
	// m.csv: quoted fields with embedded line breaks (one record spans several physical lines), read by queries that
	// use only some, or none, of its columns
	b.WriteString("id,note,v\n1,\"first line\nsecond line\",5\n")
	for i, n := 0, 2+r.Intn(4); i < n; i++ {
		note := words[r.Intn(len(words))]
		if r.Bool() {
			note = "\"" + note + "\n" + words[r.Intn(len(words))] + "\n\nend\""
		}
		fmt.Fprintf(&b, "%d,%s,%d\n", i+2, note, r.Intn(6))
	}
	b.WriteString("9,\"a, b\nc\",2\n")
	if err := os.WriteFile(filepath.Join(dir, "m.csv"), []byte(b.String()), 0o644); err != nil {
		return database{}, err
	}
	if err := writeParquet(r, filepath.Join(dir, "p.parquet")); err != nil {
		return database{}, err
	}
	return database{dir: dir, hasNulls: true}, nil
}

// p.parquet: flat columns around nested (group) columns, each of which spans two leaf columns.  The vendored writer
// orders the fields of a group by name: aid, box{h, w}, name, pos{lat, lon}, qty.
func writeParquet(r *lib.Rng, path string) (err error) {
	defer func() {
		if p := recover(); p != nil {
			err = fmt.Errorf("parquet writer panicked: %v", p)
		}
	}()
	dbl := func() pq.Node { return pq.Required(pq.Leaf(pq.DoubleType)) }
	schema := pq.Group{
		"aid":  pq.Required(pq.Leaf(pq.Int64Type)),
		"box":  pq.Required(pq.Group{"h": dbl(), "w": dbl()}),
		"name": pq.Required(pq.String()),
		"pos":  pq.Required(pq.Group{"lat": dbl(), "lon": dbl()}),
		"qty":  pq.Required(pq.Leaf(pq.Int64Type)),
	}
	f, err := os.Create(path)
	if err != nil {
		return err
	}
	defer f.Close()
	w := pq.NewWriter(f, pq.NewSchema("root", schema))
	for i, n := 0, 3+r.Intn(5); i < n; i++ {
		row := pq.Row{
			pq.ValueOf(int64(i % 4)).Level(0, 0, 0),
			pq.ValueOf(float64(i) + 0.5).Level(0, 0, 1),
			pq.ValueOf(float64(10 + i)).Level(0, 0, 2),
			pq.ValueOf(words[r.Intn(len(words))]).Level(0, 0, 3),
			pq.ValueOf(float64(r.Intn(4)) + 0.25).Level(0, 0, 4),
			pq.ValueOf(float64(20 + i)).Level(0, 0, 5),
			pq.ValueOf(int64(r.Intn(6))).Level(0, 0, 6),
		}
		if err := w.WriteRow(row); err != nil {
			return err
		}
	}
	return w.Close()
}

// triggerGroupBy: a grouping subquery with an explicit TRIGGER clause (or none) computing three aggregates, of which
// the outer query uses a subset: the unused ones sit before, between and after the used ones.
func triggerGroupBy(r *lib.Rng, feat map[string]bool, variant int) string {
	feat["trigger_group_by"] = true
	trigger := []string{" TRIGGER COUNTING 2", " TRIGGER COUNTING 1", " TRIGGER ON END OF STREAM", " TRIGGER COUNTING 3, ON END OF STREAM", ""}[(variant/7)%5]
	aggs := [][]string{
		{"COUNT(*) AS c", "MAX(t.b) AS m", "SUM(t.b) AS sm"},
		{"SUM(t.b) AS sm", "COUNT(*) AS c", "MAX(t.b) AS m"},
		{"MAX(t.b) AS m", "SUM(t.b) AS sm", "COUNT(*) AS c"},
	}[(variant/35)%3]
	sub := fmt.Sprintf("(SELECT t.s AS x, %s FROM t.csv t GROUP BY t.s%s) q", strings.Join(aggs, ", "), trigger)
	use := [][]string{{"q.m"}, {"q.sm"}, {"q.c"}, {"q.c", "q.m"}, {"q.c", "q.sm"}, {"q.m", "q.sm"}, {"q.sm", "q.c", "q.m"}}[variant%7]
	return fmt.Sprintf("SELECT q.x, %s FROM %s", strings.Join(use, ", "), sub)
}

// columnFree: queries that read no column (or only a late column) of a file source
func columnFree(r *lib.Rng, feat map[string]bool, variant int) string {
	feat["column_free_or_sparse_source"] = true
	files := []string{"m.csv m", "t.csv m", "p.parquet m", "l.json m"}
	src := files[(variant/5)%len(files)]
	switch variant % 5 {
	case 0:
		return "SELECT COUNT(*) AS c FROM " + src
	case 1:
		return "SELECT 1 AS one FROM " + src
	case 2:
		return "SELECT COUNT(*) AS c FROM " + src + " JOIN u.csv u ON 1 = 1"
	case 3:
		return "SELECT u.y, COUNT(*) AS c FROM " + src + " JOIN u.csv u ON 1 = 1 GROUP BY u.y"
	default:
		return "SELECT x.one FROM (SELECT 1 AS one FROM " + src + ") x"
	}
}

// parquetQuery: selections that prune the nested columns in front of, between and behind the used ones
func parquetQuery(r *lib.Rng, feat map[string]bool, variant int) string {
	feat["parquet_nested"] = true
	sel := []string{"p.name, p.qty", "p.qty", "p.aid", "p.aid, p.box", "p.name", "p.pos, p.qty", "p.aid, p.qty", "p.box, p.name"}[variant%8]
	where := []string{"", " WHERE p.qty > 1", " WHERE p.aid < 3", " WHERE p.name <> 'a'"}[(variant/8)%4]
	return fmt.Sprintf("SELECT %s FROM p.parquet p%s", sel, where)
}

// eventTimeQuery: max_diff_watermark -> tumble pipelines; tumble takes the implicit (watermarked) time field of its
// source unless time_field is given; the outer query uses only some of the columns.
func eventTimeQuery(r *lib.Rng, feat map[string]bool) string {
	feat["event_time"] = true
	inner := "*"
	if r.Chance(1, 4) {
		inner = []string{"c.ts, c.val, c.id", "c.val, c.ts", "c.id, c.val, c.ts"}[r.Intn(3)]
		feat["event_time_projection"] = true
	}
	innerWhere := ""
	if r.Chance(1, 3) {
		innerWhere = fmt.Sprintf(" WHERE c.val > %d", 10*r.Intn(4))
	}
	tf := ""
	if r.Chance(1, 3) {
		tf = ", time_field=>DESCRIPTOR(ts)"
		feat["event_time_explicit_field"] = true
	} else {
		feat["event_time_implicit_field"] = true
	}
	with := fmt.Sprintf("WITH ww AS (SELECT %s FROM max_diff_watermark(source=>TABLE(ev.csv), max_diff=>INTERVAL %d SECOND, time_field=>DESCRIPTOR(ts)) c%s), "+
		"wt AS (SELECT * FROM tumble(source=>TABLE(ww), window_length=>INTERVAL %d SECOND%s) c) ",
		inner, 1+r.Intn(5), innerWhere, []int{30, 60, 120}[r.Intn(3)], tf)
	outerWhere := ""
	if r.Chance(1, 3) {
		outerWhere = fmt.Sprintf(" WHERE val > %d", 10*r.Intn(4))
	}
	switch r.Intn(4) {
	case 0:
		return with + "SELECT window_end, COUNT(*) AS c FROM wt" + outerWhere + " GROUP BY window_end"
	case 1:
		return with + "SELECT window_end, COUNT(*) AS c, SUM(val) AS s FROM wt" + outerWhere + " GROUP BY window_end"
	case 2:
		return with + "SELECT window_start, val FROM wt" + outerWhere
	default:
		return with + "SELECT window_end, val, ts FROM wt" + outerWhere
	}
}

// guardedQuery: an inner filter (a subquery's WHERE or a join's ON) protects an outer predicate that fails at run
// time on the rows the inner filter removes (integer division by zero).  Any rewrite that evaluates the outer
// predicate first makes only the optimized query fail.
func guardedQuery(r *lib.Rng, feat map[string]bool) string {
	feat["guarded_partial_predicate"] = true
	k := 1 + r.Intn(4)
	n := []int{6, 10, 12}[r.Intn(3)]
	switch r.Intn(4) {
	case 0:
		return fmt.Sprintf("SELECT x.b, x.s FROM (SELECT t.b AS b, t.s AS s FROM t.csv t WHERE t.b <> 0) x WHERE %d / x.b >= %d", n, k)
	case 1:
		return fmt.Sprintf("SELECT t.b, u.y FROM t.csv t JOIN u.csv u ON t.b <> 0 WHERE %d / t.b >= %d", n, k)
	case 2:
		return fmt.Sprintf("SELECT t.b, u.y FROM t.csv t JOIN u.csv u ON t.a = u.x AND t.b <> 0 WHERE %d / t.b >= %d AND u.y > 0", n, k)
	default:
		return fmt.Sprintf("SELECT t.s, u.w FROM t.csv t JOIN u.csv u ON u.y <> 0 AND t.b > 0 WHERE %d / u.y >= %d AND %d / t.b >= 1", n, k, n)
	}
}

// ---- generated queries ----

type col struct {
	name string // as referred to in SQL, e.g. "t.a"
	typ  string // int | float | string | list
	null bool
}

type rel struct {
	sql      string // a FROM item, alias included
	cols     []col
	features map[string]bool
}

type qgen struct {
	r     *lib.Rng
	alias int
	feat  map[string]bool
}

func (g *qgen) fresh(prefix string) string {
	g.alias++
	return fmt.Sprintf("%s%d", prefix, g.alias)
}

func (g *qgen) baseTable() rel {
	switch g.r.Intn(6) {
	case 4:
		a := g.fresh("p")
		g.feat["parquet_nested"] = true
		return rel{sql: "p.parquet " + a, cols: []col{{a + ".aid", "int", false}, {a + ".box", "list", false}, {a + ".name", "string", false}, {a + ".qty", "int", false}}}
	case 5:
		a := g.fresh("m")
		g.feat["multiline_csv"] = true
		return rel{sql: "m.csv " + a, cols: []col{{a + ".id", "int", false}, {a + ".note", "string", false}, {a + ".v", "int", false}}}
	case 0:
		a := g.fresh("t")
		return rel{sql: "t.csv " + a, cols: []col{{a + ".a", "int", true}, {a + ".b", "int", false}, {a + ".s", "string", false}}}
	case 1:
		a := g.fresh("u")
		return rel{sql: "u.csv " + a, cols: []col{{a + ".w", "string", false}, {a + ".x", "int", true}, {a + ".y", "int", false}}}
	case 2:
		a := g.fresh("j")
		return rel{sql: "l.json " + a, cols: []col{{a + ".k", "float", false}, {a + ".tag", "string", false}, {a + ".l", "list", false}, {a + ".n", "float", true}}}
	default:
		a := g.fresh("r")
		g.feat["tvf"] = true
		return rel{sql: fmt.Sprintf("range(start=>%d, end=>%d) %s", g.r.Intn(3), 2+g.r.Intn(5), a), cols: []col{{a + ".i", "int", false}}}
	}
}

func lit(r *lib.Rng, typ string) string {
	switch typ {
	case "int":
		return fmt.Sprint([]int{0, 1, 2, 3, 5}[r.Intn(5)])
	case "float":
		return []string{"0.0", "1.0", "2.0", "3.0"}[r.Intn(4)]
	default:
		return "'" + words[r.Intn(len(words))] + "'"
	}
}

func scalarCols(cs []col) []col {
	var out []col
	for _, c := range cs {
		if c.typ != "list" {
			out = append(out, c)
		}
	}
	return out
}

// atom: a predicate over the given columns (conjunct shapes the rules look at: equalities between columns,
// comparisons with constants, arithmetic, OR, IN (a tuple), IS NULL)
func (g *qgen) atom(cs []col) string {
	cs = scalarCols(cs)
	if len(cs) == 0 {
		return "1 = 1"
	}
	c := cs[g.r.Intn(len(cs))]
	switch g.r.Intn(9) {
	case 0, 1:
		return fmt.Sprintf("%s %s %s", c.name, []string{"=", "<", ">", "<=", "!="}[g.r.Intn(5)], lit(g.r, c.typ))
	case 2:
		// column-to-column, same type
		var same []col
		for _, d := range cs {
			if d.typ == c.typ && d.name != c.name {
				same = append(same, d)
			}
		}
		if len(same) > 0 {
			d := same[g.r.Intn(len(same))]
			return fmt.Sprintf("%s %s %s", c.name, []string{"=", "=", "<", ">"}[g.r.Intn(4)], d.name)
		}
		return fmt.Sprintf("%s = %s", c.name, lit(g.r, c.typ))
	case 3:
		if c.typ == "int" {
			return fmt.Sprintf("%s + 1 > %s", c.name, lit(g.r, "int"))
		}
		return fmt.Sprintf("%s = %s", c.name, lit(g.r, c.typ))
	case 4:
		return fmt.Sprintf("(%s OR %s)", g.atom(cs), g.atom(cs))
	case 5:
		g.feat["in_tuple"] = true
		return fmt.Sprintf("%s IN (%s, %s)", c.name, lit(g.r, c.typ), lit(g.r, c.typ))
	case 6:
		g.feat["is_null"] = true
		if g.r.Bool() {
			return c.name + " IS NULL"
		}
		return c.name + " IS NOT NULL"
	case 7:
		return lit(g.r, "int") + " < " + lit(g.r, "int") // uses no variable: pushed into both join branches
	default:
		return fmt.Sprintf("%s = %s", c.name, lit(g.r, c.typ))
	}
}

func (g *qgen) pred(cs []col) string {
	n := 1 + g.r.Intn(3)
	parts := make([]string, n)
	for i := range parts {
		parts[i] = g.atom(cs)
	}
	return strings.Join(parts, " AND ")
}

func shortName(c col) string {
	if i := strings.LastIndex(c.name, "."); i >= 0 {
		return c.name[i+1:]
	}
	return c.name
}

// subquery wraps a relation: projection (with computed columns), optional WHERE, DISTINCT, GROUP BY,
// unnest, ORDER BY all output columns + LIMIT (so that the selected bag is determined).
func (g *qgen) subquery(src rel, depth int) rel {
	a := g.fresh("q")
	where := ""
	if g.r.Chance(1, 2) {
		where = " WHERE " + g.pred(src.cols)
	}
	kind := g.r.Intn(7)
	for _, c := range src.cols {
		if c.typ == "list" && g.r.Bool() {
			kind = 1 // a list column is rare: unnest it half of the time
		}
	}
	switch kind {
	case 0, 2: // group by
		sc := scalarCols(src.cols)
		if len(sc) > 0 {
			g.feat["group_by"] = true
			key := sc[g.r.Intn(len(sc))]
			items := []string{key.name + " AS gk"}
			out := []col{{a + ".gk", key.typ, key.null}}
			items = append(items, "COUNT(*) AS cnt")
			out = append(out, col{a + ".cnt", "int", false})
			for _, c := range sc {
				if c.typ == "int" && g.r.Bool() {
					if g.feat["outer_join"] {
						g.feat["agg_over_outer_join"] = true
					}
					items = append(items, fmt.Sprintf("SUM(%s) AS sm", c.name))
					out = append(out, col{a + ".sm", "int", true})
					break
				}
			}
			for _, c := range sc {
				if c.typ != "list" && g.r.Chance(1, 3) {
					if g.feat["outer_join"] {
						g.feat["agg_over_outer_join"] = true
					}
					items = append(items, fmt.Sprintf("MAX(%s) AS mx", c.name))
					out = append(out, col{a + ".mx", c.typ, true})
					break
				}
			}
			return rel{sql: fmt.Sprintf("(SELECT %s FROM %s%s GROUP BY %s) %s", strings.Join(items, ", "), src.sql, where, key.name, a), cols: out}
		}
	case 1: // unnest
		for _, c := range src.cols {
			if c.typ == "list" {
				g.feat["unnest"] = true
				items := []string{fmt.Sprintf("unnest(%s) AS e", c.name)}
				out := []col{{a + ".e", "float", false}}
				for _, d := range scalarCols(src.cols) {
					if g.r.Bool() {
						items = append(items, fmt.Sprintf("%s AS %s", d.name, shortName(d)))
						out = append(out, col{a + "." + shortName(d), d.typ, d.null})
					}
				}
				if g.r.Bool() { // unnested field first or last
					items[0], items[len(items)-1] = items[len(items)-1], items[0]
					out[0], out[len(out)-1] = out[len(out)-1], out[0]
				}
				return rel{sql: fmt.Sprintf("(SELECT %s FROM %s%s) %s", strings.Join(items, ", "), src.sql, where, a), cols: out}
			}
		}
	}
	// projection
	var items []string
	var out []col
	seen := map[string]bool{}
	for _, c := range src.cols {
		if g.r.Chance(3, 4) {
			n := shortName(c)
			if seen[n] {
				continue
			}
			seen[n] = true
			items = append(items, fmt.Sprintf("%s AS %s", c.name, n))
			out = append(out, col{a + "." + n, c.typ, c.null})
		}
	}
	for _, c := range scalarCols(src.cols) {
		if c.typ == "int" && g.r.Chance(1, 3) && !seen["p"] {
			seen["p"] = true
			items = append(items, fmt.Sprintf("%s + 1 AS p", c.name))
			out = append(out, col{a + ".p", "int", c.null})
		}
	}
	if len(items) == 0 {
		c := src.cols[0]
		items = append(items, fmt.Sprintf("%s AS %s", c.name, shortName(c)))
		out = append(out, col{a + "." + shortName(c), c.typ, c.null})
	}
	distinct := ""
	tail := ""
	hasList := len(scalarCols(out)) != len(out)
	switch {
	case g.r.Chance(1, 5) && !hasList:
		g.feat["distinct"] = true
		distinct = "DISTINCT "
	case g.r.Chance(1, 5) && !hasList:
		g.feat["order_limit"] = true
		var keys []string
		for _, c := range out {
			k := shortName(c)
			if g.r.Chance(1, 3) {
				k += " DESC"
			}
			keys = append(keys, k)
		}
		tail = fmt.Sprintf(" ORDER BY %s LIMIT %d", strings.Join(keys, ", "), 1+g.r.Intn(4))
	}
	return rel{sql: fmt.Sprintf("(SELECT %s%s FROM %s%s%s) %s", distinct, strings.Join(items, ", "), src.sql, where, tail, a), cols: out}
}

func (g *qgen) relation(depth int) rel {
	if depth <= 0 {
		return g.baseTable()
	}
	switch g.r.Intn(10) {
	case 0, 1:
		return g.baseTable()
	case 2, 3, 4:
		return g.subquery(g.relation(depth-1), depth-1)
	default:
		l := g.relation(depth - 1)
		r := g.relation(depth - 1)
		all := append(append([]col{}, l.cols...), r.cols...)
		// ON: mostly an equality between the two sides, plus other conjuncts
		var conj []string
		lc, rc := scalarCols(l.cols), scalarCols(r.cols)
		for _, a := range lc {
			for _, b := range rc {
				// an equality between two nullable columns is the interesting one (NULL keys on both sides)
				if a.typ == b.typ && (g.r.Chance(1, 3) || (a.null && b.null && g.r.Chance(2, 3))) && len(conj) < 2 {
					if g.r.Bool() {
						conj = append(conj, a.name+" = "+b.name)
					} else {
						conj = append(conj, b.name+" = "+a.name)
					}
				}
			}
		}
		kind := g.r.Intn(10)
		if kind >= 8 { // outer joins need a pure conjunction of equalities
			if len(conj) == 0 {
				kind = 0
			}
		} else {
			for g.r.Chance(1, 2) {
				conj = append(conj, g.atom(all))
			}
			if len(conj) == 0 {
				conj = append(conj, g.atom(all))
			}
		}
		on := strings.Join(conj, " AND ")
		switch {
		case kind < 5:
			g.feat["stream_join"] = true
			return rel{sql: fmt.Sprintf("%s JOIN %s ON %s", l.sql, r.sql, on), cols: all}
		case kind < 8:
			g.feat["lookup_join"] = true
			return rel{sql: fmt.Sprintf("%s LOOKUP JOIN %s ON %s", l.sql, r.sql, on), cols: all}
		case kind == 8:
			g.feat["outer_join"] = true
			return rel{sql: fmt.Sprintf("%s LEFT JOIN %s ON %s", l.sql, r.sql, on), cols: nullable(all)}
		default:
			g.feat["outer_join"] = true
			return rel{sql: fmt.Sprintf("%s OUTER JOIN %s ON %s", l.sql, r.sql, on), cols: nullable(all)}
		}
	}
}

func nullable(cs []col) []col {
	out := make([]col, len(cs))
	for i, c := range cs {
		c.null = true
		out[i] = c
	}
	return out
}

// genQuery returns the SQL text and the features it exercises.
func genQuery(r *lib.Rng) (string, map[string]bool) {
	g := &qgen{r: r, feat: map[string]bool{}}
	switch r.Intn(12) {
	case 0, 1:
		return eventTimeQuery(r, g.feat), g.feat
	case 2:
		return guardedQuery(r, g.feat), g.feat
	case 3:
		return sharedSideJoin(r, g.feat), g.feat
	case 4:
		switch r.Intn(3) {
		case 0:
			return triggerGroupBy(r, g.feat, r.Intn(105)), g.feat
		case 1:
			return columnFree(r, g.feat, r.Intn(20)), g.feat
		default:
			return parquetQuery(r, g.feat, r.Intn(32)), g.feat
		}
	}
	src := g.relation(1 + r.Intn(2))
	var items []string
	for _, c := range src.cols {
		if r.Chance(1, 2) {
			items = append(items, c.name)
		}
	}
	if len(items) == 0 {
		items = append(items, src.cols[r.Intn(len(src.cols))].name)
	}
	where := ""
	if r.Chance(2, 3) {
		where = " WHERE " + g.pred(src.cols)
	}
	q := fmt.Sprintf("SELECT %s FROM %s%s", strings.Join(items, ", "), src.sql, where)
	if r.Chance(1, 6) {
		sc := scalarCols(src.cols)
		if len(sc) > 0 {
			g.feat["group_by"] = true
			k := sc[r.Intn(len(sc))]
			q = fmt.Sprintf("SELECT %s, COUNT(*) AS c FROM %s%s GROUP BY %s", k.name, src.sql, where, k.name)
		}
	} else if r.Chance(1, 8) {
		g.feat["distinct"] = true
		q = strings.Replace(q, "SELECT ", "SELECT DISTINCT ", 1)
	}
	return q, g.feat
}

// sharedSideJoin: an inner join constrained by several cross-branch equalities that share one side expression
// (the same column of one branch compared with two expressions of the other), spread over ON and WHERE.
func sharedSideJoin(r *lib.Rng, feat map[string]bool) string {
	feat["shared_side_equalities"] = true
	left := []string{"t.a", "t.b", "t.b + 1", "t.a + 1"}
	right := []string{"u.x", "u.y", "u.y - 3", "u.x + 1"}
	var eqs []string
	if r.Bool() { // one left expression against two right ones
		l := left[r.Intn(len(left))]
		i := r.Intn(len(right))
		j := (i + 1 + r.Intn(len(right)-1)) % len(right)
		eqs = []string{l + " = " + right[i], l + " = " + right[j]}
	} else {
		rr := right[r.Intn(len(right))]
		i := r.Intn(len(left))
		j := (i + 1 + r.Intn(len(left)-1)) % len(left)
		eqs = []string{left[i] + " = " + rr, rr + " = " + left[j]}
	}
	if r.Chance(1, 3) {
		eqs = append(eqs, left[r.Intn(2)]+" = "+right[r.Intn(2)])
	}
	if r.Bool() {
		return fmt.Sprintf("SELECT t.a, t.b, u.x, u.y FROM t.csv t JOIN u.csv u ON %s", strings.Join(eqs, " AND "))
	}
	return fmt.Sprintf("SELECT t.a, t.b, u.x, u.y FROM t.csv t JOIN u.csv u ON %s WHERE %s", eqs[0], strings.Join(eqs[1:], " AND "))
}
