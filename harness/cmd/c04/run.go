package main

import (
	"bytes"
	"fmt"
	"os"
	"os/exec"
	"path/filepath"
	"sort"
	"strings"
	"sync"
	"time"

	"github.com/cube2222/octosql/physical"

	"verifharness/lib"
)

// ---- the CLI, --optimize=true vs --optimize=false ----

type cliResult struct {
	rows    []string // sorted lines of the printed table
	failed  bool     // non-zero exit without a crash (an ordinary error)
	crashed bool     // exit 2 / "panic:" / killed by a signal
	timeout bool
	stderr  string
}

func buildCLI(dir string) (string, error) {
	repo := os.Getenv("VERIF_REPO")
	if repo == "" {
		repo = "/repo"
	}
	bin := filepath.Join(dir, "octosql")
	cmd := exec.Command("go", "build", "-o", bin, ".")
	cmd.Dir = repo
	if out, err := cmd.CombinedOutput(); err != nil {
		return "", fmt.Errorf("go build of the CLI failed: %v\n%s", err, out)
	}
	return bin, nil
}

func runCLI(bin, home, dbdir, query string, optimize bool) cliResult {
	// batch_table: the final, consolidated table.  (-o json / csv print every record of the output changelog,
	// retractions included and unmarked, so for an outer join their lines depend on the interleaving of the inputs.)
	cmd := exec.Command(bin, "-o", "batch_table", fmt.Sprintf("--optimize=%v", optimize), query)
	cmd.Dir = dbdir
	cmd.Env = []string{"OCTOSQL_NO_TELEMETRY=1", "HOME=" + home, "PATH=/usr/bin:/bin"}
	var stdout, stderr bytes.Buffer
	cmd.Stdout, cmd.Stderr = &stdout, &stderr
	if err := cmd.Start(); err != nil {
		return cliResult{failed: true, stderr: err.Error()}
	}
	done := make(chan error, 1)
	go func() { done <- cmd.Wait() }()
	var err error
	res := cliResult{}
	select {
	case err = <-done:
	case <-time.After(20 * time.Second):
		cmd.Process.Kill()
		<-done
		res.timeout = true
	}
	res.stderr = stderr.String()
	if len(res.stderr) > 600 {
		res.stderr = res.stderr[:600]
	}
	if err != nil {
		res.failed = true
		code := -1
		if ee, ok := err.(*exec.ExitError); ok {
			code = ee.ExitCode()
		}
		if code == 2 || code == -1 || strings.Contains(stderr.String(), "panic:") || strings.Contains(stderr.String(), "fatal error:") {
			res.crashed = true
		}
	}
	for _, l := range strings.Split(stdout.String(), "\n") {
		if strings.TrimSpace(l) != "" {
			res.rows = append(res.rows, l)
		}
	}
	sort.Strings(res.rows)
	return res
}

func sameRows(a, b []string) bool {
	if len(a) != len(b) {
		return false
	}
	for i := range a {
		if a[i] != b[i] {
			return false
		}
	}
	return true
}

// ---- does the key-extraction rule fire somewhere while optimizing? (the class of the known join defect) ----

func countJoinKeys(n physical.Node) int {
	total := 0
	t := physical.Transformers{NodeTransformer: func(n physical.Node) physical.Node {
		if n.NodeType == physical.NodeTypeStreamJoin {
			total += len(n.StreamJoin.LeftKey)
		}
		return n
	}}
	func() {
		defer func() { recover() }()
		t.TransformNode(n)
	}()
	return total
}

// queries that exposed a defect on the pinned tree (findings/C04.txt)
var corpus = []string{
	"SELECT t.a, u.x FROM t.csv t JOIN u.csv u ON t.a = u.x",
	"SELECT t.a, u.x FROM t.csv t JOIN u.csv u ON t.a IN (1, 2)",
	"SELECT q.tag FROM (SELECT j.tag AS tag, unnest(j.l) AS e FROM l.json j) q",
	"SELECT t.a, u.x FROM t.csv t JOIN u.csv u ON u.x <> 0 WHERE 10 / u.x > 1",
	"SELECT t.b, u.y FROM t.csv t LOOKUP JOIN u.csv u ON t.a = u.x WHERE u.y > 1 AND t.b < 5",
	"SELECT u.y FROM u.csv u WHERE u.x > 0",
	// two cross-branch equalities that share one side: each must end up in the join key (or stay in the filter)
	"SELECT t.a, u.x, u.y FROM t.csv t JOIN u.csv u ON t.a = u.x AND t.a = u.y",
	"SELECT t.a, t.b, u.x FROM t.csv t JOIN u.csv u ON t.a = u.x WHERE t.b = u.x",
	"SELECT t.b, u.x, u.y FROM t.csv t JOIN u.csv u ON u.x = t.b WHERE u.y = t.b + 3",
	"SELECT t.a, u.y FROM t.csv t JOIN u.csv u ON t.a = u.x AND t.b = u.x AND t.a + 1 = u.y",
	// a conjunct that uses no column of either join input (pushed into both branches)
	"SELECT t.a, u.x FROM t.csv t JOIN u.csv u ON t.a = u.x WHERE 2 < 1",
	"SELECT t.b, u.y FROM t.csv t JOIN u.csv u ON t.b = u.y AND 1 = 2 AND u.y > 0",
	"WITH ww AS (SELECT * FROM max_diff_watermark(source=>TABLE(ev.csv), max_diff=>INTERVAL 1 SECOND, time_field=>DESCRIPTOR(ts)) c), wt AS (SELECT * FROM tumble(source=>TABLE(ww), window_length=>INTERVAL 1 MINUTE) c) SELECT window_end, COUNT(*) AS c, SUM(val) AS s FROM wt GROUP BY window_end",
}

const systematicCount = 30

type job struct {
	idx      int
	query    string
	db       database
	keyFired bool
	feat     map[string]bool
	opt, raw cliResult
}

func runCases(f lib.Flags) error {
	rng := lib.NewRng(f.Seed)
	cf := lib.NewCaseFile("C04", f.Seed, f.Tier)
	cf.Imports = []string{"Optimizer"}
	cf.CaseType = "c04_case"
	cf.Preamble = []string{"Open Scope string_scope.", "Open Scope list_scope."}
	cf.Checks = []lib.Check{
		{Name: "tie", Kind: "tie", Fn: "c04_tie"},
		{Name: "wf_in", Kind: "tie", Fn: "c04_wf"},
		{Name: "wf_out", Kind: "tie", Fn: "c04_wf_out"},
	}
	cf.Side.Rule = "generated SELECT queries (tables, subqueries, JOIN / LOOKUP JOIN / outer joins, GROUP BY, DISTINCT, unnest, ORDER BY+LIMIT, range()) over generated CSV and JSON files; " +
		"(1) each exported optimizer rule and (2) optimizer.Optimize applied to the plan the real parser+typechecker produce, reproduced by the model; " +
		"(3) the built CLI with --optimize=true vs --optimize=false, outputs compared as bags. non-trivial = a rule case on which the Go rule reported changed=true (or Optimize changed the plan); distinct by full case text"

	absOut, err := filepath.Abs(f.Out)
	if err != nil {
		return err
	}
	work := filepath.Join(absOut, "work")
	home := filepath.Join(work, "home")
	if err := os.MkdirAll(home, 0o755); err != nil {
		return err
	}
	bin, err := buildCLI(work)
	if err != nil {
		return err
	}
	var dbs []database
	for i := 0; i < 6; i++ {
		db, err := writeDB(rng.Fork(), filepath.Join(work, fmt.Sprintf("db%d", i)))
		if err != nil {
			return err
		}
		dbs = append(dbs, db)
	}
	rules, err := ruleOrder()
	if err != nil {
		return err
	}
	for _, name := range rules {
		if goRules[name] == nil {
			return fmt.Errorf("optimize.go lists rule %s which the harness does not know", name)
		}
	}
	cwd, _ := os.Getwd()
	defer os.Chdir(cwd)

	nq := f.Cases(92, 900)
	var jobs []*job
	for qi := 0; qi < nq; qi++ {
		r := rng.Fork()
		db := dbs[r.Intn(len(dbs))]
		query, feat := genQuery(r)
		policy := r.Intn(3)
		if qi < len(corpus) { // the inputs of the defects found so far run first, on every seed
			query, feat, policy = corpus[qi], map[string]bool{"corpus": true}, 0
		} else if k := qi - len(corpus); k < systematicCount {
			// then a systematic block present in every run: unused aggregates in every position under every trigger,
			// column-free reads of every file kind, parquet selections around the nested columns
			feat, policy = map[string]bool{"systematic": true}, 0
			switch {
			case k < 14:
				query = triggerGroupBy(r, feat, []int{0, 1, 2, 3, 4, 5, 6, 7, 8, 14, 35, 36, 70, 71}[k])
			case k < 22:
				query = columnFree(r, feat, []int{0, 1, 2, 3, 4, 5, 10, 15}[k-14])
			default:
				query = parquetQuery(r, feat, []int{0, 1, 2, 3, 4, 5, 9, 17}[k-22])
			}
		}
		for k := range feat {
			cf.Count("feature_" + k)
		}
		if err := os.Chdir(db.dir); err != nil {
			return err
		}
		js := map[string]interface{}{"query": query, "db": filepath.Base(db.dir), "datasource_policy": policy}
		plan, terr := typecheck(query)
		if terr != nil {
			cf.Count("rejected_by_typechecker")
			msg := terr.Error()
			if len(msg) > 60 {
				msg = msg[:60]
			}
			cf.Count("typecheck_error: " + msg)
			continue
		}
		cf.Count("typechecked")
		plan = withPolicy(plan, policy)
		inCoq, serr := coqPlan(plan)
		j := &job{query: query, db: db, feat: feat}
		if serr != nil {
			cf.Count("outside_model_fragment_" + serr.Error())
			js["outside_model_fragment"] = serr.Error()
			j.idx = cf.Add(`("CliOnly"%string, PTvf (mkS [] (-1)) ""%string [], ObsPanic)`, js, false)
			opt, p := applyOptimize(plan)
			if p == nil {
				j.keyFired = countJoinKeys(opt) > countJoinKeys(plan)
			}
			jobs = append(jobs, j)
			continue
		}
		cf.Count("inside_model_fragment")
		pname := fmt.Sprintf("plan_%d", qi)
		cf.Preamble = append(cf.Preamble, fmt.Sprintf("Definition %s : plan := %s.", pname, inCoq))
		js["plan"] = showPlan(plan)
		first := -1
		for _, name := range append(append([]string{}, rules...), "Optimize") {
			var out physical.Node
			var changed bool
			var p interface{}
			if name == "Optimize" {
				out, p = applyOptimize(plan)
				if p == nil {
					o, _ := coqPlan(out)
					changed = o != inCoq
					j.keyFired = countJoinKeys(out) > countJoinKeys(plan)
				}
			} else {
				out, changed, p = applyRule(goRules[name], plan)
			}
			cjs := map[string]interface{}{"query": query, "db": filepath.Base(db.dir), "datasource_policy": policy, "rule": name, "input": showPlan(plan)}
			obs := "ObsPanic"
			if p != nil {
				cjs["observed"] = fmt.Sprintf("panic: %v", p)
				cf.Count("go_panic_" + name)
			} else {
				o, oerr := coqPlan(out)
				if oerr != nil {
					return fmt.Errorf("rule %s produced a plan outside the fragment from a plan inside it: %v", name, oerr)
				}
				obs = fmt.Sprintf("ObsOk %s %s", o, lib.CoqBool(changed))
				cjs["observed"] = showPlan(out)
				cjs["changed"] = changed
				if changed {
					cf.Count("changed_" + name)
				}
			}
			idx := cf.Add(fmt.Sprintf("(\"%s\"%%string, %s, %s)", name, pname, obs), cjs, changed)
			if first < 0 {
				first = idx
			}
			if name == "Optimize" {
				j.idx = idx
				if p != nil {
					cf.Violation(idx, fmt.Sprintf("optimizer.Optimize panicked: %v", p), "")
				}
			}
		}
		// (1b) the rules on the intermediate plans of the Optimize loop (two rounds): RemoveUnusedGroupByNonKeyFields
		// only fires once RemoveUnusedMapFields has pruned the map above the group-by.  Kept when the Go rule fires.
		cur, curCoq := plan, inCoq
		step := 0
	rounds:
		for round := 0; round < 2; round++ {
			for _, name := range rules {
				out, changed, p := applyRule(goRules[name], cur)
				if p != nil {
					break rounds
				}
				if !changed {
					continue
				}
				o, oerr := coqPlan(out)
				if oerr != nil {
					break rounds
				}
				if curCoq != inCoq {
					step++
					iname := fmt.Sprintf("%s_i%d", pname, step)
					cf.Preamble = append(cf.Preamble, fmt.Sprintf("Definition %s : plan := %s.", iname, curCoq))
					cf.Count("intermediate_changed_" + name)
					cf.Add(fmt.Sprintf("(\"%s\"%%string, %s, ObsOk %s true)", name, iname, o),
						map[string]interface{}{"query": query, "db": filepath.Base(db.dir), "datasource_policy": policy, "rule": name, "intermediate_plan": true, "input": showPlan(cur), "observed": showPlan(out), "changed": true}, true)
				}
				cur, curCoq = out, o
			}
		}
		jobs = append(jobs, j)
	}
	os.Chdir(cwd)

	// (3) end to end
	var wg sync.WaitGroup
	ch := make(chan *job)
	for w := 0; w < 8; w++ {
		wg.Add(1)
		go func() {
			defer wg.Done()
			for j := range ch {
				j.opt = runCLI(bin, home, j.db.dir, j.query, true)
				j.raw = runCLI(bin, home, j.db.dir, j.query, false)
			}
		}()
	}
	for _, j := range jobs {
		ch <- j
	}
	close(ch)
	wg.Wait()
	for _, j := range jobs {
		cf.Count("cli_compared")
		class := ""
		if j.feat["agg_over_outer_join"] {
			// SUM/MAX over a column an outer join may pad with NULL fails at run time (type assertion); when the
			// optimizer prunes that aggregate as unused only the unoptimized query fails (findings/C04.txt)
			class = "agg-over-outer-join"
			cf.SetClass(j.idx, class)
			cf.Count("class_agg-over-outer-join")
		}
		describe := func(what string) string {
			return fmt.Sprintf("%s; query: %s; db: %s; optimized: %d rows %v; unoptimized: %d rows %v; stderr(opt): %s; stderr(raw): %s",
				what, j.query, filepath.Base(j.db.dir), len(j.opt.rows), head(j.opt.rows), len(j.raw.rows), head(j.raw.rows), firstLine(j.opt.stderr), firstLine(j.raw.stderr))
		}
		switch {
		case j.opt.timeout || j.raw.timeout:
			cf.Violation(j.idx, describe("the CLI did not finish within 20 s"), "")
		case j.opt.crashed || j.raw.crashed:
			cf.Count("cli_crash")
			cf.Violation(j.idx, describe(fmt.Sprintf("the CLI crashed (optimized: %v, unoptimized: %v)", j.opt.crashed, j.raw.crashed)), "")
		case j.opt.failed != j.raw.failed:
			cf.Violation(j.idx, describe("the query fails in one mode only"), class)
		case j.opt.failed && j.raw.failed:
			cf.Count("cli_error_in_both_modes")
		case !sameRows(j.opt.rows, j.raw.rows):
			cf.Count("cli_rows_differ")
			cf.Violation(j.idx, describe("--optimize=true and --optimize=false return different bags of rows"), class)
		default:
			cf.Count("cli_rows_equal")
			if len(j.opt.rows) > 4 {
				cf.Count("cli_rows_equal_nonempty")
			}
		}
	}
	os.RemoveAll(filepath.Join(work, "octosql"))
	return cf.Write(f.Out)
}

func head(rows []string) []string {
	if len(rows) > 4 {
		return rows[:4]
	}
	return rows
}

func firstLine(s string) string {
	if i := strings.Index(s, "\n"); i >= 0 {
		s = s[:i]
	}
	if len(s) > 200 {
		s = s[:200]
	}
	return s
}
