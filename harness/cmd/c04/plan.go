package main

import (
	"context"
	"fmt"
	"sort"
	"strings"

	"github.com/cube2222/octosql/aggregates"
	"github.com/cube2222/octosql/config"
	"github.com/cube2222/octosql/datasources/csv"
	"github.com/cube2222/octosql/datasources/json"
	"github.com/cube2222/octosql/datasources/parquet"
	"github.com/cube2222/octosql/execution"
	"github.com/cube2222/octosql/functions"
	"github.com/cube2222/octosql/logical"
	"github.com/cube2222/octosql/parser"
	"github.com/cube2222/octosql/parser/sqlparser"
	"github.com/cube2222/octosql/physical"
	"github.com/cube2222/octosql/table_valued_functions"

	"verifharness/lib"
)

// ---- the real front end: parser + typechecker, as cmd/root.go wires them ----

func physEnv() physical.Environment {
	fileHandlers := map[string]func(ctx context.Context, name string, options map[string]string) (physical.DatasourceImplementation, physical.Schema, error){
		"csv":  csv.Creator(','),
		"json": json.Creator,
		"parquet": parquet.Creator,
	}
	return physical.Environment{
		Aggregates: aggregates.Aggregates,
		Functions:  functions.FunctionMap(),
		Datasources: &physical.DatasourceRepository{
			Databases:    map[string]func() (physical.Database, error){},
			FileHandlers: fileHandlers,
		},
	}
}

// typecheck runs sqlparser.Parse, parser.ParseNode and Typecheck; a typecheck panic is an ordinary error (as in cmd/root.go).
func typecheck(query string) (plan physical.Node, err error) {
	defer func() {
		if r := recover(); r != nil {
			err = fmt.Errorf("typecheck error: %v", r)
		}
	}()
	statement, err := sqlparser.Parse(query)
	if err != nil {
		return physical.Node{}, fmt.Errorf("parse: %w", err)
	}
	selectStmt, ok := statement.(sqlparser.SelectStatement)
	if !ok {
		return physical.Node{}, fmt.Errorf("not a select")
	}
	logicalPlan, _, err := parser.ParseNode(selectStmt)
	if err != nil {
		return physical.Node{}, fmt.Errorf("parse node: %w", err)
	}
	tvfs := map[string]logical.TableValuedFunctionDescription{
		"max_diff_watermark": table_valued_functions.MaxDiffWatermark,
		"tumble":             table_valued_functions.Tumble,
		"range":              table_valued_functions.Range,
		"poll":               table_valued_functions.Poll,
	}
	ctx := config.ContextWithConfig(context.Background(), &config.Config{})
	node, _ := logicalPlan.Typecheck(ctx, physEnv(), logical.Environment{
		CommonTableExpressions: map[string]logical.CommonTableExpression{},
		TableValuedFunctions:   tvfs,
		UniqueNameGenerator:    map[string]int{},
	})
	return node, nil
}

// ---- a datasource whose push-down behaviour is chosen by the harness (the built-in file sources reject everything,
// which would leave PushDownFilterPredicatesToDatasource untested) ----

type fakeDS struct {
	policy int // 0 rejects all; 1 accepts all; 2 accepts  <variable> = <constant>
	inner  physical.DatasourceImplementation
}

func (f *fakeDS) Materialize(ctx context.Context, env physical.Environment, schema physical.Schema, pushedDownPredicates []physical.Expression) (execution.Node, error) {
	return f.inner.Materialize(ctx, env, schema, nil)
}

func accepts(policy int, e physical.Expression) bool {
	switch policy {
	case 1:
		return true
	case 2:
		return e.ExpressionType == physical.ExpressionTypeFunctionCall && e.FunctionCall.Name == "=" && len(e.FunctionCall.Arguments) == 2 &&
			e.FunctionCall.Arguments[0].ExpressionType == physical.ExpressionTypeVariable &&
			e.FunctionCall.Arguments[1].ExpressionType == physical.ExpressionTypeConstant
	}
	return false
}

func (f *fakeDS) PushDownPredicates(newPredicates, pushedDownPredicates []physical.Expression) (rejected, pushedDown []physical.Expression, changed bool) {
	pushedDown = append(pushedDown, pushedDownPredicates...)
	for _, p := range newPredicates {
		if accepts(f.policy, p) {
			pushedDown = append(pushedDown, p)
			changed = true
		} else {
			rejected = append(rejected, p)
		}
	}
	return rejected, pushedDown, changed
}

func withPolicy(n physical.Node, policy int) physical.Node {
	t := physical.Transformers{NodeTransformer: func(n physical.Node) physical.Node {
		if n.NodeType == physical.NodeTypeDatasource {
			n.Datasource.DatasourceImplementation = &fakeDS{policy: policy, inner: n.Datasource.DatasourceImplementation}
		}
		return n
	}}
	return t.TransformNode(n)
}

// ---- serialisation of physical.Node into the model's [plan] (Model/Plan.v) ----

type outside struct{ why string }

func (o outside) Error() string { return o.why }

func coqName(s string) (string, error) {
	for i := 0; i < len(s); i++ {
		c := s[i]
		if c == '"' || c < 32 || c > 126 {
			return "", outside{"name-with-special-character"}
		}
	}
	return "\"" + s + "\"", nil
}

func coqExprs(es []physical.Expression) (string, error) {
	parts := make([]string, len(es))
	for i := range es {
		s, err := coqExpr(es[i])
		if err != nil {
			return "", err
		}
		parts[i] = s
	}
	return lib.CoqList(parts), nil
}

func coqExpr(e physical.Expression) (string, error) {
	switch e.ExpressionType {
	case physical.ExpressionTypeVariable:
		n, err := coqName(e.Variable.Name)
		if err != nil {
			return "", err
		}
		return fmt.Sprintf("(EVar %s %s)", n, lib.CoqBool(e.Variable.IsLevel0)), nil
	case physical.ExpressionTypeConstant:
		return "(EConst " + lib.CoqValue(e.Constant.Value) + ")", nil
	case physical.ExpressionTypeFunctionCall:
		n, err := coqName(e.FunctionCall.Name)
		if err != nil {
			return "", err
		}
		a, err := coqExprs(e.FunctionCall.Arguments)
		if err != nil {
			return "", err
		}
		return fmt.Sprintf("(ECall %s %s)", n, a), nil
	case physical.ExpressionTypeAnd:
		a, err := coqExprs(e.And.Arguments)
		return "(EAnd " + a + ")", err
	case physical.ExpressionTypeOr:
		a, err := coqExprs(e.Or.Arguments)
		return "(EOr " + a + ")", err
	case physical.ExpressionTypeTypeAssertion:
		a, err := coqExpr(e.TypeAssertion.Expression)
		if err != nil {
			return "", err
		}
		n, err := coqName(e.TypeAssertion.TargetType.String())
		return fmt.Sprintf("(EAssert %s %s)", n, a), err
	case physical.ExpressionTypeTypeCast:
		a, err := coqExpr(e.TypeCast.Expression)
		return fmt.Sprintf("(ECast %d %s)", int(e.TypeCast.TargetTypeID), a), err
	case physical.ExpressionTypeCoalesce:
		a, err := coqExprs(e.Coalesce.Arguments)
		return "(EOther 6 \"\" " + a + ")", err
	case physical.ExpressionTypeTuple:
		a, err := coqExprs(e.Tuple.Arguments)
		return "(EOther 7 \"\" " + a + ")", err
	case physical.ExpressionTypeObjectFieldAccess:
		a, err := coqExpr(e.ObjectFieldAccess.Object)
		if err != nil {
			return "", err
		}
		n, err := coqName(e.ObjectFieldAccess.Field)
		return fmt.Sprintf("(EOther 10 %s [%s])", n, a), err
	case physical.ExpressionTypeQueryExpression:
		return "", outside{"query-expression"}
	}
	return "", outside{"unknown-expression-type"}
}

func coqSchema(s physical.Schema) (string, error) {
	parts := make([]string, len(s.Fields))
	for i := range s.Fields {
		n, err := coqName(s.Fields[i].Name)
		if err != nil {
			return "", err
		}
		parts[i] = n
	}
	return fmt.Sprintf("(mkS %s %s)", lib.CoqList(parts), lib.Z(int64(s.TimeField))), nil
}

func coqPlan(n physical.Node) (string, error) {
	s, err := coqSchema(n.Schema)
	if err != nil {
		return "", err
	}
	switch n.NodeType {
	case physical.NodeTypeDatasource:
		d := n.Datasource
		name, err := coqName(d.Name)
		if err != nil {
			return "", err
		}
		alias, err := coqName(d.Alias)
		if err != nil {
			return "", err
		}
		keys := make([]string, 0, len(d.VariableMapping))
		for k := range d.VariableMapping {
			keys = append(keys, k)
		}
		sort.Strings(keys)
		pairs := make([]string, len(keys))
		for i, k := range keys {
			a, err := coqName(k)
			if err != nil {
				return "", err
			}
			b, err := coqName(d.VariableMapping[k])
			if err != nil {
				return "", err
			}
			pairs[i] = "(" + a + ", " + b + ")"
		}
		policy := 0
		if f, ok := d.DatasourceImplementation.(*fakeDS); ok {
			policy = f.policy
		}
		preds, err := coqExprs(d.Predicates)
		if err != nil {
			return "", err
		}
		return fmt.Sprintf("(PDatasource %s %s %s %s %d %s)", s, name, alias, lib.CoqList(pairs), policy, preds), nil
	case physical.NodeTypeDistinct:
		src, err := coqPlan(n.Distinct.Source)
		return fmt.Sprintf("(PDistinct %s %s)", s, src), err
	case physical.NodeTypeFilter:
		p, err := coqExpr(n.Filter.Predicate)
		if err != nil {
			return "", err
		}
		src, err := coqPlan(n.Filter.Source)
		return fmt.Sprintf("(PFilter %s %s %s)", s, p, src), err
	case physical.NodeTypeGroupBy:
		g := n.GroupBy
		keys, err := coqExprs(g.Key)
		if err != nil {
			return "", err
		}
		aggs := make([]string, len(g.Aggregates))
		for i := range g.Aggregates {
			a, err := coqName(g.Aggregates[i].Name)
			if err != nil {
				return "", err
			}
			aggs[i] = a
		}
		args, err := coqExprs(g.AggregateExpressions)
		if err != nil {
			return "", err
		}
		src, err := coqPlan(g.Source)
		return fmt.Sprintf("(PGroupBy %s %s %s %s %s %d %s)", s, keys, lib.CoqList(aggs), args, lib.Z(int64(g.KeyEventTimeIndex)), int(g.Trigger.TriggerType), src), err
	case physical.NodeTypeStreamJoin:
		j := n.StreamJoin
		lk, err := coqExprs(j.LeftKey)
		if err != nil {
			return "", err
		}
		rk, err := coqExprs(j.RightKey)
		if err != nil {
			return "", err
		}
		l, err := coqPlan(j.Left)
		if err != nil {
			return "", err
		}
		r, err := coqPlan(j.Right)
		return fmt.Sprintf("(PStreamJoin %s %s %s %s %s)", s, lk, rk, l, r), err
	case physical.NodeTypeLookupJoin:
		l, err := coqPlan(n.LookupJoin.Source)
		if err != nil {
			return "", err
		}
		r, err := coqPlan(n.LookupJoin.Joined)
		return fmt.Sprintf("(PLookupJoin %s %s %s)", s, l, r), err
	case physical.NodeTypeMap:
		es, err := coqExprs(n.Map.Expressions)
		if err != nil {
			return "", err
		}
		src, err := coqPlan(n.Map.Source)
		return fmt.Sprintf("(PMap %s %s %s)", s, es, src), err
	case physical.NodeTypeUnnest:
		f, err := coqName(n.Unnest.Field)
		if err != nil {
			return "", err
		}
		src, err := coqPlan(n.Unnest.Source)
		return fmt.Sprintf("(PUnnest %s %s %s)", s, f, src), err
	case physical.NodeTypeOrderSensitiveTransform:
		o := n.OrderSensitiveTransform
		keys, err := coqExprs(o.OrderByKey)
		if err != nil {
			return "", err
		}
		dirs := make([]string, len(o.OrderByDirectionMultipliers))
		for i, d := range o.OrderByDirectionMultipliers {
			dirs[i] = lib.Z(int64(d))
		}
		limit := "None"
		if o.Limit != nil {
			l, err := coqExpr(*o.Limit)
			if err != nil {
				return "", err
			}
			limit = "(Some " + l + ")"
		}
		src, err := coqPlan(o.Source)
		return fmt.Sprintf("(POst %s %s %s %s %s)", s, keys, lib.CoqList(dirs), limit, src), err
	case physical.NodeTypeTableValuedFunction:
		t := n.TableValuedFunction
		name, err := coqName(t.Name)
		if err != nil {
			return "", err
		}
		keys := make([]string, 0, len(t.Arguments))
		for k := range t.Arguments {
			keys = append(keys, k)
		}
		sort.Strings(keys)
		var args []string
		tableName, tablePlan := "", ""
		for _, k := range keys {
			a := t.Arguments[k]
			kn, err := coqName(k)
			if err != nil {
				return "", err
			}
			switch a.TableValuedFunctionArgumentType {
			case physical.TableValuedFunctionArgumentTypeExpression:
				e, err := coqExpr(a.Expression.Expression)
				if err != nil {
					return "", err
				}
				args = append(args, fmt.Sprintf("(%s, TAExpr %s)", kn, e))
			case physical.TableValuedFunctionArgumentTypeDescriptor:
				d, err := coqName(a.Descriptor.Descriptor)
				if err != nil {
					return "", err
				}
				args = append(args, fmt.Sprintf("(%s, TADesc %s)", kn, d))
			case physical.TableValuedFunctionArgumentTypeTable:
				if tablePlan != "" {
					return "", outside{"tvf-with-two-table-arguments"}
				}
				src, err := coqPlan(a.Table.Table)
				if err != nil {
					return "", err
				}
				tableName, tablePlan = kn, src
			default:
				return "", outside{"tvf-unknown-argument"}
			}
		}
		if tablePlan != "" {
			return fmt.Sprintf("(PTvfT %s %s %s %s %s)", s, name, tableName, lib.CoqList(args), tablePlan), nil
		}
		return fmt.Sprintf("(PTvf %s %s %s)", s, name, lib.CoqList(args)), nil
	case physical.NodeTypeOuterJoin:
		return "", outside{"outer-join"}
	case physical.NodeTypeInMemoryRecords:
		return "", outside{"in-memory-records"}
	}
	return "", outside{"unknown-node-type"}
}

// pretty prints a plan for cases.json (readable, one line)
func showPlan(n physical.Node) string {
	s, err := coqPlan(n)
	if err != nil {
		return "<outside the modelled fragment: " + err.Error() + ">"
	}
	return strings.ReplaceAll(s, "\"", "'")
}
