// c04: query optimization never changes results.
//   gen  : translator — defaultOptimizationRules of optimizer/optimize.go -> coq/Gen/GenOptimizer.v
//   run  : (1) every exported rule and (2) optimizer.Optimize on typechecked plans of generated queries, for the
//          model to reproduce; (3) the built CLI with --optimize=true vs --optimize=false on generated inputs.
package main

import (
	"fmt"
	"os"

	"verifharness/lib"
)

func main() {
	if len(os.Args) >= 2 && os.Args[1] == "dump" {
		// dump <dir> <query>...   (exploration aid: print the typechecked and the optimized plan)
		if err := os.Chdir(os.Args[2]); err != nil {
			panic(err)
		}
		for _, q := range os.Args[3:] {
			dumpQuery(q)
		}
		return
	}
	f := lib.ParseFlags()
	switch f.Cmd {
	case "gen":
		if err := genRules(f.Out); err != nil {
			fmt.Fprintln(os.Stderr, "c04 gen:", err)
			os.Exit(2)
		}
	case "run":
		if err := runCases(f); err != nil {
			fmt.Fprintln(os.Stderr, "c04 run:", err)
			os.Exit(2)
		}
	default:
		fmt.Fprintln(os.Stderr, "c04: gen | run")
		os.Exit(2)
	}
}
