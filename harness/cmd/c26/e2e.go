package main

// End to end: the CLI built from the tree under check queries a table served by harness/cmd/c26/testplugin (installed
// into a scratch OCTOSQL_PLUGIN_DIR; every predicate is pushed down, crosses the JSON transport and is applied by the
// plugin; rows come back as proto records over gRPC) and the same data as a JSON file; the result rows must agree.

import (
	"bytes"
	"encoding/json"
	"fmt"
	"os"
	"os/exec"
	"path/filepath"
	"sort"
	"strings"
	"time"

	"github.com/cube2222/octosql/octosql"
	"github.com/cube2222/octosql/physical"

	"verifharness/lib"
)

func goBuild(dir, out string, args ...string) error {
	cmd := exec.Command("go", append(append([]string{"build"}, args...), "-o", out, ".")...)
	cmd.Dir = dir
	cmd.Env = append(os.Environ(), "GOFLAGS=-mod=mod", "GOPROXY=off", "GOSUMDB=off", "GOTOOLCHAIN=local", "CGO_ENABLED=0")
	if b, err := cmd.CombinedOutput(); err != nil {
		return fmt.Errorf("go build in %s: %v\n%s", dir, err, b)
	}
	return nil
}

type e2eTable struct {
	Fields    []physical.SchemaField
	TimeField int
	Rows      [][]octosql.Value
}

var e2eStrings = []string{"a", "ab", "AB", "b", "abc", "", "é"}
var e2eFloats = []float64{0.5, 1.5, 2.25, -1.5}

// genE2ETable draws a table and the same data as a native file. kind "csv": typed columns a Int, s String, f Float,
// ok Boolean, n Int|NULL (what the CSV source infers). kind "json": the JSON source reads every number as Float, so the
// plugin declares a and n as Float / Float|NULL there.
func genE2ETable(r *lib.Rng, kind string) (e2eTable, []string) {
	num, mk := octosql.Int, func(k int64) octosql.Value { return octosql.NewInt(k) }
	if kind == "json" {
		num, mk = octosql.Float, func(k int64) octosql.Value { return octosql.NewFloat(float64(k)) }
	}
	t := e2eTable{TimeField: -1, Fields: []physical.SchemaField{
		{Name: "a", Type: num}, {Name: "s", Type: octosql.String}, {Name: "f", Type: octosql.Float},
		{Name: "ok", Type: octosql.Boolean}, {Name: "n", Type: octosql.TypeSum(num, octosql.Null)}}}
	var lines []string
	if kind == "csv" {
		lines = append(lines, "a,s,f,ok,n")
	}
	n := 6 + r.Intn(6)
	for i := 0; i < n; i++ {
		a := int64(r.Intn(5)) - 1
		s := e2eStrings[r.Intn(len(e2eStrings))]
		if kind == "csv" && s == "" {
			s = "x" // an empty CSV cell is NULL
		}
		fl := e2eFloats[r.Intn(len(e2eFloats))]
		ok := r.Bool()
		nv, njs, ncsv := octosql.NewNull(), "null", ""
		if i == 0 || r.Chance(2, 3) {
			k := int64(r.Intn(3))
			nv, njs, ncsv = mk(k), fmt.Sprint(k), fmt.Sprint(k)
		}
		if i == 1 {
			nv, njs, ncsv = octosql.NewNull(), "null", ""
		}
		t.Rows = append(t.Rows, []octosql.Value{mk(a), octosql.NewString(s), octosql.NewFloat(fl), octosql.NewBoolean(ok), nv})
		if kind == "csv" {
			lines = append(lines, fmt.Sprintf("%d,%s,%v,%v,%s", a, s, fl, ok, ncsv))
		} else {
			sj, _ := json.Marshal(s)
			lines = append(lines, fmt.Sprintf(`{"a": %d, "s": %s, "f": %v, "ok": %v, "n": %s}`, a, sj, fl, ok, njs))
		}
	}
	return t, lines
}

func genAtom(r *lib.Rng) string {
	k := r.Intn(4)
	switch r.Intn(16) {
	case 0:
		return fmt.Sprintf("t.a IN (%d, %d, %d)", k-1, k, k+2)
	case 1:
		return fmt.Sprintf("t.a NOT IN (%d, %d)", k-1, k)
	case 2:
		return fmt.Sprintf("t.s IN ('%s', '%s')", e2eStrings[r.Intn(5)], e2eStrings[r.Intn(5)])
	case 3:
		return fmt.Sprintf("t.s NOT IN ('%s', '%s')", e2eStrings[r.Intn(5)], e2eStrings[r.Intn(5)])
	case 4:
		return fmt.Sprintf("t.a %s %d", []string{"<", "<=", ">", ">=", "=", "!="}[r.Intn(6)], k)
	case 5:
		return fmt.Sprintf("t.a + 1 %s %d", []string{"<", ">=", "="}[r.Intn(3)], k)
	case 6:
		return fmt.Sprintf("t.a * 2 > %d", k)
	case 7:
		return fmt.Sprintf("len(t.s) %s %d", []string{"<", ">", "="}[r.Intn(3)], k)
	case 8:
		return fmt.Sprintf("t.s LIKE '%s'", []string{"a%", "%b", "_b%", "%"}[r.Intn(4)])
	case 9:
		return fmt.Sprintf("upper(t.s) = '%s'", []string{"AB", "A", "ABC"}[r.Intn(3)])
	case 10:
		return []string{"t.n IS NULL", "t.n IS NOT NULL"}[r.Intn(2)]
	case 11:
		return []string{"t.ok = true", "NOT t.ok", "t.ok"}[r.Intn(3)]
	case 12:
		return fmt.Sprintf("t.f %s %d.0", []string{"<", ">"}[r.Intn(2)], k)
	case 13:
		return fmt.Sprintf("abs(t.a) = %d", k)
	case 14:
		return fmt.Sprintf("t.n IN (%d, %d)", k, k+1)
	default:
		return fmt.Sprintf("t.a - 1 < %d", k)
	}
}

func genPredicate(r *lib.Rng) string {
	switch r.Intn(4) {
	case 0:
		return genAtom(r) + " AND " + genAtom(r)
	case 1:
		return "(" + genAtom(r) + " OR " + genAtom(r) + ")"
	default:
		return genAtom(r)
	}
}

type cliResult struct {
	Exit int
	Rows []string
	Err  string
}

func runCLI(bin string, env []string, query string) cliResult {
	cmd := exec.Command(bin, query, "-o", "json")
	cmd.Env = env
	var out, errb bytes.Buffer
	cmd.Stdout, cmd.Stderr = &out, &errb
	done := make(chan error, 1)
	if err := cmd.Start(); err != nil {
		return cliResult{Exit: -1, Err: err.Error()}
	}
	go func() { done <- cmd.Wait() }()
	select {
	case err := <-done:
		res := cliResult{}
		if err != nil {
			res.Exit = 1
			if ee, ok := err.(*exec.ExitError); ok {
				res.Exit = ee.ExitCode()
			}
			res.Err = strings.TrimSpace(errb.String())
			if len(res.Err) > 600 {
				res.Err = res.Err[len(res.Err)-600:]
			}
		}
		for _, l := range strings.Split(out.String(), "\n") {
			l = strings.TrimSpace(l)
			if l == "" {
				continue
			}
			var m map[string]interface{}
			if json.Unmarshal([]byte(l), &m) == nil {
				b, _ := json.Marshal(m) // canonical key order
				l = string(b)
			}
			res.Rows = append(res.Rows, l)
		}
		sort.Strings(res.Rows)
		return res
	case <-time.After(60 * time.Second):
		cmd.Process.Kill()
		return cliResult{Exit: -2, Err: "timeout"}
	}
}

func e2eCases(cf *lib.CaseFile, rng *lib.Rng, f lib.Flags) {
	if os.Getenv("VERIF_C26_NO_E2E") != "" {
		cf.Side.Notes = append(cf.Side.Notes, "end-to-end part skipped (VERIF_C26_NO_E2E)")
		return
	}
	verif := os.Getenv("VERIF_DIR")
	if verif == "" {
		verif = "/verif"
	}
	binDir := filepath.Join(verif, ".build", "C26", "bin")
	os.MkdirAll(binDir, 0o755)
	cli, plug := filepath.Join(binDir, "octosql"), filepath.Join(binDir, "octosql-plugin-vt")
	fail := func(what string) {
		idx := cf.Add("KQuery false", map[string]interface{}{"kind": "e2e_setup", "error": what}, false)
		cf.Violation(idx, "end-to-end setup failed: "+what, "")
	}
	if err := goBuild(repoDir(), cli); err != nil {
		fail(err.Error())
		return
	}
	if err := goBuild(filepath.Join(verif, "harness", "cmd", "c26", "testplugin"), plug, "-modfile="+filepath.Join(verif, ".build", "C26", "go.mod")); err != nil {
		fail(err.Error())
		return
	}
	home, err := os.MkdirTemp("", "c26e")
	if err != nil {
		fail(err.Error())
		return
	}
	defer os.RemoveAll(home)
	inst := filepath.Join(home, "p", "core", "octosql-plugin-vt", "0.1.0")
	os.MkdirAll(inst, 0o755)
	if err := os.Symlink(plug, filepath.Join(inst, "octosql-plugin-vt")); err != nil {
		fail(err.Error())
		return
	}
	dataPath := filepath.Join(home, "data.json")
	env := append(os.Environ(), "HOME="+home, "XDG_CONFIG_HOME="+filepath.Join(home, "cfg"), "XDG_CACHE_HOME="+filepath.Join(home, "cache"), "XDG_DATA_HOME="+filepath.Join(home, "data"),
		"OCTOSQL_NO_TELEMETRY=1", "OCTOSQL_PLUGIN_DIR="+filepath.Join(home, "p"), "OCTOSQL_PLUGIN_TMP_DIR="+filepath.Join(home, "s"), "VERIF_C26_DATA="+dataPath)

	n := f.Cases(21, 126)
	var table e2eTable
	var lines []string
	kind := "csv"
	for i := 0; i < n; i++ {
		r := rng.Fork()
		if i%7 == 0 {
			kind = "csv"
			if i%21 == 14 {
				kind = "json"
			}
			table, lines = genE2ETable(r, kind)
			b, _ := json.Marshal(map[string]interface{}{"Tables": map[string]e2eTable{"t": table}})
			os.WriteFile(dataPath, b, 0o644)
			os.WriteFile(filepath.Join(home, "t."+kind), []byte(strings.Join(lines, "\n")+"\n"), 0o644)
		}
		pred := genPredicate(r)
		if i%7 == 0 {
			pred = "t.a IN (0, 1, 2)" // the tuple variant of "in" at least once per table
		} else if i%7 == 1 {
			pred = "t.s NOT IN ('a', 'ab')"
		}
		qPlugin := "SELECT t.a, t.s, t.f, t.ok, t.n FROM vt.t t WHERE " + pred
		qNative := "SELECT t.a, t.s, t.f, t.ok, t.n FROM " + filepath.Join(home, "t."+kind) + " t WHERE " + pred
		pr, nr := runCLI(cli, env, qPlugin), runCLI(cli, env, qNative)
		same := pr.Exit == nr.Exit && strings.Join(pr.Rows, "\n") == strings.Join(nr.Rows, "\n")
		idx := cf.Add("KQuery "+lib.CoqBool(same), map[string]interface{}{"kind": "e2e_query", "native_source": kind, "predicate": pred, "table": lines,
			"plugin": pr, "native": nr}, len(nr.Rows) > 0 && len(nr.Rows) < len(lines))
		_ = idx
		cf.Count("e2e_query_vs_" + kind)
		if nr.Exit != 0 {
			cf.Count("e2e_native_query_failed")
		}
	}
}
