package main

// End to end: the CLI built from the tree under check queries a table served by harness/cmd/c26/testplugin (installed
// into a scratch OCTOSQL_PLUGIN_DIR; every predicate is pushed down, crosses the JSON transport and is applied by the
// plugin; rows come back as proto records over gRPC) and the same data as a JSON file; the result rows must agree.

import (
	"bytes"
	"encoding/json"
	"fmt"
	"os"
	"os/exec"
	"path/filepath"
	"sort"
	"strings"
	"time"

	"github.com/cube2222/octosql/octosql"
	"github.com/cube2222/octosql/physical"

	"verifharness/lib"
)

func goBuild(dir, out string, args ...string) error {
	cmd := exec.Command("go", append(append([]string{"build"}, args...), "-o", out, ".")...)
	cmd.Dir = dir
	cmd.Env = append(os.Environ(), "GOFLAGS=-mod=mod", "GOPROXY=off", "GOSUMDB=off", "GOTOOLCHAIN=local", "CGO_ENABLED=0")
	if b, err := cmd.CombinedOutput(); err != nil {
		return fmt.Errorf("go build in %s: %v\n%s", dir, err, b)
	}
	return nil
}

type e2eTable struct {
	Fields    []physical.SchemaField
	TimeField int
	Rows      [][]octosql.Value
}

var e2eStrings = []string{"a", "ab", "AB", "b", "abc", "", "é"}
var e2eFloats = []float64{0.5, 1.5, 2.25, -1.5}

// genE2ETable draws a table and the same data as a native file. kind "csv": typed columns a Int, s String, f Float,
// ok Boolean, n Int|NULL (what the CSV source infers). kind "json": the JSON source reads every number as Float, so the
// plugin declares a and n as Float / Float|NULL there.
func genE2ETable(r *lib.Rng, kind string) (e2eTable, []string) {
	num, mk := octosql.Int, func(k int64) octosql.Value { return octosql.NewInt(k) }
	if kind == "json" {
		num, mk = octosql.Float, func(k int64) octosql.Value { return octosql.NewFloat(float64(k)) }
	}
	t := e2eTable{TimeField: -1, Fields: []physical.SchemaField{
		{Name: "a", Type: num}, {Name: "s", Type: octosql.String}, {Name: "f", Type: octosql.Float},
		{Name: "ok", Type: octosql.Boolean}, {Name: "n", Type: octosql.TypeSum(num, octosql.Null)}}}
	var lines []string
	if kind == "csv" {
		lines = append(lines, "a,s,f,ok,n")
	}
	n := 6 + r.Intn(6)
	for i := 0; i < n; i++ {
		a := int64(r.Intn(5)) - 1
		s := e2eStrings[r.Intn(len(e2eStrings))]
		if kind == "csv" && s == "" {
			s = "x" // an empty CSV cell is NULL
		}
		fl := e2eFloats[r.Intn(len(e2eFloats))]
		ok := r.Bool()
		nv, njs, ncsv := octosql.NewNull(), "null", ""
		if i == 0 || r.Chance(2, 3) {
			k := int64(r.Intn(3))
			nv, njs, ncsv = mk(k), fmt.Sprint(k), fmt.Sprint(k)
		}
		if i == 1 {
			nv, njs, ncsv = octosql.NewNull(), "null", ""
		}
		t.Rows = append(t.Rows, []octosql.Value{mk(a), octosql.NewString(s), octosql.NewFloat(fl), octosql.NewBoolean(ok), nv})
		if kind == "csv" {
			lines = append(lines, fmt.Sprintf("%d,%s,%v,%v,%s", a, s, fl, ok, ncsv))
		} else {
			sj, _ := json.Marshal(s)
			lines = append(lines, fmt.Sprintf(`{"a": %d, "s": %s, "f": %v, "ok": %v, "n": %s}`, a, sj, fl, ok, njs))
		}
	}
	return t, lines
}

func genAtom(r *lib.Rng) string {
	k := r.Intn(4)
	switch r.Intn(16) {
	case 0:
		return fmt.Sprintf("t.a IN (%d, %d, %d)", k-1, k, k+2)
	case 1:
		return fmt.Sprintf("t.a NOT IN (%d, %d)", k-1, k)
	case 2:
		return fmt.Sprintf("t.s IN ('%s', '%s')", e2eStrings[r.Intn(5)], e2eStrings[r.Intn(5)])
	case 3:
		return fmt.Sprintf("t.s NOT IN ('%s', '%s')", e2eStrings[r.Intn(5)], e2eStrings[r.Intn(5)])
	case 4:
		return fmt.Sprintf("t.a %s %d", []string{"<", "<=", ">", ">=", "=", "!="}[r.Intn(6)], k)
	case 5:
		return fmt.Sprintf("t.a + 1 %s %d", []string{"<", ">=", "="}[r.Intn(3)], k)
	case 6:
		return fmt.Sprintf("t.a * 2 > %d", k)
	case 7:
		return fmt.Sprintf("len(t.s) %s %d", []string{"<", ">", "="}[r.Intn(3)], k)
	case 8:
		return fmt.Sprintf("t.s LIKE '%s'", []string{"a%", "%b", "_b%", "%"}[r.Intn(4)])
	case 9:
		return fmt.Sprintf("upper(t.s) = '%s'", []string{"AB", "A", "ABC"}[r.Intn(3)])
	case 10:
		return []string{"t.n IS NULL", "t.n IS NOT NULL"}[r.Intn(2)]
	case 11:
		return []string{"t.ok = true", "NOT t.ok", "t.ok"}[r.Intn(3)]
	case 12:
		return fmt.Sprintf("t.f %s %d.0", []string{"<", ">"}[r.Intn(2)], k)
	case 13:
		return fmt.Sprintf("abs(t.a) = %d", k)
	case 14:
		return fmt.Sprintf("t.n IN (%d, %d)", k, k+1)
	default:
		return fmt.Sprintf("t.a - 1 < %d", k)
	}
}

// genSubqueryAtom: a conjunct that contains a subquery over the same source (@SRC@ is replaced per side). Such a
// conjunct is not serialisable: the host keeps it (executor.PushDownPredicates' newPredicatesNotSerializable) while its
// sibling conjuncts travel to the plugin.
func genSubqueryAtom(r *lib.Rng) string {
	k := r.Intn(4)
	switch r.Intn(4) {
	case 0:
		return fmt.Sprintf("t.a IN (SELECT u.a FROM @SRC@ u WHERE u.a < %d)", k+1)
	case 1:
		return fmt.Sprintf("t.a NOT IN (SELECT u.a FROM @SRC@ u WHERE u.a >= %d)", k)
	case 2:
		return "t.s IN (SELECT u.s FROM @SRC@ u WHERE u.ok = true)"
	default:
		return fmt.Sprintf("t.a IN (SELECT u.a + 1 FROM @SRC@ u WHERE u.f > %d.0)", k-1)
	}
}

// genWrappedSubquery: a conjunct whose subquery sits below a single-child wrapper of physical.Expression — a type cast,
// a type assertion (inserted by the typechecker for an argument of union type), an object field access — always below
// the index function call. @M@ is a JSON file with a mixed-type column k, an object column o and (first row) k = 2,
// o.x = 1; @C@ a CSV file with an Int column k (first row 2). `a` is Int for the CSV-typed table, Float for the JSON one.
func genWrappedSubquery(which int, kind string) (string, string) {
	op := []string{">=", ">", "<", "!="}[which/3%4]
	if kind == "json" {
		switch which % 3 {
		case 0:
			return "t.a " + op + " (SELECT m.k FROM @M@ m)[0]::float", "subquery_under_cast"
		case 1:
			return "t.a " + op + " abs((SELECT m.k FROM @M@ m)[0])", "subquery_under_type_assertion"
		default:
			return "t.a " + op + " (SELECT m.o FROM @M@ m)[0]->x", "subquery_under_field_access"
		}
	}
	switch which % 3 {
	case 0:
		if which%2 == 0 {
			return "t.a " + op + " (SELECT c.k FROM @C@ c)[0]::int", "subquery_under_cast"
		}
		return "t.a " + op + " int((SELECT m.k FROM @M@ m)[0]::float)", "subquery_under_cast"
	case 1:
		return "t.a " + op + " int(abs((SELECT m.k FROM @M@ m)[0]))", "subquery_under_type_assertion"
	default:
		return "t.a " + op + " int((SELECT m.o FROM @M@ m)[0]->x)", "subquery_under_field_access"
	}
}

// genPredicate returns the WHERE clause and its shape (counted in the evidence).
func genPredicate(r *lib.Rng) (string, string) {
	switch r.Intn(8) {
	case 0, 1:
		return genAtom(r) + " AND " + genAtom(r), "and"
	case 2:
		return "(" + genAtom(r) + " OR " + genAtom(r) + ")", "or"
	case 3:
		return genAtom(r) + " AND " + genSubqueryAtom(r), "pushable_and_subquery"
	case 4:
		return genSubqueryAtom(r) + " AND " + genAtom(r) + " AND " + genAtom(r), "subquery_and_pushable"
	default:
		return genAtom(r), "atom"
	}
}

// ---- tables whose rows and schema depend on their options, referenced several times in one query ----

type numbersRef struct {
	Options string // "" or "k=v&k=v"
	Col     string
	Sq      bool
	Rows    []int64
}

func genNumbersRef(r *lib.Rng) numbersRef {
	ref := numbersRef{Col: "i"}
	start, step, count := int64(0), int64(1), int64(5)
	var opts []string
	if r.Chance(1, 4) {
		// no options at all: the default table
	} else {
		if r.Chance(1, 2) {
			step = []int64{2, 3, 5, -1}[r.Intn(4)]
			opts = append(opts, fmt.Sprintf("step=%d", step))
		}
		if r.Chance(1, 2) {
			count = int64(2 + r.Intn(7))
			opts = append(opts, fmt.Sprintf("count=%d", count))
		}
		if r.Chance(1, 3) {
			start = int64(r.Intn(4))
			opts = append(opts, fmt.Sprintf("start=%d", start))
		}
		if r.Chance(1, 4) {
			ref.Col = []string{"k", "num"}[r.Intn(2)]
			opts = append(opts, "name="+ref.Col)
		}
		if r.Chance(1, 4) {
			ref.Sq = true
			opts = append(opts, "sq=1")
		}
	}
	ref.Options = strings.Join(opts, "&")
	for k := int64(0); k < count; k++ {
		ref.Rows = append(ref.Rows, start+k*step)
	}
	return ref
}

func (n numbersRef) pluginName() string {
	if n.Options == "" {
		return "vt.numbers"
	}
	return "`vt.numbers?" + n.Options + "`"
}

func (n numbersRef) csv() string {
	var b strings.Builder
	b.WriteString(n.Col)
	if n.Sq {
		b.WriteString("," + n.Col + "sq")
	}
	b.WriteString("\n")
	for _, v := range n.Rows {
		fmt.Fprintf(&b, "%d", v)
		if n.Sq {
			fmt.Fprintf(&b, ",%d", v*v)
		}
		b.WriteString("\n")
	}
	return b.String()
}

// genOptionsQuery: 2..3 references to the plugin table `numbers` (same or different options, any order) in one query:
// joined, or one in the FROM clause and one inside an IN-subquery next to a pushable conjunct. Returns the query with
// @R0@.. placeholders, the references and the shape.
func genOptionsQuery(r *lib.Rng) (string, []numbersRef, string) {
	m := 2 + r.Intn(2)
	refs := make([]numbersRef, m)
	for i := range refs {
		refs[i] = genNumbersRef(r)
		if i > 0 && r.Chance(1, 5) {
			refs[i] = refs[r.Intn(i)] // the same options twice is legitimate too
		}
	}
	col := func(i int) string { return fmt.Sprintf("r%d.%s", i, refs[i].Col) }
	sel, sel01 := []string{}, []string{}
	for i := range refs {
		sel = append(sel, col(i))
		if refs[i].Sq {
			sel = append(sel, col(i)+"sq")
		}
		if i < 2 {
			sel01 = append([]string{}, sel...)
		}
	}
	switch r.Intn(3) {
	case 0:
		q := fmt.Sprintf("SELECT %s FROM @R0@ r0 JOIN @R1@ r1 ON %s = %s", strings.Join(sel, ", "), col(0), col(1))
		if m == 3 {
			q += fmt.Sprintf(" JOIN @R2@ r2 ON %s = %s", col(1), col(2))
		}
		return q, refs, "options_join"
	case 1:
		q := fmt.Sprintf("SELECT %s FROM @R0@ r0 WHERE %s >= %d AND %s IN (SELECT %s FROM @R1@ r1)", col(0), col(0), r.Intn(2), col(0), col(1))
		if m == 3 {
			q += fmt.Sprintf(" AND %s NOT IN (SELECT %s FROM @R2@ r2)", col(0), col(2))
		}
		return q, refs, "options_in_subquery"
	default:
		q := fmt.Sprintf("SELECT %s FROM @R0@ r0 JOIN @R1@ r1 ON %s = %s WHERE %s < %d", strings.Join(sel01, ", "), col(0), col(1), col(1), 2+r.Intn(20))
		if m == 3 {
			q += fmt.Sprintf(" AND %s IN (SELECT %s FROM @R2@ r2)", col(0), col(2))
		}
		return q, refs, "options_join_filter_subquery"
	}
}


type cliResult struct {
	Exit int
	Rows []string
	Err  string
}

func runCLI(bin string, env []string, query string) cliResult {
	cmd := exec.Command(bin, query, "-o", "json")
	cmd.Env = env
	var out, errb bytes.Buffer
	cmd.Stdout, cmd.Stderr = &out, &errb
	done := make(chan error, 1)
	if err := cmd.Start(); err != nil {
		return cliResult{Exit: -1, Err: err.Error()}
	}
	go func() { done <- cmd.Wait() }()
	select {
	case err := <-done:
		res := cliResult{}
		if err != nil {
			res.Exit = 1
			if ee, ok := err.(*exec.ExitError); ok {
				res.Exit = ee.ExitCode()
			}
			res.Err = strings.TrimSpace(errb.String())
			if len(res.Err) > 600 {
				res.Err = res.Err[len(res.Err)-600:]
			}
		}
		for _, l := range strings.Split(out.String(), "\n") {
			l = strings.TrimSpace(l)
			if l == "" {
				continue
			}
			var m map[string]interface{}
			if json.Unmarshal([]byte(l), &m) == nil {
				b, _ := json.Marshal(m) // canonical key order
				l = string(b)
			}
			res.Rows = append(res.Rows, l)
		}
		sort.Strings(res.Rows)
		return res
	case <-time.After(60 * time.Second):
		cmd.Process.Kill()
		return cliResult{Exit: -2, Err: "timeout"}
	}
}

// runCLIRaw: the output lines in the order they were printed
func runCLIRaw(bin string, env []string, query, format string) cliResult {
	cmd := exec.Command(bin, query, "-o", format)
	cmd.Env = env
	var out, errb bytes.Buffer
	cmd.Stdout, cmd.Stderr = &out, &errb
	if err := cmd.Start(); err != nil {
		return cliResult{Exit: -1, Err: err.Error()}
	}
	done := make(chan error, 1)
	go func() { done <- cmd.Wait() }()
	select {
	case err := <-done:
		res := cliResult{}
		if err != nil {
			res.Exit = 1
			res.Err = strings.TrimSpace(errb.String())
			if len(res.Err) > 600 {
				res.Err = res.Err[len(res.Err)-600:]
			}
		}
		for _, l := range strings.Split(out.String(), "\n") {
			if l != "" {
				res.Rows = append(res.Rows, l)
			}
		}
		return res
	case <-time.After(120 * time.Second):
		cmd.Process.Kill()
		return cliResult{Exit: -2, Err: "timeout"}
	}
}

func e2eCases(cf *lib.CaseFile, rng *lib.Rng, f lib.Flags) {
	if os.Getenv("VERIF_C26_NO_E2E") != "" {
		cf.Side.Notes = append(cf.Side.Notes, "end-to-end part skipped (VERIF_C26_NO_E2E)")
		return
	}
	verif := os.Getenv("VERIF_DIR")
	if verif == "" {
		verif = "/verif"
	}
	binDir := filepath.Join(verif, ".build", "C26", "bin")
	os.MkdirAll(binDir, 0o755)
	cli, plug := filepath.Join(binDir, "octosql"), filepath.Join(binDir, "octosql-plugin-vt")
	fail := func(what string) {
		idx := cf.Add("KQuery false", map[string]interface{}{"kind": "e2e_setup", "error": what}, false)
		cf.Violation(idx, "end-to-end setup failed: "+what, "")
	}
	if err := goBuild(repoDir(), cli); err != nil {
		fail(err.Error())
		return
	}
	if err := goBuild(filepath.Join(verif, "harness", "cmd", "c26", "testplugin"), plug, "-modfile="+filepath.Join(verif, ".build", "C26", "go.mod")); err != nil {
		fail(err.Error())
		return
	}
	home, err := os.MkdirTemp("", "c26e")
	if err != nil {
		fail(err.Error())
		return
	}
	defer os.RemoveAll(home)
	inst := filepath.Join(home, "p", "core", "octosql-plugin-vt", "0.1.0")
	os.MkdirAll(inst, 0o755)
	if err := os.Symlink(plug, filepath.Join(inst, "octosql-plugin-vt")); err != nil {
		fail(err.Error())
		return
	}
	dataPath := filepath.Join(home, "data.json")
	env := append(os.Environ(), "HOME="+home, "XDG_CONFIG_HOME="+filepath.Join(home, "cfg"), "XDG_CACHE_HOME="+filepath.Join(home, "cache"), "XDG_DATA_HOME="+filepath.Join(home, "data"),
		"OCTOSQL_NO_TELEMETRY=1", "OCTOSQL_PLUGIN_DIR="+filepath.Join(home, "p"), "OCTOSQL_PLUGIN_TMP_DIR="+filepath.Join(home, "s"), "VERIF_C26_DATA="+dataPath)

	const perTable = 9
	n := f.Cases(3*perTable, 15*perTable)
	var table e2eTable
	var lines []string
	kind := "csv"
	wrapped := int(rng.Fork().Intn(12))
	os.WriteFile(filepath.Join(home, "m.json"), []byte(`{"k": 2, "o": {"x": 1, "y": "q"}}`+"\n"+`{"k": "na", "o": {"x": 3, "y": "r"}}`+"\n"), 0o644)
	os.WriteFile(filepath.Join(home, "c.csv"), []byte("k,x\n2,1\n3,5\n"), 0o644)
	for i := 0; i < n; i++ {
		r := rng.Fork()
		if i%perTable == 0 {
			kind = "csv"
			if i%(3*perTable) == 2*perTable {
				kind = "json"
			}
			table, lines = genE2ETable(r, kind)
			b, _ := json.Marshal(map[string]interface{}{"Tables": map[string]e2eTable{"t": table}})
			os.WriteFile(dataPath, b, 0o644)
			os.WriteFile(filepath.Join(home, "t."+kind), []byte(strings.Join(lines, "\n")+"\n"), 0o644)
		}
		pred, shape := genPredicate(r)
		if i%perTable == 0 {
			pred, shape = "t.a IN (0, 1, 2)", "atom" // the tuple variant of "in" at least once per table
		} else if i%perTable == 1 {
			pred, shape = "t.s NOT IN ('a', 'ab')", "atom"
		} else if i%perTable == 2 {
			pred, shape = genAtom(r)+" AND "+genSubqueryAtom(r), "pushable_and_subquery"
		} else if k := i % perTable; k >= 3 && k <= 5 {
			// every wrapper shape once per table, alone or next to a pushable conjunct on either side
			wrapped++
			pred, shape = genWrappedSubquery(wrapped, kind)
			switch wrapped % 3 {
			case 1:
				pred = genAtom(r) + " AND " + pred
			case 2:
				pred = pred + " AND " + genAtom(r)
			}
		}
		native := filepath.Join(home, "t."+kind)
		fill := func(q, src string) string {
			q = strings.ReplaceAll(q, "@SRC@", src)
			q = strings.ReplaceAll(q, "@M@", filepath.Join(home, "m.json"))
			return strings.ReplaceAll(q, "@C@", filepath.Join(home, "c.csv"))
		}
		qPlugin := "SELECT t.a, t.s, t.f, t.ok, t.n FROM vt.t t WHERE " + fill(pred, "vt.t")
		qNative := "SELECT t.a, t.s, t.f, t.ok, t.n FROM " + native + " t WHERE " + fill(pred, native)
		pr, nr := runCLI(cli, env, qPlugin), runCLI(cli, env, qNative)
		same := pr.Exit == nr.Exit && strings.Join(pr.Rows, "\n") == strings.Join(nr.Rows, "\n")
		idx := cf.Add("KQuery "+lib.CoqBool(same), map[string]interface{}{"kind": "e2e_query", "native_source": kind, "predicate": pred, "shape": shape, "table": lines,
			"plugin": pr, "native": nr}, len(nr.Rows) > 0 && len(nr.Rows) < len(lines))
		_ = idx
		cf.Count("e2e_query_vs_" + kind)
		cf.Count("e2e_where_" + shape)
		if nr.Exit != 0 {
			cf.Count("e2e_native_query_failed")
		}
	}

	// an event-time stream: the sequence of records and watermarks printed by the host (-o stream_native, no operator in
	// between) must be the sequence the plugin's node produced. Several sizes, watermark after every 1..5 records.
	for i, m := 0, f.Cases(4, 16); i < m; i++ {
		r := rng.Fork()
		count := []int{40, 300, 1500, 4000}[i%4] + r.Intn(50)
		every := 1 + (i+r.Intn(5))%5
		q := fmt.Sprintf("SELECT e.v FROM `vt.events?count=%d&every=%d` e", count, every)
		got := runCLIRaw(cli, env, q, "stream_native")
		var want []string
		for v := 0; v < count; v++ {
			ts := time.Date(2020, 1, 1, 0, 0, 0, 0, time.UTC).Add(time.Duration(v) * time.Second)
			want = append(want, fmt.Sprintf("{+%s| %d |}", ts.Format(time.RFC3339), v))
			if (v+1)%every == 0 {
				want = append(want, fmt.Sprintf("{~%s}", ts))
			}
		}
		same := got.Exit == 0 && len(got.Rows) == len(want)
		firstDiff := -1
		for k := 0; same && k < len(want); k++ {
			if got.Rows[k] != want[k] {
				same, firstDiff = false, k
			}
		}
		js := map[string]interface{}{"kind": "e2e_stream_order", "query": q, "records": count, "watermark_every": every, "exit": got.Exit, "err": got.Err,
			"received_messages": len(got.Rows), "expected_messages": len(want)}
		if firstDiff >= 0 {
			lo, hi := firstDiff-2, firstDiff+4
			if lo < 0 {
				lo = 0
			}
			if hi > len(want) {
				hi = len(want)
			}
			js["first_difference_at"], js["expected_there"], js["received_there"] = firstDiff, want[lo:hi], got.Rows[lo:hi]
		}
		idx := cf.Add("KQuery "+lib.CoqBool(same), js, true)
		if !same {
			cf.Violation(idx, "the stream of records and watermarks received from the plugin is not the stream its node produced", "")
		}
		cf.Count("e2e_stream_order")
	}

	// the same plugin table referenced several times with different options in one query (one plugin process)
	for i, m := 0, f.Cases(12, 72); i < m; i++ {
		r := rng.Fork()
		q, refs, shape := genOptionsQuery(r)
		qPlugin, qNative := q, q
		distinct := map[string]bool{}
		for k, ref := range refs {
			file := filepath.Join(home, fmt.Sprintf("n%d.csv", k))
			os.WriteFile(file, []byte(ref.csv()), 0o644)
			qPlugin = strings.ReplaceAll(qPlugin, fmt.Sprintf("@R%d@", k), ref.pluginName())
			qNative = strings.ReplaceAll(qNative, fmt.Sprintf("@R%d@", k), file)
			distinct[ref.Options] = true
		}
		pr, nr := runCLI(cli, env, qPlugin), runCLI(cli, env, qNative)
		same := pr.Exit == nr.Exit && strings.Join(pr.Rows, "\n") == strings.Join(nr.Rows, "\n")
		cf.Add("KQuery "+lib.CoqBool(same), map[string]interface{}{"kind": "e2e_options_query", "shape": shape, "plugin_query": qPlugin, "native_query": qNative,
			"references": refs, "plugin": pr, "native": nr}, len(distinct) > 1 && len(nr.Rows) > 0)
		cf.Count("e2e_" + shape)
		cf.Count(fmt.Sprintf("e2e_options_distinct_option_sets_%d_of_%d", len(distinct), len(refs)))
		if nr.Exit != 0 {
			cf.Count("e2e_native_query_failed")
		}
	}

	// the plugin table below a correlated subquery / lookup join: one materialized plugin datasource is Run once per
	// outer record, each time with that record in the execution variable context, and its pushed-down predicate reads
	// the outer variable. Outer file: 4..6 rows, at least three distinct keys that occur in the inner table.
	for i, m := 0, f.Cases(6, 24); i < m; i++ {
		r := rng.Fork()
		ref := genNumbersRef(r)
		var outer strings.Builder
		outer.WriteString("k,x\n")
		rows := 4 + r.Intn(3)
		distinctKeys := map[int64]bool{}
		for j := 0; j < rows; j++ {
			k := ref.Rows[j%len(ref.Rows)] // keys of the inner table, walking through it: the first two are always distinct
			if j == rows-1 {
				k = 99 // and one that is not
			}
			distinctKeys[k] = true
			fmt.Fprintf(&outer, "%d,%d\n", k, ref.Rows[r.Intn(len(ref.Rows))]-1+int64(r.Intn(3)))
		}
		outerFile, innerFile := filepath.Join(home, "outer.csv"), filepath.Join(home, "inner.csv")
		os.WriteFile(outerFile, []byte(outer.String()), 0o644)
		os.WriteFile(innerFile, []byte(ref.csv()), 0o644)
		c := "r." + ref.Col
		var q, shape string
		switch i % 3 {
		case 0:
			q, shape = fmt.Sprintf("SELECT o.k, o.x FROM %s o WHERE o.k IN (SELECT %s FROM @R@ r WHERE %s = o.k)", outerFile, c, c), "correlated_in_subquery"
		case 1:
			q, shape = fmt.Sprintf("SELECT o.k, o.x, (SELECT %s FROM @R@ r WHERE %s > o.x) AS l FROM %s o", c, c, outerFile), "correlated_select_subquery"
		default:
			q, shape = fmt.Sprintf("SELECT o.k, o.x, %s FROM %s o LOOKUP JOIN @R@ r ON %s = o.k", c, outerFile, c), "correlated_lookup_join"
		}
		qPlugin, qNative := strings.ReplaceAll(q, "@R@", ref.pluginName()), strings.ReplaceAll(q, "@R@", innerFile)
		pr, nr := runCLI(cli, env, qPlugin), runCLI(cli, env, qNative)
		same := pr.Exit == nr.Exit && strings.Join(pr.Rows, "\n") == strings.Join(nr.Rows, "\n")
		cf.Add("KQuery "+lib.CoqBool(same), map[string]interface{}{"kind": "e2e_correlated_query", "shape": shape, "plugin_query": qPlugin, "native_query": qNative,
			"outer": outer.String(), "inner": ref, "plugin": pr, "native": nr}, len(distinctKeys) > 2 && len(nr.Rows) > 1)
		cf.Count("e2e_" + shape)
		cf.Count(fmt.Sprintf("e2e_correlated_distinct_outer_keys_%d", len(distinctKeys)))
		if nr.Exit != 0 {
			cf.Count("e2e_native_query_failed")
		}
	}
}
