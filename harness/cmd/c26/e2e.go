package main

import "verifharness/lib"

func e2eCases(cf *lib.CaseFile, rng *lib.Rng, f lib.Flags) {}
