// testplugin: a tiny octosql plugin for the end-to-end part of check C26. It serves in-memory tables read from the
// JSON file named by VERIF_C26_DATA, accepts every pushed-down predicate and applies the predicates itself (after
// they have crossed the JSON transport and RepopulatePhysicalExpressionFunctions inside plugins.Run's server).
package main

import (
	"context"
	"encoding/json"
	"fmt"
	"os"
	"strconv"
	"time"

	"github.com/cube2222/octosql/execution"
	"github.com/cube2222/octosql/octosql"
	"github.com/cube2222/octosql/physical"
	"github.com/cube2222/octosql/plugins"
)

type Table struct {
	Fields    []physical.SchemaField
	TimeField int
	Rows      [][]octosql.Value
}

type Data struct {
	Tables map[string]Table
}

type database struct{ data Data }

func (d *database) ListTables(ctx context.Context) ([]string, error) {
	var out []string
	for k := range d.data.Tables {
		out = append(out, k)
	}
	return out, nil
}

// numbersTable: a table whose schema and rows are a function of its options.
//   start (0), step (1), count (5): rows start, start+step, ...;  name (i): the column's name;  sq=1 adds a column
//   <name>sq with the squares.  `vt.numbers?step=10&count=3` therefore differs from `vt.numbers` in the same query.
func numbersTable(options map[string]string) (Table, error) {
	start, step, count, name, sq := int64(0), int64(1), int64(5), "i", false
	for k, v := range options {
		n, err := strconv.ParseInt(v, 10, 64)
		switch k {
		case "start":
			start = n
		case "step":
			step = n
		case "count":
			count = n
		case "sq":
			sq = v == "1"
			err = nil
		case "name":
			name = v
			err = nil
		default:
			return Table{}, fmt.Errorf("numbers: unknown option %q", k)
		}
		if err != nil {
			return Table{}, fmt.Errorf("numbers: option %s=%q: %w", k, v, err)
		}
	}
	t := Table{TimeField: -1, Fields: []physical.SchemaField{{Name: name, Type: octosql.Int}}}
	if sq {
		t.Fields = append(t.Fields, physical.SchemaField{Name: name + "sq", Type: octosql.Int})
	}
	for k := int64(0); k < count; k++ {
		v := start + k*step
		row := []octosql.Value{octosql.NewInt(v)}
		if sq {
			row = append(row, octosql.NewInt(v*v))
		}
		t.Rows = append(t.Rows, row)
	}
	return t, nil
}

// eventsTable: an event-time stream. Records (ts, v) with event time ts = 2020-01-01T00:00:00Z + v seconds, v = 0..count-1,
// and after every `every` records a watermark equal to the last record's event time; nothing ever waits, so whatever
// sits between the node and the wire sees records and watermarks arrive back to back.
type eventsImpl struct{ count, every int64 }

var eventsBase = time.Date(2020, 1, 1, 0, 0, 0, 0, time.UTC)

var eventsFields = []physical.SchemaField{{Name: "ts", Type: octosql.Time}, {Name: "v", Type: octosql.Int}}

func (e *eventsImpl) PushDownPredicates(newPredicates, pushedDownPredicates []physical.Expression) (rejected, pushedDown []physical.Expression, changed bool) {
	return newPredicates, pushedDownPredicates, false
}

func (e *eventsImpl) Materialize(ctx context.Context, env physical.Environment, schema physical.Schema, pushedDownPredicates []physical.Expression) (execution.Node, error) {
	proj := make([]int, len(schema.Fields))
	for k, f := range schema.Fields {
		proj[k] = -1
		for j, g := range eventsFields {
			if g.Name == f.Name {
				proj[k] = j
			}
		}
		if proj[k] < 0 {
			return nil, fmt.Errorf("no such column: %s", f.Name)
		}
	}
	return &eventsNode{impl: e, proj: proj}, nil
}

type eventsNode struct {
	impl *eventsImpl
	proj []int
}

func (n *eventsNode) Run(ctx execution.ExecutionContext, produce execution.ProduceFn, metaSend execution.MetaSendFn) error {
	pctx := execution.ProduceFromExecutionContext(ctx)
	for v := int64(0); v < n.impl.count; v++ {
		ts := eventsBase.Add(time.Duration(v) * time.Second)
		row := []octosql.Value{octosql.NewTime(ts), octosql.NewInt(v)}
		out := make([]octosql.Value, len(n.proj))
		for k, j := range n.proj {
			out[k] = row[j]
		}
		if err := produce(pctx, execution.NewRecord(out, false, ts)); err != nil {
			return err
		}
		if n.impl.every > 0 && (v+1)%n.impl.every == 0 {
			if err := metaSend(pctx, execution.MetadataMessage{Type: execution.MetadataMessageTypeWatermark, Watermark: ts}); err != nil {
				return err
			}
		}
	}
	return nil
}

func eventsTable(options map[string]string) (*eventsImpl, error) {
	e := &eventsImpl{count: 10, every: 2}
	for k, v := range options {
		n, err := strconv.ParseInt(v, 10, 64)
		if err != nil {
			return nil, fmt.Errorf("events: option %s=%q: %w", k, v, err)
		}
		switch k {
		case "count":
			e.count = n
		case "every":
			e.every = n
		default:
			return nil, fmt.Errorf("events: unknown option %q", k)
		}
	}
	return e, nil
}

func (d *database) GetTable(ctx context.Context, name string, options map[string]string) (physical.DatasourceImplementation, physical.Schema, error) {
	if name == "events" {
		e, err := eventsTable(options)
		if err != nil {
			return nil, physical.Schema{}, err
		}
		return e, physical.Schema{Fields: eventsFields, TimeField: 0, NoRetractions: true}, nil
	}
	if name == "numbers" {
		t, err := numbersTable(options)
		if err != nil {
			return nil, physical.Schema{}, err
		}
		return &impl{table: t}, physical.Schema{Fields: t.Fields, TimeField: t.TimeField, NoRetractions: true}, nil
	}
	t, ok := d.data.Tables[name]
	if !ok {
		return nil, physical.Schema{}, fmt.Errorf("no such table: %s", name)
	}
	return &impl{table: t}, physical.Schema{Fields: t.Fields, TimeField: t.TimeField, NoRetractions: true}, nil
}

type impl struct{ table Table }

func (i *impl) PushDownPredicates(newPredicates, pushedDownPredicates []physical.Expression) (rejected, pushedDown []physical.Expression, changed bool) {
	return nil, append(append([]physical.Expression{}, pushedDownPredicates...), newPredicates...), len(newPredicates) > 0
}

func (i *impl) Materialize(ctx context.Context, env physical.Environment, schema physical.Schema, pushedDownPredicates []physical.Expression) (execution.Node, error) {
	full := physical.Schema{Fields: i.table.Fields, TimeField: i.table.TimeField}
	rowEnv := env.WithRecordSchema(full)
	preds := make([]execution.Expression, len(pushedDownPredicates))
	for k := range pushedDownPredicates {
		p, err := pushedDownPredicates[k].Materialize(ctx, rowEnv)
		if err != nil {
			return nil, fmt.Errorf("couldn't materialize pushed-down predicate: %w", err)
		}
		preds[k] = p
	}
	proj := make([]int, len(schema.Fields))
	for k, f := range schema.Fields {
		proj[k] = -1
		for j, g := range i.table.Fields {
			if g.Name == f.Name {
				proj[k] = j
			}
		}
		if proj[k] < 0 {
			return nil, fmt.Errorf("no such column: %s", f.Name)
		}
	}
	return &node{rows: i.table.Rows, preds: preds, proj: proj}, nil
}

type node struct {
	rows  [][]octosql.Value
	preds []execution.Expression
	proj  []int
}

func (n *node) Run(ctx execution.ExecutionContext, produce execution.ProduceFn, metaSend execution.MetaSendFn) error {
rows:
	for _, row := range n.rows {
		rowCtx := ctx.WithRecord(execution.NewRecord(row, false, time.Time{}))
		for _, p := range n.preds {
			v, err := p.Evaluate(rowCtx)
			if err != nil {
				return fmt.Errorf("couldn't evaluate pushed-down predicate: %w", err)
			}
			if v.TypeID != octosql.TypeIDBoolean || !v.Boolean {
				continue rows
			}
		}
		out := make([]octosql.Value, len(n.proj))
		for k, j := range n.proj {
			out[k] = row[j]
		}
		if err := produce(execution.ProduceFromExecutionContext(ctx), execution.NewRecord(out, false, time.Time{})); err != nil {
			return err
		}
	}
	return nil
}

func main() {
	plugins.Run(func(ctx context.Context, configDecoder plugins.ConfigDecoder) (physical.Database, error) {
		b, err := os.ReadFile(os.Getenv("VERIF_C26_DATA"))
		if err != nil {
			return nil, err
		}
		var d Data
		if err := json.Unmarshal(b, &d); err != nil {
			return nil, err
		}
		return &database{data: d}, nil
	})
}
