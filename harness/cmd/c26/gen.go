package main

// Translator: functions.FunctionMap() -> coq/Gen/GenWireFunctions.v.
// Per descriptor, in order: name, ArgumentTypes, OutputType, Strict (what encoding/json keeps of it) and, when the
// descriptor is declared through TypeFn, the guards of that TypeFn translated from the AST of functions/functions.go.
// A TypeFn outside the guard fragment makes the translator fail (the check then reports a broken tie).

import (
	"fmt"
	"go/ast"
	"go/parser"
	"go/token"
	"os"
	"path/filepath"
	"sort"
	"strconv"
	"strings"

	"github.com/cube2222/octosql/functions"
	"github.com/cube2222/octosql/octosql"
	"github.com/cube2222/octosql/physical"

	"verifharness/lib"
)

type cond struct {
	Kind string // "len" | "tid" | "eq"
	N    int    // len
	I, J int
	Tid  int
}

func (c cond) Coq() string {
	switch c.Kind {
	case "len":
		return fmt.Sprintf("CLen %d", c.N)
	case "tid":
		return fmt.Sprintf("CTid %d %d", c.I, c.Tid)
	default:
		return fmt.Sprintf("CEq %d %d", c.I, c.J)
	}
}

// accepts evaluates translated guards the way Model/Wire.v's tf_accepts does (panics on an index out of range).
func accepts(cs []cond, ts []octosql.Type) bool {
	for _, c := range cs {
		switch c.Kind {
		case "len":
			if len(ts) != c.N {
				return false
			}
		case "tid":
			if int(ts[c.I].TypeID) != c.Tid {
				return false
			}
		case "eq":
			if !ts[c.I].Equals(ts[c.J]) {
				return false
			}
		}
	}
	return true
}

var typeIDNames = map[string]int{
	"TypeIDNull": int(octosql.TypeIDNull), "TypeIDInt": int(octosql.TypeIDInt), "TypeIDFloat": int(octosql.TypeIDFloat),
	"TypeIDBoolean": int(octosql.TypeIDBoolean), "TypeIDString": int(octosql.TypeIDString), "TypeIDTime": int(octosql.TypeIDTime),
	"TypeIDDuration": int(octosql.TypeIDDuration), "TypeIDList": int(octosql.TypeIDList), "TypeIDStruct": int(octosql.TypeIDStruct),
	"TypeIDTuple": int(octosql.TypeIDTuple), "TypeIDUnion": int(octosql.TypeIDUnion), "TypeIDAny": int(octosql.TypeIDAny),
}

func repoDir() string {
	if d := os.Getenv("VERIF_REPO"); d != "" {
		return d
	}
	return "/repo"
}

// indexOf recognises  <param>[<int literal>]
func indexOf(e ast.Expr, param string) (int, bool) {
	ix, ok := e.(*ast.IndexExpr)
	if !ok {
		return 0, false
	}
	id, ok := ix.X.(*ast.Ident)
	if !ok || id.Name != param {
		return 0, false
	}
	lit, ok := ix.Index.(*ast.BasicLit)
	if !ok || lit.Kind != token.INT {
		return 0, false
	}
	n, err := strconv.Atoi(lit.Value)
	return n, err == nil
}

func translateGuard(e ast.Expr, param string) (cond, error) {
	switch x := e.(type) {
	case *ast.BinaryExpr:
		if x.Op != token.NEQ {
			break
		}
		// len(param) != N
		if call, ok := x.X.(*ast.CallExpr); ok {
			if fn, ok := call.Fun.(*ast.Ident); ok && fn.Name == "len" && len(call.Args) == 1 {
				if id, ok := call.Args[0].(*ast.Ident); ok && id.Name == param {
					if lit, ok := x.Y.(*ast.BasicLit); ok && lit.Kind == token.INT {
						n, _ := strconv.Atoi(lit.Value)
						return cond{Kind: "len", N: n}, nil
					}
				}
			}
		}
		// param[i].TypeID != octosql.TypeIDX
		if sel, ok := x.X.(*ast.SelectorExpr); ok && sel.Sel.Name == "TypeID" {
			if i, ok := indexOf(sel.X, param); ok {
				if rhs, ok := x.Y.(*ast.SelectorExpr); ok {
					if pkg, ok := rhs.X.(*ast.Ident); ok && pkg.Name == "octosql" {
						if tid, ok := typeIDNames[rhs.Sel.Name]; ok {
							return cond{Kind: "tid", I: i, Tid: tid}, nil
						}
					}
				}
			}
		}
	case *ast.UnaryExpr:
		// !param[i].Equals(param[j])
		if x.Op != token.NOT {
			break
		}
		if call, ok := x.X.(*ast.CallExpr); ok && len(call.Args) == 1 {
			if sel, ok := call.Fun.(*ast.SelectorExpr); ok && sel.Sel.Name == "Equals" {
				i, ok1 := indexOf(sel.X, param)
				j, ok2 := indexOf(call.Args[0], param)
				if ok1 && ok2 {
					return cond{Kind: "eq", I: i, J: j}, nil
				}
			}
		}
	}
	return cond{}, fmt.Errorf("guard outside the translated fragment")
}

// isRejectReturn recognises  { return <anything>, false }
func isRejectReturn(b *ast.BlockStmt) bool {
	if len(b.List) != 1 {
		return false
	}
	r, ok := b.List[0].(*ast.ReturnStmt)
	if !ok || len(r.Results) != 2 {
		return false
	}
	id, ok := r.Results[1].(*ast.Ident)
	return ok && id.Name == "false"
}

func translateTypeFn(fl *ast.FuncLit, fset *token.FileSet) ([]cond, error) {
	if len(fl.Type.Params.List) != 1 || len(fl.Type.Params.List[0].Names) != 1 {
		return nil, fmt.Errorf("%s: TypeFn with an unexpected parameter list", fset.Position(fl.Pos()))
	}
	param := fl.Type.Params.List[0].Names[0].Name
	var out []cond
	for _, st := range fl.Body.List {
		if ifs, ok := st.(*ast.IfStmt); ok && ifs.Init == nil && ifs.Else == nil && isRejectReturn(ifs.Body) {
			c, err := translateGuard(ifs.Cond, param)
			if err != nil {
				return nil, fmt.Errorf("%s: %v", fset.Position(ifs.Pos()), err)
			}
			out = append(out, c)
			continue
		}
		// any other statement must not be able to answer ok = false
		var bad error
		ast.Inspect(st, func(n ast.Node) bool {
			if _, ok := n.(*ast.FuncLit); ok {
				return false
			}
			if r, ok := n.(*ast.ReturnStmt); ok {
				if len(r.Results) != 2 {
					bad = fmt.Errorf("%s: return with %d results in a TypeFn", fset.Position(r.Pos()), len(r.Results))
				} else if id, ok := r.Results[1].(*ast.Ident); !ok || id.Name != "true" {
					bad = fmt.Errorf("%s: TypeFn can answer not-ok outside of a leading guard", fset.Position(r.Pos()))
				}
			}
			return true
		})
		if bad != nil {
			return nil, bad
		}
	}
	return out, nil
}

func kvKey(e ast.Expr) (string, ast.Expr, bool) {
	kv, ok := e.(*ast.KeyValueExpr)
	if !ok {
		return "", nil, false
	}
	switch k := kv.Key.(type) {
	case *ast.Ident:
		return k.Name, kv.Value, true
	case *ast.BasicLit:
		if k.Kind == token.STRING {
			s, err := strconv.Unquote(k.Value)
			return s, kv.Value, err == nil
		}
	}
	return "", nil, false
}

// typeFnGuards reads functions/functions.go: name -> per descriptor, nil (no TypeFn) or its guards.
func typeFnGuards() (map[string][]*[]cond, error) {
	path := filepath.Join(repoDir(), "functions", "functions.go")
	fset := token.NewFileSet()
	f, err := parser.ParseFile(fset, path, nil, 0)
	if err != nil {
		return nil, err
	}
	var mapLit *ast.CompositeLit
	for _, d := range f.Decls {
		fd, ok := d.(*ast.FuncDecl)
		if !ok || fd.Name.Name != "FunctionMap" || fd.Recv != nil {
			continue
		}
		for _, st := range fd.Body.List {
			if r, ok := st.(*ast.ReturnStmt); ok && len(r.Results) == 1 {
				mapLit, _ = r.Results[0].(*ast.CompositeLit)
			}
		}
	}
	if mapLit == nil {
		return nil, fmt.Errorf("%s: FunctionMap() does not return a map literal any more", path)
	}
	out := map[string][]*[]cond{}
	for _, el := range mapLit.Elts {
		name, val, ok := kvKey(el)
		details, ok2 := val.(*ast.CompositeLit)
		if !ok || !ok2 {
			return nil, fmt.Errorf("%s: unexpected FunctionMap entry", fset.Position(el.Pos()))
		}
		var descs []*[]cond
		found := false
		for _, fld := range details.Elts {
			k, v, ok := kvKey(fld)
			if !ok || k != "Descriptors" {
				continue
			}
			found = true
			lst, ok := v.(*ast.CompositeLit)
			if !ok {
				return nil, fmt.Errorf("%s: Descriptors is not a literal", fset.Position(v.Pos()))
			}
			for _, de := range lst.Elts {
				dl, ok := de.(*ast.CompositeLit)
				if !ok {
					return nil, fmt.Errorf("%s: descriptor is not a literal", fset.Position(de.Pos()))
				}
				var guards *[]cond
				for _, df := range dl.Elts {
					k, v, ok := kvKey(df)
					if !ok || k != "TypeFn" {
						continue
					}
					fl, ok := v.(*ast.FuncLit)
					if !ok {
						return nil, fmt.Errorf("%s: TypeFn is not a function literal", fset.Position(v.Pos()))
					}
					cs, err := translateTypeFn(fl, fset)
					if err != nil {
						return nil, err
					}
					if cs == nil {
						cs = []cond{}
					}
					guards = &cs
				}
				descs = append(descs, guards)
			}
		}
		if !found {
			return nil, fmt.Errorf("%s: entry %q has no Descriptors literal", fset.Position(el.Pos()), name)
		}
		if _, dup := out[name]; dup {
			return nil, fmt.Errorf("duplicate key %q in the FunctionMap literal", name)
		}
		out[name] = descs
	}
	return out, nil
}

// probeTypeLists: the type lists on which the translated guards are compared with the real TypeFn closures.
func probeTypeLists() [][]octosql.Type {
	elem := octosql.Int
	base := []octosql.Type{octosql.Null, octosql.Int, octosql.Float, octosql.Boolean, octosql.String, octosql.Time, octosql.Duration, octosql.Any,
		{TypeID: octosql.TypeIDList}, {TypeID: octosql.TypeIDList, List: struct{ Element *octosql.Type }{Element: &elem}},
		{TypeID: octosql.TypeIDStruct, Struct: struct{ Fields []octosql.StructField }{Fields: []octosql.StructField{{Name: "a", Type: octosql.Int}}}},
		{TypeID: octosql.TypeIDTuple, Tuple: struct{ Elements []octosql.Type }{Elements: []octosql.Type{octosql.Int, octosql.String}}},
		octosql.TypeSum(octosql.Int, octosql.String), octosql.TypeSum(octosql.Int, octosql.Float)}
	out := [][]octosql.Type{{}}
	for _, a := range base {
		out = append(out, []octosql.Type{a})
		for _, b := range base {
			out = append(out, []octosql.Type{a, b})
		}
	}
	for _, a := range base[:6] {
		out = append(out, []octosql.Type{a, a, a}, []octosql.Type{a, octosql.Int, octosql.Int})
	}
	return out
}

type tableRow struct {
	Name   string
	Idx    int
	Desc   physical.FunctionDescriptor
	Guards *[]cond
}

// loadTable joins the reflected FunctionMap() with the translated TypeFn guards; names sorted bytewise.
func loadTable() (names []string, rows map[string][]tableRow, err error) {
	guards, err := typeFnGuards()
	if err != nil {
		return nil, nil, err
	}
	fm := functions.FunctionMap()
	if len(fm) != len(guards) {
		return nil, nil, fmt.Errorf("FunctionMap() has %d names, its literal %d", len(fm), len(guards))
	}
	rows = map[string][]tableRow{}
	probes := probeTypeLists()
	for name, details := range fm {
		names = append(names, name)
		g, ok := guards[name]
		if !ok || len(g) != len(details.Descriptors) {
			return nil, nil, fmt.Errorf("function %q: %d descriptors at run time, %d in the literal", name, len(details.Descriptors), len(g))
		}
		for i, d := range details.Descriptors {
			if (d.TypeFn != nil) != (g[i] != nil) {
				return nil, nil, fmt.Errorf("function %q descriptor %d: TypeFn presence differs between run time and literal", name, i)
			}
			if d.TypeFn != nil {
				for _, p := range probes {
					want := func() (ok bool) {
						defer func() {
							if recover() != nil {
								ok = false
							}
						}()
						_, ok = d.TypeFn(p)
						return
					}()
					got := func() (ok bool) {
						defer func() {
							if recover() != nil {
								ok = false
							}
						}()
						return accepts(*g[i], p)
					}()
					if want != got {
						return nil, nil, fmt.Errorf("function %q descriptor %d: translated guards answer %v, the TypeFn answers %v on %v", name, i, got, want, p)
					}
				}
			}
			rows[name] = append(rows[name], tableRow{Name: name, Idx: i, Desc: d, Guards: g[i]})
		}
	}
	sort.Strings(names)
	return names, rows, nil
}

func coqDesc(r tableRow) string {
	args := make([]string, len(r.Desc.ArgumentTypes))
	for i := range args {
		args[i] = coqType(r.Desc.ArgumentTypes[i])
	}
	tf := "None"
	if r.Guards != nil {
		cs := make([]string, len(*r.Guards))
		for i, c := range *r.Guards {
			cs[i] = c.Coq()
		}
		tf = "(Some " + lib.CoqList(cs) + ")"
	}
	return fmt.Sprintf("mkwdesc %s %s %s %s", lib.CoqList(args), coqType(r.Desc.OutputType), tf, lib.CoqBool(r.Desc.Strict))
}

func runGen(outDir string) error {
	names, rows, err := loadTable()
	if err != nil {
		return err
	}
	var b strings.Builder
	b.WriteString("(* Gen/GenWireFunctions.v — GENERATED by harness/cmd/c26 gen from functions.FunctionMap() and the AST of\n")
	b.WriteString("   functions/functions.go.  Do not edit.  One row per descriptor, in declaration order, names sorted bytewise:\n")
	b.WriteString("   ArgumentTypes, OutputType, TypeFn guards (when declared through TypeFn), Strict. *)\n")
	b.WriteString("From Octo Require Import Wire.\nOpen Scope Z_scope.\n\n")
	b.WriteString("Definition gen_wire_functions : func_table := [\n")
	n := 0
	for k, name := range names {
		var ds []string
		for _, r := range rows[name] {
			ds = append(ds, "     "+coqDesc(r))
			n++
		}
		sep := ";"
		if k == len(names)-1 {
			sep = ""
		}
		fmt.Fprintf(&b, "  (* %s *)\n  (%s, [\n%s])%s\n", commentSafe(name), lib.CoqBytes(name), strings.Join(ds, ";\n"), sep)
	}
	b.WriteString("].\n")
	fmt.Fprintf(&b, "Definition gen_wire_descriptor_count : nat := %d.\n", n)
	path := filepath.Join(outDir, "GenWireFunctions.v")
	if old, err := os.ReadFile(path); err == nil && string(old) == b.String() {
		return nil // unchanged content keeps its mtime
	}
	if err := os.MkdirAll(outDir, 0o755); err != nil {
		return err
	}
	return os.WriteFile(path, []byte(b.String()), 0o644)
}

// commentSafe keeps a name readable inside a Coq comment without being able to open or close one.
func commentSafe(s string) string {
	var b strings.Builder
	for _, r := range s {
		switch {
		case r >= 'a' && r <= 'z', r >= 'A' && r <= 'Z', r >= '0' && r <= '9', strings.ContainsRune("_ <>=!+-/[]~%|", r):
			b.WriteRune(r)
		default:
			fmt.Fprintf(&b, "<%02x>", r)
		}
	}
	return b.String()
}
