package main

// Coq / JSON rendering of native values, types, schemas, records, contexts and of the proto messages
// (walked through protoreflect: the message types themselves are internal to the repository).

import (
	"fmt"
	"math"
	"time"

	"google.golang.org/protobuf/proto"
	"google.golang.org/protobuf/reflect/protoreflect"

	"github.com/cube2222/octosql/execution"
	"github.com/cube2222/octosql/octosql"
	"github.com/cube2222/octosql/physical"

	"verifharness/lib"
)

// ---- native side ----

func coqType(t octosql.Type) string {
	switch t.TypeID {
	case octosql.TypeIDNull:
		return "WNull"
	case octosql.TypeIDInt:
		return "WInt"
	case octosql.TypeIDFloat:
		return "WFloat"
	case octosql.TypeIDBoolean:
		return "WBool"
	case octosql.TypeIDString:
		return "WStr"
	case octosql.TypeIDTime:
		return "WTime"
	case octosql.TypeIDDuration:
		return "WDur"
	case octosql.TypeIDAny:
		return "WAny"
	case octosql.TypeIDList:
		if t.List.Element == nil {
			return "(WList None)"
		}
		return "(WList (Some " + coqType(*t.List.Element) + "))"
	case octosql.TypeIDStruct:
		fs := make([]string, len(t.Struct.Fields))
		for i, f := range t.Struct.Fields {
			fs[i] = "(" + lib.CoqBytes(f.Name) + ", " + coqType(f.Type) + ")"
		}
		return "(WStruct " + lib.CoqList(fs) + ")"
	case octosql.TypeIDTuple:
		return "(WTuple " + coqTypes(t.Tuple.Elements) + ")"
	case octosql.TypeIDUnion:
		return "(WUnion " + coqTypes(t.Union.Alternatives) + ")"
	}
	panic(fmt.Sprintf("coqType: type id %d", t.TypeID))
}

func coqTypes(ts []octosql.Type) string {
	out := make([]string, len(ts))
	for i := range ts {
		out[i] = coqType(ts[i])
	}
	return lib.CoqList(out)
}

func coqFields(fs []physical.SchemaField) string {
	out := make([]string, len(fs))
	for i, f := range fs {
		out[i] = "(" + lib.CoqBytes(f.Name) + ", " + coqType(f.Type) + ")"
	}
	return lib.CoqList(out)
}

func coqSchema(s physical.Schema) string {
	return fmt.Sprintf("(mkschema %s %s %s)", coqFields(s.Fields), lib.Z(int64(s.TimeField)), lib.CoqBool(s.NoRetractions))
}

func locOf(t time.Time) int { return lib.LocID(t) }

func coqRecord(r execution.Record) string {
	return fmt.Sprintf("(mkwrec %s %s %s %d)", lib.CoqValues(r.Values), lib.CoqBool(r.Retraction), lib.Ns(r.EventTime), locOf(r.EventTime))
}

func coqMeta(m execution.MetadataMessage) string {
	return fmt.Sprintf("(mkwmeta %s %s %d)", lib.Z(int64(m.Type)), lib.Ns(m.Watermark), locOf(m.Watermark))
}

func coqPctx(c *physical.VariableContext) string {
	var frames []string
	for ; c != nil; c = c.Parent {
		frames = append(frames, coqFields(c.Fields))
	}
	return lib.CoqList(frames)
}

func coqEctx(c *execution.VariableContext) string {
	var frames []string
	for ; c != nil; c = c.Parent {
		frames = append(frames, lib.CoqValues(c.Values))
	}
	return lib.CoqList(frames)
}

// ---- proto side ----

func fd(m protoreflect.Message, name string) protoreflect.FieldDescriptor {
	f := m.Descriptor().Fields().ByName(protoreflect.Name(name))
	if f == nil {
		panic(fmt.Sprintf("message %s has no field %s any more", m.Descriptor().FullName(), name))
	}
	return f
}

func coqTimestamp(m protoreflect.Message, name string) string {
	f := fd(m, name)
	if !m.Has(f) {
		return "None"
	}
	t := m.Get(f).Message()
	return fmt.Sprintf("(Some (mkts %s %s))", lib.Z(t.Get(fd(t, "seconds")).Int()), lib.Z(t.Get(fd(t, "nanos")).Int()))
}

func coqDuration(m protoreflect.Message, name string) string {
	f := fd(m, name)
	if !m.Has(f) {
		return "None"
	}
	t := m.Get(f).Message()
	return fmt.Sprintf("(Some (mkpd %s %s))", lib.Z(t.Get(fd(t, "seconds")).Int()), lib.Z(t.Get(fd(t, "nanos")).Int()))
}

func coqMsgList(m protoreflect.Message, name string, render func(protoreflect.Message) string) string {
	l := m.Get(fd(m, name)).List()
	out := make([]string, l.Len())
	for i := range out {
		out[i] = render(l.Get(i).Message())
	}
	return lib.CoqList(out)
}

func coqPValue(m protoreflect.Message) string {
	return fmt.Sprintf("(PValue %s %s %d %s %s %s %s %s %s %s)",
		lib.Z(m.Get(fd(m, "type_id")).Int()), lib.Z(m.Get(fd(m, "int")).Int()),
		math.Float64bits(m.Get(fd(m, "float")).Float()), lib.CoqBool(m.Get(fd(m, "boolean")).Bool()),
		lib.CoqBytes(m.Get(fd(m, "str")).String()), coqTimestamp(m, "time"), coqDuration(m, "duration"),
		coqMsgList(m, "list", coqPValue), coqMsgList(m, "struct", coqPValue), coqMsgList(m, "tuple", coqPValue))
}

func coqPField(m protoreflect.Message) string {
	t := "(PType 0 None [] [] [])" // a nil *Type reads as the zero message
	if m.Has(fd(m, "type")) {
		t = coqPType(m.Get(fd(m, "type")).Message())
	}
	return "(" + lib.CoqBytes(m.Get(fd(m, "name")).String()) + ", " + t + ")"
}

func coqPType(m protoreflect.Message) string {
	l := "None"
	if m.Has(fd(m, "list")) {
		l = "(Some " + coqPType(m.Get(fd(m, "list")).Message()) + ")"
	}
	return fmt.Sprintf("(PType %s %s %s %s %s)", lib.Z(m.Get(fd(m, "type_id")).Int()), l,
		coqMsgList(m, "struct", coqPField), coqMsgList(m, "tuple", coqPType), coqMsgList(m, "union", coqPType))
}

func coqPSchema(m protoreflect.Message) string {
	return fmt.Sprintf("(mkpschema %s %s %s)", coqMsgList(m, "fields", coqPField),
		lib.Z(m.Get(fd(m, "time_field")).Int()), lib.CoqBool(m.Get(fd(m, "no_retractions")).Bool()))
}

func coqPRecord(m protoreflect.Message) string {
	return fmt.Sprintf("(mkprec %s %s %s)", coqMsgList(m, "values", coqPValue),
		lib.CoqBool(m.Get(fd(m, "retraction")).Bool()), coqTimestamp(m, "event_time"))
}

func coqPMeta(m protoreflect.Message) string {
	return fmt.Sprintf("(mkpmeta %s %s)", lib.Z(m.Get(fd(m, "message_type")).Int()), coqTimestamp(m, "watermark"))
}

func coqPPctx(m protoreflect.Message) string {
	return coqMsgList(m, "frames", func(fr protoreflect.Message) string { return coqMsgList(fr, "fields", coqPField) })
}

func coqPEctx(m protoreflect.Message) string {
	return coqMsgList(m, "frames", func(fr protoreflect.Message) string { return coqMsgList(fr, "values", coqPValue) })
}

// wireTrip pushes a message through proto.Marshal / proto.Unmarshal (what gRPC does with it).
func wireTrip(m proto.Message) (proto.Message, error) {
	b, err := proto.Marshal(m)
	if err != nil {
		return nil, err
	}
	out := m.ProtoReflect().New().Interface()
	if err := proto.Unmarshal(b, out); err != nil {
		return nil, err
	}
	return out, nil
}

// ---- readable forms for evidence / replay files ----

func typeJSON(t octosql.Type) string { return t.String() }

func typesJSON(ts []octosql.Type) []string {
	out := make([]string, len(ts))
	for i := range ts {
		out[i] = ts[i].String()
	}
	return out
}
