// c26: the plugin wire protocol. Round trips of values / types / schemas / records / metadata messages / variable
// contexts through the real converters (in process and through proto.Marshal), and pushed-down predicates over every
// function descriptor through json.Marshal -> json.Unmarshal -> RepopulatePhysicalExpressionFunctions -> Materialize ->
// Evaluate on both sides. `gen` writes coq/Gen/GenWireFunctions.v (see gen.go). `e2e` cases: see e2e.go.
package main

import (
	"context"
	"encoding/json"
	"fmt"
	"io"
	"log"
	"math"
	"os"
	"reflect"
	"time"
	"unicode/utf8"

	"google.golang.org/protobuf/proto"
	"google.golang.org/protobuf/reflect/protoreflect"

	"github.com/cube2222/octosql/execution"
	"github.com/cube2222/octosql/octosql"
	"github.com/cube2222/octosql/physical"
	"github.com/cube2222/octosql/plugins"

	"verifharness/lib"
)

// ---------------------------------------------------------------------------------------------- generators

var fieldNames = []string{"a", "b", "c", "t.x", "t.time", "", "é", "日本", "A b", "x\x00y"}
var badUTF8 = []string{"\xff", "a\xc3", "\xed\xa0\x80", "\xf4\x90\x80\x80", "\xc0\xaf"}

func genName(r *lib.Rng, allowBad bool) string {
	if allowBad && r.Chance(1, 12) {
		return badUTF8[r.Intn(len(badUTF8))]
	}
	return fieldNames[r.Intn(len(fieldNames))]
}

var scalarTypes = []octosql.Type{octosql.Null, octosql.Int, octosql.Float, octosql.Boolean, octosql.String, octosql.Time, octosql.Duration, octosql.Any}

func listOf(e *octosql.Type) octosql.Type {
	return octosql.Type{TypeID: octosql.TypeIDList, List: struct{ Element *octosql.Type }{Element: e}}
}
func structOf(fs []octosql.StructField) octosql.Type {
	return octosql.Type{TypeID: octosql.TypeIDStruct, Struct: struct{ Fields []octosql.StructField }{Fields: fs}}
}
func tupleOf(es []octosql.Type) octosql.Type {
	return octosql.Type{TypeID: octosql.TypeIDTuple, Tuple: struct{ Elements []octosql.Type }{Elements: es}}
}
func unionOf(es []octosql.Type) octosql.Type {
	return octosql.Type{TypeID: octosql.TypeIDUnion, Union: struct{ Alternatives []octosql.Type }{Alternatives: es}}
}

func genType(r *lib.Rng, depth int, allowBad bool) octosql.Type {
	if depth <= 0 || r.Chance(1, 2) {
		return scalarTypes[r.Intn(len(scalarTypes))]
	}
	switch r.Intn(4) {
	case 0:
		if r.Chance(1, 4) {
			return listOf(nil)
		}
		e := genType(r, depth-1, allowBad)
		return listOf(&e)
	case 1:
		fs := make([]octosql.StructField, r.Intn(4))
		for i := range fs {
			fs[i] = octosql.StructField{Name: genName(r, allowBad), Type: genType(r, depth-1, allowBad)}
		}
		return structOf(fs)
	case 2:
		es := make([]octosql.Type, r.Intn(4))
		for i := range es {
			es[i] = genType(r, depth-1, allowBad)
		}
		return tupleOf(es)
	default:
		es := make([]octosql.Type, r.Intn(4))
		for i := range es {
			es[i] = genType(r, depth-1, allowBad)
		}
		return unionOf(es)
	}
}

func genFields(r *lib.Rng, allowBad bool) []physical.SchemaField {
	fs := make([]physical.SchemaField, r.Intn(5))
	for i := range fs {
		fs[i] = physical.SchemaField{Name: genName(r, allowBad), Type: genType(r, 2, allowBad)}
	}
	return fs
}

var zonePlus530 = time.FixedZone("", 5*3600+1800)
var zoneMinus3 = time.FixedZone("X", -3*3600)

func genInstant(r *lib.Rng) time.Time {
	switch r.Intn(9) {
	case 0, 1:
		return time.Time{}
	case 2:
		return execution.WatermarkMaxValue
	case 3:
		return time.Unix(0, math.MinInt64+1).UTC()
	case 4:
		return time.Unix(-1, 999999999).In(zonePlus530)
	case 5:
		return time.Unix(1600000000, 123456789).In(zoneMinus3)
	case 6:
		return time.Unix(0, 0)
	default:
		ts := lib.EdgeTimes()
		return ts[r.Intn(len(ts))]
	}
}

// genWireValue: lib's edge-heavy values, plus zero / extreme / zoned instants and (sometimes) strings that are not UTF-8.
func genWireValue(r *lib.Rng, depth int, allowBad bool) octosql.Value {
	v := lib.GenValue(r, lib.AllProfile, depth)
	return tweak(r, v, allowBad)
}

func tweak(r *lib.Rng, v octosql.Value, allowBad bool) octosql.Value {
	switch v.TypeID {
	case octosql.TypeIDTime:
		if r.Chance(1, 3) {
			return octosql.NewTime(genInstant(r))
		}
	case octosql.TypeIDString:
		if allowBad && r.Chance(1, 10) {
			return octosql.NewString(badUTF8[r.Intn(len(badUTF8))])
		}
	case octosql.TypeIDList:
		for i := range v.List {
			v.List[i] = tweak(r, v.List[i], allowBad)
		}
	case octosql.TypeIDStruct:
		for i := range v.Struct {
			v.Struct[i] = tweak(r, v.Struct[i], allowBad)
		}
	case octosql.TypeIDTuple:
		for i := range v.Tuple {
			v.Tuple[i] = tweak(r, v.Tuple[i], allowBad)
		}
	}
	return v
}

func genValues(r *lib.Rng, allowBad bool) []octosql.Value {
	vs := make([]octosql.Value, r.Intn(5))
	for i := range vs {
		vs[i] = genWireValue(r, 2, allowBad)
	}
	return vs
}

func hasComposite(v octosql.Value) bool {
	return v.TypeID == octosql.TypeIDList || v.TypeID == octosql.TypeIDStruct || v.TypeID == octosql.TypeIDTuple
}

const classNotUTF8 = "string-not-utf8-refused-by-proto3"

func allUTF8(vs []octosql.Value) bool {
	for _, v := range vs {
		switch v.TypeID {
		case octosql.TypeIDString:
			if !utf8.ValidString(v.Str) {
				return false
			}
		case octosql.TypeIDList:
			if !allUTF8(v.List) {
				return false
			}
		case octosql.TypeIDStruct:
			if !allUTF8(v.Struct) {
				return false
			}
		case octosql.TypeIDTuple:
			if !allUTF8(v.Tuple) {
				return false
			}
		}
	}
	return true
}

func typeNamesUTF8(t octosql.Type) bool {
	switch t.TypeID {
	case octosql.TypeIDList:
		return t.List.Element == nil || typeNamesUTF8(*t.List.Element)
	case octosql.TypeIDStruct:
		for _, f := range t.Struct.Fields {
			if !utf8.ValidString(f.Name) || !typeNamesUTF8(f.Type) {
				return false
			}
		}
	case octosql.TypeIDTuple:
		for _, e := range t.Tuple.Elements {
			if !typeNamesUTF8(e) {
				return false
			}
		}
	case octosql.TypeIDUnion:
		for _, e := range t.Union.Alternatives {
			if !typeNamesUTF8(e) {
				return false
			}
		}
	}
	return true
}

// ---------------------------------------------------------------------------------------------- round trips

func caught(f func()) (p interface{}) {
	defer func() { p = recover() }()
	f()
	return nil
}

func roundTrips(cf *lib.CaseFile, rng *lib.Rng, n int) {
	for i := 0; i < n; i++ {
		r := rng.Fork()
		switch k := i % 8; k {
		case 0, 1: // values
			v := genWireValue(r, 3, true)
			m := plugins.VerifValueToProto(v)
			back := plugins.VerifValueFromProto(m)
			wok, wback := "false", "None"
			if m2, err := wireTrip(m); err == nil {
				wok, wback = "true", "(Some "+lib.CoqValue(plugins.VerifValueFromProto(m2))+")"
			} else {
				cf.Count("value_refused_by_proto_marshal")
			}
			idx := cf.Add(fmt.Sprintf("KValue %s %s %s %s %s", lib.CoqValue(v), coqPValue(m.ProtoReflect()), lib.CoqValue(back), wok, wback),
				map[string]interface{}{"kind": "value", "value": lib.ValueJSON(v), "back": lib.ValueJSON(back), "proto_marshal_ok": wok}, hasComposite(v))
			if !allUTF8([]octosql.Value{v}) {
				cf.SetClass(idx, classNotUTF8)
			}
			cf.Count("value_" + v.TypeID.String())
		case 2: // types
			t := genType(r, 3, true)
			m := plugins.VerifTypeToProto(t)
			back := plugins.VerifTypeFromProto(m)
			wok, wback := "false", "None"
			if m2, err := wireTrip(m); err == nil {
				wok, wback = "true", "(Some "+coqType(plugins.VerifTypeFromProto(m2))+")"
			} else {
				cf.Count("type_refused_by_proto_marshal")
			}
			idx := cf.Add(fmt.Sprintf("KType %s %s %s %s %s", coqType(t), coqPType(m.ProtoReflect()), coqType(back), wok, wback),
				map[string]interface{}{"kind": "type", "type": coqType(t), "back": coqType(back), "proto_marshal_ok": wok}, t.TypeID >= octosql.TypeIDList && t.TypeID != octosql.TypeIDAny)
			if !typeNamesUTF8(t) {
				cf.SetClass(idx, classNotUTF8)
			}
			cf.Count("type_" + t.TypeID.String())
		case 3: // schemas (through the byte encoding as well: field names are valid UTF-8 here)
			fs := genFields(r, false)
			s := physical.Schema{Fields: fs, TimeField: r.Intn(len(fs)+2) - 1, NoRetractions: r.Bool()}
			m := plugins.VerifSchemaToProto(s)
			back := plugins.VerifSchemaFromProto(m)
			bad := false
			if m2, err := wireTrip(m); err != nil || coqSchema(plugins.VerifSchemaFromProto(m2)) != coqSchema(back) {
				bad = true
			}
			idx := cf.Add(fmt.Sprintf("KSchema %s %s %s", coqSchema(s), coqPSchema(m.ProtoReflect()), coqSchema(back)),
				map[string]interface{}{"kind": "schema", "schema": coqSchema(s), "back": coqSchema(back)}, len(fs) > 0)
			if bad {
				cf.Violation(idx, "schema differs after proto.Marshal/Unmarshal", "")
			}
			cf.Count("schema")
		case 4: // records
			rec := execution.Record{Values: genValues(r, false), Retraction: r.Bool(), EventTime: genInstant(r)}
			m := plugins.VerifRecordToProto(rec)
			back := plugins.VerifRecordFromProto(m)
			bad := false
			if m2, err := wireTrip(m); err != nil || coqRecord(plugins.VerifRecordFromProto(m2)) != coqRecord(back) {
				bad = true
			}
			idx := cf.Add(fmt.Sprintf("KRecord %s %s %s", coqRecord(rec), coqPRecord(m.ProtoReflect()), coqRecord(back)),
				map[string]interface{}{"kind": "record", "values": lib.ValuesJSON(rec.Values), "retraction": rec.Retraction, "event_time": lib.Ns(rec.EventTime),
					"back_values": lib.ValuesJSON(back.Values), "back_event_time": lib.Ns(back.EventTime)}, len(rec.Values) > 0)
			if bad && !allUTF8(rec.Values) {
				cf.Violation(idx, "proto.Marshal refuses the record: it holds a string that is not valid UTF-8", classNotUTF8)
				cf.Count("record_refused_by_proto_marshal")
			} else if bad {
				cf.Violation(idx, "record differs after proto.Marshal/Unmarshal", "")
			}
			if rec.EventTime.IsZero() {
				cf.Count("record_zero_event_time")
				if !back.EventTime.IsZero() {
					cf.Violation(idx, "a record without event time has one after the trip", "")
				}
			}
			cf.Count("record")
		case 5: // metadata messages
			msg := execution.MetadataMessage{Type: execution.MetadataMessageType(r.Intn(3)), Watermark: genInstant(r)}
			m := plugins.VerifMetadataMessageToProto(msg)
			back := plugins.VerifMetadataMessageFromProto(m)
			bad := false
			if m2, err := wireTrip(m); err != nil || coqMeta(plugins.VerifMetadataMessageFromProto(m2)) != coqMeta(back) {
				bad = true
			}
			idx := cf.Add(fmt.Sprintf("KMeta %s %s %s", coqMeta(msg), coqPMeta(m.ProtoReflect()), coqMeta(back)),
				map[string]interface{}{"kind": "metadata", "type": int(msg.Type), "watermark": lib.Ns(msg.Watermark), "back": lib.Ns(back.Watermark)}, !msg.Watermark.IsZero())
			if bad {
				cf.Violation(idx, "metadata message differs after proto.Marshal/Unmarshal", "")
			}
			cf.Count("metadata")
		case 6: // physical variable contexts
			var c *physical.VariableContext
			frames := r.Intn(4)
			for j := 0; j < frames; j++ {
				c = &physical.VariableContext{Parent: c, Fields: genFields(r, false)}
			}
			m := plugins.VerifPhysicalVariableContextToProto(c)
			back := plugins.VerifPhysicalVariableContextFromProto(m)
			bad := false
			if m2, err := wireTrip(m); err != nil || coqPctx(plugins.VerifPhysicalVariableContextFromProto(m2)) != coqPctx(back) {
				bad = true
			}
			idx := cf.Add(fmt.Sprintf("KPctx %s %s %s", coqPctx(c), coqPPctx(m.ProtoReflect()), coqPctx(back)),
				map[string]interface{}{"kind": "physical_context", "context": coqPctx(c), "back": coqPctx(back)}, frames > 1)
			if bad {
				cf.Violation(idx, "physical variable context differs after proto.Marshal/Unmarshal", "")
			}
			cf.Count(fmt.Sprintf("pctx_frames_%d", frames))
		case 7: // execution variable contexts
			var c *execution.VariableContext
			frames := r.Intn(4)
			for j := 0; j < frames; j++ {
				c = &execution.VariableContext{Parent: c, Values: genValues(r, false)}
			}
			m := plugins.VerifExecutionVariableContextToProto(c)
			back := plugins.VerifExecutionVariableContextFromProto(m)
			bad := false
			if m2, err := wireTrip(m); err != nil || coqEctx(plugins.VerifExecutionVariableContextFromProto(m2)) != coqEctx(back) {
				bad = true
			}
			idx := cf.Add(fmt.Sprintf("KEctx %s %s %s", coqEctx(c), coqPEctx(m.ProtoReflect()), coqEctx(back)),
				map[string]interface{}{"kind": "execution_context", "context": coqEctx(c), "back": coqEctx(back)}, frames > 1)
			utf8ok := true
			for fr := c; fr != nil; fr = fr.Parent {
				utf8ok = utf8ok && allUTF8(fr.Values)
			}
			if bad && !utf8ok {
				cf.Violation(idx, "proto.Marshal refuses the execution variable context: it holds a string that is not valid UTF-8", classNotUTF8)
				cf.Count("ectx_refused_by_proto_marshal")
			} else if bad {
				cf.Violation(idx, "execution variable context differs after proto.Marshal/Unmarshal", "")
			}
			cf.Count(fmt.Sprintf("ectx_frames_%d", frames))
		}
	}
}

// fromProto: messages the converters did not build themselves (a newer or faulty plugin): unknown type ids, unset
// timestamp / duration members, durations outside of what AsDuration can hold.
func fromProto(cf *lib.CaseFile, rng *lib.Rng, n int) {
	for i := 0; i < n; i++ {
		r := rng.Fork()
		m := plugins.VerifValueToProto(genWireValue(r, 2, false))
		target := m.ProtoReflect()
		// descend into a random element sometimes
		for _, name := range []string{"list", "struct", "tuple"} {
			if l := target.Get(fd(target, name)).List(); l.Len() > 0 && r.Chance(1, 2) {
				target = l.Get(r.Intn(l.Len())).Message()
				break
			}
		}
		switch r.Intn(5) {
		case 0:
			target.Set(fd(target, "type_id"), protoreflect.ValueOfInt32(int32([]int{10, 11, 12, -1, 1 << 20}[r.Intn(5)])))
		case 1:
			target.Set(fd(target, "type_id"), protoreflect.ValueOfInt32(int32(5+r.Intn(2)))) // time / duration with whatever members are set
		case 2:
			target.Set(fd(target, "type_id"), protoreflect.ValueOfInt32(6))
			d := target.Mutable(fd(target, "duration")).Message()
			secs := []int64{math.MaxInt64 / 1000000000, math.MaxInt64/1000000000 + 1, math.MinInt64 / 1000000000, math.MinInt64/1000000000 - 1, math.MaxInt64, math.MinInt64, -5, 5, 0}[r.Intn(9)]
			nanos := []int32{0, 1, -1, 999999999, -999999999, 854775807, 854775808, -854775808, -854775809}[r.Intn(9)]
			d.Set(fd(d, "seconds"), protoreflect.ValueOfInt64(secs))
			d.Set(fd(d, "nanos"), protoreflect.ValueOfInt32(nanos))
		case 3:
			target.Set(fd(target, "type_id"), protoreflect.ValueOfInt32(int32(r.Intn(10)))) // a different member is read than was filled
		default:
		}
		var back octosql.Value
		p := caught(func() { back = plugins.VerifValueFromProto(m) })
		obs := "OPanic"
		if p == nil {
			obs = "(OOk " + lib.CoqValue(back) + ")"
		}
		cf.Add(fmt.Sprintf("KFromProto %s %s", coqPValue(m.ProtoReflect()), obs),
			map[string]interface{}{"kind": "from_proto", "message": coqPValue(m.ProtoReflect()), "panicked": p != nil}, true)
		if p != nil {
			cf.Count("from_proto_panic")
		} else {
			cf.Count("from_proto_ok")
		}
	}
}

// ---------------------------------------------------------------------------------------------- predicates

// constants that encoding/json carries unchanged: finite floats, valid UTF-8, years 0..9999 (see design/C26.md)
func genConstOfType(r *lib.Rng, t octosql.Type, depth int) (octosql.Type, octosql.Value) {
	switch t.TypeID {
	case octosql.TypeIDAny:
		return genConstOfType(r, scalarTypes[r.Intn(len(scalarTypes)-1)], depth)
	case octosql.TypeIDUnion:
		if len(t.Union.Alternatives) == 0 {
			return octosql.Null, octosql.NewNull()
		}
		return genConstOfType(r, t.Union.Alternatives[r.Intn(len(t.Union.Alternatives))], depth)
	case octosql.TypeIDNull:
		return octosql.Null, octosql.NewNull()
	case octosql.TypeIDInt:
		return octosql.Int, octosql.NewInt([]int64{0, 1, 2, 3, -1, 7, 42, 100}[r.Intn(8)])
	case octosql.TypeIDFloat:
		return octosql.Float, octosql.NewFloat([]float64{0, math.Copysign(0, -1), 1, -1.5, 2.25, 1e10, 3.141592653589793, 0.1}[r.Intn(8)])
	case octosql.TypeIDBoolean:
		return octosql.Boolean, octosql.NewBoolean(r.Bool())
	case octosql.TypeIDString:
		return octosql.String, octosql.NewString([]string{"", "a", "b", "ab", "Abc", "a b", "é", "日本", "%a_", "2006-01-02", "12", "1.5", "true", "1h"}[r.Intn(14)])
	case octosql.TypeIDTime:
		return octosql.Time, octosql.NewTime([]time.Time{time.Unix(0, 0).UTC(), time.Unix(1600000000, 5).UTC(), time.Unix(1600000000, 0).In(zonePlus530), time.Unix(-1, 0).UTC()}[r.Intn(4)])
	case octosql.TypeIDDuration:
		return octosql.Duration, octosql.NewDuration([]time.Duration{0, 1, time.Second, -time.Second, time.Hour, 90 * time.Minute}[r.Intn(6)])
	case octosql.TypeIDList:
		if t.List.Element == nil {
			return t, octosql.NewList([]octosql.Value{})
		}
		vs := make([]octosql.Value, r.Intn(4))
		for i := range vs {
			_, vs[i] = genConstOfType(r, *t.List.Element, depth-1)
		}
		return t, octosql.NewList(vs)
	case octosql.TypeIDStruct:
		vs := make([]octosql.Value, len(t.Struct.Fields))
		for i := range vs {
			_, vs[i] = genConstOfType(r, t.Struct.Fields[i].Type, depth-1)
		}
		return t, octosql.NewStruct(vs)
	case octosql.TypeIDTuple:
		vs := make([]octosql.Value, len(t.Tuple.Elements))
		for i := range vs {
			_, vs[i] = genConstOfType(r, t.Tuple.Elements[i], depth-1)
		}
		return t, octosql.NewTuple(vs)
	}
	panic("genConstOfType")
}

// typeWithID: some type with the given TypeID, for the arguments of a TypeFn descriptor
func typeWithID(r *lib.Rng, tid int) octosql.Type {
	elem := []octosql.Type{octosql.Int, octosql.String, octosql.Float, octosql.Boolean}[r.Intn(4)]
	switch octosql.TypeID(tid) {
	case octosql.TypeIDList:
		if r.Chance(1, 6) {
			return listOf(nil)
		}
		return listOf(&elem)
	case octosql.TypeIDStruct:
		return structOf([]octosql.StructField{{Name: "a", Type: elem}, {Name: "b", Type: octosql.String}}[:1+r.Intn(2)])
	case octosql.TypeIDTuple:
		return tupleOf([]octosql.Type{elem, elem, elem}[:r.Intn(4)])
	case octosql.TypeIDUnion:
		return unionOf([]octosql.Type{octosql.Int, octosql.String})
	}
	for _, t := range scalarTypes {
		if int(t.TypeID) == tid {
			return t
		}
	}
	panic("typeWithID")
}

// hostFirstPass: the descriptor logical.FunctionExpression.Typecheck selects in its first pass (the last one that fits)
func hostFirstPass(ds []physical.FunctionDescriptor, argTypes []octosql.Type) int {
	nn := make([]octosql.Type, len(argTypes))
	for i := range argTypes {
		nn[i] = octosql.NonNullable(argTypes[i])
	}
	pick := -1
descriptors:
	for k, d := range ds {
		ts := argTypes
		if d.Strict {
			ts = nn
		}
		if d.TypeFn != nil {
			if _, ok := d.TypeFn(ts); ok {
				pick = k
			}
			continue
		}
		if len(ts) != len(d.ArgumentTypes) {
			continue
		}
		for i := range ts {
			if ts[i].Is(d.ArgumentTypes[i]) < octosql.TypeRelationIs {
				continue descriptors
			}
		}
		pick = k
	}
	return pick
}

func constExpr(t octosql.Type, v octosql.Value) physical.Expression {
	return physical.Expression{Type: t, ExpressionType: physical.ExpressionTypeConstant, Constant: &physical.Constant{Value: v}}
}

// valueKey renders a value without the identity of time locations (encoding/json rebuilds a zone from its offset,
// so the *time.Location pointer is never the same; the instant and the offset are what a function can observe).
func valueKey(v octosql.Value) string {
	switch v.TypeID {
	case octosql.TypeIDTime:
		_, off := v.Time.Zone()
		return fmt.Sprintf("(time %s offset %d)", lib.Ns(v.Time), off)
	case octosql.TypeIDList, octosql.TypeIDStruct, octosql.TypeIDTuple:
		vs := v.List
		if v.TypeID == octosql.TypeIDStruct {
			vs = v.Struct
		} else if v.TypeID == octosql.TypeIDTuple {
			vs = v.Tuple
		}
		out := fmt.Sprintf("(%d", v.TypeID)
		for i := range vs {
			out += " " + valueKey(vs[i])
		}
		return out + ")"
	}
	return lib.CoqValue(v)
}

type evalResult struct {
	Val   string
	Err   bool
	Panic bool
}

func evalExpr(e physical.Expression) (res evalResult) {
	defer func() {
		if p := recover(); p != nil {
			res = evalResult{Panic: true}
		}
	}()
	ex, err := e.Materialize(context.Background(), physical.Environment{})
	if err != nil {
		return evalResult{Err: true}
	}
	v, err := ex.Evaluate(execution.ExecutionContext{Context: context.Background()})
	if err != nil {
		return evalResult{Err: true}
	}
	return evalResult{Val: valueKey(v)}
}

// functions whose result depends on the clock / a random source, or that stop the process: resolved, not evaluated
var notEvaluated = map[string]bool{"now": true, "sleep": true, "panic": true, "rand": true, "random": true, "uuid": true}

func jsonTrip(e physical.Expression) (physical.Expression, error) {
	in := []physical.Expression{e}
	b, err := json.Marshal(&in)
	if err != nil {
		return physical.Expression{}, err
	}
	var out []physical.Expression
	if err := json.Unmarshal(b, &out); err != nil {
		return physical.Expression{}, err
	}
	if len(out) != 1 {
		return physical.Expression{}, fmt.Errorf("%d expressions after the JSON trip", len(out))
	}
	return out[0], nil
}

// findCall returns the (only) function-call node that has the given name and is not below another call
func findCall(e physical.Expression) *physical.Expression {
	switch e.ExpressionType {
	case physical.ExpressionTypeFunctionCall:
		return &e
	case physical.ExpressionTypeAnd:
		for _, a := range e.And.Arguments {
			if c := findCall(a); c != nil {
				return c
			}
		}
	case physical.ExpressionTypeOr:
		for _, a := range e.Or.Arguments {
			if c := findCall(a); c != nil {
				return c
			}
		}
	case physical.ExpressionTypeCoalesce:
		for _, a := range e.Coalesce.Arguments {
			if c := findCall(a); c != nil {
				return c
			}
		}
	case physical.ExpressionTypeTuple:
		for _, a := range e.Tuple.Arguments {
			if c := findCall(a); c != nil {
				return c
			}
		}
	case physical.ExpressionTypeTypeAssertion:
		return findCall(e.TypeAssertion.Expression)
	case physical.ExpressionTypeTypeCast:
		return findCall(e.TypeCast.Expression)
	case physical.ExpressionTypeObjectFieldAccess:
		return findCall(e.ObjectFieldAccess.Object)
	}
	return nil
}

func wrap(r *lib.Rng, e physical.Expression) (physical.Expression, string) {
	other := constExpr(octosql.Boolean, octosql.NewBoolean(true))
	switch r.Intn(8) {
	case 0:
		return physical.Expression{Type: octosql.Boolean, ExpressionType: physical.ExpressionTypeAnd, And: &physical.And{Arguments: []physical.Expression{other, e}}}, "and"
	case 1:
		return physical.Expression{Type: octosql.Boolean, ExpressionType: physical.ExpressionTypeOr, Or: &physical.Or{Arguments: []physical.Expression{e, other}}}, "or"
	case 2:
		return physical.Expression{Type: e.Type, ExpressionType: physical.ExpressionTypeCoalesce, Coalesce: &physical.Coalesce{Arguments: []physical.Expression{e, e}}}, "coalesce"
	case 3:
		return physical.Expression{Type: tupleOf([]octosql.Type{octosql.Boolean, e.Type}), ExpressionType: physical.ExpressionTypeTuple, Tuple: &physical.Tuple{Arguments: []physical.Expression{other, e}}}, "tuple"
	case 4:
		return physical.Expression{Type: e.Type, ExpressionType: physical.ExpressionTypeTypeAssertion, TypeAssertion: &physical.TypeAssertion{Expression: e, TargetType: e.Type}}, "assertion"
	case 5:
		return physical.Expression{Type: e.Type, ExpressionType: physical.ExpressionTypeTypeCast, TypeCast: &physical.TypeCast{Expression: e, TargetTypeID: e.Type.TypeID}}, "cast"
	}
	return e, "bare"
}

type callEngine struct {
	names []string
	rows  map[string][]tableRow
	ptrs  map[string][]uintptr
	fm    map[string]physical.FunctionDetails
	pool  []physical.Expression // resolved call expressions, reused as arguments of other calls
}

func newCallEngine() (*callEngine, error) {
	names, rows, err := loadTable()
	if err != nil {
		return nil, err
	}
	ce := &callEngine{names: names, rows: rows, ptrs: map[string][]uintptr{}, fm: map[string]physical.FunctionDetails{}}
	for _, name := range names {
		seen := map[uintptr]bool{}
		var ds []physical.FunctionDescriptor
		for _, row := range rows[name] {
			p := reflect.ValueOf(row.Desc.Function).Pointer()
			if seen[p] {
				return nil, fmt.Errorf("function %q: two descriptors share one Function code pointer; the harness cannot tell them apart", name)
			}
			seen[p] = true
			ce.ptrs[name] = append(ce.ptrs[name], p)
			ds = append(ds, row.Desc)
		}
		ce.fm[name] = physical.FunctionDetails{Descriptors: ds}
	}
	return ce, nil
}

// which descriptor's Function sits in the call node (-1: nil Function, -2: a function of no descriptor of that name)
func (ce *callEngine) installed(call *physical.FunctionCall) int {
	if call.FunctionDescriptor.Function == nil {
		return -1
	}
	p := reflect.ValueOf(call.FunctionDescriptor.Function).Pointer()
	for i, q := range ce.ptrs[call.Name] {
		if p == q {
			return i
		}
	}
	return -2
}

// argument types (and constants) the host resolves to descriptor row
func (ce *callEngine) genArgs(r *lib.Rng, row tableRow) ([]physical.Expression, bool) {
	d := row.Desc
	var want []octosql.Type
	if row.Guards == nil {
		want = d.ArgumentTypes
	} else {
		n := 1
		for _, c := range *row.Guards {
			if c.Kind == "len" {
				n = c.N
			}
		}
		want = make([]octosql.Type, n)
		for i := range want {
			want[i] = scalarTypes[1+r.Intn(6)]
		}
		for _, c := range *row.Guards {
			if c.Kind == "tid" && c.I < n {
				want[c.I] = typeWithID(r, c.Tid)
			}
		}
		for _, c := range *row.Guards {
			if c.Kind == "eq" && c.I < n && c.J < n {
				want[c.J] = want[c.I]
			}
		}
	}
	args := make([]physical.Expression, len(want))
	for i, t := range want {
		// sometimes an already resolved call of the right type instead of a constant (nested calls)
		if len(ce.pool) > 0 && r.Chance(1, 5) {
			cand := ce.pool[r.Intn(len(ce.pool))]
			fits := cand.Type.Is(t) == octosql.TypeRelationIs
			if row.Guards != nil {
				fits = cand.Type.Equals(t)
			}
			if fits {
				args[i] = cand
				continue
			}
		}
		st, v := genConstOfType(r, t, 2)
		args[i] = constExpr(st, v)
	}
	// membership functions: let the needle be an element half of the time
	if row.Guards != nil && len(args) == 2 && args[0].ExpressionType == physical.ExpressionTypeConstant && args[1].ExpressionType == physical.ExpressionTypeConstant && r.Bool() {
		hay := args[1].Constant.Value
		var elems []octosql.Value
		var et *octosql.Type
		switch hay.TypeID {
		case octosql.TypeIDList:
			elems, et = hay.List, args[1].Type.List.Element
		case octosql.TypeIDTuple:
			elems = hay.Tuple
			if len(args[1].Type.Tuple.Elements) > 0 {
				et = &args[1].Type.Tuple.Elements[0]
			}
		}
		if len(elems) > 0 && et != nil {
			args[0] = constExpr(*et, elems[r.Intn(len(elems))])
		}
	}
	return args, true
}

func argTypesOf(args []physical.Expression) []octosql.Type {
	ts := make([]octosql.Type, len(args))
	for i := range args {
		ts[i] = args[i].Type
	}
	return ts
}

func (ce *callEngine) callCases(cf *lib.CaseFile, rng *lib.Rng, perDescriptor int, findingClass string) {
	for _, name := range ce.names {
		for _, row := range ce.rows[name] {
			for rep := 0; rep < perDescriptor; rep++ {
				r := rng.Fork()
				args, _ := ce.genArgs(r, row)
				ats := argTypesOf(args)
				if hostFirstPass(ce.fm[name].Descriptors, ats) != row.Idx {
					cf.Count("call_skipped_host_resolves_to_another_descriptor")
					continue
				}
				outType := row.Desc.OutputType
				if row.Desc.TypeFn != nil {
					ts := ats
					if row.Desc.Strict {
						ts = make([]octosql.Type, len(ats))
						for i := range ats {
							ts[i] = octosql.NonNullable(ats[i])
						}
					}
					outType, _ = row.Desc.TypeFn(ts)
				}
				if row.Desc.Strict {
					for i := range ats {
						if octosql.Null.Is(ats[i]) == octosql.TypeRelationIs {
							outType = octosql.TypeSum(outType, octosql.Null)
						}
					}
				}
				host := physical.Expression{Type: outType, ExpressionType: physical.ExpressionTypeFunctionCall,
					FunctionCall: &physical.FunctionCall{Name: name, Arguments: args, FunctionDescriptor: row.Desc}}
				wrapped, how := wrap(r, host)
				js := map[string]interface{}{"kind": "call", "function": name, "descriptor": row.Idx, "argument_types": typesJSON(ats), "wrapped_in": how, "typefn": row.Desc.TypeFn != nil}
				received, err := jsonTrip(wrapped)
				if err != nil {
					idx := cf.Add(fmt.Sprintf("KCall %s %d %s None false false", lib.CoqBytes(name), row.Idx, coqTypes(ats)), js, false)
					cf.Violation(idx, "the predicate does not survive json.Marshal/Unmarshal: "+err.Error(), "")
					continue
				}
				var plugin physical.Expression
				var ok bool
				if p := caught(func() { plugin, ok = plugins.VerifRepopulatePhysicalExpressionFunctions(received) }); p != nil {
					idx := cf.Add(fmt.Sprintf("KCall %s %d %s None false false", lib.CoqBytes(name), row.Idx, coqTypes(ats)), js, false)
					cf.Violation(idx, fmt.Sprintf("RepopulatePhysicalExpressionFunctions panicked: %v", p), "")
					continue
				}
				node := findCall(plugin)
				got := "None"
				inst := -1
				if node != nil {
					inst = ce.installed(node.FunctionCall)
				}
				if inst >= 0 {
					got = fmt.Sprintf("(Some %d%%nat)", inst)
				}
				same := true
				var hr, pr evalResult
				if !notEvaluated[name] && node != nil {
					hr, pr = evalExpr(host), evalExpr(*node)
					same = hr == pr
					js["host_result"], js["plugin_result"] = hr, pr
				}
				// constants must arrive unchanged
				if node != nil {
					for i := range args {
						if args[i].ExpressionType == physical.ExpressionTypeConstant &&
							(i >= len(node.FunctionCall.Arguments) || node.FunctionCall.Arguments[i].Constant == nil ||
								valueKey(node.FunctionCall.Arguments[i].Constant.Value) != valueKey(args[i].Constant.Value)) {
							same = false
							js["constant_changed"] = i
						}
					}
				}
				js["installed_descriptor"], js["ok"] = inst, ok
				nontrivial := row.Desc.TypeFn != nil || len(ce.rows[name]) > 1
				idx := cf.Add(fmt.Sprintf("KCall %s %d %s %s %s %s", lib.CoqBytes(name), row.Idx, coqTypes(ats), got, lib.CoqBool(ok), lib.CoqBool(same)), js, nontrivial)
				if inst == -2 {
					cf.Violation(idx, "a Function of no descriptor of that name was installed", "")
				}
				if findingClass != "" && row.Desc.TypeFn != nil && firstTypeFn(ce.rows[name]) != row.Idx {
					cf.SetClass(idx, findingClass)
				}
				cf.Count("call_" + how)
				if row.Desc.TypeFn != nil {
					cf.Count("call_typefn_descriptor")
				}
				if inst == row.Idx && ok && same && how == "bare" && len(ce.pool) < 400 && !notEvaluated[name] && !hr.Err && !hr.Panic {
					ce.pool = append(ce.pool, host)
				}
			}
		}
	}
}

func firstTypeFn(rows []tableRow) int {
	for _, r := range rows {
		if r.Desc.TypeFn != nil {
			return r.Idx
		}
	}
	return -1
}

// unknownCases: signatures that belong to no descriptor (another octosql version on the other side), unknown names
func (ce *callEngine) unknownCases(cf *lib.CaseFile, rng *lib.Rng, n int) {
	for i := 0; i < n; i++ {
		r := rng.Fork()
		name := ce.names[r.Intn(len(ce.names))]
		row := ce.rows[name][r.Intn(len(ce.rows[name]))]
		d := row.Desc
		d.ArgumentTypes = append([]octosql.Type{}, d.ArgumentTypes...)
		how := ""
		switch r.Intn(5) {
		case 0:
			d.Strict, how = !d.Strict, "strict flipped"
		case 1:
			d.OutputType, how = listOf(&octosql.Type{TypeID: octosql.TypeIDDuration}), "output type changed"
		case 2:
			d.ArgumentTypes, how = append(d.ArgumentTypes, octosql.Duration), "an argument added"
		case 3:
			if len(d.ArgumentTypes) > 0 {
				d.ArgumentTypes[r.Intn(len(d.ArgumentTypes))], how = tupleOf([]octosql.Type{octosql.Duration}), "an argument type changed"
			} else {
				d.Strict, how = !d.Strict, "strict flipped"
			}
		default:
			name, how = "no_such_function_"+name, "unknown name"
		}
		args := make([]physical.Expression, len(d.ArgumentTypes))
		for j, t := range d.ArgumentTypes {
			st, v := genConstOfType(r, t, 1)
			args[j] = constExpr(st, v)
		}
		ats := argTypesOf(args)
		d.Function, d.TypeFn = nil, nil
		e := physical.Expression{Type: d.OutputType, ExpressionType: physical.ExpressionTypeFunctionCall,
			FunctionCall: &physical.FunctionCall{Name: name, Arguments: args, FunctionDescriptor: d}}
		received, err := jsonTrip(e)
		if err != nil {
			continue
		}
		var plugin physical.Expression
		var ok bool
		p := caught(func() { plugin, ok = plugins.VerifRepopulatePhysicalExpressionFunctions(received) })
		got := "None"
		inst := -1
		if p == nil {
			if inst = ce.installed(plugin.FunctionCall); inst >= 0 {
				got = fmt.Sprintf("(Some %d%%nat)", inst)
			}
		}
		sigArgs := make([]string, len(d.ArgumentTypes))
		for j := range sigArgs {
			sigArgs[j] = coqType(d.ArgumentTypes[j])
		}
		idx := cf.Add(fmt.Sprintf("KUnknown %s (mkwsig %s %s %s) %s %s %s", lib.CoqBytes(name), lib.CoqList(sigArgs), coqType(d.OutputType), lib.CoqBool(d.Strict), coqTypes(ats), got, lib.CoqBool(ok)),
			map[string]interface{}{"kind": "unknown_signature", "function": name, "how": how, "installed_descriptor": inst, "ok": ok}, true)
		if p != nil {
			cf.Violation(idx, fmt.Sprintf("RepopulatePhysicalExpressionFunctions panicked: %v", p), "")
		}
		cf.Count("unknown_" + how)
	}
}

// ---------------------------------------------------------------------------------------------- main

func main() {
	f := lib.ParseFlags()
	log.SetOutput(io.Discard)          // RepopulatePhysicalExpressionFunctions logs every rejection
	lib.LocID(time.Unix(0, 0).UTC()) // location 0 = UTC = the model's loc_utc
	switch f.Cmd {
	case "gen":
		if err := runGen(f.Out); err != nil {
			fmt.Fprintln(os.Stderr, "c26 gen:", err)
			os.Exit(1)
		}
		return
	case "run":
	default:
		fmt.Fprintln(os.Stderr, "c26: run | gen")
		os.Exit(2)
	}
	rng := lib.NewRng(f.Seed)
	cf := lib.NewCaseFile("C26", f.Seed, f.Tier)
	cf.Imports = []string{"Wire", "GenWireFunctions"}
	cf.CaseType = "c26_case"
	cf.Checks = []lib.Check{{Name: "tie", Kind: "tie", Fn: "c26_tie gen_wire_functions"}, {Name: "spec", Kind: "spec", Fn: "c26_spec gen_wire_functions"}}
	cf.Side.Rule = "round trips of generated values (depth <= 3, all kinds, zero/extreme/zoned instants, NaN payloads, strings that are not UTF-8), types, schemas, records, " +
		"metadata messages and both variable contexts through the real converters, in process and through proto.Marshal/Unmarshal; hand-damaged Value messages through ToNativeValue; " +
		"for every descriptor of functions.FunctionMap() function calls with well-typed constant or nested-call arguments (bare or below and/or/coalesce/tuple/assertion/cast) through " +
		"json.Marshal -> json.Unmarshal -> RepopulatePhysicalExpressionFunctions -> Materialize -> Evaluate, compared with the host's evaluation; signatures of no descriptor; " +
		"end to end through the CLI and a test plugin binary: WHERE clauses (atoms, and/or, pushable conjunct + conjunct with a subquery that stays on the host, subquery below cast / type assertion / field access) against CSV/JSON files of the same data, " +
		"event-time streams (records + watermarks) whose received order must be the produced order, " +
		"the plugin table below correlated subqueries / lookup joins (re-run per outer record with a different variable context), " +
		"and joins / IN-subqueries over 2-3 references of a plugin table whose rows and schema depend on its options (same or different options, any order); " +
		"non-trivial = composite value/type, non-empty schema/record, multi-frame context, call of an overloaded or TypeFn-declared function; distinct by full case text"

	ce, err := newCallEngine()
	if err != nil {
		fmt.Fprintln(os.Stderr, "c26:", err)
		os.Exit(1)
	}
	roundTrips(cf, rng, f.Cases(480, 4800))
	fromProto(cf, rng, f.Cases(60, 600))
	per := 2
	if f.Tier == "thorough" {
		per = 12
	}
	ce.callCases(cf, rng, per, "")
	ce.unknownCases(cf, rng, f.Cases(60, 600))
	e2eCases(cf, rng, f)

	if err := cf.Write(f.Out); err != nil {
		fmt.Fprintln(os.Stderr, err)
		os.Exit(2)
	}
	_ = proto.Marshal
}
