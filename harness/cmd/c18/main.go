// c18: watermark monotonicity and lateness through the real EventTimeBuffer, Filter, Map, Unnest, tumble,
// max_diff_watermark and poll nodes, alone and in pipelines of two or three; the exact emitted event list
// is recorded.
package main

import (
	"fmt"
	"math"
	"os"
	"strings"
	"time"

	"github.com/cube2222/octosql/execution"
	"github.com/cube2222/octosql/octosql"

	"verifharness/c18kit"
	"verifharness/lib"
)

// column kinds of the row layout as it changes along a pipeline
const (
	kVal  = "val"
	kBool = "bool"
	kTime = "time"
	kList = "list"
)

func genCell(r *lib.Rng, kind string, around int64) octosql.Value {
	switch kind {
	case kBool:
		if r.Chance(1, 8) {
			return octosql.NewNull()
		}
		return octosql.NewBoolean(r.Chance(2, 3))
	case kTime:
		return octosql.NewTime(time.Unix(0, around+int64(r.Intn(7))-2).UTC())
	case kList:
		n := r.Intn(4)
		l := make([]octosql.Value, n)
		for i := range l {
			l[i] = octosql.NewInt(int64(r.Intn(3)))
		}
		return octosql.NewList(l)
	}
	return lib.GenValue(r, lib.SmallProfile, 0)
}

func genRow(r *lib.Rng, layout []string, around int64) []octosql.Value {
	vals := make([]octosql.Value, len(layout))
	for i, k := range layout {
		vals[i] = genCell(r, k, around)
	}
	return vals
}

// genScript: mostly well-timed streams; mode 1 allows late records, mode 2 also watermarks going backwards.
// Event times and watermarks are small offsets from a base instant: the Unix epoch, or one of the two ends
// of the int64 nanosecond range (1677-09-21 / 2262-04-11, = WatermarkMaxValue), so that a script straddles
// the instant where UnixNano() wraps around.
var baseEpoch = time.Unix(0, 0).UTC()
var baseMinNano = time.Unix(0, math.MinInt64).UTC()

func genScript(r *lib.Rng, layout []string, mode int) []lib.Event {
	return genScriptAt(r, layout, mode, baseEpoch)
}

func genScriptAt(r *lib.Rng, layout []string, mode int, base time.Time) []lib.Event {
	at := func(n int64) time.Time { return base.Add(time.Duration(n)) }
	n := r.Intn(15)
	var evs []lib.Event
	haveWM := false
	wm := int64(r.Intn(6)) - 3
	for i := 0; i < n; i++ {
		if r.Chance(1, 4) {
			if haveWM {
				wm += int64(r.Intn(4))
				if mode == 2 && r.Chance(1, 3) {
					wm -= int64(1 + r.Intn(4))
				}
			}
			haveWM = true
			evs = append(evs, lib.Event{IsWM: true, WM: at(wm)})
			continue
		}
		var et time.Time
		switch {
		case r.Chance(1, 5):
			et = time.Time{} // no event time
		case r.Chance(1, 60):
			et = execution.WatermarkMaxValue.Add(time.Duration(r.Intn(3)) - 1) // around the final flush's watermark
		case mode >= 1 && haveWM && r.Chance(1, 3):
			et = at(wm - int64(r.Intn(3))) // late
		case haveWM:
			et = at(wm + 1 + int64(r.Intn(5)))
		default:
			et = at(wm + int64(r.Intn(9)) - 3)
		}
		around := wm
		evs = append(evs, lib.Event{Rec: execution.NewRecord(genRow(r, layout, around), r.Chance(1, 5), et)})
	}
	return evs
}

type stage struct {
	coq  string
	wrap func(execution.Node) (execution.Node, error)
}

func indexOf(layout []string, kind string) int {
	for i, k := range layout {
		if k == kind {
			return i
		}
	}
	return -1
}

// genStage picks a node that is applicable to the layout and returns the layout after it.
func genStage(r *lib.Rng, layout []string, allowBuffer, allowMdw bool) (stage, []string) {
	for {
		kinds := 6
		if allowBuffer {
			kinds = 9 // Limit, Distinct and OrderSensitiveTransform too (not behind poll, which only ends by an error)
		}
		switch r.Intn(kinds) {
		case 6:
			n := []int64{0, 1, 1, 2, 3, 5, 100, -1}[r.Intn(8)]
			return stage{fmt.Sprintf("NLimit %s", lib.Z(n)), func(s execution.Node) (execution.Node, error) { return c18kit.Limit(s, n), nil }}, layout
		case 7:
			return stage{"NDistinct", func(s execution.Node) (execution.Node, error) { return c18kit.Distinct(s), nil }}, layout
		case 8:
			var cols []int
			var desc []bool
			var parts []string
			for j, k := 0, r.Intn(3); j < k; j++ {
				c, d := r.Intn(len(layout)), r.Bool()
				cols, desc = append(cols, c), append(desc, d)
				parts = append(parts, fmt.Sprintf("(%s, %d%%nat)", lib.CoqBool(d), c))
			}
			var lim *int64
			limCoq := "None"
			if r.Chance(1, 2) {
				v := []int64{0, 1, 2, 3, 10, -1}[r.Intn(6)]
				lim = &v
				limCoq = fmt.Sprintf("(Some %s)", lib.Z(v))
			}
			return stage{fmt.Sprintf("NOrderBy %s %s false", lib.CoqList(parts), limCoq), func(s execution.Node) (execution.Node, error) {
				return c18kit.OrderBy(s, cols, desc, lim, false), nil
			}}, layout
		case 0:
			if !allowBuffer {
				continue
			}
			return stage{"NBuffer", func(s execution.Node) (execution.Node, error) { return c18kit.Buffer(s), nil }}, layout
		case 1:
			i := indexOf(layout, kBool)
			if i < 0 {
				continue
			}
			return stage{fmt.Sprintf("NFilter %d%%nat", i), func(s execution.Node) (execution.Node, error) { return c18kit.Filter(s, i), nil }}, layout
		case 2:
			// a projection that keeps the time column (so that later stages stay applicable), duplicates allowed
			var idxs []int
			var nl []string
			for j, k := 0, 1+r.Intn(len(layout)+1); j < k; j++ {
				ix := r.Intn(len(layout))
				idxs = append(idxs, ix)
				nl = append(nl, layout[ix])
			}
			if t := indexOf(layout, kTime); t >= 0 && indexOf(nl, kTime) < 0 {
				idxs = append(idxs, t)
				nl = append(nl, kTime)
			}
			parts := make([]string, len(idxs))
			for j, ix := range idxs {
				parts[j] = fmt.Sprintf("%d%%nat", ix)
			}
			return stage{"NMap " + lib.CoqList(parts), func(s execution.Node) (execution.Node, error) { return c18kit.Map(s, idxs), nil }}, nl
		case 3:
			i := indexOf(layout, kList)
			if i < 0 {
				continue
			}
			nl := append([]string(nil), layout...)
			nl[i] = kVal
			return stage{fmt.Sprintf("NUnnest %d%%nat", i), func(s execution.Node) (execution.Node, error) { return c18kit.Unnest(s, i), nil }}, nl
		case 4:
			i := indexOf(layout, kTime)
			if i < 0 {
				continue
			}
			length := []int64{1, 2, 3, 5, 1000}[r.Intn(5)]
			off := []int64{0, 0, 1, -1, 7}[r.Intn(5)]
			n := len(layout)
			nl := append(append([]string(nil), layout...), kTime, kTime)
			return stage{fmt.Sprintf("NTumble %s %s %d%%nat", lib.Z(length), lib.Z(off), i), func(s execution.Node) (execution.Node, error) {
				return c18kit.Tumble(s, time.Duration(length), time.Duration(off), i, n)
			}}, nl
		case 5:
			i := indexOf(layout, kTime)
			if i < 0 || !allowMdw {
				continue
			}
			res := []int64{1, 2, 3, 5}[r.Intn(4)]
			md := []int64{0, 0, 1, 3, -1}[r.Intn(5)]
			n := len(layout)
			return stage{fmt.Sprintf("NMdw %s %s %d%%nat", lib.Z(md), lib.Z(res), i), func(s execution.Node) (execution.Node, error) {
				return c18kit.Mdw(s, time.Duration(md), time.Duration(res), i, n)
			}}, layout
		}
	}
}

func wellTimed(es []lib.Event) bool {
	have := false
	var last time.Time
	for _, e := range es {
		if e.IsWM {
			if have && e.WM.Before(last) {
				return false
			}
			have, last = true, e.WM
		} else if have && !e.Rec.EventTime.IsZero() && !e.Rec.EventTime.After(last) {
			return false
		}
	}
	return true
}

func main() {
	f := lib.ParseFlags()
	if f.Cmd != "run" {
		fmt.Fprintln(os.Stderr, "c18: only 'run'")
		os.Exit(2)
	}
	rng := lib.NewRng(f.Seed)
	cf := lib.NewCaseFile("C18", f.Seed, f.Tier)
	cf.Imports = []string{"Buffer"}
	cf.CaseType = "c18_case"
	cf.Checks = []lib.Check{{Name: "tie", Kind: "tie", Fn: "c18_tie"}, {Name: "spec", Kind: "spec", Fn: "c18_spec"}}
	cf.Side.Rule = "watermarked streams of 0..14 events (16 per run around the instant where UnixNano() wraps, 1677-09-21; zero and non-zero event times, equal instants, out-of-order arrival, pre-epoch instants, instants around WatermarkMaxValue; " +
		"mostly well timed, some with late records or watermarks going backwards) through the real EventTimeBuffer alone, through single Filter/Map/Unnest/tumble/max_diff_watermark nodes and " +
		"through pipelines of 2..3 of them; poll over a source failing after 1..3 rounds, alone and followed by per-record nodes; " +
		"non-trivial = well-timed source, at least one watermark and three records in the output; distinct by full case text"
	n := f.Cases(330, 3300)
	for i := 0; i < n; i++ {
		r := rng.Fork()
		shape := r.Intn(10)
		if i < 16 {
			shape = 0 // a fixed family per run: the buffer alone over instants around the lower end of the UnixNano range
		}
		var stages []stage
		var srcCoq string
		var srcJS interface{}
		var srcNode execution.Node
		var snap *c18kit.SnapshotSource
		srcWT := true
		isPoll := shape == 9
		layout := []string{kVal, kBool, kTime, kList}
		var script []lib.Event
		if isPoll {
			base := []string{kVal, kBool, kList}
			snap = &c18kit.SnapshotSource{}
			rounds := 1 + r.Intn(3)
			var js []interface{}
			for k := 0; k < rounds; k++ {
				var evs []lib.Event
				for j, nrows := 0, r.Intn(4); j < nrows; j++ {
					evs = append(evs, lib.Event{Rec: execution.NewRecord(genRow(r, base, 0), false, time.Time{})})
				}
				snap.Rounds = append(snap.Rounds, evs)
				js = append(js, c18kit.EventsJSON(evs))
			}
			srcJS = map[string]interface{}{"poll_rounds": js}
			layout = append([]string{kTime}, base...)
			for j, k := 0, r.Intn(3); j < k; j++ {
				var st stage
				st, layout = genStage(r, layout, false, false)
				stages = append(stages, st)
			}
		} else {
			mode := 0
			if r.Chance(1, 5) {
				mode = 1 + r.Intn(2)
			}
			base := baseEpoch
			if i < 16 {
				base = baseMinNano
			}
			script = genScriptAt(r, layout, mode, base)
			if base != baseEpoch {
				cf.Count("script_around_min_unixnano")
			}
			srcWT = wellTimed(script)
			srcNode = &lib.ScriptSource{Events: script}
			srcCoq = "SScript " + c18kit.CoqEvents(script)
			srcJS = c18kit.EventsJSON(script)
			switch {
			case shape <= 3:
				stages = []stage{{"NBuffer", func(s execution.Node) (execution.Node, error) { return c18kit.Buffer(s), nil }}}
			case shape <= 5:
				var st stage
				st, layout = genStage(r, layout, false, true)
				stages = []stage{st}
			default:
				for j, k := 0, 2+r.Intn(2); j < k; j++ {
					var st stage
					st, layout = genStage(r, layout, true, true)
					stages = append(stages, st)
				}
			}
		}
		var own []int
		kind, out, note := 2, []lib.Event(nil), ""
		func() {
			defer func() {
				if p := recover(); p != nil {
					kind, note = 2, fmt.Sprintf("panic while materializing: %v", p)
				}
			}()
			var node execution.Node = srcNode
			var err error
			if isPoll {
				node, err = c18kit.Poll(snap, 3, time.Duration(20+r.Intn(60))*time.Microsecond)
				if err != nil {
					kind, note = 1, err.Error()
					return
				}
			}
			for _, st := range stages {
				node, err = st.wrap(node)
				if err != nil {
					kind, note = 1, err.Error()
					return
				}
			}
			o, e, p := c18kit.RunRecording(node, func(ix int) {
				if snap != nil && snap.Returned {
					snap.Returned = false
					own = append(own, ix)
				}
			})
			out, kind = o, c18kit.Kind(e, p)
			if p != nil {
				note = fmt.Sprintf("panic: %v", p)
			} else if e != nil {
				note = e.Error()
			}
		}()
		if isPoll {
			// clock: poll's own watermarks; for the failing round the event time of its retractions if any
			var nows []string
			last := time.Time{}
			for _, ix := range own {
				nows = append(nows, c18kit.NsExact(out[ix].WM))
				last = out[ix].WM
			}
			final := last.Add(time.Nanosecond)
			if len(own) > 0 {
				for _, e := range out[own[len(own)-1]+1:] {
					if !e.IsWM && e.Rec.EventTime.After(last) {
						final = e.Rec.EventTime
						break
					}
				}
			} else {
				final = time.Unix(0, 1).UTC()
			}
			nows = append(nows, c18kit.NsExact(final))
			rounds := make([]string, len(snap.Rounds))
			for k := range snap.Rounds {
				rounds[k] = c18kit.CoqEvents(snap.Rounds[k])
			}
			srcCoq = fmt.Sprintf("SPoll %s %s", lib.CoqList(nows), lib.CoqList(rounds))
		}
		names := make([]string, len(stages))
		for j := range stages {
			names[j] = stages[j].coq
		}
		nwm, nrec := 0, 0
		for _, e := range out {
			if e.IsWM {
				nwm++
			} else {
				nrec++
			}
		}
		js := map[string]interface{}{"source": srcJS, "nodes": names, "kind": kind, "output": c18kit.EventsJSON(out), "note": note}
		cf.Add(fmt.Sprintf("(%s, %s, %d, %s)", srcCoq, lib.CoqList(names), kind, c18kit.CoqEvents(out)), js, srcWT && nwm >= 1 && nrec >= 3)
		cf.Count(fmt.Sprintf("kind_%d", kind))
		cf.Count(fmt.Sprintf("stages_%d", len(stages)))
		for _, nm := range names {
			cf.Count("node_" + strings.SplitN(nm, " ", 2)[0])
		}
		if isPoll {
			cf.Count("source_poll")
		} else if srcWT {
			cf.Count("source_script_well_timed")
		} else {
			cf.Count("source_script_ill_timed")
		}
	}
	for i, m := 0, f.Cases(1, 5); i < m; i++ {
		largeBufferCase(rng.Fork(), cf)
	}
	for i, m := 0, f.Cases(160, 1600); i < m; i++ {
		joinCase(rng.Fork(), cf)
	}
	for i, m := 0, f.Cases(110, 1100); i < m; i++ {
		groupByCase(rng.Fork(), cf)
	}
	if err := cf.Write(f.Out); err != nil {
		fmt.Fprintln(os.Stderr, err)
		os.Exit(2)
	}
}
