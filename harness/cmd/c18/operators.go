// Oracle-only cases of c18: StreamJoin, OuterJoin and the group-by with triggers are run on generated
// well-timed, watermarked inputs (the joins under a prescribed interleaving, through the verifJoinRecv
// hook) and the C18 oracle — monotone watermarks, no record with a non-zero event time at or below a
// watermark already emitted — is applied to what they emit.  Their models and theorems live in C19 and
// C16/C17; here only `well_timed`/`monotone` of Model/Buffer.v are evaluated on the observation.
package main

import (
	"fmt"
	"strings"
	"time"

	"github.com/cube2222/octosql/execution"
	"github.com/cube2222/octosql/octosql"

	"verifharness/c18kit"
	"verifharness/lib"
)

const (
	classZeroTime  = "join-zero-time-record-meets-timed-record"
	classPaddedRow = "outer-join-padded-row-retracted-or-restored-later"
	classEOSKey    = "group-by-time-keyed-group-fired-at-end-of-stream"
)

type sideOpts struct {
	keys      []int64
	zero      bool // records without event time allowed
	retract   bool // retractions of live rows allowed
	maxStep   int  // watermark pace
	maxLen    int
	startBase int64
}

// genSide draws a well-timed changelog: watermarks strictly increase, every timed record is above the last
// watermark of its own input, retractions retract a row that is present.
func genSide(r *lib.Rng, o sideOpts) []lib.Event {
	n := r.Intn(o.maxLen + 1)
	var evs []lib.Event
	var live [][]octosql.Value
	var liveAt []time.Time // event time of the insertion: its retraction must not be ordered before it
	have := false
	wm := o.startBase
	for i := 0; i < n; i++ {
		if r.Chance(1, 3) {
			if have {
				wm += int64(1 + r.Intn(o.maxStep))
			}
			have = true
			evs = append(evs, lib.Event{IsWM: true, WM: time.Unix(0, wm).UTC()})
			continue
		}
		var et time.Time
		switch {
		case o.zero && r.Chance(1, 4):
		case have:
			et = time.Unix(0, wm+1+int64(r.Intn(4))).UTC()
		default:
			et = time.Unix(0, wm-2+int64(r.Intn(6))).UTC()
		}
		if o.retract && len(live) > 0 && r.Chance(1, 4) {
			k := r.Intn(len(live))
			vals, at := live[k], liveAt[k]
			live = append(live[:k:k], live[k+1:]...)
			liveAt = append(liveAt[:k:k], liveAt[k+1:]...)
			if !at.IsZero() && (et.IsZero() || et.Before(at)) {
				et = at // a timed row is retracted at its own instant or later (the buffers order by event time)
			}
			evs = append(evs, lib.Event{Rec: execution.NewRecord(vals, true, et)})
			continue
		}
		key := octosql.NewInt(o.keys[r.Intn(len(o.keys))])
		if r.Chance(1, 12) {
			key = octosql.NewNull()
		}
		vals := []octosql.Value{key, octosql.NewInt(int64(r.Intn(3)))}
		live = append(live, vals)
		liveAt = append(liveAt, et)
		evs = append(evs, lib.Event{Rec: execution.NewRecord(vals, false, et)})
	}
	return evs
}

func toMsgs(evs []lib.Event) []c18kit.JMsg {
	var ms []c18kit.JMsg
	for _, e := range evs {
		if e.IsWM {
			ms = append(ms, c18kit.JMsg{Kind: c18kit.JWM, WM: e.WM})
		} else {
			ms = append(ms, c18kit.JMsg{Kind: c18kit.JRec, Rec: e.Rec})
		}
	}
	return append(ms, c18kit.JMsg{Kind: c18kit.JClose})
}

func sameKey(a, b execution.Record) bool {
	return a.Values[0].TypeID != octosql.TypeIDNull && b.Values[0].TypeID != octosql.TypeIDNull && a.Values[0].Compare(b.Values[0]) == 0
}

// joinClass decides, from the inputs alone, whether a case lies in one of the recorded finding classes.
func joinClass(joinKind int, left, right []lib.Event) string {
	zero, padded := false, false
	for _, a := range left {
		for _, b := range right {
			if a.IsWM || b.IsWM || !sameKey(a.Rec, b.Rec) {
				continue
			}
			az, bz := a.Rec.EventTime.IsZero(), b.Rec.EventTime.IsZero()
			if az != bz {
				zero = true
			}
			differ := !a.Rec.EventTime.Equal(b.Rec.EventTime) || a.Rec.Retraction || b.Rec.Retraction
			if differ && ((joinKind == 1 || joinKind == 3) && !az || (joinKind == 2 || joinKind == 3) && !bz) {
				padded = true
			}
		}
	}
	switch {
	case zero:
		return classZeroTime
	case padded:
		return classPaddedRow
	}
	return ""
}

func schedString(s []bool) string {
	var b strings.Builder
	for _, l := range s {
		if l {
			b.WriteByte('L')
		} else {
			b.WriteByte('R')
		}
	}
	return b.String()
}

func countOut(out []lib.Event) (nwm, nrec int) {
	for _, e := range out {
		if e.IsWM {
			nwm++
		} else {
			nrec++
		}
	}
	return
}

func joinCase(r *lib.Rng, cf *lib.CaseFile) {
	joinKind := r.Intn(4) // 0 inner (StreamJoin), 1 left, 2 right, 3 full outer (OuterJoin)
	lo := sideOpts{keys: []int64{0, 1, 2}, maxStep: 1 + r.Intn(4), maxLen: 8, startBase: int64(r.Intn(4))}
	ro := sideOpts{keys: []int64{0, 1, 2}, maxStep: 1 + r.Intn(4), maxLen: 8, startBase: int64(r.Intn(4))}
	family := r.Intn(6)
	switch family {
	case 0: // keys of the two inputs never meet: what is emitted is padded rows (outer joins) or nothing
		ro.keys = []int64{5, 6}
	case 1:
		lo.zero, ro.zero = true, r.Bool()
	case 2:
		lo.retract, ro.retract = true, true
	case 3:
		lo.zero, ro.zero, lo.retract, ro.retract = r.Bool(), true, true, r.Bool()
	}
	left, right := genSide(r, lo), genSide(r, ro)
	lm, rm := toMsgs(left), toMsgs(right)
	// interleaving: biased so that one input often runs ahead of the other (their watermarks differ)
	bias := 1 + r.Intn(5)
	var sched []bool
	for i, j := 0, 0; i < len(lm) || j < len(rm); {
		takeLeft := j >= len(rm) || (i < len(lm) && r.Intn(6) < bias)
		sched = append(sched, takeLeft)
		if takeLeft {
			i++
		} else {
			j++
		}
	}
	out, kind, note := c18kit.RunJoin(joinKind, lm, rm, 2, 2, []int{0}, []int{0}, sched)
	nwm, nrec := countOut(out)
	name := []string{"StreamJoin", "OuterJoin left", "OuterJoin right", "OuterJoin full"}[joinKind]
	js := map[string]interface{}{"operator": name, "left": c18kit.EventsJSON(left), "right": c18kit.EventsJSON(right),
		"schedule": schedString(sched), "kind": kind, "output": c18kit.EventsJSON(out), "note": note}
	cls := joinClass(joinKind, left, right)
	tag := map[string]int{"": 0, classZeroTime: 1, classPaddedRow: 2}[cls]
	idx := cf.Add(fmt.Sprintf("(SInputs (OpJoin %d) %d [%s; %s], [], %d, %s)", joinKind, tag, c18kit.CoqEvents(left), c18kit.CoqEvents(right), kind, c18kit.CoqEvents(out)),
		js, nwm >= 1 && nrec >= 2)
	if cls != "" {
		cf.SetClass(idx, cls)
		cf.Count("class_" + cls)
	}
	cf.Count("operator_" + strings.Fields(name)[0])
	cf.Count(fmt.Sprintf("join_kind_%d", joinKind))
	if cls == "" && nwm >= 1 && nrec >= 1 {
		cf.Count(fmt.Sprintf("join_kind_%d_outside_classes_with_output", joinKind))
	}
	if strings.HasPrefix(note, "the join took") || strings.HasPrefix(note, "harness:") {
		cf.Violation(idx, note, "")
	}
}

func groupByCase(r *lib.Rng, cf *lib.CaseFile) {
	timeKeyed := r.Bool()
	n := uint(1 + r.Intn(3))
	var trigs []c18kit.Trig
	var sets [][]c18kit.Trig
	if timeKeyed {
		sets = [][]c18kit.Trig{{{Kind: 1}}, {{Kind: 1}}, {{Kind: 0, N: n}}, {{Kind: 2}}, {{Kind: 1}, {Kind: 0, N: n}}, {{Kind: 1}, {Kind: 2}}}
	} else {
		sets = [][]c18kit.Trig{{{Kind: 0, N: n}}, {{Kind: 0, N: n}}, {{Kind: 2}}, {{Kind: 0, N: n}, {Kind: 2}}}
	}
	trigs = sets[r.Intn(len(sets))]
	base := genSide(r, sideOpts{keys: []int64{0, 1}, zero: !timeKeyed, retract: !timeKeyed, maxStep: 1 + r.Intn(4), maxLen: 12, startBase: int64(1 + r.Intn(4))})
	script := base
	keyCols, valCol, timeKey := []int{0}, 1, -1
	var lastWM time.Time
	inClass, firesAtEnd := false, false
	if timeKeyed {
		// rows [k, window_end, v]: the time key is the end of the 3 ns window the record's event time falls in
		keyCols, valCol, timeKey = []int{0, 1}, 2, 1
		script = nil
		for _, e := range base {
			if !e.IsWM {
				ns := e.Rec.EventTime.UnixNano()
				end := ns - ((ns%3)+3)%3 + 3
				e = lib.Event{Rec: execution.NewRecord([]octosql.Value{e.Rec.Values[0], octosql.NewTime(time.Unix(0, end).UTC()), e.Rec.Values[1]}, false, e.Rec.EventTime)}
			}
			script = append(script, e)
		}
		for _, e := range script {
			if e.IsWM {
				lastWM = e.WM
			}
		}
		for _, t := range trigs {
			if t.Kind != 1 {
				firesAtEnd = true
			}
		}
		for _, e := range script {
			if !e.IsWM && firesAtEnd && !lastWM.IsZero() && !e.Rec.Values[1].Time.After(lastWM) {
				inClass = true
			}
		}
	}
	node := c18kit.GroupBy(&lib.ScriptSource{Events: script}, keyCols, valCol, timeKey, trigs)
	out, err, p := lib.RunNode(node)
	kind := c18kit.Kind(err, p)
	nwm, nrec := countOut(out)
	var names []string
	for _, t := range trigs {
		names = append(names, []string{fmt.Sprintf("counting(%d)", t.N), "watermark", "end-of-stream"}[t.Kind])
	}
	js := map[string]interface{}{"operator": "CustomTriggerGroupBy", "time_keyed": timeKeyed, "triggers": names,
		"input": c18kit.EventsJSON(script), "kind": kind, "output": c18kit.EventsJSON(out)}
	tag := 0
	if inClass {
		tag = 3
	}
	idx := cf.Add(fmt.Sprintf("(SInputs (OpGroupBy %s %s) %d [%s], [], %d, %s)", lib.CoqBool(timeKeyed), lib.CoqBool(firesAtEnd), tag, c18kit.CoqEvents(script), kind, c18kit.CoqEvents(out)),
		js, nwm >= 1 && nrec >= 3)
	if inClass {
		cf.SetClass(idx, classEOSKey)
		cf.Count("class_" + classEOSKey)
	}
	cf.Count("operator_GroupBy")
	cf.Count("group_by_triggers_" + strings.Join(names, "+"))
	// how many groups fired more than once with a watermark forwarded in between (retraction of a sent row)
	retr := 0
	for _, e := range out {
		if !e.IsWM && e.Rec.Retraction {
			retr++
		}
	}
	if retr > 0 && nwm > 0 {
		cf.Count("group_by_with_retraction_of_sent_row")
	}
}
