package main

import (
	"fmt"
	"time"

	"github.com/cube2222/octosql/execution"
	"github.com/cube2222/octosql/octosql"

	"verifharness/c18kit"
	"verifharness/lib"
)

// bufferOracle reads the event-time buffer's clauses of C18 on (input, output) in Go — the same clauses as
// buffer_spec of Model/Buffer.v, for streams too long to be evaluated inside Coq.  Records are identified by
// their first value, a unique arrival number.  The input must be well timed with non-decreasing watermarks.
func bufferOracle(inp, out []lib.Event) string {
	type info struct {
		et   time.Time
		retr bool
		pos  int
	}
	in := map[int64]info{}
	var inWMs []time.Time
	for i, e := range inp {
		if e.IsWM {
			inWMs = append(inWMs, e.WM)
		} else {
			in[e.Rec.Values[0].Int] = info{e.Rec.EventTime, e.Rec.Retraction, i}
		}
	}
	seen := map[int64]bool{}
	var lastTimed *lib.Event
	var lastZeroPos = -1
	k := 0 // watermarks of the output seen so far
	for i := range out {
		e := out[i]
		if e.IsWM {
			if k >= len(inWMs) || !e.WM.Equal(inWMs[k]) {
				return fmt.Sprintf("output watermark %d is %s, the input's is not", k, c18kit.NsExact(e.WM))
			}
			// everything the watermark covers and that arrived before it must have been released
			wmPos := -1
			for j, n := 0, 0; j < len(inp); j++ {
				if inp[j].IsWM {
					if n == k {
						wmPos = j
						break
					}
					n++
				}
			}
			for id, x := range in {
				if x.pos < wmPos && (x.et.IsZero() || !x.et.After(e.WM)) && !seen[id] {
					return fmt.Sprintf("record %d (event time %s) was not released before watermark %s", id, c18kit.NsExact(x.et), c18kit.NsExact(e.WM))
				}
			}
			k++
			continue
		}
		id := e.Rec.Values[0].Int
		x, ok := in[id]
		if !ok || seen[id] {
			return fmt.Sprintf("record %d is released twice or was never received", id)
		}
		seen[id] = true
		if !x.et.Equal(e.Rec.EventTime) || x.retr != e.Rec.Retraction {
			return fmt.Sprintf("record %d was changed", id)
		}
		if x.et.IsZero() {
			if x.pos < lastZeroPos {
				return fmt.Sprintf("records without event time are reordered at record %d", id)
			}
			lastZeroPos = x.pos
			continue
		}
		// released only under a watermark that covers it (or at end of stream): the next output watermark, if
		// any, must be at or above its event time — checked through the order clause below and the lateness one
		if k > 0 && !e.Rec.EventTime.After(inWMs[k-1]) {
			return fmt.Sprintf("record %d (event time %s) is released after watermark %s", id, c18kit.NsExact(x.et), c18kit.NsExact(inWMs[k-1]))
		}
		if lastTimed != nil {
			p := in[lastTimed.Rec.Values[0].Int]
			if e.Rec.EventTime.Before(lastTimed.Rec.EventTime) {
				return fmt.Sprintf("record %d (event time %s) is released after record %d (event time %s): not in event-time order",
					id, c18kit.NsExact(x.et), lastTimed.Rec.Values[0].Int, c18kit.NsExact(p.et))
			}
			if e.Rec.EventTime.Equal(lastTimed.Rec.EventTime) && x.pos < p.pos {
				return fmt.Sprintf("records %d and %d of one instant are released against their arrival order", lastTimed.Rec.Values[0].Int, id)
			}
		}
		lastTimed = &out[i]
	}
	if len(seen) != len(in) {
		return fmt.Sprintf("%d of %d records were never released", len(in)-len(seen), len(in))
	}
	if k != len(inWMs) {
		return fmt.Sprintf("%d of %d watermarks were forwarded", k, len(inWMs))
	}
	// a record may leave only when a watermark at or above it arrives: between output watermarks k-1 and k
	// every timed record must be at or below input watermark k (or belong to the final flush)
	k = 0
	for _, e := range out {
		if e.IsWM {
			k++
			continue
		}
		if !e.Rec.EventTime.IsZero() && k < len(inWMs) && e.Rec.EventTime.After(inWMs[k]) {
			return fmt.Sprintf("record %d (event time %s) is released before any watermark covers it (next watermark %s)",
				e.Rec.Values[0].Int, c18kit.NsExact(e.Rec.EventTime), c18kit.NsExact(inWMs[k]))
		}
	}
	return ""
}

// largeBufferCase: a long stretch without a watermark — more than 10000 records waiting in the buffer —
// with out-of-order arrival and many equal instants.  Too long for the model inside Coq (the reference sort
// and the multiset comparison are quadratic), so only the Go oracle above is applied.
func largeBufferCase(r *lib.Rng, cf *lib.CaseFile) {
	w0 := int64(r.Intn(50))
	n := 10100 + r.Intn(2000) // about 0.5% of them carry no event time: more than 10000 are buffered
	span := int64(1000 + r.Intn(4000))
	var script []lib.Event
	id := int64(0)
	rec := func(et time.Time) {
		script = append(script, lib.Event{Rec: execution.NewRecord([]octosql.Value{octosql.NewInt(id), octosql.NewInt(int64(r.Intn(3)))}, r.Chance(1, 10), et)})
		id++
	}
	script = append(script, lib.Event{IsWM: true, WM: time.Unix(0, w0).UTC()})
	for i := 0; i < n; i++ {
		if r.Chance(1, 200) {
			rec(time.Time{})
			continue
		}
		rec(time.Unix(0, w0+1+int64(r.Intn(int(span)))).UTC())
	}
	w1 := w0 + span/2
	script = append(script, lib.Event{IsWM: true, WM: time.Unix(0, w1).UTC()})
	for i, m := 0, 200+r.Intn(300); i < m; i++ {
		rec(time.Unix(0, w1+1+int64(r.Intn(int(span)))).UTC())
	}
	if r.Bool() {
		script = append(script, lib.Event{IsWM: true, WM: time.Unix(0, w1+span/3).UTC()})
		for i, m := 0, r.Intn(100); i < m; i++ {
			rec(time.Unix(0, w1+span/3+1+int64(r.Intn(int(span)))).UTC())
		}
	}
	out, err, p := lib.RunNode(c18kit.Buffer(&lib.ScriptSource{Events: script}))
	kind := c18kit.Kind(err, p)
	what := ""
	if kind != 0 {
		what = fmt.Sprintf("the buffer returned an error or panicked on an error-free source: %v %v", err, p)
	} else {
		what = bufferOracle(script, out)
	}
	js := map[string]interface{}{"large_buffer_case": map[string]interface{}{
		"records": id, "records_between_the_first_two_watermarks": n, "first_watermark": w0, "second_watermark": w1, "event_time_span": span,
		"note": "input and output (" + fmt.Sprint(len(script)) + " / " + fmt.Sprint(len(out)) + " events) are not stored; checked by the Go oracle of harness/cmd/c18/large.go only", "verdict": what}}
	idx := cf.Add("(SScript [], [], 0, [])", js, what == "")
	cf.Count("large_buffer_case_over_10000_buffered")
	if what != "" {
		cf.Violation(idx, "event-time buffer, "+fmt.Sprint(n)+" records waiting for a watermark: "+what, "")
	}
}
