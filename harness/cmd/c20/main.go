// c20: max_diff_watermark, the real node built through MaxDiffWatermark.Descriptors[0].Materialize over a
// scripted source; the exact emitted event list is recorded.
package main

import (
	"fmt"
	"math"
	"os"
	"time"

	"github.com/cube2222/octosql/execution"
	"github.com/cube2222/octosql/octosql"

	"verifharness/c18kit"
	"verifharness/lib"
)

const two62 = int64(1) << 62

func pick(r *lib.Rng, xs []int64) int64 { return xs[r.Intn(len(xs))] }

func genResolution(r *lib.Rng) int64 {
	switch {
	case r.Chance(1, 12):
		return pick(r, []int64{0, 0, -1, -1000, -1000000000, math.MinInt64})
	case r.Chance(1, 12):
		return pick(r, []int64{math.MaxInt64, two62, two62 - 1, two62 / 2, 1 << 40})
	case r.Chance(1, 3):
		return pick(r, []int64{1000000000, 60000000000, 3600000000000, 1000000, 86400000000000})
	}
	return pick(r, []int64{1, 2, 3, 7, 10, 100, 1000})
}

func genMaxDiff(r *lib.Rng, res int64) int64 {
	if r.Chance(1, 12) {
		return pick(r, []int64{math.MaxInt64, math.MinInt64, two62, -two62, two62 - 1})
	}
	a := res
	if a < 0 {
		a = -(a / 2)
	}
	if a > 1<<40 {
		a = 1 << 40
	}
	return pick(r, []int64{0, 0, 1, a, 2 * a, 5 * a, -a, a / 2, 1000000000, -1})
}

// a time near a multiple of the resolution: boundaries, one below, one above, the middle
func genTime(r *lib.Rng, res int64, centre int64) time.Time {
	if r.Chance(1, 40) {
		return time.Time{} // a Time value holding Go's zero time
	}
	if r.Chance(1, 25) {
		return time.Unix(0, pick(r, []int64{math.MaxInt64, math.MinInt64, two62, -two62, two62 - 1, -two62 + 1, 0, -1, 1})).UTC()
	}
	a := res
	if a <= 0 {
		a = 1000
	}
	if a > 1<<40 {
		a = 1 << 40
	}
	k := int64(r.Intn(9)) - 4
	delta := pick(r, []int64{0, 0, 1, -1, a / 2, a - 1, -(a / 2), a / 3})
	return time.Unix(0, centre+k*a+delta).UTC()
}

type input struct {
	nfields, idx int
	md, res      int64
	script       []lib.Event
	preEpoch     bool
}

func pickCentre(r *lib.Rng) int64 {
	return pick(r, []int64{0, 0, 0, -5000000000, 1600000000000000000, -1600000000000000000, 7})
}

func genInput(r *lib.Rng, nfields, idx int, centre int64) input {
	res := genResolution(r)
	md := genMaxDiff(r, res)
	ln := r.Intn(13)
	var script []lib.Event
	var prev []time.Time
	preEpoch := false
	for j := 0; j < ln; j++ {
		if r.Chance(1, 8) {
			script = append(script, lib.Event{IsWM: true, WM: time.Unix(0, centre+int64(r.Intn(50))).UTC()})
			continue
		}
		var t time.Time
		if len(prev) > 0 && r.Chance(1, 4) {
			t = prev[r.Intn(len(prev))] // duplicate instant
		} else {
			t = genTime(r, res, centre)
		}
		prev = append(prev, t)
		if !t.IsZero() && t.Unix() < 0 {
			preEpoch = true
		}
		vals := make([]octosql.Value, nfields)
		for k := range vals {
			vals[k] = lib.GenValue(r, lib.SmallProfile, 0)
		}
		vals[idx] = octosql.NewTime(t)
		if r.Chance(1, 30) {
			vals[idx] = octosql.NewNull()
		}
		et := time.Time{}
		if r.Chance(1, 3) {
			et = time.Unix(0, int64(r.Intn(100))+1).UTC() // whatever the source said; it is overwritten
		}
		script = append(script, lib.Event{Rec: execution.NewRecord(vals, r.Chance(1, 5), et)})
	}
	return input{nfields, idx, md, res, script, preEpoch}
}

// runNode builds (or reuses) a node and runs it, with outer as the enclosing record when not nil.
func runNode(build func() (execution.Node, error), outer []octosql.Value) (kind int, out []lib.Event, note string) {
	kind = 2
	defer func() {
		if p := recover(); p != nil {
			kind, note = 2, fmt.Sprintf("panic while materializing: %v", p)
		}
	}()
	node, err := build()
	if err != nil {
		return 1, nil, err.Error()
	}
	if node == nil {
		return 0, nil, ""
	}
	o, e, p := c18kit.RunInContext(node, outer, nil, 1<<20)
	if p != nil {
		note = fmt.Sprintf("panic: %v", p)
	} else if e != nil {
		note = e.Error()
	}
	return c18kit.Kind(e, p), o, note
}

func addCase(cf *lib.CaseFile, in input, kind int, out []lib.Event, note, how string) {
	nwm, nrec, nin := 0, 0, 0
	for _, e := range out {
		if e.IsWM {
			nwm++
		} else {
			nrec++
		}
	}
	for _, e := range in.script {
		if !e.IsWM {
			nin++
		}
	}
	js := map[string]interface{}{"how": how, "max_diff": in.md, "resolution": in.res, "time_field": in.idx, "input": c18kit.EventsJSON(in.script),
		"kind": kind, "output": c18kit.EventsJSON(out), "note": note}
	cf.Add(fmt.Sprintf("(%s, %s, %d%%nat, %s, %d, %s)", lib.Z(in.md), lib.Z(in.res), in.idx, c18kit.CoqEvents(in.script), kind, c18kit.CoqEvents(out)),
		js, nwm >= 2 && nrec < nin && kind == 0)
	cf.Count(fmt.Sprintf("kind_%d", kind))
	if in.res <= 0 {
		cf.Count("resolution_not_positive")
	}
	if in.preEpoch {
		cf.Count("with_pre_epoch_instant")
	}
	if nrec < nin && kind == 0 {
		cf.Count("with_dropped_record")
	}
	if nwm > 5 {
		nwm = 5
	}
	cf.Count(fmt.Sprintf("watermarks_%d", nwm))
}

func main() {
	f := lib.ParseFlags()
	if f.Cmd != "run" {
		fmt.Fprintln(os.Stderr, "c20: only 'run'")
		os.Exit(2)
	}
	rng := lib.NewRng(f.Seed)
	cf := lib.NewCaseFile("C20", f.Seed, f.Tier)
	cf.Imports = []string{"TVF"}
	cf.CaseType = "c20_case"
	cf.Checks = []lib.Check{{Name: "tie", Kind: "tie", Fn: "c20_tie"}, {Name: "spec", Kind: "spec", Fn: "c20_spec"}}
	cf.Side.Rule = "streams of 0..12 events (records with a Time field near multiples of the resolution around the epoch, before it and far from it; duplicates, out of order, " +
		"retractions, source watermarks, a few NULL / zero / extreme times) x resolution (1 ns..1 day, huge, 0, negative) x max_diff (0, multiples, negative, extreme) through the real " +
		"max_diff_watermark node built once and run once (constant arguments), and built once and run three times with max_diff/resolution read from the enclosing record " +
		"(second run = the first run's input again, third = a new input around the same instants); non-trivial = at least two watermarks emitted and at least one record dropped; distinct by full case text"
	n := f.Cases(400, 4000)
	for i := 0; i < n; i++ {
		r := rng.Fork()
		nfields := 1 + r.Intn(3)
		in := genInput(r, nfields, r.Intn(nfields), pickCentre(r))
		kind, out, note := runNode(func() (execution.Node, error) {
			return c18kit.Mdw(&lib.ScriptSource{Events: in.script}, time.Duration(in.md), time.Duration(in.res), in.idx, in.nfields)
		}, nil)
		addCase(cf, in, kind, out, note, "constant arguments, one run")
	}
	// One materialized node whose max_diff and resolution are variables of the enclosing record, run three
	// times (a lookup join or a correlated subquery re-runs its joined side per outer record): the second
	// run replays the first run's input, the third a new one around the same instants.  Nothing of an
	// earlier run may survive in the node; every run is a case of its own.
	for g, groups := 0, f.Cases(40, 400); g < groups; g++ {
		r := rng.Fork()
		nfields := 1 + r.Intn(3)
		idx := r.Intn(nfields)
		centre := pickCentre(r)
		src := &c18kit.ResettableSource{}
		var node execution.Node
		kind0, _, note0 := runNode(func() (execution.Node, error) {
			nd, err := c18kit.MdwVar(src, idx, nfields)
			node = nd
			return nil, err
		}, nil)
		var first input
		for run := 0; run < 3; run++ {
			in := genInput(r, nfields, idx, centre)
			if run == 0 {
				first = in
			}
			if run == 1 {
				in = first
			}
			if node == nil {
				addCase(cf, in, kind0, nil, note0, "variable arguments, node could not be built")
				continue
			}
			src.Events = in.script
			outer := []octosql.Value{octosql.NewDuration(time.Duration(in.md)), octosql.NewDuration(time.Duration(in.res)), octosql.NewNull(), octosql.NewNull()}
			kind, out, note := runNode(func() (execution.Node, error) { return node, nil }, outer)
			addCase(cf, in, kind, out, note, fmt.Sprintf("variable arguments, run %d of the same node", run+1))
			cf.Count("rerun_of_one_node")
		}
	}
	if err := cf.Write(f.Out); err != nil {
		fmt.Fprintln(os.Stderr, err)
		os.Exit(2)
	}
}
