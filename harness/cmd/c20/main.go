// c20: max_diff_watermark, the real node built through MaxDiffWatermark.Descriptors[0].Materialize over a
// scripted source; the exact emitted event list is recorded.
package main

import (
	"fmt"
	"math"
	"os"
	"time"

	"github.com/cube2222/octosql/execution"
	"github.com/cube2222/octosql/octosql"

	"verifharness/c18kit"
	"verifharness/lib"
)

const two62 = int64(1) << 62

func pick(r *lib.Rng, xs []int64) int64 { return xs[r.Intn(len(xs))] }

func genResolution(r *lib.Rng) int64 {
	switch {
	case r.Chance(1, 12):
		return pick(r, []int64{0, 0, -1, -1000, -1000000000, math.MinInt64})
	case r.Chance(1, 12):
		return pick(r, []int64{math.MaxInt64, two62, two62 - 1, two62 / 2, 1 << 40})
	case r.Chance(1, 3):
		return pick(r, []int64{1000000000, 60000000000, 3600000000000, 1000000, 86400000000000})
	}
	return pick(r, []int64{1, 2, 3, 7, 10, 100, 1000})
}

func genMaxDiff(r *lib.Rng, res int64) int64 {
	if r.Chance(1, 12) {
		return pick(r, []int64{math.MaxInt64, math.MinInt64, two62, -two62, two62 - 1})
	}
	a := res
	if a < 0 {
		a = -(a / 2)
	}
	if a > 1<<40 {
		a = 1 << 40
	}
	return pick(r, []int64{0, 0, 1, a, 2 * a, 5 * a, -a, a / 2, 1000000000, -1})
}

// a time near a multiple of the resolution: boundaries, one below, one above, the middle
func genTime(r *lib.Rng, res int64, centre int64) time.Time {
	if r.Chance(1, 40) {
		return time.Time{} // a Time value holding Go's zero time
	}
	if r.Chance(1, 25) {
		return time.Unix(0, pick(r, []int64{math.MaxInt64, math.MinInt64, two62, -two62, two62 - 1, -two62 + 1, 0, -1, 1})).UTC()
	}
	a := res
	if a <= 0 {
		a = 1000
	}
	if a > 1<<40 {
		a = 1 << 40
	}
	k := int64(r.Intn(9)) - 4
	delta := pick(r, []int64{0, 0, 1, -1, a / 2, a - 1, -(a / 2), a / 3})
	return time.Unix(0, centre+k*a+delta).UTC()
}

func main() {
	f := lib.ParseFlags()
	if f.Cmd != "run" {
		fmt.Fprintln(os.Stderr, "c20: only 'run'")
		os.Exit(2)
	}
	rng := lib.NewRng(f.Seed)
	cf := lib.NewCaseFile("C20", f.Seed, f.Tier)
	cf.Imports = []string{"TVF"}
	cf.CaseType = "c20_case"
	cf.Checks = []lib.Check{{Name: "tie", Kind: "tie", Fn: "c20_tie"}, {Name: "spec", Kind: "spec", Fn: "c20_spec"}}
	cf.Side.Rule = "streams of 0..12 events (records with a Time field near multiples of the resolution around the epoch, before it and far from it; duplicates, out of order, " +
		"retractions, source watermarks, a few NULL / zero / extreme times) x resolution (1 ns..1 day, huge, 0, negative) x max_diff (0, multiples, negative, extreme) through the real " +
		"max_diff_watermark node; non-trivial = at least two watermarks emitted and at least one record dropped; distinct by full case text"
	n := f.Cases(500, 5000)
	for i := 0; i < n; i++ {
		r := rng.Fork()
		nfields := 1 + r.Intn(3)
		idx := r.Intn(nfields)
		res := genResolution(r)
		md := genMaxDiff(r, res)
		centre := pick(r, []int64{0, 0, 0, -5000000000, 1600000000000000000, -1600000000000000000, 7})
		ln := r.Intn(13)
		var script []lib.Event
		var prev []time.Time
		preEpoch := false
		for j := 0; j < ln; j++ {
			if r.Chance(1, 8) {
				script = append(script, lib.Event{IsWM: true, WM: time.Unix(0, centre+int64(r.Intn(50))).UTC()})
				continue
			}
			var t time.Time
			if len(prev) > 0 && r.Chance(1, 4) {
				t = prev[r.Intn(len(prev))] // duplicate instant
			} else {
				t = genTime(r, res, centre)
			}
			prev = append(prev, t)
			if !t.IsZero() && t.Unix() < 0 {
				preEpoch = true
			}
			vals := make([]octosql.Value, nfields)
			for k := range vals {
				vals[k] = lib.GenValue(r, lib.SmallProfile, 0)
			}
			vals[idx] = octosql.NewTime(t)
			if r.Chance(1, 30) {
				vals[idx] = octosql.NewNull()
			}
			et := time.Time{}
			if r.Chance(1, 3) {
				et = time.Unix(0, int64(r.Intn(100))+1).UTC() // whatever the source said; it is overwritten
			}
			script = append(script, lib.Event{Rec: execution.NewRecord(vals, r.Chance(1, 5), et)})
		}
		kind, out := 2, []lib.Event(nil)
		var note string
		func() {
			defer func() {
				if p := recover(); p != nil {
					kind, note = 2, fmt.Sprintf("panic while materializing: %v", p)
				}
			}()
			node, err := c18kit.Mdw(&lib.ScriptSource{Events: script}, time.Duration(md), time.Duration(res), idx, nfields)
			if err != nil {
				kind, note = 1, err.Error()
				return
			}
			o, e, p := lib.RunNode(node)
			out, kind = o, c18kit.Kind(e, p)
			if p != nil {
				note = fmt.Sprintf("panic: %v", p)
			} else if e != nil {
				note = e.Error()
			}
		}()
		nwm, nrec, nin := 0, 0, 0
		for _, e := range out {
			if e.IsWM {
				nwm++
			} else {
				nrec++
			}
		}
		for _, e := range script {
			if !e.IsWM {
				nin++
			}
		}
		js := map[string]interface{}{"max_diff": md, "resolution": res, "time_field": idx, "input": c18kit.EventsJSON(script),
			"kind": kind, "output": c18kit.EventsJSON(out), "note": note}
		idxCase := cf.Add(fmt.Sprintf("(%s, %s, %d%%nat, %s, %d, %s)", lib.Z(md), lib.Z(res), idx, c18kit.CoqEvents(script), kind, c18kit.CoqEvents(out)),
			js, nwm >= 2 && nrec < nin && kind == 0)
		_ = idxCase
		cf.Count(fmt.Sprintf("kind_%d", kind))
		if res <= 0 {
			cf.Count("resolution_not_positive")
		}
		if preEpoch {
			cf.Count("with_pre_epoch_instant")
		}
		if nrec < nin && kind == 0 {
			cf.Count("with_dropped_record")
		}
		if nwm > 5 {
			nwm = 5
		}
		cf.Count(fmt.Sprintf("watermarks_%d", nwm))
	}
	if err := cf.Write(f.Out); err != nil {
		fmt.Fprintln(os.Stderr, err)
		os.Exit(2)
	}
}
