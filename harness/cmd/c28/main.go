// c28: plugin discovery and version resolution.
//   - semver.NewVersion / Compare / Constraints.Check against the model's parse_version / vcompare / check
//   - PluginManager.ListInstalledPlugins on generated directory trees (in-process)
//   - PluginManager.Install against a local HTTP manifest fixture (in-process): which version it picks
//   - the CLI's start-up resolution (cmd/root.go dbLoop): generated octosql.yml + tree, a stub plugin binary
//     records which version directory was executed
//
// The run re-executes itself with HOME pointing at a scratch directory, because the config/data directories of
// /repo are computed at package initialisation and Install writes file_extension_handlers.json there.
package main

import (
	"archive/tar"
	"bytes"
	"compress/gzip"
	"context"
	"encoding/json"
	"fmt"
	"net"
	"net/http"
	"os"
	"os/exec"
	"path/filepath"
	"sort"
	"strings"
	"sync"

	"github.com/Masterminds/semver"

	"github.com/cube2222/octosql/plugins/manager"
	"github.com/cube2222/octosql/plugins/repository"

	"verifharness/lib"
)

// ---------------------------------------------------------------- structured versions and constraints

type ver struct {
	maj, min, pat int64
	pre           []string
	meta          string
}

func (v ver) String() string {
	s := fmt.Sprintf("%d.%d.%d", v.maj, v.min, v.pat)
	if len(v.pre) > 0 {
		s += "-" + strings.Join(v.pre, ".")
	}
	if v.meta != "" {
		s += "+" + v.meta
	}
	return s
}

var segPool = []int64{0, 0, 1, 1, 1, 2, 2, 3, 10}
var identPool = []string{"alpha", "beta", "rc", "rc", "0", "1", "2", "10", "x-y", "-1", "a1", "1a", "RC", "18446744073709551616"}
var nonCanonIdents = []string{"01", "007", "00"}
var metaPool = []string{"b5", "build.7", "001", "sha-abc", "x.y.z"}

func genVer(r *lib.Rng, nonCanon bool) ver {
	v := ver{maj: segPool[r.Intn(len(segPool))], min: segPool[r.Intn(len(segPool))], pat: segPool[r.Intn(len(segPool))]}
	if r.Chance(1, 40) {
		v.maj = 9223372036854775807
	}
	if r.Chance(2, 5) {
		n := 1 + r.Intn(3)
		for i := 0; i < n; i++ {
			if nonCanon && r.Chance(1, 3) {
				v.pre = append(v.pre, nonCanonIdents[r.Intn(len(nonCanonIdents))])
			} else {
				v.pre = append(v.pre, identPool[r.Intn(len(identPool))])
			}
		}
	}
	if r.Chance(1, 4) {
		v.meta = metaPool[r.Intn(len(metaPool))]
	}
	return v
}

// a version close to w (so that constraint boundaries are hit)
func nearVer(r *lib.Rng, w ver) ver {
	v := w
	v.pre = append([]string(nil), w.pre...)
	switch r.Intn(8) {
	case 0:
		v.maj += int64(r.Intn(3)) - 1
	case 1:
		v.min += int64(r.Intn(3)) - 1
	case 2:
		v.pat += int64(r.Intn(3)) - 1
	case 3:
		if len(v.pre) > 0 {
			v.pre = nil
		} else {
			v.pre = []string{identPool[r.Intn(len(identPool))]}
		}
	case 4:
		if len(v.pre) > 0 {
			v.pre[r.Intn(len(v.pre))] = identPool[r.Intn(len(identPool))]
		}
	case 5:
		v.pre = append(v.pre, identPool[r.Intn(len(identPool))])
	}
	if v.maj < 0 {
		v.maj = 0
	}
	if v.min < 0 {
		v.min = 0
	}
	if v.pat < 0 {
		v.pat = 0
	}
	return v
}

func coqStrs(l []string) string {
	items := make([]string, len(l))
	for i, s := range l {
		items[i] = lib.CoqBytes(s)
	}
	return lib.CoqList(items)
}

// the observation of a *semver.Version
func obsOf(v *semver.Version) string {
	var pre []string
	if v.Prerelease() != "" {
		pre = strings.Split(v.Prerelease(), ".")
	}
	return fmt.Sprintf("(%s, %s, %s, %s, %s)", lib.Z(v.Major()), lib.Z(v.Minor()), lib.Z(v.Patch()), coqStrs(pre), lib.CoqBytes(v.Metadata()))
}

type seg struct {
	x   bool
	n   int64
	txt string // how a wildcard is written
}

type cspec struct {
	opTxt   string
	maj     seg
	min     *seg
	pat     *seg
	pre     []string
	spaceOp bool
	rangeHi *cspec // not nil: this item is the hyphen range "<this version> - <rangeHi version>" (the operator is unused)
}

var opTexts = []string{"", "=", "!=", ">", "<", ">=", "=>", "<=", "=<", "~", "~>", "^"}
var opCoq = map[string]string{"": "OpEq", "=": "OpEq", "!=": "OpNe", ">": "OpGt", "<": "OpLt", ">=": "OpGe", "=>": "OpGe", "<=": "OpLe", "=<": "OpLe", "~": "OpTilde", "~>": "OpTilde", "^": "OpCaret"}

func genSeg(r *lib.Rng, xNum, xDen int, base int64) seg {
	if r.Chance(xNum, xDen) {
		return seg{x: true, txt: []string{"x", "X", "*"}[r.Intn(3)]}
	}
	return seg{n: base}
}

func genCspec(r *lib.Rng, around ver) cspec {
	c := cspec{opTxt: opTexts[r.Intn(len(opTexts))], spaceOp: r.Chance(1, 3)}
	c.maj = genSeg(r, 1, 10, around.maj)
	switch r.Intn(6) {
	case 0: // major only
	case 1: // major.minor
		m := genSeg(r, 1, 4, around.min)
		c.min = &m
	default:
		m := genSeg(r, 1, 8, around.min)
		p := genSeg(r, 1, 5, around.pat)
		c.min, c.pat = &m, &p
	}
	if len(around.pre) > 0 && r.Chance(3, 4) {
		c.pre = around.pre
	} else if r.Chance(1, 8) {
		c.pre = []string{identPool[r.Intn(len(identPool))]}
	}
	return c
}

func (s seg) text() string {
	if s.x {
		return s.txt
	}
	return fmt.Sprint(s.n)
}
func (s seg) coq() string {
	if s.x {
		return "SX"
	}
	return fmt.Sprintf("(SN %s)", lib.Z(s.n))
}

func (c cspec) text() string {
	if c.rangeHi != nil {
		lo, hi := c, *c.rangeHi
		lo.rangeHi, lo.opTxt, lo.spaceOp, hi.opTxt, hi.spaceOp = nil, "", false, "", false
		return lo.text() + " - " + hi.text()
	}
	s := c.opTxt
	if c.spaceOp {
		s += " "
	}
	s += c.maj.text()
	if c.min != nil {
		s += "." + c.min.text()
		if c.pat != nil {
			s += "." + c.pat.text()
		}
	}
	if len(c.pre) > 0 {
		s += "-" + strings.Join(c.pre, ".")
	}
	return s
}

// the item as NewConstraint sees it after rewriteRange (a range is two comparisons)
func (c cspec) coq() string {
	if c.rangeHi != nil {
		lo, hi := c, *c.rangeHi
		lo.rangeHi, lo.opTxt, hi.opTxt = nil, ">=", "<="
		return lo.coq() + "; " + hi.coq()
	}
	return c.coq1()
}

// the item as written: CI comparison | CR lo hi
func (c cspec) coqSrc() string {
	if c.rangeHi != nil {
		return fmt.Sprintf("(CR %s %s)", c.vspecCoq(), c.rangeHi.vspecCoq())
	}
	return "(CI " + c.coq1() + ")"
}

func (c cspec) restCoq() string {
	rest := "None"
	if c.min != nil {
		p := "None"
		if c.pat != nil {
			p = "(Some " + c.pat.coq() + ")"
		}
		rest = fmt.Sprintf("(Some (%s, %s))", c.min.coq(), p)
	}
	return rest
}

func (c cspec) vspecCoq() string {
	return fmt.Sprintf("(mkVS %s %s %s)", c.maj.coq(), c.restCoq(), coqStrs(c.pre))
}

func (c cspec) coq1() string {
	rest := "None"
	if c.min != nil {
		p := "None"
		if c.pat != nil {
			p = "(Some " + c.pat.coq() + ")"
		}
		rest = fmt.Sprintf("(Some (%s, %s))", c.min.coq(), p)
	}
	return fmt.Sprintf("(mkCS %s %s %s %s)", opCoq[c.opTxt], c.maj.coq(), rest, coqStrs(c.pre))
}

type constraints [][]cspec

func genConstraints(r *lib.Rng, around ver) constraints {
	nOr := 1
	if r.Chance(1, 4) {
		nOr = 2
	}
	var cs constraints
	for i := 0; i < nOr; i++ {
		nAnd := 1
		if r.Chance(1, 3) {
			nAnd = 2
		}
		var ands []cspec
		for j := 0; j < nAnd; j++ {
			c := genCspec(r, nearVer(r, around))
			if r.Chance(1, 5) { // a hyphen range around the version
				hi := genCspec(r, nearVer(r, around))
				c.rangeHi = &hi
			}
			ands = append(ands, c)
		}
		cs = append(cs, ands)
	}
	return cs
}

func (cs constraints) text() string {
	var ors []string
	for _, ands := range cs {
		var as []string
		for _, c := range ands {
			as = append(as, c.text())
		}
		ors = append(ors, strings.Join(as, ", "))
	}
	return strings.Join(ors, " || ")
}

func (cs constraints) hasRange() bool {
	for _, ands := range cs {
		for _, c := range ands {
			if c.rangeHi != nil {
				return true
			}
		}
	}
	return false
}

func (cs constraints) coqSrc() string {
	var ors []string
	for _, ands := range cs {
		var as []string
		for _, c := range ands {
			as = append(as, c.coqSrc())
		}
		ors = append(ors, lib.CoqList(as))
	}
	return lib.CoqList(ors)
}

func (cs constraints) coq() string {
	var ors []string
	for _, ands := range cs {
		var as []string
		for _, c := range ands {
			as = append(as, c.coq())
		}
		ors = append(ors, lib.CoqList(as))
	}
	return lib.CoqList(ors)
}

// ---------------------------------------------------------------- trees

var namePool = []string{"json", "my-plugin", "plugin", "a-b-c", "x_y", "my_plugin-v2", "-lead", "trail-", "octosql-plugin-x", "a--b", "postgres", "db-plugin", "p"}
var repoPool = []string{"core", "core", "my-repo", "x", "octosql-plugin-r"}
var badDirPool = []string{"foo", "octosql-plugin", "octosql-plugin-", "octosqlplugin-x", "my-plugin", "plugin-octosql-plugin-z", "octosql-Plugin-y"}
var badVersionPool = []string{"latest", "1.2.3.4", "1..2", "1.0.0-", "1.0.0+", "1.0.0-a..b", "1.0.0-a+b+c", "v", "vv1", "1.0.0-a_b", "99999999999999999999.0.0", "x.1.2", "1.0.0 "}
var oddVersionPool = []string{"v1.2.3", "1", "1.2", "01.002.3", "v2.0-rc.1", "1.0.0--", "1.0.0+-", "3+m"}

type plug struct {
	name     string // plugin name (installed trees) or raw directory name
	versions []string
}
type repo struct {
	name  string
	plugs []plug
}

func pickDistinct(r *lib.Rng, pool []string, n int) []string {
	seen := map[string]bool{}
	var out []string
	for len(out) < n && len(seen) < len(pool) {
		s := pool[r.Intn(len(pool))]
		if !seen[s] {
			seen[s] = true
			out = append(out, s)
		}
	}
	return out
}

func genVersionNames(r *lib.Rng, n int, odd bool) []string {
	seen := map[string]bool{}
	var out []string
	base := genVer(r, false)
	base.maj = int64(r.Intn(3))
	for len(out) < n {
		v := nearVer(r, base)
		if r.Chance(1, 3) {
			v = genVer(r, false)
		}
		if v.maj > 1000 {
			v.maj = 7
		}
		s := v.String()
		if odd && r.Chance(1, 4) {
			s = oddVersionPool[r.Intn(len(oddVersionPool))]
		}
		if !seen[s] {
			seen[s] = true
			out = append(out, s)
		}
	}
	return out
}

func genInstalledTree(r *lib.Rng, odd bool) []repo {
	var t []repo
	for _, rn := range pickDistinct(r, repoPool, 1+r.Intn(2)) {
		rp := repo{name: rn}
		for _, pn := range pickDistinct(r, namePool, 1+r.Intn(3)) {
			rp.plugs = append(rp.plugs, plug{name: pn, versions: genVersionNames(r, 1+r.Intn(4), odd)})
		}
		t = append(t, rp)
	}
	return t
}

// order in which os.ReadDir shows the entries: by file name
func sortTree(t []repo, dirName func(string) string) {
	sort.Slice(t, func(i, j int) bool { return t[i].name < t[j].name })
	for _, rp := range t {
		sort.Slice(rp.plugs, func(i, j int) bool { return dirName(rp.plugs[i].name) < dirName(rp.plugs[j].name) })
		for _, p := range rp.plugs {
			sort.Strings(p.versions)
		}
	}
}

func treeCoq(t []repo) string {
	var rs []string
	for _, rp := range t {
		var ps []string
		for _, p := range rp.plugs {
			ps = append(ps, fmt.Sprintf("(%s, %s)", lib.CoqBytes(p.name), coqStrs(p.versions)))
		}
		rs = append(rs, fmt.Sprintf("(%s, %s)", lib.CoqBytes(rp.name), lib.CoqList(ps)))
	}
	return lib.CoqList(rs)
}

func treeJSON(t []repo) interface{} {
	out := map[string]interface{}{}
	for _, rp := range t {
		m := map[string]interface{}{}
		for _, p := range rp.plugs {
			m[p.name] = p.versions
		}
		out[rp.name] = m
	}
	return out
}

const stubScript = "#!/bin/sh\necho \"$0\" >> \"$VERIF_MARKER\"\nexit 1\n"

// writes the tree under root; with binaries when stub is set
func writeTree(root string, t []repo, dirName func(string) string, stub bool) error {
	if err := os.MkdirAll(root, 0o755); err != nil {
		return err
	}
	for _, rp := range t {
		for _, p := range rp.plugs {
			for _, v := range p.versions {
				d := filepath.Join(root, rp.name, dirName(p.name), v)
				if err := os.MkdirAll(d, 0o755); err != nil {
					return err
				}
				if stub {
					if err := os.WriteFile(filepath.Join(d, dirName(p.name)), []byte(stubScript), 0o755); err != nil {
						return err
					}
				}
			}
			if len(p.versions) == 0 {
				if err := os.MkdirAll(filepath.Join(root, rp.name, dirName(p.name)), 0o755); err != nil {
					return err
				}
			}
		}
	}
	return nil
}

func installedDir(name string) string { return "octosql-plugin-" + name }
func rawDir(name string) string       { return name }

// ---------------------------------------------------------------- fixture server (manifest + archive)

type fixture struct {
	mu        sync.Mutex
	manifests map[string][]byte
	archive   []byte
	addr      string
	downloads int
}

func newFixture() (*fixture, error) {
	f := &fixture{manifests: map[string][]byte{}}
	var buf bytes.Buffer
	gz := gzip.NewWriter(&buf)
	tw := tar.NewWriter(gz)
	body := []byte(stubScript)
	if err := tw.WriteHeader(&tar.Header{Name: "octosql-plugin-stub", Mode: 0o755, Size: int64(len(body)), Typeflag: tar.TypeReg}); err != nil {
		return nil, err
	}
	tw.Write(body)
	tw.Close()
	gz.Close()
	f.archive = buf.Bytes()
	ln, err := net.Listen("tcp", "127.0.0.1:0")
	if err != nil {
		return nil, err
	}
	f.addr = "http://" + ln.Addr().String()
	mux := http.NewServeMux()
	mux.HandleFunc("/manifest/", func(w http.ResponseWriter, r *http.Request) {
		f.mu.Lock()
		data, ok := f.manifests[strings.TrimPrefix(r.URL.Path, "/manifest/")]
		f.mu.Unlock()
		if !ok {
			http.NotFound(w, r)
			return
		}
		w.Write(data)
	})
	mux.HandleFunc("/dl/", func(w http.ResponseWriter, r *http.Request) {
		f.mu.Lock()
		f.downloads++
		n := f.downloads
		f.mu.Unlock()
		var buf bytes.Buffer
		gz := gzip.NewWriter(&buf)
		tw := tar.NewWriter(gz)
		body := []byte(stubScript + fmt.Sprintf("# download %d\n", n))
		tw.WriteHeader(&tar.Header{Name: "octosql-plugin-stub", Mode: 0o755, Size: int64(len(body)), Typeflag: tar.TypeReg})
		tw.Write(body)
		tw.Close()
		gz.Close()
		w.Write(buf.Bytes())
	})
	go http.Serve(ln, mux)
	return f, nil
}

// ---------------------------------------------------------------- main

func main() {
	f := lib.ParseFlags()
	if f.Cmd != "run" {
		fmt.Fprintln(os.Stderr, "c28: only 'run'")
		os.Exit(2)
	}
	if os.Getenv("C28_CHILD") == "" {
		scratch, err := os.MkdirTemp("", "c28-home-")
		if err != nil {
			fmt.Fprintln(os.Stderr, err)
			os.Exit(2)
		}
		cmd := exec.Command(os.Args[0], os.Args[1:]...)
		var env []string
		for _, e := range os.Environ() {
			if strings.HasPrefix(e, "HOME=") || strings.HasPrefix(e, "XDG_") || strings.HasPrefix(e, "OCTOSQL_") {
				continue
			}
			env = append(env, e)
		}
		cmd.Env = append(env, "HOME="+scratch, "C28_CHILD="+scratch, "OCTOSQL_NO_TELEMETRY=1")
		cmd.Stdout, cmd.Stderr = os.Stdout, os.Stderr
		err = cmd.Run()
		os.RemoveAll(scratch)
		if err != nil {
			fmt.Fprintln(os.Stderr, "c28 child:", err)
			os.Exit(2)
		}
		return
	}
	scratch := os.Getenv("C28_CHILD")
	if err := run(f, scratch); err != nil {
		fmt.Fprintln(os.Stderr, "c28:", err)
		os.Exit(2)
	}
}

func buildCLI(dir string) (string, error) {
	repoDir := os.Getenv("VERIF_REPO")
	if repoDir == "" {
		repoDir = "/repo"
	}
	bin := filepath.Join(dir, "octosql-cli")
	cmd := exec.Command("go", "build", "-tags", "verif", "-o", bin, ".")
	cmd.Dir = repoDir
	cmd.Env = append(os.Environ(), "HOME=/root")
	out, err := cmd.CombinedOutput()
	if err != nil {
		return "", fmt.Errorf("building the CLI in %s: %v\n%s", repoDir, err, out)
	}
	return bin, nil
}

func run(f lib.Flags, scratch string) error {
	rng := lib.NewRng(f.Seed)
	cf := lib.NewCaseFile("C28", f.Seed, f.Tier)
	cf.Imports = []string{"Plugins"}
	cf.CaseType = "c28_case"
	cf.Checks = []lib.Check{{Name: "tie", Kind: "tie", Fn: "c28_tie"}, {Name: "spec", Kind: "spec", Fn: "c28_spec"}}
	cf.Side.Rule = "semver texts / pairs / constraint x version through Masterminds semver; generated plugin trees (names with dashes, underscores, " +
		"the prefix inside the name; several versions, prereleases, build metadata) through PluginManager.ListInstalledPlugins; manifests x constraints through " +
		"PluginManager.Install against a local HTTP fixture; trees x octosql.yml through the built CLI (stub plugin records the executed version). " +
		"non-trivial = a listing with a dashed name, a resolution / pick with >= 2 candidate versions, a constraint check near its bound, a comparison of prereleases"

	scale := 1
	if f.Tier == "thorough" {
		scale = 10
	}
	nParse, nCmp, nCheck, nList, nPick, nResolve := 150*scale, 250*scale, 450*scale, 160*scale, 90*scale, 48*scale
	if f.N > 0 {
		nParse, nCmp, nCheck, nList, nPick, nResolve = f.N, f.N, f.N, f.N, f.N, f.N
	}

	// ---- NewVersion / String
	for i := 0; i < nParse; i++ {
		r := rng.Fork()
		var text string
		switch r.Intn(5) {
		case 0:
			text = badVersionPool[r.Intn(len(badVersionPool))]
		case 1:
			text = oddVersionPool[r.Intn(len(oddVersionPool))]
		case 2: // mutate a valid text
			b := []byte(genVer(r, true).String())
			alphabet := ".-+v0a9Z_ x"
			switch r.Intn(3) {
			case 0:
				b[r.Intn(len(b))] = alphabet[r.Intn(len(alphabet))]
			case 1:
				k := r.Intn(len(b) + 1)
				b = append(b[:k:k], append([]byte{alphabet[r.Intn(len(alphabet))]}, b[k:]...)...)
			default:
				k := r.Intn(len(b))
				b = append(b[:k:k], b[k+1:]...)
			}
			text = string(b)
		default:
			text = genVer(r, true).String()
			if r.Chance(1, 5) {
				text = "v" + text
			}
		}
		v, err := semver.NewVersion(text)
		obs := "None"
		js := map[string]interface{}{"kind": "parse", "text": text}
		if err == nil {
			obs = fmt.Sprintf("(Some (%s, %s))", obsOf(v), lib.CoqBytes(v.String()))
			js["string"] = v.String()
			cf.Count("parse_ok")
		} else {
			js["error"] = err.Error()
			cf.Count("parse_error")
		}
		cf.Add(fmt.Sprintf("KParse %s %s", lib.CoqBytes(text), obs), js, err == nil && strings.ContainsAny(text, "-+"))
	}

	// ---- Compare
	for i := 0; i < nCmp; i++ {
		r := rng.Fork()
		nonCanon := r.Chance(1, 5)
		a := genVer(r, nonCanon)
		b := nearVer(r, a)
		if r.Chance(1, 4) {
			b = genVer(r, nonCanon)
		}
		va, vb := semver.MustParse(a.String()), semver.MustParse(b.String())
		d := va.Compare(vb)
		cf.Add(fmt.Sprintf("KCmp %s %s %s", obsOf(va), obsOf(vb), lib.Z(int64(d))),
			map[string]interface{}{"kind": "compare", "a": a.String(), "b": b.String(), "compare": d}, len(a.pre) > 0 && len(b.pre) > 0)
		cf.Count(fmt.Sprintf("compare_%d", d))
	}

	// ---- Check
	for i := 0; i < nCheck; i++ {
		r := rng.Fork()
		around := genVer(r, false)
		if around.maj > 1000 {
			around.maj = 4
		}
		cs := genConstraints(r, around)
		v := nearVer(r, around)
		text := cs.text()
		c, err := semver.NewConstraint(text)
		if err != nil {
			return fmt.Errorf("generated constraint %q does not parse: %v", text, err)
		}
		pv := semver.MustParse(v.String())
		ok := c.Check(pv)
		kcase := fmt.Sprintf("KCheck %s %s %s", cs.coq(), obsOf(pv), lib.CoqBool(ok))
		if cs.hasRange() {
			kcase = fmt.Sprintf("KCheckR %s %s %s", cs.coqSrc(), obsOf(pv), lib.CoqBool(ok))
			cf.Count("check_with_hyphen_range")
		}
		cf.Add(kcase,
			map[string]interface{}{"kind": "check", "constraint": text, "version": v.String(), "check": ok}, true)
		cf.Count(fmt.Sprintf("check_%v", ok))
		for _, ands := range cs {
			for _, c1 := range ands {
				cf.Count("op_" + opCoq[c1.opTxt])
			}
		}
	}

	// ---- ListInstalledPlugins
	pm := &manager.PluginManager{}
	for i := 0; i < nList; i++ {
		r := rng.Fork()
		installed := r.Chance(3, 4)
		var t []repo
		dirName := installedDir
		if installed {
			t = genInstalledTree(r, r.Chance(1, 4))
		} else {
			dirName = rawDir
			t = genInstalledTree(r, true)
			for ri := range t {
				for pi := range t[ri].plugs {
					switch r.Intn(3) {
					case 0:
						t[ri].plugs[pi].name = badDirPool[r.Intn(len(badDirPool))] + fmt.Sprint(pi)
					default:
						t[ri].plugs[pi].name = installedDir(t[ri].plugs[pi].name)
					}
					if r.Chance(1, 3) {
						t[ri].plugs[pi].versions = append(t[ri].plugs[pi].versions, badVersionPool[r.Intn(len(badVersionPool))])
					}
					if r.Chance(1, 8) {
						t[ri].plugs[pi].versions = nil
					}
				}
			}
		}
		if !installed && r.Chance(1, 6) {
			t = append(t, repo{name: ".staging", plugs: []plug{{name: "octosql-plugin-half", versions: []string{"archive.tar.gz"}}, {name: "archive.tar.gz"}}})
		}
		sortTree(t, dirName)
		root := filepath.Join(scratch, fmt.Sprintf("list-%d", i))
		if err := writeTree(root, t, dirName, false); err != nil {
			return err
		}
		// every fourth installed tree: the first version directory of each plugin is a symbolic link to a directory
		if installed && i%4 == 0 {
			for ri, rp := range t {
				for pi, p := range rp.plugs {
					if len(p.versions) == 0 {
						continue
					}
					d := filepath.Join(root, rp.name, dirName(p.name), p.versions[0])
					target := filepath.Join(scratch, fmt.Sprintf("list-%d-targets", i), fmt.Sprintf("%d-%d", ri, pi))
					if err := os.MkdirAll(filepath.Dir(target), 0o755); err != nil {
						return err
					}
					if err := os.Rename(d, target); err != nil {
						return err
					}
					if err := os.Symlink(target, d); err != nil {
						return err
					}
				}
			}
			cf.Count("list_with_symlinked_version_directories")
			defer os.RemoveAll(filepath.Join(scratch, fmt.Sprintf("list-%d-targets", i)))
		}
		os.Setenv("OCTOSQL_PLUGIN_DIR", root)
		var got []manager.PluginMetadata
		var err error
		var panicked interface{}
		func() {
			defer func() { panicked = recover() }()
			got, err = pm.ListInstalledPlugins()
		}()
		os.Unsetenv("OCTOSQL_PLUGIN_DIR")
		os.RemoveAll(root)
		obs := ""
		js := map[string]interface{}{"kind": "list", "installed": installed, "tree": treeJSON(t),
			"first_version_directory_of_each_plugin_is_a_symlink": installed && i%4 == 0}
		if panicked != nil {
			obs = "(Panic 1)"
			js["panic"] = fmt.Sprint(panicked)
			cf.Count("list_panic")
		} else if err != nil {
			code := 99
			if strings.Contains(err.Error(), "couldn't parse plugin") {
				code = 1
			}
			obs = fmt.Sprintf("(Err %d)", code)
			js["error"] = err.Error()
			cf.Count("list_error")
		} else {
			var items []string
			var jl []interface{}
			for _, md := range got {
				var vs, jv []string
				for _, v := range md.Versions {
					vs = append(vs, obsOf(v.Number))
					jv = append(jv, v.Number.String())
				}
				items = append(items, fmt.Sprintf("(%s, %s, %s)", lib.CoqBytes(md.Reference.Name), lib.CoqBytes(md.Reference.Repository), lib.CoqList(vs)))
				jl = append(jl, map[string]interface{}{"name": md.Reference.Name, "repository": md.Reference.Repository, "versions": jv})
			}
			obs = fmt.Sprintf("(Ok %s)", lib.CoqList(items))
			js["listed"] = jl
			cf.Count("list_ok")
		}
		dashed := false
		for _, rp := range t {
			for _, p := range rp.plugs {
				if strings.Contains(p.name, "-") && installed {
					dashed = true
				}
			}
		}
		if dashed {
			cf.Count("list_with_dashed_name")
		}
		li := cf.Add(fmt.Sprintf("KList %s %s %s", lib.CoqBool(installed), treeCoq(t), obs), js, dashed)
		if panicked != nil {
			cf.Violation(li, fmt.Sprintf("ListInstalledPlugins panicked on this directory tree (no plugin is discovered at all): %v", panicked), "")
		}
	}

	// ---- Install's pick.  Three deterministic families (i mod 3): one repository / one Install; two or three
	// repositories offering a plugin of the SAME name with different manifests, installing from each position
	// (first, middle, last); sequences install -> the manifest gains higher versions -> install again.
	// Which version directory an Install wrote is recognised by the download it contains (every download is numbered).
	fx, err := newFixture()
	if err != nil {
		return err
	}
	genManifest := func(r *lib.Rng, base ver, n int) []ver {
		seen := map[string]bool{}
		var manifest []ver
		for len(manifest) < n {
			v := nearVer(r, base)
			if r.Chance(1, 4) {
				v = genVer(r, false)
			}
			if v.maj > 1000 {
				v.maj = 5
			}
			if !seen[v.String()] {
				seen[v.String()] = true
				manifest = append(manifest, v)
			}
		}
		return manifest
	}
	publish := func(key string, manifest []ver) {
		type mv struct {
			Number string `json:"number"`
		}
		doc := struct {
			Pattern  string `json:"binary_download_url_pattern"`
			Versions []mv   `json:"versions"`
		}{Pattern: fx.addr + "/dl/{{os}}/{{arch}}/{{version}}.tar.gz", Versions: []mv{}}
		for _, v := range manifest {
			doc.Versions = append(doc.Versions, mv{Number: v.String()})
		}
		data, _ := json.Marshal(doc)
		fx.mu.Lock()
		fx.manifests[key] = data
		fx.mu.Unlock()
	}
	// one Install and its case
	installStep := func(ipm *manager.PluginManager, root, slug, name, arg string, cons *semver.Constraints, manifest []ver, cs constraints, withC bool, how, family string) error {
		fx.mu.Lock()
		before := fx.downloads
		fx.mu.Unlock()
		os.Setenv("OCTOSQL_PLUGIN_DIR", root)
		stdout := os.Stdout
		devnull, _ := os.OpenFile(os.DevNull, os.O_WRONLY, 0)
		os.Stdout = devnull
		var ierr error
		func() {
			defer func() {
				if p := recover(); p != nil {
					ierr = fmt.Errorf("panic: %v", p)
				}
			}()
			ierr = ipm.Install(context.Background(), arg, cons)
		}()
		os.Stdout = stdout
		devnull.Close()
		os.Unsetenv("OCTOSQL_PLUGIN_DIR")
		fx.mu.Lock()
		after := fx.downloads
		fx.mu.Unlock()
		var mobs, mtxt []string
		for _, v := range manifest {
			mobs = append(mobs, obsOf(semver.MustParse(v.String())))
			mtxt = append(mtxt, v.String())
		}
		obs := "None"
		js := map[string]interface{}{"kind": "pick", "family": family, "install": arg, "manifest": mtxt, "constraint": nil, "how": how}
		if withC {
			js["constraint"] = cs.text()
		}
		bad := ""
		// where did this Install's download end up?
		var written []string
		if after > before {
			tag := fmt.Sprintf("# download %d\n", after)
			repos, _ := os.ReadDir(root)
			for _, rd := range repos {
				plugs, _ := os.ReadDir(filepath.Join(root, rd.Name()))
				for _, pd := range plugs {
					vers, _ := os.ReadDir(filepath.Join(root, rd.Name(), pd.Name()))
					for _, vd := range vers {
						data, _ := os.ReadFile(filepath.Join(root, rd.Name(), pd.Name(), vd.Name(), "octosql-plugin-stub"))
						if strings.Contains(string(data), tag) {
							written = append(written, rd.Name()+"/"+pd.Name()+"/"+vd.Name())
						}
					}
				}
			}
		}
		switch {
		case ierr != nil && ierr.Error() == "version not found" && after == before:
			js["picked"] = nil
			cf.Count("pick_none")
		case ierr == nil && after == before+1 && len(written) == 1:
			parts := strings.Split(written[0], "/")
			pv, perr := semver.NewVersion(parts[2])
			if perr != nil {
				return fmt.Errorf("Install created a version directory that is not a version: %q", written[0])
			}
			obs = fmt.Sprintf("(Some %s)", obsOf(pv))
			js["picked"] = written[0]
			cf.Count("pick_some")
			if parts[0] != slug || parts[1] != installedDir(name) {
				bad = fmt.Sprintf("Install of %s wrote %s, not below %s/%s", arg, written[0], slug, installedDir(name))
			}
		case ierr == nil && after == before:
			js["picked"] = nil
			js["note"] = "Install returned without downloading anything"
			cf.Count("pick_nothing_downloaded")
		default:
			js["error"] = fmt.Sprint(ierr)
			bad = fmt.Sprintf("Install failed unexpectedly: %v (downloads: %d, directories written: %v)", ierr, after-before, written)
		}
		cobs := "None"
		if withC {
			cobs = "(Some " + cs.coq() + ")"
		}
		idx := cf.Add(fmt.Sprintf("KPick %s %s %s", lib.CoqList(mobs), cobs, obs), js, len(manifest) >= 2)
		cf.Count("pick_family_" + family)
		if bad != "" {
			cf.Violation(idx, bad, "")
		}
		return nil
	}
	for i := 0; i < nPick; i++ {
		r := rng.Fork()
		base := genVer(r, false)
		base.maj = int64(r.Intn(3))
		var cs constraints
		withC := r.Chance(2, 3)
		if withC {
			cs = genConstraints(r, base)
		}
		name := namePool[r.Intn(len(namePool))]
		root := filepath.Join(scratch, fmt.Sprintf("pick-%d", i))
		mkArgs := func(slug string) (string, *semver.Constraints, string, error) {
			arg := name
			if slug != "core" || r.Bool() {
				arg = slug + "/" + name
			}
			var cons *semver.Constraints
			how := "none"
			if withC {
				if r.Bool() {
					arg += "@" + cs.text()
					how = "inline"
				} else {
					how = "argument"
					var err error
					if cons, err = semver.NewConstraint(cs.text()); err != nil {
						return "", nil, "", err
					}
				}
			}
			return arg, cons, how, nil
		}
		switch i % 4 {
		case 0: // one repository, one Install
			manifest := genManifest(r, base, r.Intn(6))
			key := fmt.Sprintf("m%d", i)
			publish(key, manifest)
			ipm := &manager.PluginManager{Repositories: []repository.Repository{{Slug: "core", Plugins: []repository.Plugin{{Name: name, ManifestURL: fx.addr + "/manifest/" + key}}}}}
			arg, cons, how, err := mkArgs("core")
			if err != nil {
				return err
			}
			if err := installStep(ipm, root, "core", name, arg, cons, manifest, cs, withC, how, "single"); err != nil {
				return err
			}
		case 1: // several repositories offer a plugin of this name; install from the first, a middle or the last one
			slugs := []string{"core", "extra", "third"}[:2+r.Intn(2)]
			var repos []repository.Repository
			manifests := make([][]ver, len(slugs))
			for k, slug := range slugs {
				b := base
				b.maj = base.maj + int64(3*k) // different release lines per repository
				manifests[k] = genManifest(r, b, 1+r.Intn(4))
				key := fmt.Sprintf("m%d-%s", i, slug)
				publish(key, manifests[k])
				repos = append(repos, repository.Repository{Slug: slug, Plugins: []repository.Plugin{
					{Name: "unrelated", ManifestURL: fx.addr + "/manifest/none"}, {Name: name, ManifestURL: fx.addr + "/manifest/" + key}}})
			}
			target := (i / 3) % len(slugs)
			if withC { // a constraint around the target repository's release line
				b := base
				b.maj = base.maj + int64(3*target)
				cs = genConstraints(r, b)
			}
			ipm := &manager.PluginManager{Repositories: repos}
			arg, cons, how, err := mkArgs(slugs[target])
			if err != nil {
				return err
			}
			if err := installStep(ipm, root, slugs[target], name, arg, cons, manifests[target], cs, withC, how, fmt.Sprintf("repository_%d_of_%d", target+1, len(slugs))); err != nil {
				return err
			}
		case 3: // name@M / name@M.m: a bare partial version after '@' is a constraint (M = the highest M.x.y), not a pin
			line := int64(1 + r.Intn(3))
			manifest := []ver{{maj: line, min: 1 + int64(r.Intn(3)), pat: int64(r.Intn(4))}, {maj: line, min: 0, pat: 1 + int64(r.Intn(3))},
				{maj: line + 1, min: 0, pat: 0}, {maj: line, min: 5, pat: 0, pre: []string{"rc", "1"}}, {maj: line - 1, min: 9, pat: 9}}
			if r.Bool() {
				manifest = append(manifest, ver{maj: line, min: 0, pat: 0})
			}
			if r.Bool() {
				manifest = append(manifest, ver{maj: line, min: manifest[0].min, pat: 0})
			}
			one := cspec{opTxt: "", maj: seg{n: line}}
			if r.Chance(1, 3) {
				one.min = &seg{n: manifest[0].min}
			}
			cs, withC = constraints{{one}}, true
			key := fmt.Sprintf("m%d", i)
			publish(key, manifest)
			ipm := &manager.PluginManager{Repositories: []repository.Repository{{Slug: "core", Plugins: []repository.Plugin{{Name: name, ManifestURL: fx.addr + "/manifest/" + key}}}}}
			if err := installStep(ipm, root, "core", name, name+"@"+cs.text(), nil, manifest, cs, true, "inline", "bare_partial_version_after_at"); err != nil {
				return err
			}
		default: // install, the manifest gains higher versions (a release and a prerelease on top), install again
			m1 := genManifest(r, base, 1+r.Intn(3))
			top := base
			for _, v := range m1 {
				if v.maj > top.maj || (v.maj == top.maj && v.min > top.min) {
					top = v
				}
			}
			m2 := append([]ver(nil), m1...)
			m2 = append(m2, ver{maj: top.maj, min: top.min + 1 + int64(r.Intn(2)), pat: int64(r.Intn(3))})
			if r.Bool() {
				m2 = append(m2, ver{maj: top.maj + 1, min: 0, pat: 0})
			}
			m2 = append(m2, ver{maj: top.maj + 2, min: 0, pat: 0, pre: []string{"rc", "1"}})
			if withC && r.Bool() { // a constraint that the old and the new versions of the release line satisfy
				cs = constraints{{cspec{opTxt: "^", maj: seg{n: top.maj}, min: &seg{n: 0}, pat: &seg{n: 0}}}}
				if top.maj == 0 {
					cs = constraints{{cspec{opTxt: ">=", maj: seg{n: 0}, min: &seg{n: 0}, pat: &seg{n: 0}}}}
				}
			}
			key := fmt.Sprintf("m%d", i)
			ipm := &manager.PluginManager{Repositories: []repository.Repository{{Slug: "core", Plugins: []repository.Plugin{{Name: name, ManifestURL: fx.addr + "/manifest/" + key}}}}}
			arg, cons, how, err := mkArgs("core")
			if err != nil {
				return err
			}
			publish(key, m1)
			if err := installStep(ipm, root, "core", name, arg, cons, m1, cs, withC, how, "sequence_first"); err != nil {
				return err
			}
			publish(key, m2)
			if err := installStep(ipm, root, "core", name, arg, cons, m2, cs, withC, how, "sequence_after_manifest_grew"); err != nil {
				return err
			}
		}
		os.RemoveAll(root)
	}

	// ---- start-up resolution through the CLI
	if nResolve > 0 {
		buildDir := filepath.Dir(f.Out)
		cli, err := buildCLI(buildDir)
		if err != nil {
			return err
		}
		// A configuration = an installed tree + octosql.yml; EVERY configured database is queried (one CLI run each).
		// Half of the configurations are "same-type families": two or three databases of ONE plugin type whose
		// constraints are drawn around different installed versions, so that they must resolve differently.
		type rcfg struct {
			t        []repo
			dbs      []string // coq
			dbsJS    []interface{}
			names    []string
			yml      string
			nCand    []int
			sameType bool
		}
		type rrun struct {
			cfg    *rcfg
			db     int
			out    string
			marker string
		}
		families := [][]string{
			{"1.5.0", "1.9.0", "2.3.0"},
			{"0.9.0", "1.0.0", "1.2.0-rc.1", "2.0.0"},
			{"1.0.0", "1.1.0", "2.0.0-beta", "3.0.0"},
			{"0.1.0", "0.2.0", "1.0.0+b5", "1.0.1"},
			{"2.0.0", "2.1.0", "2.1.1", "10.0.0"},
		}
		var runs []*rrun
		nCfg := (nResolve + 1) / 2
		for i := 0; i < nCfg; i++ {
			r := rng.Fork()
			t := genInstalledTree(r, false)
			c := &rcfg{sameType: i%3 == 0}
			preTop := i%3 == 1 // a database WITHOUT `version:` over a version set whose highest version is a prerelease
			var famRef [2]string
			if preTop {
				rp := r.Intn(len(t))
				pi := r.Intn(len(t[rp].plugs))
				t[rp].plugs[pi].versions = append([]string(nil), [][]string{
					{"1.4.0", "2.0.0-beta.1"}, {"0.9.0", "1.0.0-rc.1", "1.0.0-rc.2"}, {"1.0.0-alpha"}, {"1.2.0", "1.3.0-0", "1.2.1+b5"},
					{"2.0.0-rc.1", "2.0.0-rc.1.1", "1.9.9"}}[r.Intn(5)]...)
				famRef = [2]string{t[rp].name, t[rp].plugs[pi].name}
				cf.Count("resolve_versionless_over_prerelease_top_configurations")
			}
			if c.sameType {
				rp, pi := r.Intn(len(t)), 0
				pi = r.Intn(len(t[rp].plugs))
				t[rp].plugs[pi].versions = append([]string(nil), families[r.Intn(len(families))]...)
				famRef = [2]string{t[rp].name, t[rp].plugs[pi].name}
				cf.Count("resolve_same_type_configurations")
			}
			sortTree(t, installedDir)
			c.t = t
			var all [][2]string
			vers := map[[2]string][]string{}
			for _, rp := range t {
				for _, p := range rp.plugs {
					all = append(all, [2]string{rp.name, p.name})
					vers[[2]string{rp.name, p.name}] = p.versions
				}
			}
			nDB := 1 + r.Intn(2)
			if c.sameType {
				nDB = 2 + r.Intn(2)
			}
			usedAround := map[string]bool{}
			yml := "databases:\n"
			for d := 0; d < nDB; d++ {
				ref := all[r.Intn(len(all))]
				if c.sameType || (preTop && d == 0) {
					ref = famRef
				} else if r.Chance(1, 12) {
					ref = [2]string{"core", "absent"}
				}
				name := fmt.Sprintf("db%d", d)
				typ := ref[0] + "/" + ref[1]
				if ref[0] == "core" && r.Bool() {
					typ = ref[1]
				}
				yml += fmt.Sprintf("  - name: %s\n    type: %q\n", name, typ)
				cons := "None"
				var consJS interface{}
				if (r.Chance(3, 4) || (c.sameType && d < 2)) && !(preTop && d == 0) {
					around := ver{maj: 1}
					if vs := vers[ref]; len(vs) > 0 {
						pick := vs[r.Intn(len(vs))]
						for try := 0; c.sameType && usedAround[pick] && try < 8; try++ { // a different installed version per database
							pick = vs[r.Intn(len(vs))]
						}
						usedAround[pick] = true
						pv := semver.MustParse(pick)
						around = ver{maj: pv.Major(), min: pv.Minor(), pat: pv.Patch()}
						if pv.Prerelease() != "" {
							around.pre = strings.Split(pv.Prerelease(), ".")
						}
					}
					cs := genConstraints(r, around)
					switch {
					case c.sameType && r.Chance(2, 3): // the usual ways to pin a database to one release line
						one := []cspec{
							{opTxt: "^", maj: seg{n: around.maj}, min: &seg{n: around.min}, pat: &seg{n: 0}},
							{opTxt: "~", maj: seg{n: around.maj}, min: &seg{n: around.min}},
							{opTxt: "", maj: seg{n: around.maj}, min: &seg{x: true, txt: "x"}},
							{opTxt: "<", maj: seg{n: around.maj + 1}, min: &seg{n: 0}, pat: &seg{n: 0}},
							{opTxt: "=", maj: seg{n: around.maj}, min: &seg{n: around.min}, pat: &seg{n: around.pat}, pre: around.pre},
							{opTxt: "<=", maj: seg{n: around.maj}, min: &seg{n: around.min}, pat: &seg{n: around.pat}, pre: around.pre},
						}[r.Intn(6)]
						cs = constraints{{one}}
					case r.Chance(1, 3):
						cs = constraints{{cspec{opTxt: []string{">=", "^", "~", ""}[r.Intn(4)], maj: seg{n: around.maj}, min: &seg{x: true, txt: "x"}}}}
					}
					yml += fmt.Sprintf("    version: %q\n", cs.text())
					cons = "(Some " + cs.coq() + ")"
					consJS = cs.text()
				}
				c.dbs = append(c.dbs, fmt.Sprintf("(mkDB %s %s %s %s)", lib.CoqBytes(name), lib.CoqBytes(ref[1]), lib.CoqBytes(ref[0]), cons))
				c.dbsJS = append(c.dbsJS, map[string]interface{}{"name": name, "type": typ, "version": consJS})
				c.names = append(c.names, name)
				c.nCand = append(c.nCand, len(vers[ref]))
			}
			c.yml = yml
			for d := range c.names {
				runs = append(runs, &rrun{cfg: c, db: d})
			}
		}
		var wg sync.WaitGroup
		sem := make(chan struct{}, 6)
		errs := make([]error, len(runs))
		for i, ru := range runs {
			wg.Add(1)
			go func(i int, ru *rrun) {
				defer wg.Done()
				sem <- struct{}{}
				defer func() { <-sem }()
				c := ru.cfg
				home := filepath.Join(scratch, fmt.Sprintf("resolve-%d", i))
				defer os.RemoveAll(home)
				if err := writeTree(filepath.Join(home, ".octosql", "plugins"), c.t, installedDir, true); err != nil {
					errs[i] = err
					return
				}
				if err := os.WriteFile(filepath.Join(home, ".octosql", "octosql.yml"), []byte(c.yml), 0o644); err != nil {
					errs[i] = err
					return
				}
				marker := filepath.Join(home, "marker")
				cmd := exec.Command(cli, fmt.Sprintf("SELECT * FROM %s.t", c.names[ru.db]))
				cmd.Env = []string{"HOME=" + home, "OCTOSQL_NO_TELEMETRY=1", "VERIF_MARKER=" + marker, "PATH=" + os.Getenv("PATH"), "OCTOSQL_PLUGIN_TMP_DIR=" + filepath.Join(home, "tmp")}
				out, _ := cmd.CombinedOutput()
				ru.out = string(out)
				m, _ := os.ReadFile(marker)
				ru.marker = strings.TrimSpace(string(m))
			}(i, ru)
		}
		wg.Wait()
		ranPerCfg := map[*rcfg]map[string]bool{}
		for i, ru := range runs {
			if errs[i] != nil {
				return errs[i]
			}
			c := ru.cfg
			query := c.names[ru.db]
			obs := ""
			js := map[string]interface{}{"kind": "resolve", "tree": treeJSON(c.t), "databases": c.dbsJS, "query_database": query, "same_type_family": c.sameType}
			bad := ""
			switch {
			case ru.marker != "":
				vdir := filepath.Base(filepath.Dir(strings.Split(ru.marker, "\n")[0]))
				pv, perr := semver.NewVersion(vdir)
				if perr != nil {
					return fmt.Errorf("stub ran from %q", ru.marker)
				}
				obs = "(Ok " + obsOf(pv) + ")"
				js["ran_version"] = vdir
				cf.Count("resolve_ran")
				if ranPerCfg[c] == nil {
					ranPerCfg[c] = map[string]bool{}
				}
				ranPerCfg[c][vdir] = true
			case strings.Contains(ru.out, "panic:"):
				obs = "(Panic 1)"
				js["error"] = ru.out
				bad = "octosql panicked at start-up: " + ru.out
			case strings.Contains(ru.out, "is not installed with the required version"):
				obs = "(Err 2)"
				js["error"] = "not installed with the required version"
				cf.Count("resolve_not_installed")
			case strings.Contains(ru.out, "couldn't parse plugin"):
				obs = "(Err 1)"
				js["error"] = "couldn't parse plugin version"
			default:
				obs = "(Err 99)"
				js["error"] = ru.out
				bad = "start-up neither ran a plugin version nor reported an unresolved database: " + ru.out
			}
			idx := cf.Add(fmt.Sprintf("KResolve %s %s %s %s", treeCoq(c.t), lib.CoqList(c.dbs), lib.CoqBytes(query), obs), js, c.nCand[ru.db] >= 2)
			if bad != "" {
				cf.Violation(idx, bad, "")
			}
		}
		for c, ran := range ranPerCfg {
			if c.sameType && len(ran) >= 2 {
				cf.Count("resolve_same_type_databases_ran_different_versions")
			}
		}
	}
	return cf.Write(f.Out)
}
