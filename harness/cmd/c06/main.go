// c06: runtime errors are never swallowed.
// In-process: every node kind of execution/nodes stacked 1-3 deep (and the two joins, the lookup join, subquery
// expressions) above scripted sources with a failure injected at every position / expressions that fail on a
// chosen row; observed: emitted events, error class, and whether a failure actually fired.
// CLI slice: query shapes over JSON/CSV/lines files with a malformed row or panic() on a chosen row.
package main

import (
	"context"
	"errors"
	"fmt"
	"os"
	"strings"
	"time"

	"github.com/cube2222/octosql/aggregates"
	"github.com/cube2222/octosql/execution"
	"github.com/cube2222/octosql/execution/nodes"
	"github.com/cube2222/octosql/functions"
	"github.com/cube2222/octosql/octosql"

	"verifharness/lib"
)

// ---- observation of "a failure fired" in the real run -------------------------------------------

type fired struct {
	any  bool
	text string // the message every injected failure of this case carries
}

// errorTexts: the property holds whatever a failure's message says.  The family contains texts that look like
// the stop signals operators use among themselves (the Limit node recognises its own by strings.Contains on
// the error text, because errors lose their identity across the plugin barrier).
var errorTexts = []string{"verif: injected failure", "limit reached", "rate limit reached for client 42", "limit 01ARZ3NDEKTSV4RRFFQ69G5FAV reached",
	"couldn't run source: limit reached", "context canceled", "EOF", ""}

func (f *fired) err() error { return errors.New(f.text) }

// source: lib.ScriptSource plus the record that the injected failure was reached
type scriptSource struct {
	events []lib.Event
	fail   bool
	f      *fired
	// steer the interleaving a join sees (the model covers every interleaving): sleep before the first / after the last event
	delayStart, delayEnd time.Duration
}

func (s *scriptSource) Run(ctx execution.ExecutionContext, produce execution.ProduceFn, metaSend execution.MetaSendFn) error {
	time.Sleep(s.delayStart)
	inner := &lib.ScriptSource{Events: s.events}
	if err := inner.Run(ctx, produce, metaSend); err != nil {
		return err
	}
	time.Sleep(s.delayEnd)
	if s.fail {
		s.f.any = true
		return s.f.err()
	}
	return nil
}

// ---- expressions ---------------------------------------------------------------------------------

type cexpr struct {
	kind string // col const failif trueunless eq failalways call
	i    int
	v    octosql.Value
	a, b *cexpr // call: the two arguments of a strict function call
}

func (e cexpr) coq() string {
	switch e.kind {
	case "call":
		return "(CCall " + e.a.coq() + " " + e.b.coq() + ")"
	case "col":
		return fmt.Sprintf("(CCol %d)", e.i)
	case "const":
		return "(CConst " + lib.CoqValue(e.v) + ")"
	case "failif":
		return fmt.Sprintf("(CFailIf %d %s)", e.i, lib.CoqValue(e.v))
	case "trueunless":
		return fmt.Sprintf("(CTrueUnless %d %s)", e.i, lib.CoqValue(e.v))
	case "eq":
		return fmt.Sprintf("(CEq %d %s)", e.i, lib.CoqValue(e.v))
	}
	return "CFailAlways"
}

func (e cexpr) canFail() bool {
	return e.kind == "failif" || e.kind == "trueunless" || e.kind == "failalways"
}

type goExpr struct {
	e     cexpr
	f     *fired
	panic execution.Expression // the real panic() FunctionCall
}

func (g *goExpr) Evaluate(ctx execution.ExecutionContext) (octosql.Value, error) {
	var vals []octosql.Value
	if ctx.VariableContext != nil {
		vals = ctx.VariableContext.Values
	}
	switch g.e.kind {
	case "col":
		return vals[g.e.i], nil
	case "const":
		return g.e.v, nil
	case "failif", "trueunless":
		if vals[g.e.i].Compare(g.e.v) == 0 {
			g.f.any = true
			return g.panic.Evaluate(ctx) // functions.FunctionMap()["panic"]
		}
		if g.e.kind == "trueunless" {
			return octosql.NewBoolean(true), nil
		}
		return vals[g.e.i], nil
	case "eq":
		return octosql.NewBoolean(vals[g.e.i].Compare(g.e.v) == 0), nil
	}
	g.f.any = true
	return g.panic.Evaluate(ctx)
}

// textExpr: the argument of the real panic(): this case's failure text
type textExpr struct{ f *fired }

func (t *textExpr) Evaluate(ctx execution.ExecutionContext) (octosql.Value, error) {
	return octosql.NewString(t.f.text), nil
}

var panicFn = functions.FunctionMap()["panic"].Descriptors[0].Function

func mkExpr(e cexpr, f *fired) execution.Expression {
	if e.kind == "call" {
		// the real execution.FunctionCall of a strict two-argument function that returns its first argument
		return execution.NewFunctionCall(func(vs []octosql.Value) (octosql.Value, error) { return vs[0], nil },
			[]execution.Expression{mkExpr(*e.a, f), mkExpr(*e.b, f)}, []int{0, 1})
	}
	return &goExpr{e: e, f: f, panic: execution.NewFunctionCall(panicFn, []execution.Expression{&textExpr{f: f}}, nil)}
}

// joined side of a lookup join (Model/ErrorFlow.v joined_script)
type joinedNode struct {
	bad octosql.Value
	f   *fired
}

func (j *joinedNode) Run(ctx execution.ExecutionContext, produce execution.ProduceFn, metaSend execution.MetaSendFn) error {
	vals := ctx.VariableContext.Values
	if len(vals) == 0 {
		return nil
	}
	pctx := execution.ProduceFromExecutionContext(ctx)
	x := vals[0]
	if x.Compare(j.bad) == 0 {
		if err := produce(pctx, execution.NewRecord([]octosql.Value{x}, false, lib.T(0))); err != nil {
			return err
		}
		j.f.any = true
		return j.f.err()
	}
	for i := 0; i < len(vals); i++ {
		if err := produce(pctx, execution.NewRecord([]octosql.Value{x}, false, lib.T(0))); err != nil {
			return err
		}
	}
	return nil
}

// ---- plans ---------------------------------------------------------------------------------------

type plan struct {
	kind                 string // script filter map distinct ost limit unnest sgb cgb buffer lookup sjoin ojoin
	src, rhs             *plan
	events               []lib.Event
	fail                 bool
	exprs                []cexpr
	dirs                 []int
	hasLimit             bool
	k                    int64
	noretr               bool
	id                   int
	bad                  octosql.Value
	delayStart, delayEnd time.Duration
}

func (p *plan) coq() string {
	evs := func(es []cexpr) string {
		parts := make([]string, len(es))
		for i := range es {
			parts[i] = "ev " + es[i].coq()
		}
		return lib.CoqList(parts)
	}
	switch p.kind {
	case "script":
		fl := "None"
		if p.fail {
			fl = "(Some 1)"
		}
		return fmt.Sprintf("(PScript %s %s)", lib.CoqEvents(p.events), fl)
	case "filter":
		return fmt.Sprintf("(PFilter (ev %s) %s)", p.exprs[0].coq(), p.src.coq())
	case "map":
		return fmt.Sprintf("(PMap %s %s)", evs(p.exprs), p.src.coq())
	case "distinct":
		return fmt.Sprintf("(PDistinct %s)", p.src.coq())
	case "ost":
		ds := make([]string, len(p.dirs))
		for i := range ds {
			ds[i] = lib.Z(int64(p.dirs[i]))
		}
		lim := "None"
		if p.hasLimit {
			lim = fmt.Sprintf("(Some (Ok (VInt %s)))", lib.Z(p.k))
		}
		return fmt.Sprintf("(POst %s %s %s %s %s)", evs(p.exprs), lib.CoqList(ds), lim, lib.CoqBool(p.noretr), p.src.coq())
	case "limit":
		return fmt.Sprintf("(PLimit %d (Ok (VInt %s)) %s)", p.id, lib.Z(p.k), p.src.coq())
	case "unnest":
		return fmt.Sprintf("(PUnnest 1 %s)", p.src.coq())
	case "sgb":
		return fmt.Sprintf("(PSimpleGB (sgb_count %s) %s)", p.exprs[0].coq(), p.src.coq())
	case "cgb":
		return fmt.Sprintf("(PCustomGB (cgb_count %s) %s)", p.exprs[0].coq(), p.src.coq())
	case "buffer":
		return fmt.Sprintf("(PBuffer %s)", p.src.coq())
	case "lookup":
		return fmt.Sprintf("(PLookup %s (joined_script %s))", p.src.coq(), lib.CoqValue(p.bad))
	case "sjoin":
		return fmt.Sprintf("(PStreamJoin (jp_silent %s %s) [] %s %s)", p.exprs[0].coq(), p.exprs[1].coq(), p.src.coq(), p.rhs.coq())
	case "ojoin":
		return fmt.Sprintf("(POuterJoin (jp_silent %s %s) [] %s %s)", p.exprs[0].coq(), p.exprs[1].coq(), p.src.coq(), p.rhs.coq())
	}
	panic("plan.coq " + p.kind)
}

func (p *plan) describe() string {
	switch p.kind {
	case "script":
		s := fmt.Sprintf("script[%d events", len(p.events))
		if p.fail {
			s += ", then FAIL"
		}
		return s + "]"
	case "sjoin", "ojoin":
		return fmt.Sprintf("%s(%s, %s)", p.kind, p.src.describe(), p.rhs.describe())
	}
	extra := ""
	for _, e := range p.exprs {
		extra += " " + e.coq()
	}
	if p.kind == "limit" || p.hasLimit {
		extra += fmt.Sprintf(" limit=%d", p.k)
	}
	return fmt.Sprintf("%s%s(%s)", p.kind, extra, p.src.describe())
}

func (p *plan) build(f *fired) execution.Node {
	ex := func(es []cexpr) []execution.Expression {
		out := make([]execution.Expression, len(es))
		for i := range es {
			out[i] = mkExpr(es[i], f)
		}
		return out
	}
	switch p.kind {
	case "script":
		return &scriptSource{events: p.events, fail: p.fail, f: f, delayStart: p.delayStart, delayEnd: p.delayEnd}
	case "filter":
		return nodes.NewFilter(p.src.build(f), mkExpr(p.exprs[0], f))
	case "map":
		return nodes.NewMap(p.src.build(f), ex(p.exprs))
	case "distinct":
		return nodes.NewDistinct(p.src.build(f))
	case "ost":
		var lim *execution.Expression
		if p.hasLimit {
			e := mkExpr(cexpr{kind: "const", v: octosql.NewInt(p.k)}, f)
			lim = &e
		}
		return nodes.NewOrderSensitiveTransform(p.src.build(f), ex(p.exprs), p.dirs, lim, p.noretr)
	case "limit":
		return nodes.NewLimit(p.src.build(f), mkExpr(cexpr{kind: "const", v: octosql.NewInt(p.k)}, f))
	case "unnest":
		return nodes.NewUnnest(p.src.build(f), 1)
	case "sgb":
		return nodes.NewSimpleGroupBy([]func() nodes.Aggregate{aggregates.NewCountPrototype()}, ex(p.exprs), ex([]cexpr{{kind: "col", i: 0}}), p.src.build(f))
	case "cgb":
		return nodes.NewCustomTriggerGroupBy([]func() nodes.Aggregate{aggregates.NewCountPrototype()}, ex(p.exprs), ex([]cexpr{{kind: "col", i: 0}}), -1, p.src.build(f), execution.NewCountingTriggerPrototype(1))
	case "buffer":
		return nodes.NewEventTimeBuffer(p.src.build(f))
	case "lookup":
		return nodes.NewLookupJoin(p.src.build(f), &joinedNode{bad: p.bad, f: f})
	case "sjoin":
		return nodes.NewStreamJoin(p.src.build(f), p.rhs.build(f), ex(p.exprs[:1]), ex(p.exprs[1:]))
	case "ojoin":
		return nodes.NewOuterJoin(p.src.build(f), p.rhs.build(f), 2, 2, ex(p.exprs[:1]), ex(p.exprs[1:]), true, false)
	}
	panic("plan.build " + p.kind)
}

// ---- generators ----------------------------------------------------------------------------------

type genOpts struct {
	singleKey bool // every record has the same column 0
	lists     bool // column 1 holds lists (an Unnest is in the stack)
	times     bool // non-zero event times and watermarks
	noRetr    bool
	unique    bool // no two equal rows
}

func genScript(r *lib.Rng, o genOpts) []lib.Event {
	n := r.Intn(8)
	var evs []lib.Event
	var present [][]octosql.Value
	wm := int64(0)
	for i := 0; i < n; i++ {
		if o.times && r.Chance(1, 4) {
			wm += 1 + int64(r.Intn(3))
			evs = append(evs, lib.Event{IsWM: true, WM: lib.T(wm)})
			continue
		}
		et := int64(0)
		if o.times && r.Chance(2, 3) {
			et = wm + int64(r.Intn(4))
		}
		if !o.noRetr && len(present) > 0 && r.Chance(1, 5) {
			k := r.Intn(len(present))
			evs = append(evs, lib.Event{Rec: execution.NewRecord(present[k], true, lib.T(et))})
			present = append(present[:k:k], present[k+1:]...)
			continue
		}
		c0 := octosql.NewInt(int64(r.Intn(4)))
		if o.singleKey {
			c0 = octosql.NewInt(1)
		}
		var c1 octosql.Value
		switch {
		case o.unique:
			c1 = octosql.NewInt(int64(100 + i))
		case o.lists:
			m := r.Intn(3)
			l := make([]octosql.Value, m)
			for j := range l {
				l[j] = octosql.NewInt(int64(r.Intn(3)))
			}
			c1 = octosql.NewList(l)
			if r.Chance(1, 8) {
				c1 = octosql.NewInt(5) // not a list
			}
		case r.Chance(1, 5):
			c1 = octosql.NewNull()
		default:
			c1 = octosql.NewInt(int64(r.Intn(3)))
		}
		vals := []octosql.Value{c0, c1}
		if !o.unique && len(present) > 0 && r.Chance(1, 4) {
			vals = present[r.Intn(len(present))]
		}
		present = append(present, vals)
		evs = append(evs, lib.Event{Rec: execution.NewRecord(vals, false, lib.T(et))})
	}
	return evs
}

var unaryKinds = []string{"filter", "map", "distinct", "ost", "limit", "unnest", "sgb", "cgb", "buffer", "lookup"}

func genExpr(r *lib.Rng, col int, allowFail bool) cexpr {
	v := octosql.NewInt(int64(r.Intn(4)))
	if allowFail && r.Chance(1, 2) {
		if r.Chance(1, 8) {
			return cexpr{kind: "failalways"}
		}
		return cexpr{kind: "failif", i: col, v: v}
	}
	return cexpr{kind: "col", i: col}
}

// genStack draws 1-3 unary operators (topmost first in the returned slice).
func genStack(r *lib.Rng, depth int, forced string, allowFail, allowLimit bool) []*plan {
	var ops []*plan
	for i := 0; i < depth; i++ {
		kind := unaryKinds[r.Intn(len(unaryKinds))]
		if i == 0 && forced != "" {
			kind = forced
		}
		if !allowLimit && kind == "limit" {
			kind = "distinct"
		}
		p := &plan{kind: kind, id: 10 + i}
		switch kind {
		case "filter":
			switch {
			case allowFail && r.Chance(1, 2):
				p.exprs = []cexpr{{kind: "trueunless", i: r.Intn(2), v: octosql.NewInt(int64(r.Intn(4)))}}
			default:
				p.exprs = []cexpr{{kind: "eq", i: 0, v: octosql.NewInt(int64(r.Intn(3)))}}
			}
		case "map":
			p.exprs = []cexpr{genExpr(r, 0, allowFail), genExpr(r, 1, allowFail)}
			if r.Chance(1, 4) {
				p.exprs[1] = cexpr{kind: "const", v: octosql.NewInt(7)}
			}
		case "ost":
			p.exprs = []cexpr{genExpr(r, r.Intn(2), allowFail)}
			p.dirs = []int{1 - 2*r.Intn(2)}
			p.noretr = r.Bool()
		case "limit":
			p.k = int64(1 + r.Intn(5))
		case "sgb", "cgb":
			p.exprs = []cexpr{genExpr(r, 1, allowFail)}
		case "lookup":
			p.bad = octosql.NewInt(int64(r.Intn(6)))
		}
		ops = append(ops, p)
	}
	return ops
}

func link(ops []*plan, leaf *plan) *plan {
	cur := leaf
	for i := len(ops) - 1; i >= 0; i-- {
		ops[i].src = cur
		cur = ops[i]
	}
	return cur
}

func hasKind(ops []*plan, kind string) int {
	for i, p := range ops {
		if p.kind == kind {
			return i
		}
	}
	return -1
}

// classOf: 0 nil, 1 error, 3 panic.  (An escaped LIMIT sentinel is not told apart by its text: failure texts of
// the family above look the same; it shows as an error although nothing fired, which the tie reports.)
func classOf(err error, panicked interface{}) int {
	switch {
	case panicked != nil:
		return 3
	case err == nil:
		return 0
	}
	return 1
}

func main() {
	f := lib.ParseFlags()
	if f.Cmd != "run" {
		fmt.Fprintln(os.Stderr, "c06: only 'run'")
		os.Exit(2)
	}
	rng := lib.NewRng(f.Seed)
	cf := lib.NewCaseFile("C06", f.Seed, f.Tier)
	cf.Imports = []string{"ErrorFlow"}
	cf.CaseType = "c06_case"
	cf.Checks = []lib.Check{{Name: "tie", Kind: "tie", Fn: "c06_tie"}, {Name: "spec", Kind: "spec", Fn: "c06_spec"}}
	cf.Side.Rule = "in-process: every node kind of execution/nodes (filter, map, distinct, order-sensitive transform, limit, unnest, simple and custom-trigger group-by, " +
		"event-time buffer, lookup join; stream and outer join) stacked 1-3 deep above scripted sources (0..7 events, duplicates, retractions, NULLs, lists, event times and watermarks) " +
		"with a source failure injected at every position in turn and/or expressions that call the real panic() on a chosen value; " +
		"CLI: query shapes (DISTINCT, ORDER BY, GROUP BY, joins, subquery expressions, LIMIT, every output format) over JSON/CSV/lines files with a malformed row at a chosen line or panic() on a chosen row. " +
		"non-trivial = a failure fired under at least one operator (in-process) / the failure is certainly reached (CLI); distinct by full case text"

	inproc := f.Cases(450, 4500)
	textRng := rng.Fork()
	addCase := func(root *plan, level int) {
		fl := &fired{text: errorTexts[textRng.Intn(len(errorTexts))]}
		cf.Count("failure_text:" + fl.text)
		node := root.build(fl)
		out, err, p := lib.RunNode(node)
		cls := classOf(err, p)
		coq := fmt.Sprintf("CInproc %s %d %s %d %s", root.coq(), level, lib.CoqEvents(out), cls, lib.CoqBool(fl.any))
		errText := ""
		if err != nil {
			errText = err.Error()
		}
		js := map[string]interface{}{"plan": root.describe(), "plan_coq": root.coq(), "level": level, "output": lib.EventsJSON(out), "error_class": cls, "error": errText, "failure_fired": fl.any, "failure_text": fl.text}
		idx := cf.Add(coq, js, fl.any)
		cf.Count("class_" + fmt.Sprint(cls))
		if fl.any {
			cf.Count("failure_fired")
			if cls == 0 || cls == 2 {
				cf.Violation(idx, "a runtime failure fired during the run but Run returned "+map[int]string{0: "nil", 2: "a LIMIT sentinel"}[cls]+" (error swallowed): "+root.describe(), "")
			}
		}
		if p != nil {
			cf.Violation(idx, fmt.Sprintf("node panicked: %v in %s", p, root.describe()), "")
		}
	}

	// addCaseExpect: a case whose failure is reached by construction (mustFail): the Go side reports a nil result as a
	// failing input whatever "fired" says (a change that never evaluates the failing sub-expression raises no flag)
	addCaseExpect := func(root *plan, level int, mustFail bool, what string) {
		before := len(cf.Side.Cases)
		addCase(root, level)
		if !mustFail || len(cf.Side.Cases) == before {
			return
		}
		js := cf.Side.Cases[before].(map[string]interface{})
		cf.Count("matrix_must_fail")
		if js["error_class"].(int) == 0 {
			cf.Violation(before, "the failing expression is reached by construction ("+what+") but Run returned nil: "+root.describe(), "")
		}
	}
	for i := 0; i < inproc; i++ {
		r := rng.Fork()
		if r.Chance(1, 8) {
			// joins: left and right stacks (limits allowed inside a side), nothing data-dependent above
			var leaves []*plan
			mk := func() *plan {
				ops := genStack(r, r.Intn(2), "", true, true)
				evs := genScript(r, genOpts{singleKey: hasKind(ops, "sgb") >= 0, lists: hasKind(ops, "unnest") >= 0, noRetr: true,
					unique: hasKind(ops, "ost") >= 0})
				for _, o := range ops {
					if o.kind == "ost" {
						o.hasLimit = false
					}
				}
				leaf := &plan{kind: "script", events: evs}
				if r.Chance(1, 2) {
					pos := r.Intn(len(evs) + 1)
					leaf.events, leaf.fail = evs[:pos], true
				}
				leaves = append(leaves, leaf)
				return link(ops, leaf)
			}
			kind := "sjoin"
			if r.Bool() {
				kind = "ojoin"
			}
			j := &plan{kind: kind, src: mk(), rhs: mk(), exprs: []cexpr{genExpr(r, 0, true), genExpr(r, 0, true)}}
			if r.Chance(1, 3) {
				j.exprs = []cexpr{{kind: "col", i: 0}, {kind: "col", i: 0}}
			}
			// which channel closes first is a race: hold one side back so that both orders occur
			switch r.Intn(3) {
			case 0:
				leaves[0].delayEnd = 3 * time.Millisecond
			case 1:
				leaves[1].delayEnd = 3 * time.Millisecond
			}
			if r.Chance(1, 4) {
				leaves[r.Intn(2)].delayStart = 2 * time.Millisecond
			}
			above := genStack(r, r.Intn(2), "", false, false)
			for _, o := range above {
				if o.kind == "unnest" || o.kind == "lookup" || o.kind == "sgb" || o.kind == "cgb" || o.kind == "ost" {
					o.kind = "distinct"
				}
			}
			cf.Count("shape_join")
			addCase(link(above, j), 2)
			continue
		}
		depth := 1 + r.Intn(3)
		forced := unaryKinds[i%len(unaryKinds)] // every kind is the topmost operator equally often
		if r.Chance(1, 3) {
			forced = ""
		}
		ops := genStack(r, depth, forced, true, true)
		g := hasKind(ops, "sgb")
		o := genOpts{lists: hasKind(ops, "unnest") >= 0, times: hasKind(ops, "buffer") >= 0 || hasKind(ops, "cgb") >= 0 || r.Chance(1, 6)}
		level := 0
		if g > 0 {
			o.singleKey = true // rows leave a SimpleGroupBy in hashmap order: keep one group when anything sits above it
		} else if g == 0 {
			level = 1
		}
		// ORDER BY + LIMIT only directly above row-preserving operators and unique rows (the row/item counting of
		// produceOrderByItems is C05's business)
		for k, op := range ops {
			if op.kind != "ost" || !r.Chance(1, 2) {
				continue
			}
			ok := true
			for _, below := range ops[k+1:] {
				if below.kind != "filter" && below.kind != "buffer" && below.kind != "limit" {
					ok = false
				}
			}
			if ok {
				op.hasLimit, op.k = true, int64(1+r.Intn(4))
				o.unique, o.noRetr = true, true
			}
		}
		evs := genScript(r, o)
		cf.Count("top_" + ops[0].kind)
		cf.Count(fmt.Sprintf("depth_%d", depth))
		if r.Chance(1, 2) {
			cf.Count("inject_none")
			addCase(link(ops, &plan{kind: "script", events: evs}), level)
			continue
		}
		// a source failure at one position (all positions over the run: the position is drawn uniformly)
		pos := r.Intn(len(evs) + 1)
		cf.Count(fmt.Sprintf("inject_source_pos_%d", pos))
		addCase(link(ops, &plan{kind: "script", events: evs[:pos], fail: true}), level)
	}

	runMatrix(cf, addCaseExpect)

	// subquery expressions: Single/MultiColumnQueryExpression over a failing subquery, inside a Map
	for i := 0; i < inproc/15; i++ {
		r := rng.Fork()
		runQueryExprCase(cf, r)
	}

	// joins with a stalled consumer and a failing side that is 0, capacity-1, capacity, capacity+1 messages ahead of
	// the receive loop when it fails (the producers hand their messages over a 10000-slot channel)
	for i := 0; i < f.Cases(8, 32); i++ {
		runStalledJoinCase(cf, rng.Fork(), i)
	}

	runCLI(cf, rng, f)

	if err := cf.Write(f.Out); err != nil {
		fmt.Fprintln(os.Stderr, err)
		os.Exit(2)
	}
}

// runQueryExprCase: Map [col0, (SELECT ... sub)] over an outer script; the subquery is a stack over a failing script.
// The model side is the plan of the subquery alone (C06_query_expr); the Go oracle checks the enclosing Map.
func runQueryExprCase(cf *lib.CaseFile, r *lib.Rng) {
	fl := &fired{text: errorTexts[r.Intn(len(errorTexts))]}
	ops := genStack(r, r.Intn(2), "", true, true)
	for _, o := range ops {
		if o.kind == "sgb" || o.kind == "ost" || o.kind == "cgb" {
			o.kind = "distinct"
		}
	}
	evs := genScript(r, genOpts{lists: hasKind(ops, "unnest") >= 0, noRetr: r.Chance(3, 4)})
	leaf := &plan{kind: "script", events: evs}
	if r.Chance(2, 3) {
		pos := r.Intn(len(evs) + 1)
		leaf.events, leaf.fail = evs[:pos], true
	}
	sub := link(ops, leaf)
	multi := r.Bool()
	var qe execution.Expression
	if multi {
		qe = execution.NewMultiColumnQueryExpression(sub.build(fl))
	} else {
		qe = execution.NewSingleColumnQueryExpression(sub.build(fl))
	}
	outer := []lib.Event{{Rec: execution.NewRecord([]octosql.Value{octosql.NewInt(1), octosql.NewInt(2)}, false, lib.T(0))}}
	node := nodes.NewMap(&lib.ScriptSource{Events: outer}, []execution.Expression{mkExpr(cexpr{kind: "col", i: 0}, fl), qe})
	out, err, p := lib.RunNode(node)
	cls := classOf(err, p)
	// a retraction reaching the expression is a failure of the expression itself
	retrSeen := false
	if err != nil && strings.Contains(err.Error(), "can't handle retractions") {
		retrSeen = true
	}
	firedAny := fl.any || retrSeen
	// the model case: the subquery plan under the recorder gives class/ghost of the subquery run except for the
	// expression's own retraction error; compare only when no retraction is in the script
	hasRetr := false
	for _, e := range evs {
		if !e.IsWM && e.Rec.Retraction {
			hasRetr = true
		}
	}
	js := map[string]interface{}{"query_expression_over": sub.describe(), "multi": multi, "outer_output": lib.EventsJSON(out), "error_class": cls, "failure_fired": firedAny}
	var idx int
	if hasRetr {
		idx = cf.Add(fmt.Sprintf("CCli %s %s", lib.CoqBool(firedAny), lib.CoqBool(cls == 1 || cls == 3)), js, firedAny)
	} else {
		// level 2: only class and ghost of the subquery plan (its rows end up inside a list value)
		idx = cf.Add(fmt.Sprintf("CInproc %s 2 [] %d %s", sub.coq(), cls, lib.CoqBool(firedAny)), js, firedAny)
	}
	cf.Count("shape_query_expr")
	if firedAny && cls == 0 {
		cf.Violation(idx, "a failure inside a subquery expression was swallowed: "+sub.describe(), "")
	}
	if p != nil {
		cf.Violation(idx, fmt.Sprintf("panicked: %v", p), "")
	}
}

const joinChannelCapacity = 10000 // make(chan chanMessage, 10000) in stream_join.go / outer_join.go

// runStalledJoinCase: one side is the record [1,1]; the other side is [1,1], then `ahead` records that match nothing,
// then a failure.  The single-record side finishes first, the other side's first record matches, and the consumer
// stalls on that first output row for a moment: meanwhile the failing producer runs `ahead` messages ahead and fails.
// Spec only (no model run: the theorem C06_plan_fails covers every interleaving and every length).
func runStalledJoinCase(cf *lib.CaseFile, r *lib.Rng, i int) {
	aheads := []int{0, joinChannelCapacity - 1, joinChannelCapacity, joinChannelCapacity + 1}
	ahead := aheads[i%len(aheads)]
	outer := (i/len(aheads))%2 == 1
	failLeft := r.Bool()
	fl := &fired{text: errorTexts[r.Intn(len(errorTexts))]}
	key := []octosql.Value{octosql.NewInt(1), octosql.NewInt(1)}
	long := []lib.Event{{Rec: execution.NewRecord(key, false, lib.T(0))}}
	for k := 0; k < ahead; k++ {
		long = append(long, lib.Event{Rec: execution.NewRecord([]octosql.Value{octosql.NewInt(0), octosql.NewInt(int64(k))}, false, lib.T(0))})
	}
	failing := &scriptSource{events: long, fail: true, f: fl, delayStart: 5 * time.Millisecond}
	short := &scriptSource{events: []lib.Event{{Rec: execution.NewRecord(key, false, lib.T(0))}}, f: fl}
	var left, right execution.Node = failing, short
	if !failLeft {
		left, right = short, failing
	}
	keys := func() []execution.Expression { return []execution.Expression{mkExpr(cexpr{kind: "col", i: 0}, fl)} }
	var node execution.Node
	if outer {
		node = nodes.NewOuterJoin(left, right, 2, 2, keys(), keys(), true, false)
	} else {
		node = nodes.NewStreamJoin(left, right, keys(), keys())
	}
	rows, stalled := 0, false
	var err error
	p := func() (p interface{}) {
		defer func() { p = recover() }()
		err = node.Run(execution.ExecutionContext{Context: context.Background()},
			func(ctx execution.ProduceContext, record execution.Record) error {
				rows++
				if !stalled {
					stalled = true
					time.Sleep(150 * time.Millisecond)
				}
				return nil
			},
			func(ctx execution.ProduceContext, msg execution.MetadataMessage) error { return nil })
		return nil
	}()
	cls := classOf(err, p)
	kind := "sjoin"
	if outer {
		kind = "ojoin"
	}
	side := "right"
	if failLeft {
		side = "left"
	}
	js := map[string]interface{}{"plan": fmt.Sprintf("%s with a consumer that stalls on the first output row; the %s side is [1,1], %d non-matching records, then FAIL; the other side is [1,1]", kind, side, ahead),
		"error_class": cls, "failure_fired": fl.any, "failure_text": fl.text, "output_rows": rows}
	idx := cf.Add(fmt.Sprintf("CCli %s %s", lib.CoqBool(fl.any), lib.CoqBool(cls == 1 || cls == 3)), js, fl.any)
	cf.Count(fmt.Sprintf("stalled_join_ahead_%d", ahead))
	if fl.any && cls == 0 {
		cf.Violation(idx, fmt.Sprintf("a source of a %s failed %d messages ahead of a stalled receive loop and Run returned nil (error swallowed)", kind, ahead), "")
	}
	if p != nil {
		cf.Violation(idx, fmt.Sprintf("join panicked: %v", p), "")
	}
}

// runMatrix: the deterministic failure-injection matrix of every run (no random choice):
//
//	(failing sub-expression: alone / second argument of a strict call / first argument of a strict call)
//
// x (row on which it fails: first, middle, last) x (the other argument of the call is NULL on that row, or never)
// x (operator that evaluates it: Map, Filter, ORDER BY key, GROUP BY aggregate argument)
// x (above it: nothing, Distinct, Limit whose k-th row is the failing one, Limit that ends one row earlier)
// and the failing Map / Filter above an ORDER BY .. LIMIT k whose k-th emitted row is the failing one (and k-1).
func runMatrix(cf *lib.CaseFile, add func(root *plan, level int, mustFail bool, what string)) {
	for f := 0; f < 3; f++ {
		for _, nullpos := range []int{f, -1} {
			var evs []lib.Event
			for i := 0; i < 3; i++ {
				c1 := octosql.NewInt(5)
				if i == nullpos {
					c1 = octosql.NewNull()
				}
				evs = append(evs, lib.Event{Rec: execution.NewRecord([]octosql.Value{octosql.NewInt(int64(i)), c1}, false, lib.T(0))})
			}
			script := func() *plan { return &plan{kind: "script", events: evs} }
			fail := cexpr{kind: "failif", i: 0, v: octosql.NewInt(int64(f))}
			col1 := cexpr{kind: "col", i: 1}
			exprs := []cexpr{fail, {kind: "call", a: &col1, b: &fail}, {kind: "call", a: &fail, b: &col1}}
			for ei, e := range exprs {
				what := fmt.Sprintf("expression shape %d fails on row %d of 3, NULL argument on row %d", ei, f, nullpos)
				host := func(kind string, src *plan) *plan {
					switch kind {
					case "map":
						return &plan{kind: "map", exprs: []cexpr{e, col1}, src: src}
					case "filter":
						return &plan{kind: "filter", exprs: []cexpr{e}, src: src}
					case "ost":
						return &plan{kind: "ost", exprs: []cexpr{e}, dirs: []int{1}, noretr: true, src: src}
					}
					return &plan{kind: "sgb", exprs: []cexpr{e}, src: src}
				}
				for _, h := range []string{"map", "filter", "ost", "sgb"} {
					for _, above := range []string{"none", "distinct", "limit_at", "limit_before"} {
						root := host(h, script())
						mustFail, level := true, 0
						switch above {
						case "distinct":
							root = &plan{kind: "distinct", src: root}
						case "limit_at":
							root = &plan{kind: "limit", id: 31, k: int64(f + 1), src: root}
						case "limit_before":
							if f == 0 {
								continue
							}
							root = &plan{kind: "limit", id: 31, k: int64(f), src: root}
							mustFail = h != "map" // Filter drops these rows, ORDER BY / GROUP BY read everything first
						}
						if h == "sgb" {
							level = 1
							if above != "none" {
								level = 2
							}
						}
						cf.Count("matrix_" + h + "_" + above)
						add(root, level, mustFail, what)
					}
				}
				// the failing operator above ORDER BY .. LIMIT k: the k-th emitted row is the failing one / the one before
				for _, h := range []string{"map", "filter"} {
					for _, k := range []int{f + 1, f} {
						if k == 0 {
							continue
						}
						sorted := &plan{kind: "ost", exprs: []cexpr{{kind: "col", i: 0}}, dirs: []int{1}, noretr: true, hasLimit: true, k: int64(k), src: script()}
						cf.Count("matrix_" + h + "_above_order_by_limit")
						add(host(h, sorted), 0, k == f+1, what+fmt.Sprintf(", above ORDER BY LIMIT %d", k))
					}
				}
			}
		}
	}
}
