package main

import (
	"bytes"
	"context"
	"fmt"
	"os"
	"os/exec"
	"path/filepath"
	"strings"
	"sync"
	"time"

	"verifharness/lib"
)

// buildCLI builds the octosql binary of the tree under check once per run.
func buildCLI(dir string) (string, error) {
	repo := os.Getenv("VERIF_REPO")
	if repo == "" {
		repo = "/repo"
	}
	bin := filepath.Join(dir, "octosql")
	cmd := exec.Command("go", "build", "-o", bin, ".")
	cmd.Dir = repo
	cmd.Env = append(os.Environ(), "GOFLAGS=-mod=mod", "GOPROXY=off", "GOSUMDB=off", "GOTOOLCHAIN=local", "CGO_ENABLED=0")
	out, err := cmd.CombinedOutput()
	if err != nil {
		return "", fmt.Errorf("go build of the CLI failed: %v\n%s", err, out)
	}
	return bin, nil
}

type cliResult struct {
	exit     int
	stdout   string
	stderr   string
	timedOut bool
}

func runOctoTo(stdoutTo, bin, home, dir string, args ...string) cliResult {
	if stdoutTo == "" {
		return runOcto(bin, home, dir, args...)
	}
	ctx, cancel := context.WithTimeout(context.Background(), 20*time.Second)
	defer cancel()
	cmd := exec.CommandContext(ctx, bin, args...)
	cmd.Dir = dir
	cmd.Env = []string{"OCTOSQL_NO_TELEMETRY=1", "HOME=" + home, "PATH=/usr/bin:/bin"}
	out, err := os.OpenFile(stdoutTo, os.O_WRONLY, 0)
	if err != nil {
		return cliResult{exit: -2, stderr: err.Error()}
	}
	defer out.Close()
	var se bytes.Buffer
	cmd.Stdout, cmd.Stderr = out, &se
	err = cmd.Run()
	res := cliResult{stderr: se.String()}
	if ctx.Err() != nil {
		res.timedOut, res.exit = true, -1
		return res
	}
	if err != nil {
		if ee, ok := err.(*exec.ExitError); ok {
			res.exit = ee.ExitCode()
		} else {
			res.exit = -2
		}
	}
	return res
}

func runOcto(bin, home, dir string, args ...string) cliResult {
	ctx, cancel := context.WithTimeout(context.Background(), 20*time.Second)
	defer cancel()
	cmd := exec.CommandContext(ctx, bin, args...)
	cmd.Dir = dir
	cmd.Env = []string{"OCTOSQL_NO_TELEMETRY=1", "HOME=" + home, "PATH=/usr/bin:/bin"}
	var so, se bytes.Buffer
	cmd.Stdout, cmd.Stderr = &so, &se
	err := cmd.Run()
	res := cliResult{stdout: so.String(), stderr: se.String()}
	if ctx.Err() != nil {
		res.timedOut = true
		res.exit = -1
		return res
	}
	if err != nil {
		if ee, ok := err.(*exec.ExitError); ok {
			res.exit = ee.ExitCode()
		} else {
			res.exit = -2
		}
	}
	return res
}

type cliCase struct {
	name     string
	query    string
	format   string
	files    map[string]string // name -> content of the bad variant
	good     map[string]string // same files without the defect (calibration run: must exit 0)
	mustFail bool              // the failure is certainly reached
	class    string            // known-finding class, if the case meets one
	note     string
	calib    string   // calibration query over the same files (must exit 0); default: the clean files / panic( replaced
	stdoutTo string   // where stdout goes ("" = a buffer; "/dev/full" = every write fails)
	dirs     []string // directories to create (a directory named like a table)
}

// badTexts: what a malformed row says.  Datasource errors quote the offending input, so the text of a runtime error
// is user data; the family contains texts that look like the operators' internal stop signals.
var badTexts = []string{"WARN rate limit reached for client 42", "limit reached", "limit 01ARZ3NDEKTSV4RRFFQ69G5FAV reached", "oops", "EOF", "context canceled"}

// jsonRows: n rows; row badLine is malformed in the given way:
//
//	"truncated"  an object cut off in the middle
//	"text"       a line that is not JSON at all (badText)
//	"wrongtype"  valid JSON whose field b is an object quoting badText (b is a String in the preview)
//	"toolong"    a line longer than the scanner's 1 MiB limit
func jsonRows(n int, badLine int, kind, badText string) string {
	var b strings.Builder
	for i := 0; i < n; i++ {
		if i == badLine {
			switch kind {
			case "text":
				b.WriteString(badText + "\n")
			case "wrongtype":
				b.WriteString(fmt.Sprintf("{\"a\": %d, \"b\": {\"text\": %q}, \"g\": %d}\n", i, badText, i%3))
			case "toolong":
				b.WriteString(fmt.Sprintf("{\"a\": %d, \"b\": \"%s\", \"g\": %d}\n", i, strings.Repeat("y", 1100*1024), i%3))
			default:
				b.WriteString(fmt.Sprintf("{\"a\": %d, \"b\": \"s%d\", \"g\": \n", i, i))
			}
			continue
		}
		b.WriteString(fmt.Sprintf("{\"a\": %d, \"b\": \"s%d\", \"g\": %d}\n", i, i, i%3))
	}
	return b.String()
}

// csvRows: "fields" = wrong number of fields, "quote" = unterminated quote quoting badText
func csvRows(n int, badLine int, kind, badText string) string {
	var b strings.Builder
	b.WriteString("a,b,g\n")
	for i := 0; i < n; i++ {
		if i == badLine {
			if kind == "quote" {
				b.WriteString(fmt.Sprintf("%d,\"%s\n", i, badText))
			} else {
				b.WriteString(fmt.Sprintf("%d,s%d,%d,%s,fields\n", i, i, i%3, badText))
			}
			continue
		}
		b.WriteString(fmt.Sprintf("%d,s%d,%d\n", i, i, i%3))
	}
	return b.String()
}

func linesRows(n int, badLine int) string {
	var b strings.Builder
	for i := 0; i < n; i++ {
		if i == badLine {
			b.WriteString(strings.Repeat("x", 70000)) // longer than bufio.MaxScanTokenSize
			b.WriteString("\n")
			continue
		}
		b.WriteString(fmt.Sprintf("line %d\n", i))
	}
	return b.String()
}

// shapes over table T (alias t) with columns a (row number), b (string), g (a mod 3); U is a second, clean table.
var shapes = []struct{ name, q string }{
	{"select_star", "SELECT * FROM {T} t"},
	{"where", "SELECT t.a FROM {T} t WHERE t.a >= 0"},
	{"distinct", "SELECT DISTINCT t.g FROM {T} t"},
	{"order_by", "SELECT t.a, t.b FROM {T} t ORDER BY t.a DESC"},
	{"group_by", "SELECT t.g, COUNT(*) AS c FROM {T} t GROUP BY t.g"},
	{"group_by_order", "SELECT t.g, COUNT(*) AS c FROM {T} t GROUP BY t.g ORDER BY c"},
	{"join_left_bad", "SELECT t.a, u.a FROM {T} t JOIN {U} u ON t.g = u.g"},
	{"join_right_bad", "SELECT t.a, u.a FROM {U} u JOIN {T} t ON t.g = u.g"},
	{"left_join", "SELECT t.a, u.a FROM {U} u LEFT JOIN {T} t ON t.a = u.a"},
	{"lookup_join", "SELECT t.a, u.a FROM {U} u LOOKUP JOIN {T} t ON t.a = u.a"},
	{"subquery_from", "SELECT q.a FROM (SELECT t.a AS a FROM {T} t) q"},
	{"subquery_expr", "SELECT u.a, (SELECT t.a FROM {T} t) AS l FROM {U} u"},
	{"subquery_expr_multi", "SELECT u.a, (SELECT t.a, t.b FROM {T} t) AS l FROM {U} u"},
	{"distinct_subquery_order", "SELECT DISTINCT q.g FROM (SELECT t.g AS g FROM {T} t) q ORDER BY q.g"},
	{"with", "WITH w AS (SELECT t.a AS a FROM {T} t) SELECT * FROM w w"},
}

// panic() on a chosen row of a clean table: the row with a = {K}
var panicShapes = []struct{ name, q string }{
	{"panic_map", "SELECT panic({P}) AS x FROM {T} t WHERE t.a = {K}"},
	{"panic_distinct", "SELECT DISTINCT panic({P}) AS x FROM {T} t WHERE t.a >= {K}"},
	{"panic_order_by", "SELECT panic({P}) AS x, t.a FROM {T} t WHERE t.a = {K} ORDER BY t.a"},
	{"panic_where", "SELECT t.a FROM {T} t WHERE t.a < {K} OR panic({P}) = 'x'"},
	{"panic_group_key", "SELECT q.x, COUNT(*) AS c FROM (SELECT panic({P}) AS x FROM {T} t WHERE t.a = {K}) q GROUP BY q.x"},
	{"panic_agg_arg", "SELECT t.g, COUNT(panic({P})) AS c FROM {T} t WHERE t.a >= {K} GROUP BY t.g"},
	{"panic_subquery_expr", "SELECT u.a, (SELECT panic({P}) FROM {T} t WHERE t.a = {K}) AS l FROM {U} u"},
	{"panic_join_key", "SELECT t.a FROM {T} t JOIN {U} u ON panic({P}) = u.b WHERE t.a >= {K}"},
	{"panic_in_distinct_subquery", "SELECT DISTINCT q.x FROM (SELECT panic({P}) AS x FROM {T} t WHERE t.a = {K}) q"},
}

var formats = []string{"json", "csv", "batch_table", "stream_native"}

func runCLI(cf *lib.CaseFile, rng *lib.Rng, f lib.Flags) {
	n := f.Cases(80, 700)
	work, err := os.MkdirTemp("", "c06cli")
	if err != nil {
		fmt.Fprintln(os.Stderr, err)
		os.Exit(2)
	}
	defer os.RemoveAll(work)
	bin, err := buildCLI(work)
	if err != nil {
		fmt.Fprintln(os.Stderr, err)
		os.Exit(2)
	}
	home := filepath.Join(work, "home")
	os.MkdirAll(home, 0o755)

	var cases []cliCase
	for i := 0; i < n; i++ {
		r := rng.Fork()
		rows := 6 + r.Intn(20)
		if r.Chance(1, 2) {
			rows = 150 + r.Intn(100) // the failure lies beyond the 100-row schema preview
		}
		bad := r.Intn(rows)
		if rows > 100 && r.Chance(5, 6) {
			bad = 100 + r.Intn(rows-100)
		}
		format := formats[r.Intn(len(formats))]
		c := cliCase{format: format}
		clean := jsonRows(12, -1, "", "")
		badText := badTexts[r.Intn(len(badTexts))]
		// an outer LIMIT that is never reached must not change anything: the failure is still certainly reached
		unreached := ""
		if r.Chance(1, 3) {
			unreached = fmt.Sprintf(" LIMIT %d", rows+1000)
		}
		switch k := r.Intn(13); {
		case k < 5: // malformed row in a JSON / CSV file
			sh := shapes[(i/2)%len(shapes)]
			ext, kind := "json", []string{"truncated", "text", "wrongtype"}[r.Intn(3)]
			if kind == "wrongtype" && !(bad >= 100 && (sh.name == "select_star" || sh.name == "order_by")) {
				kind = "text" // inside the schema preview another kind is merged into the type; an unread field is not decoded
			}
			gen := func(n, bad int) string { return jsonRows(n, bad, kind, badText) }
			if r.Chance(1, 3) {
				ext, kind = "csv", []string{"fields", "quote"}[r.Intn(2)]
				gen = func(n, bad int) string { return csvRows(n, bad, kind, badText) }
			}
			c.name = sh.name + "_" + ext
			c.query = strings.ReplaceAll(strings.ReplaceAll(sh.q, "{T}", "t."+ext), "{U}", "u.json")
			c.files = map[string]string{"t." + ext: gen(rows, bad), "u.json": clean}
			c.good = map[string]string{"t." + ext: gen(rows, -1), "u.json": clean}
			c.mustFail = true
			c.note = fmt.Sprintf("%d rows, malformed row (%s, %q) at line %d", rows, kind, badText, bad)
			cf.Count("cli_bad_row_kind_" + kind)
			if unreached != "" {
				c.name += "_unreached_limit"
				c.query = "SELECT * FROM (" + c.query + ") lim" + unreached
				c.note += "," + unreached + " (never reached)"
			} else if r.Chance(1, 4) { // LIMIT above: certainly reached only when more rows are needed than precede the bad one
				k := 1 + r.Intn(rows)
				c.name += "_limit"
				c.query = "SELECT * FROM (" + c.query + ") lim LIMIT " + fmt.Sprint(k)
				c.mustFail = false
				c.note += fmt.Sprintf(", LIMIT %d (not necessarily reached)", k)
				if sh.name == "select_star" || sh.name == "where" || sh.name == "subquery_from" || sh.name == "with" {
					c.mustFail = k > bad
				}
				if sh.name == "order_by" || sh.name == "group_by" || sh.name == "group_by_order" {
					c.mustFail = true // ORDER BY / GROUP BY read their whole input first
				}
			}
		case k < 9: // panic() on a chosen row of clean files
			sh := panicShapes[(i/2)%len(panicShapes)]
			c.name = sh.name
			row := r.Intn(rows)
			arg := "t.b"
			if r.Chance(1, 2) {
				arg = "'" + badText + "'"
			}
			c.query = strings.ReplaceAll(strings.ReplaceAll(strings.ReplaceAll(strings.ReplaceAll(sh.q, "{T}", "t.json"), "{U}", "u.json"), "{K}", fmt.Sprint(row)+".0"), "{P}", arg)
			c.files = map[string]string{"t.json": jsonRows(rows, -1, "", ""), "u.json": clean}
			c.good = nil // calibrated by replacing panic(...) below
			c.mustFail = true
			c.note = fmt.Sprintf("%d rows, panic(%s) reached on the row(s) selected by a = / >= %d", rows, arg, row)
			if unreached != "" {
				c.name += "_unreached_limit"
				c.query = "SELECT * FROM (" + c.query + ") lim" + unreached
				c.note += "," + unreached + " (never reached)"
			}
		case k < 12: // a line longer than the JSON scanner's limit: a read error, not a parse error.  The reader hands lines
			// to the parsers in batches of 64, so positions at and around multiples of 64 are drawn systematically
			n := 101 + r.Intn(200)
			if r.Chance(2, 3) {
				n = 64*(2+r.Intn(3)) + []int{0, 0, 1, -1}[r.Intn(4)]
			}
			rows = n + 1 + r.Intn(8)
			sh := shapes[[]int{0, 1, 2, 3, 4, 10}[r.Intn(6)]]
			c.name = "json_line_too_long_" + sh.name
			c.query = strings.ReplaceAll(strings.ReplaceAll(sh.q, "{T}", "t.json"), "{U}", "u.json") + unreached
			c.files = map[string]string{"t.json": jsonRows(rows, n, "toolong", ""), "u.json": clean}
			c.good = map[string]string{"t.json": jsonRows(rows, -1, "", ""), "u.json": clean}
			c.mustFail = true
			c.note = fmt.Sprintf("%d good lines, then a line longer than the 1 MiB limit%s", n, unreached)
			cf.Count(fmt.Sprintf("cli_too_long_after_mod64_%d", n%64))
		default: // over-long line in a lines file
			c.name = "lines_too_long"
			c.query = "SELECT * FROM t.lines t"
			if r.Bool() {
				c.query = "SELECT DISTINCT t.text FROM t.lines t"
			}
			c.query += unreached
			if bad < 1 {
				bad = 1
			}
			if bad >= rows {
				bad = rows - 1
			}
			c.files = map[string]string{"t.lines": linesRows(rows, bad)}
			c.good = map[string]string{"t.lines": linesRows(rows, -1)}
			c.mustFail = true
			c.note = fmt.Sprintf("%d lines, line %d is longer than the scanner's buffer", rows, bad)
		}
		cases = append(cases, c)
	}

	cases = append(cases, cliMatrix()...)

	type outcome struct {
		calibrated bool
		calib      cliResult
		res        cliResult
	}
	outs := make([]outcome, len(cases))
	var wg sync.WaitGroup
	sem := make(chan struct{}, 8)
	for i := range cases {
		wg.Add(1)
		go func(i int) {
			defer wg.Done()
			sem <- struct{}{}
			defer func() { <-sem }()
			c := cases[i]
			dir := filepath.Join(work, fmt.Sprintf("case%d", i))
			os.MkdirAll(dir, 0o755)
			// calibration: the same query on clean data (or with panic() replaced by an ordinary function) must exit 0
			gdir := filepath.Join(dir, "good")
			os.MkdirAll(gdir, 0o755)
			gq := c.query
			gfiles := c.good
			if gfiles == nil {
				gfiles = c.files
				gq = strings.ReplaceAll(gq, "panic(", "upper(")
			}
			if c.calib != "" {
				gq = c.calib
			}
			for _, d := range c.dirs {
				os.MkdirAll(filepath.Join(dir, d), 0o755)
			}
			for name, content := range gfiles {
				os.WriteFile(filepath.Join(gdir, name), []byte(content), 0o644)
			}
			outs[i].calib = runOcto(bin, home, gdir, gq, "-o", c.format)
			outs[i].calibrated = outs[i].calib.exit == 0 && !outs[i].calib.timedOut
			for name, content := range c.files {
				os.WriteFile(filepath.Join(dir, name), []byte(content), 0o644)
			}
			outs[i].res = runOctoTo(c.stdoutTo, bin, home, dir, c.query, "-o", c.format)
		}(i)
	}
	wg.Wait()

	for i, c := range cases {
		o := outs[i]
		if !o.calibrated {
			// the shape itself is not accepted on clean data: not a C06 case
			cf.Count("cli_shape_rejected_on_clean_data:" + c.name)
			cf.Side.Notes = appendOnce(cf.Side.Notes, fmt.Sprintf("cli shape %s rejected on clean data (exit %d): %s", c.name, o.calib.exit, firstLine(o.calib.stderr)))
			continue
		}
		failed := o.res.exit != 0 && strings.TrimSpace(o.res.stderr) != ""
		crashed := strings.Contains(o.res.stderr, "goroutine ") || o.res.exit == 2
		files := map[string]interface{}{}
		for name, content := range c.files {
			if len(content) > 3000 {
				content = content[:1500] + "\n...[" + fmt.Sprint(len(content)) + " bytes]...\n" + content[len(content)-800:]
			}
			files[name] = content
		}
		js := map[string]interface{}{"cli": c.name, "query": c.query, "format": c.format, "files": files, "note": c.note,
			"must_fail": c.mustFail, "exit": o.res.exit, "stderr": firstLine(o.res.stderr), "stdout_bytes": len(o.res.stdout)}
		idx := cf.Add(fmt.Sprintf("CCli %s %s", lib.CoqBool(c.mustFail), lib.CoqBool(failed)), js, c.mustFail)
		cf.Count("cli_" + c.name)
		cf.Count("cli_format_" + c.format)
		if c.class != "" {
			cf.SetClass(idx, c.class)
		}
		if o.res.timedOut {
			cf.Violation(idx, "query did not finish within 20 s: "+c.query, c.class)
		}
		if c.mustFail && !failed {
			cf.Count("cli_swallowed")
			cf.Violation(idx, fmt.Sprintf("the failure is certainly reached (%s) but octosql exited %d without an error message: %s (-o %s)", c.note, o.res.exit, c.query, c.format), c.class)
		}
		if crashed {
			cf.Count("cli_crashed")
		}
	}
}

func appendOnce(l []string, s string) []string {
	for _, x := range l {
		if x == s {
			return l
		}
	}
	return append(l, s)
}

// firstLine: the "Error: ..." line of the CLI's stderr (cobra prints the usage text before it)
func firstLine(s string) string {
	for _, l := range strings.Split(s, "\n") {
		if strings.HasPrefix(l, "Error:") || strings.HasPrefix(l, "panic:") {
			return clip(l, 300)
		}
	}
	if i := strings.IndexByte(s, '\n'); i >= 0 {
		s = s[:i]
	}
	return clip(s, 200)
}

func clip(s string, n int) string {
	if len(s) > n {
		return s[:n] + "..."
	}
	return s
}

// cliMatrix: the deterministic failure-injection matrix through the CLI (the same in every run):
//
//	failure kind: division by zero / panic() / failed runtime type assertion, as the only, the second (after a strict
//	  argument that is NULL on that row) or the first argument of a strict operator; malformed row; over-long line;
//	  unreadable input (a directory named like a table); output write error (stdout = /dev/full)
//	x row: first, middle, last   x operator above: plain, DISTINCT, ORDER BY, GROUP BY, WHERE, join, subquery expression,
//	  ORDER BY .. LIMIT k whose k-th row is the failing one (and k-1: not reached)
//	x projection: all columns, another column only, no column (COUNT(*))   x output format.
func cliMatrix() []cliCase {
	var out []cliCase
	const n = 9
	formats := []string{"json", "csv", "batch_table", "stream_native"}
	fi := 0
	next := func() string { fi++; return formats[fi%len(formats)] }
	for _, k := range []int{0, n / 2, n - 1} {
		// d.csv: i = row number, s string, n = NULL (empty cell) exactly on row k, g = i mod 2; u.csv: clean
		var d, u, m strings.Builder
		d.WriteString("i,s,n,g\n")
		u.WriteString("i,g\n")
		for i := 0; i < n; i++ {
			nn := "5"
			if i == k {
				nn = ""
			}
			d.WriteString(fmt.Sprintf("%d,s%d,%s,%d\n", i, i, nn, i%2))
			u.WriteString(fmt.Sprintf("%d,%d\n", i, i%2))
			// m.json: a is NULL and b a String exactly on row k (a: NULL | Float, b: Float | String in the schema)
			if i == k {
				m.WriteString(fmt.Sprintf("{\"i\": %d, \"a\": null, \"b\": \"oops\"}\n", i))
			} else {
				m.WriteString(fmt.Sprintf("{\"i\": %d, \"a\": %d.5, \"b\": %d}\n", i, i, i))
			}
		}
		// a second JSON file without the String, for calibration of the type assertion shapes
		mgood := strings.ReplaceAll(m.String(), "\"oops\"", "7")
		files := map[string]string{"d.csv": d.String(), "u.csv": u.String(), "m.json": m.String()}
		div := fmt.Sprintf("(10 / (t.i - %d))", k)
		exprs := []struct{ name, x string }{
			{"div_zero", div},
			{"null_then_div_zero", "(t.n + " + div + ")"},
			{"div_zero_then_null", "(" + div + " + t.n)"},
			{"int_then_div_zero", "(t.i * " + div + ")"},
			{"null_eq_panic", fmt.Sprintf("(t.n = int(panic(t.s)) OR t.i != %d)", k)},
		}
		wrappers := []struct{ name, q string }{
			{"select", "SELECT X AS x FROM d.csv t"},
			{"distinct", "SELECT DISTINCT X AS x FROM d.csv t"},
			{"order_by", "SELECT q.x FROM (SELECT X AS x FROM d.csv t) q ORDER BY q.x"},
			{"group_by_arg", "SELECT t.g, COUNT(X) AS c FROM d.csv t GROUP BY t.g"},
			{"where", "SELECT t.i FROM d.csv t WHERE X IS NULL"},
			{"join", "SELECT X AS x FROM d.csv t JOIN u.csv u ON t.i = u.i"},
			{"subquery_expr", "SELECT u.i, (SELECT X AS x FROM d.csv t) AS l FROM u.csv u"},
			{"above_order_by_limit_at", fmt.Sprintf("SELECT X AS x FROM (SELECT z.i AS i, z.s AS s, z.n AS n FROM d.csv z ORDER BY i LIMIT %d) t", k+1)},
		}
		for _, e := range exprs {
			for _, w := range wrappers {
				q := strings.ReplaceAll(w.q, "X", e.x)
				calib := strings.ReplaceAll(strings.ReplaceAll(q, fmt.Sprintf("t.i - %d)", k), "t.i - 1000)"), "int(panic(t.s))", "5")
				out = append(out, cliCase{name: "matrix_" + e.name + "_" + w.name, query: q, calib: calib, format: next(), files: files, mustFail: true,
					note: fmt.Sprintf("%s fails exactly on row %d of %d (n is NULL on that row); %s", e.name, k, n, w.name)})
			}
			if k > 0 { // ORDER BY .. LIMIT k ends one row before the failing one: not reached, must succeed
				q := strings.ReplaceAll(fmt.Sprintf("SELECT X AS x FROM (SELECT z.i AS i, z.s AS s, z.n AS n FROM d.csv z ORDER BY i LIMIT %d) t", k), "X", e.x)
				out = append(out, cliCase{name: "matrix_" + e.name + "_above_order_by_limit_before", query: q, calib: q, format: next(), files: files, mustFail: false,
					note: "the failing row is cut off by the inner LIMIT: not reached"})
			}
		}
		// failed runtime type assertion, also behind a NULL strict argument
		for _, x := range []struct{ name, x string }{{"assert_second_after_null", "(t.a + t.b)"}, {"assert_first", "(t.b + t.a)"}, {"assert_alone", "(t.b + 1.5)"}} {
			for _, w := range []string{"SELECT X AS x FROM m.json t", "SELECT DISTINCT X AS x FROM m.json t", "SELECT t.i FROM m.json t WHERE X IS NULL",
				"SELECT q.x FROM (SELECT X AS x FROM m.json t) q ORDER BY q.x"} {
				q := strings.ReplaceAll(w, "X", x.x)
				out = append(out, cliCase{name: "matrix_" + x.name, query: q, format: next(), files: files,
					good: map[string]string{"d.csv": d.String(), "u.csv": u.String(), "m.json": mgood}, mustFail: true,
					note: fmt.Sprintf("b is a String (and a NULL) exactly on row %d of %d: the Float assertion of b fails there", k, n)})
			}
		}
	}
	// datasource failures x projection (all columns / another column / no column) x position
	projections := func(cols ...string) []string {
		qs := []string{"SELECT * FROM {T} t", "SELECT COUNT(*) FROM {T} t"}
		for _, c := range cols {
			qs = append(qs, "SELECT t."+c+" FROM {T} t", "SELECT MAX(t."+c+") FROM {T} t")
		}
		return qs
	}
	for _, bad := range []int{0, 130, 191, 192, 199} {
		rows := 200
		for _, q := range projections("a", "g") {
			for _, kind := range []string{"text", "toolong"} {
				if kind == "toolong" && bad < 100 {
					continue
				}
				out = append(out, cliCase{name: "matrix_json_" + kind, query: strings.ReplaceAll(q, "{T}", "t.json"), format: next(), mustFail: true,
					files: map[string]string{"t.json": jsonRows(rows, bad, kind, "limit reached")}, good: map[string]string{"t.json": jsonRows(rows, -1, "", "")},
					note: fmt.Sprintf("%d rows, %s row at line %d", rows, kind, bad)})
			}
			out = append(out, cliCase{name: "matrix_csv_fields", query: strings.ReplaceAll(q, "{T}", "t.csv"), format: next(), mustFail: true,
				files: map[string]string{"t.csv": csvRows(rows, bad, "fields", "x")}, good: map[string]string{"t.csv": csvRows(rows, -1, "", "")},
				note: fmt.Sprintf("%d rows, wrong number of fields at line %d", rows, bad)})
		}
	}
	for _, bad := range []int{1, 10, 19} {
		for _, q := range []string{"SELECT * FROM t.lines t", "SELECT COUNT(*) FROM t.lines t", "SELECT t.number FROM t.lines t", "SELECT MAX(t.number) FROM t.lines t", "SELECT t.text FROM t.lines t"} {
			out = append(out, cliCase{name: "matrix_lines_too_long", query: q, format: next(), mustFail: true,
				files: map[string]string{"t.lines": linesRows(20, bad)}, good: map[string]string{"t.lines": linesRows(20, -1)},
				note: fmt.Sprintf("20 lines, line %d is longer than the scanner's buffer", bad)})
		}
	}
	// values beyond the schema preview that do not fit the inferred type, at every position inside a list (first, middle,
	// last, nested) and as a scalar; and a NULL / a String reaching a runtime type assertion that excludes it
	for _, badList := range []string{"[1, \"oops\", 3]", "[\"oops\", 2, 3]", "[1, 2, \"oops\"]", "[1, [2], 3]", "[null, 2, 3]", "[1, 2.5, {\"x\": 1}]"} {
		var b, g strings.Builder
		for i := 0; i < 130; i++ {
			l := "[1, 2, 3]"
			g.WriteString(fmt.Sprintf("{\"id\": %d, \"tags\": %s, \"nest\": [[1], [2, 3]]}\n", i, l))
			if i == 120 {
				b.WriteString(fmt.Sprintf("{\"id\": %d, \"tags\": %s, \"nest\": [[1], [2, 3]]}\n", i, badList))
			} else if i == 125 {
				b.WriteString(fmt.Sprintf("{\"id\": %d, \"tags\": [1, 2, 3], \"nest\": [[1], %s]}\n", i, badList))
			} else {
				b.WriteString(fmt.Sprintf("{\"id\": %d, \"tags\": %s, \"nest\": [[1], [2, 3]]}\n", i, l))
			}
		}
		for _, q := range []string{"SELECT t.id, t.tags FROM l.json t", "SELECT DISTINCT t.tags FROM l.json t", "SELECT COUNT(t.tags) AS c FROM l.json t", "SELECT t.nest FROM l.json t", "SELECT * FROM l.json t"} {
			out = append(out, cliCase{name: "matrix_json_list_element_misfit", query: q, format: next(), mustFail: true,
				files: map[string]string{"l.json": b.String()}, good: map[string]string{"l.json": g.String()},
				note: "rows 120 / 125 (beyond the 100-row preview) hold the list " + badList + " where a list of numbers was inferred"})
		}
	}
	{
		// n is NULL | Int | String in the schema: SUM(n) / n + 1 get a runtime type assertion to Int
		csv := "id,n\n1,1\n2,x\n3,\n4,5\n5,7\n"
		good := "id,n\n1,1\n2,x\n3,4\n4,5\n5,7\n"
		for _, q := range []string{"SELECT SUM(t.n) AS s FROM n.csv t WHERE t.id != 2", "SELECT AVG(t.n) AS s FROM n.csv t WHERE t.id != 2", "SELECT t.id, MAX(t.n) AS s FROM n.csv t WHERE t.id != 2 GROUP BY t.id",
			"SELECT DISTINCT q.s FROM (SELECT t.id / 10 AS g, SUM(t.n) AS s FROM n.csv t WHERE t.id != 2 GROUP BY t.id / 10) q ORDER BY q.s"} {
			out = append(out, cliCase{name: "matrix_null_reaches_type_assertion", query: q, format: next(), mustFail: true,
				files: map[string]string{"n.csv": csv}, good: map[string]string{"n.csv": good},
				note: "n is NULL | Int | String; the String row is filtered out, the NULL of row 3 reaches the assertion to Int"})
		}
		out = append(out, cliCase{name: "matrix_string_reaches_type_assertion", query: "SELECT SUM(t.n) AS s FROM n.csv t", calib: "SELECT COUNT(t.n) AS s FROM n.csv t", format: next(), mustFail: true,
			files: map[string]string{"n.csv": csv}, note: "the String of row 2 reaches the assertion to Int"})
	}
	// unreadable input: a directory named like a lines table (open succeeds, read fails)
	for _, q := range []string{"SELECT * FROM dir.lines t", "SELECT COUNT(*) FROM dir.lines t", "SELECT t.number FROM dir.lines t", "SELECT DISTINCT t.text FROM dir.lines t"} {
		out = append(out, cliCase{name: "matrix_unreadable_input", query: q, calib: strings.ReplaceAll(q, "dir.lines", "ok.lines"), format: next(), mustFail: true,
			files: map[string]string{"ok.lines": "a\nb\n"}, dirs: []string{"dir.lines", "good/dir.lines"},
			note: "dir.lines is a directory: every read fails"})
	}
	// output write error: every write to stdout fails; small results (they only reach stdout in the final flush)
	small := map[string]string{"t.csv": csvRows(5, -1, "", "")}
	for _, format := range formats {
		for _, q := range []string{"SELECT * FROM t.csv t", "SELECT DISTINCT t.g FROM t.csv t", "SELECT t.a FROM t.csv t ORDER BY t.a DESC", "SELECT COUNT(*) FROM t.csv t"} {
			class := ""
			if format == "batch_table" || format == "stream_native" {
				class = "output-write-error-ignored"
			}
			out = append(out, cliCase{name: "matrix_output_write_error_" + format, query: q, calib: q, format: format, files: small, mustFail: true, stdoutTo: "/dev/full", class: class,
				note: "stdout is /dev/full: nothing can be written, so the output is not complete"})
		}
	}
	return out
}
