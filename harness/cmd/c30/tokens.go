package main

import (
	"fmt"
	"strings"

	"github.com/cube2222/octosql/parser/sqlparser"
)

// kwName maps the real tokenizer's token types to the constructors of Model/SqlTok.v `kw`.
var kwName = map[int]string{
	sqlparser.SELECT: "K_select", sqlparser.DISTINCT: "K_distinct", sqlparser.FROM: "K_from", sqlparser.WHERE: "K_where",
	sqlparser.GROUP: "K_group", sqlparser.BY: "K_by", sqlparser.TRIGGER: "K_trigger", sqlparser.ORDER: "K_order",
	sqlparser.LIMIT: "K_limit", sqlparser.OFFSET: "K_offset", sqlparser.AS: "K_as", sqlparser.JOIN: "K_join",
	sqlparser.LEFT: "K_left", sqlparser.RIGHT: "K_right", sqlparser.OUTER: "K_outer", sqlparser.LOOKUP: "K_lookup",
	sqlparser.STREAM: "K_stream", sqlparser.ON: "K_on", sqlparser.COUNTING: "K_counting", sqlparser.WATERMARK: "K_watermark",
	sqlparser.END: "K_end", sqlparser.OF: "K_of", sqlparser.AFTER: "K_after", sqlparser.DELAY: "K_delay",
	sqlparser.AND: "K_and", sqlparser.OR: "K_or", sqlparser.NOT: "K_not", sqlparser.LIKE: "K_like", sqlparser.IN: "K_in",
	sqlparser.IS: "K_is", sqlparser.NULL: "K_null", sqlparser.TRUE: "K_true", sqlparser.FALSE: "K_false",
	sqlparser.INTERVAL: "K_interval", sqlparser.DESCRIPTOR: "K_descriptor", sqlparser.TABLE: "K_table",
	sqlparser.ASC: "K_asc", sqlparser.DESC: "K_desc", sqlparser.CONVERT: "K_convert",
	sqlparser.WITH: "K_with", sqlparser.HAVING: "K_having", sqlparser.EXISTS: "K_exists", sqlparser.BETWEEN: "K_between", sqlparser.CASE: "K_case",
	sqlparser.WHEN: "K_when", sqlparser.THEN: "K_then", sqlparser.ELSE: "K_else", sqlparser.INNER: "K_inner", sqlparser.CROSS: "K_cross",
	sqlparser.REGEXP: "K_regexp", '~': "P_tilde", sqlparser.LIKE_REGEXP_CASE_INSENSITIVE: "P_tildestar", sqlparser.NOT_LIKE_REGEXP: "P_ntilde",
	sqlparser.NOT_LIKE_REGEXP_CASE_INSENSITIVE: "P_ntildestar",
	'(': "P_lparen", ')': "P_rparen", ',': "P_comma", '.': "P_dot", '*': "P_star", '+': "P_plus", '-': "P_minus", '/': "P_slash",
	'=': "P_eq", '<': "P_lt", '>': "P_gt", sqlparser.LE: "P_le", sqlparser.GE: "P_ge", sqlparser.NE: "P_ne",
	sqlparser.NULL_SAFE_EQUAL: "P_nseq", sqlparser.RIGHTARROW: "P_rarrow", sqlparser.JSON_EXTRACT_OP: "P_arrow",
	sqlparser.JSON_EXPLODE_OP: "P_explode", sqlparser.LIST_ARG: "P_cast", sqlparser.LIST_TYPE: "P_listtype",
	sqlparser.OBJECT_TYPE: "P_objtype", '[': "P_lbracket", ']': "P_rbracket",
}

func coqBytes(b []byte) string {
	var sb strings.Builder
	sb.WriteString("[")
	for i, c := range b {
		if i > 0 {
			sb.WriteString(";")
		}
		fmt.Fprintf(&sb, "%d", c)
	}
	sb.WriteString("]")
	return sb.String()
}

func coqToken(typ int, val []byte) string {
	if n, ok := kwName[typ]; ok {
		return "TK " + n
	}
	switch typ {
	case sqlparser.ID:
		return "TId " + coqBytes(val)
	case sqlparser.STRING:
		return "TStr " + coqBytes(val)
	case sqlparser.INTEGRAL:
		return "TInt " + coqBytes(val)
	case sqlparser.FLOAT:
		return "TFloat " + coqBytes(val)
	case sqlparser.HEX:
		return "THex " + coqBytes(val)
	case sqlparser.BIT_LITERAL:
		return "TBit " + coqBytes(val)
	case sqlparser.HEXNUM:
		return "THexNum " + coqBytes(val)
	case sqlparser.VALUE_ARG:
		return "TArg " + coqBytes(val)
	}
	return fmt.Sprintf("TOther %d", typ)
}

// tokenize runs the real Tokenizer over s. ok=false on LEX_ERROR.
func tokenize(s string) (toks []string, ok bool) {
	tkn := sqlparser.NewStringTokenizer(s)
	ok = true
	for i := 0; i < 100000; i++ {
		typ, val := tkn.Scan()
		if typ == 0 {
			break
		}
		if typ == sqlparser.LEX_ERROR {
			ok = false
		}
		if typ == ';' { // statement terminator: not part of the statement's token list
			break
		}
		toks = append(toks, coqToken(typ, val))
	}
	return toks, ok
}

func coqTokenList(toks []string) string { return "[" + strings.Join(toks, "; ") + "]" }
