package main

import (
	"fmt"
	"reflect"

	"github.com/cube2222/octosql/parser/sqlparser"
)

func probe(s string) {
	defer func() {
		if r := recover(); r != nil {
			fmt.Printf("%-60s => PANIC %v\n", s, r)
		}
	}()
	t1, err := sqlparser.Parse(s)
	if err != nil {
		fmt.Printf("%-60s => parse error: %v\n", s, err)
		return
	}
	p := sqlparser.String(t1)
	t2, err := sqlparser.Parse(p)
	if err != nil {
		fmt.Printf("%-60s => printed %q reparse error: %v\n", s, p, err)
		return
	}
	fmt.Printf("%-60s => %q equal=%v\n", s, p, reflect.DeepEqual(t1, t2))
}
