package main

import (
	"fmt"
	"os"
	"reflect"

	"github.com/cube2222/octosql/parser/sqlparser"
)

func probe(s string) {
	defer func() {
		if r := recover(); r != nil {
			fmt.Printf("%-60s => PANIC %v\n", s, r)
		}
	}()
	t1, err := sqlparser.Parse(s)
	if err != nil {
		fmt.Printf("%-60s => parse error: %v\n", s, err)
		return
	}
	if os.Getenv("C30_DUMP") != "" {
		fmt.Println(dump(reflect.ValueOf(t1), 0))
	}
	p := sqlparser.String(t1)
	t2, err := sqlparser.Parse(p)
	if err != nil {
		fmt.Printf("%-60s => printed %q reparse error: %v\n", s, p, err)
		return
	}
	fmt.Printf("%-60s => %q equal=%v\n", s, p, reflect.DeepEqual(t1, t2))
}

func dump(v reflect.Value, depth int) string {
	if !v.IsValid() || depth > 12 {
		return "?"
	}
	switch v.Kind() {
	case reflect.Ptr, reflect.Interface:
		if v.IsNil() {
			return "nil"
		}
		return dump(v.Elem(), depth+1)
	case reflect.Struct:
		out := v.Type().Name() + "{"
		for i := 0; i < v.NumField(); i++ {
			if v.Type().Field(i).PkgPath != "" {
				if v.Type().Field(i).Type.Kind() == reflect.String {
					out += v.Field(i).String() + " "
				}
				continue
			}
			f := v.Field(i)
			if f.Kind() == reflect.String && f.Len() == 0 || (f.Kind() == reflect.Ptr || f.Kind() == reflect.Interface || f.Kind() == reflect.Slice) && f.IsNil() {
				continue
			}
			out += v.Type().Field(i).Name + ":" + dump(f, depth+1) + " "
		}
		return out + "}"
	case reflect.Slice:
		if v.Type().Elem().Kind() == reflect.Uint8 {
			return string(v.Bytes())
		}
		out := "["
		for i := 0; i < v.Len(); i++ {
			out += dump(v.Index(i), depth+1) + ", "
		}
		return out + "]"
	case reflect.String:
		return v.String()
	}
	return fmt.Sprint(v.Interface())
}
