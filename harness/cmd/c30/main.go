// c30: SQL formatting round-trips through the parser (sqlparser.Parse / sqlparser.String).
package main

import (
	"fmt"
	"os"

	"verifharness/lib"
)

func repoDir() string {
	if r := os.Getenv("VERIF_REPO"); r != "" {
		return r
	}
	return "/repo"
}

func main() {
	f := lib.ParseFlags()
	switch f.Cmd {
	case "gen":
		if err := runGen(repoDir(), f.Out); err != nil {
			fmt.Fprintln(os.Stderr, err)
			os.Exit(2)
		}
	case "run":
		if err := runCases(f); err != nil {
			fmt.Fprintln(os.Stderr, err)
			os.Exit(2)
		}
	case "probe":
		for _, s := range f.Args {
			probe(s)
		}
	default:
		fmt.Fprintln(os.Stderr, "c30: gen | run | probe")
		os.Exit(2)
	}
}
