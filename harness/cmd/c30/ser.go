package main

// Serialises the real parser's tree into the Coq AST of Model/Sql.v.  ok=false when the tree uses something
// outside the model fragment (then the statement is covered only by the implementation oracle).

import (
	"fmt"
	"reflect"
	"sort"
	"strings"

	"github.com/cube2222/octosql/parser/sqlparser"
)

// the struct shapes the serialiser was written against: a new or renamed field fails loudly
var expectedFields = map[string][]string{
	"Select":              {"Cache", "Comments", "Distinct", "Hints", "SelectExprs", "From", "Where", "GroupBy", "Having", "OrderBy", "Limit", "Lock", "Trigger"},
	"AliasedExpr":         {"Expr", "As"},
	"StarExpr":            {"TableName"},
	"ObjectExplode":       {"Metadata", "Object"},
	"AliasedTableExpr":    {"Expr", "Partitions", "As", "Hints"},
	"JoinTableExpr":       {"LeftExpr", "Strategy", "Join", "RightExpr", "Condition"},
	"JoinCondition":       {"On", "Using"},
	"TableValuedFunction": {"Name", "Args", "As"},
	"TableValuedFunctionArgument": {"Name", "Value"},
	"ParenTableExpr":      {"Exprs"},
	"ComparisonExpr":      {"Operator", "Left", "Right", "Escape"},
	"BinaryExpr":          {"Operator", "Left", "Right"},
	"UnaryExpr":           {"Operator", "Expr"},
	"IntervalExpr":        {"Expr", "Unit"},
	"FuncExpr":            {"Qualifier", "Name", "Distinct", "Exprs"},
	"ConvertExpr":         {"Expr", "Type"},
	"ObjectFieldAccess":   {"Metadata", "Object", "Field"},
	"ColName":             {"Metadata", "Name", "Qualifier"},
	"IsExpr":              {"Operator", "Expr"},
	"Order":               {"Expr", "Direction"},
	"Limit":               {"Offset", "Rowcount"},
	"Where":               {"Type", "Expr"},
	"DelayTrigger":        {"Delay"},
	"CountingTrigger":     {"Count"},
	"SQLVal":              {"Type", "Val"},
	"RangeCond":           {"Operator", "Left", "From", "To"},
	"CaseExpr":            {"Expr", "Whens", "Else"},
	"When":                {"Cond", "Val"},
	"ExistsExpr":          {"Subquery"},
	"With":                {"CommonTableExpressions", "Select"},
	"CommonTableExpression": {"Name", "Select"},
}

func checkStructShapes() error {
	types := map[string]reflect.Type{
		"Select": reflect.TypeOf(sqlparser.Select{}), "AliasedExpr": reflect.TypeOf(sqlparser.AliasedExpr{}),
		"StarExpr": reflect.TypeOf(sqlparser.StarExpr{}), "ObjectExplode": reflect.TypeOf(sqlparser.ObjectExplode{}),
		"AliasedTableExpr": reflect.TypeOf(sqlparser.AliasedTableExpr{}), "JoinTableExpr": reflect.TypeOf(sqlparser.JoinTableExpr{}),
		"JoinCondition": reflect.TypeOf(sqlparser.JoinCondition{}), "TableValuedFunction": reflect.TypeOf(sqlparser.TableValuedFunction{}),
		"TableValuedFunctionArgument": reflect.TypeOf(sqlparser.TableValuedFunctionArgument{}),
		"ParenTableExpr":              reflect.TypeOf(sqlparser.ParenTableExpr{}), "ComparisonExpr": reflect.TypeOf(sqlparser.ComparisonExpr{}),
		"BinaryExpr": reflect.TypeOf(sqlparser.BinaryExpr{}), "UnaryExpr": reflect.TypeOf(sqlparser.UnaryExpr{}),
		"IntervalExpr": reflect.TypeOf(sqlparser.IntervalExpr{}), "FuncExpr": reflect.TypeOf(sqlparser.FuncExpr{}),
		"ConvertExpr": reflect.TypeOf(sqlparser.ConvertExpr{}), "ObjectFieldAccess": reflect.TypeOf(sqlparser.ObjectFieldAccess{}),
		"ColName": reflect.TypeOf(sqlparser.ColName{}), "IsExpr": reflect.TypeOf(sqlparser.IsExpr{}), "Order": reflect.TypeOf(sqlparser.Order{}),
		"Limit": reflect.TypeOf(sqlparser.Limit{}), "Where": reflect.TypeOf(sqlparser.Where{}), "DelayTrigger": reflect.TypeOf(sqlparser.DelayTrigger{}),
		"CountingTrigger": reflect.TypeOf(sqlparser.CountingTrigger{}), "SQLVal": reflect.TypeOf(sqlparser.SQLVal{}),
		"RangeCond": reflect.TypeOf(sqlparser.RangeCond{}), "CaseExpr": reflect.TypeOf(sqlparser.CaseExpr{}), "When": reflect.TypeOf(sqlparser.When{}),
		"ExistsExpr": reflect.TypeOf(sqlparser.ExistsExpr{}), "With": reflect.TypeOf(sqlparser.With{}),
		"CommonTableExpression": reflect.TypeOf(sqlparser.CommonTableExpression{}),
	}
	var bad []string
	for name, t := range types {
		var got []string
		for i := 0; i < t.NumField(); i++ {
			got = append(got, t.Field(i).Name)
		}
		want := append([]string(nil), expectedFields[name]...)
		sort.Strings(got)
		sort.Strings(want)
		if strings.Join(got, ",") != strings.Join(want, ",") {
			bad = append(bad, fmt.Sprintf("%s: fields now %v, the model was written against %v", name, got, want))
		}
	}
	if len(bad) > 0 {
		sort.Strings(bad)
		return fmt.Errorf("AST node structs moved away from the model:\n  %s", strings.Join(bad, "\n  "))
	}
	return nil
}

type ser struct {
	ok   bool
	why  string
	feat map[string]bool // extensions used (for the non-triviality rule and the distribution)
	feat2 map[string]bool // other constructs added to the fragment in the deepening round (distribution only)
}

func newSer() *ser { return &ser{ok: true, feat: map[string]bool{}, feat2: map[string]bool{}} }

func (s *ser) fail(why string) string {
	if s.ok {
		s.ok, s.why = false, why
	}
	return "(ELit LNull)"
}

func (s *ser) id(v string) string { return coqBytes([]byte(v)) }

// a string the printer writes raw (%s): in the fragment only if it scans as the single ID token v
func (s *ser) rawID(v string, what string) string {
	toks, ok := tokenize(v)
	if !ok || len(toks) != 1 || toks[0] != "TId "+coqBytes([]byte(v)) {
		s.fail(what + " printed raw does not scan as one identifier: " + v)
	}
	return coqBytes([]byte(v))
}

func coqList(items []string) string { return "[" + strings.Join(items, "; ") + "]" }
func coqBool(b bool) string {
	if b {
		return "true"
	}
	return "false"
}

var cmpOps = map[string]string{
	sqlparser.EqualStr: "OEq", sqlparser.LessThanStr: "OLt", sqlparser.GreaterThanStr: "OGt", sqlparser.LessEqualStr: "OLe",
	sqlparser.GreaterEqualStr: "OGe", sqlparser.NotEqualStr: "ONe", sqlparser.NullSafeEqualStr: "ONse",
	sqlparser.LikeStr: "OLike", sqlparser.NotLikeStr: "ONotLike", sqlparser.InStr: "OIn", sqlparser.NotInStr: "ONotIn",
	sqlparser.RegexpStr: "ORegexp", sqlparser.NotRegexpStr: "ONotRegexp", sqlparser.LikeRegexpStr: "OLikeRe", sqlparser.LikeRegexpCaseInsensitiveStr: "OLikeReCI",
	sqlparser.NotLikeRegexpStr: "ONotLikeRe", sqlparser.NotLikeRegexpCaseInsensitiveStr: "ONotLikeReCI",
}
var isOps = map[string]string{
	sqlparser.IsNullStr: "IsNull", sqlparser.IsNotNullStr: "IsNotNull", sqlparser.IsTrueStr: "IsTrue",
	sqlparser.IsNotTrueStr: "IsNotTrue", sqlparser.IsFalseStr: "IsFalse", sqlparser.IsNotFalseStr: "IsNotFalse",
}
var binOps = map[string]string{sqlparser.PlusStr: "BPlus", sqlparser.MinusStr: "BMinus", sqlparser.MultStr: "BMult", sqlparser.DivStr: "BDiv"}

func (s *ser) expr(e sqlparser.Expr) string {
	switch x := e.(type) {
	case *sqlparser.AndExpr:
		return fmt.Sprintf("(EAnd %s %s)", s.expr(x.Left), s.expr(x.Right))
	case *sqlparser.OrExpr:
		return fmt.Sprintf("(EOr %s %s)", s.expr(x.Left), s.expr(x.Right))
	case *sqlparser.NotExpr:
		return fmt.Sprintf("(ENot %s)", s.expr(x.Expr))
	case *sqlparser.ParenExpr:
		return fmt.Sprintf("(EParen %s)", s.expr(x.Expr))
	case *sqlparser.ComparisonExpr:
		op, ok := cmpOps[x.Operator]
		if !ok {
			return s.fail("comparison operator " + x.Operator)
		}
		if x.Escape != nil {
			return s.fail("ESCAPE")
		}
		return fmt.Sprintf("(ECmp %s %s %s)", op, s.expr(x.Left), s.expr(x.Right))
	case *sqlparser.IsExpr:
		op, ok := isOps[x.Operator]
		if !ok {
			return s.fail("is operator " + x.Operator)
		}
		return fmt.Sprintf("(EIs %s %s)", op, s.expr(x.Expr))
	case *sqlparser.RangeCond:
		neg, ok := map[string]string{sqlparser.BetweenStr: "false", sqlparser.NotBetweenStr: "true"}[x.Operator]
		if !ok {
			return s.fail("range operator " + x.Operator)
		}
		s.feat2["between"] = true
		return fmt.Sprintf("(ERange %s %s %s %s)", neg, s.expr(x.Left), s.expr(x.From), s.expr(x.To))
	case *sqlparser.CaseExpr:
		s.feat2["case"] = true
		var ws []string
		for _, w := range x.Whens {
			ws = append(ws, fmt.Sprintf("(%s, %s)", s.expr(w.Cond), s.expr(w.Val)))
		}
		return fmt.Sprintf("(ECase %s %s %s)", s.optExpr(x.Expr), coqList(ws), s.optExpr(x.Else))
	case *sqlparser.ExistsExpr:
		s.feat2["exists"] = true
		return fmt.Sprintf("(EExists %s)", s.stmt(x.Subquery.Select))
	case *sqlparser.BinaryExpr:
		if x.Operator == sqlparser.ArrayElement {
			s.feat2["index"] = true
			return fmt.Sprintf("(EIndex %s %s)", s.expr(x.Left), s.expr(x.Right))
		}
		op, ok := binOps[x.Operator]
		if !ok {
			return s.fail("binary operator " + x.Operator)
		}
		return fmt.Sprintf("(EBin %s %s %s)", op, s.expr(x.Left), s.expr(x.Right))
	case *sqlparser.UnaryExpr:
		if x.Operator != sqlparser.UMinusStr {
			return s.fail("unary operator " + x.Operator)
		}
		return fmt.Sprintf("(ENeg %s)", s.expr(x.Expr))
	case *sqlparser.IntervalExpr:
		s.feat["interval"] = true
		return fmt.Sprintf("(EInterval %s %s)", s.expr(x.Expr), s.rawID(x.Unit, "interval unit"))
	case *sqlparser.FuncExpr:
		if !x.Qualifier.IsEmpty() {
			return s.fail("qualified function")
		}
		name := s.rawID(x.Name.String(), "function name")
		if len(x.Exprs) == 1 {
			if st, ok := x.Exprs[0].(*sqlparser.StarExpr); ok && st.TableName.IsEmpty() && !x.Distinct {
				return fmt.Sprintf("(EFuncStar %s)", name)
			}
		}
		var args []string
		for _, a := range x.Exprs {
			ae, ok := a.(*sqlparser.AliasedExpr)
			if !ok || !ae.As.IsEmpty() {
				return s.fail("function argument that is not a plain expression")
			}
			args = append(args, s.expr(ae.Expr))
		}
		if x.Distinct && len(args) == 0 {
			return s.fail("distinct without arguments")
		}
		return fmt.Sprintf("(EFunc %s %s %s)", name, coqBool(x.Distinct), coqList(args))
	case *sqlparser.ConvertExpr:
		s.feat["cast"] = true
		var t string
		switch ty := x.Type.(type) {
		case *sqlparser.ConvertTypeSimple:
			t = "(CTSimple " + s.rawID(ty.Name, "type name") + ")"
		case *sqlparser.ConvertTypeList:
			t = "CTList"
		case *sqlparser.ConvertTypeObject:
			t = "CTObject"
		default:
			return s.fail("convert type")
		}
		return fmt.Sprintf("(EConvert %s %s)", s.expr(x.Expr), t)
	case *sqlparser.ObjectFieldAccess:
		s.feat["field_access"] = true
		return fmt.Sprintf("(EField %s %s)", s.expr(x.Object), s.id(x.Field.String()))
	case sqlparser.ValTuple:
		var es []string
		for _, v := range x {
			es = append(es, s.expr(v))
		}
		return fmt.Sprintf("(ETuple %s)", coqList(es))
	case *sqlparser.Subquery:
		return fmt.Sprintf("(ESubquery %s)", s.stmt(x.Select))
	case *sqlparser.SQLVal:
		switch x.Type {
		case sqlparser.StrVal:
			return fmt.Sprintf("(ELit (LStr %s))", coqBytes(x.Val))
		case sqlparser.IntVal:
			if len(x.Val) > 0 && x.Val[0] == '-' {
				return fmt.Sprintf("(ELit (LInt true %s))", coqBytes(x.Val[1:]))
			}
			return fmt.Sprintf("(ELit (LInt false %s))", coqBytes(x.Val))
		case sqlparser.FloatVal:
			return fmt.Sprintf("(ELit (LFloat %s))", coqBytes(x.Val))
		case sqlparser.HexVal:
			s.feat2["lit_hex_bit_arg"] = true
			return fmt.Sprintf("(ELit (LHex %s))", coqBytes(x.Val))
		case sqlparser.BitVal:
			s.feat2["lit_hex_bit_arg"] = true
			return fmt.Sprintf("(ELit (LBit %s))", coqBytes(x.Val))
		case sqlparser.HexNum:
			s.feat2["lit_hex_bit_arg"] = true
			return fmt.Sprintf("(ELit (LHexNum %s))", coqBytes(x.Val))
		case sqlparser.ValArg:
			s.feat2["lit_hex_bit_arg"] = true
			return fmt.Sprintf("(ELit (LArg %s))", coqBytes(x.Val))
		}
		return s.fail("literal kind")
	case *sqlparser.NullVal:
		return "(ELit LNull)"
	case sqlparser.BoolVal:
		if bool(x) {
			return "(ELit LTrue)"
		}
		return "(ELit LFalse)"
	case *sqlparser.ColName:
		if !x.Qualifier.Qualifier.IsEmpty() {
			return s.fail("db.table.column")
		}
		return fmt.Sprintf("(ECol %s %s)", s.id(x.Qualifier.Name.String()), s.id(x.Name.String()))
	}
	return s.fail(fmt.Sprintf("expression node %T", e))
}

func (s *ser) optExpr(e sqlparser.Expr) string {
	if e == nil || reflect.ValueOf(e).Kind() == reflect.Ptr && reflect.ValueOf(e).IsNil() {
		return "None"
	}
	return "(Some " + s.expr(e) + ")"
}

func (s *ser) table(t sqlparser.TableExpr) string {
	switch x := t.(type) {
	case *sqlparser.AliasedTableExpr:
		if len(x.Partitions) > 0 || x.Hints != nil {
			return s.failT("partitions / index hints")
		}
		switch ex := x.Expr.(type) {
		case sqlparser.TableName:
			return fmt.Sprintf("(TName %s %s %s)", s.id(ex.Qualifier.String()), s.id(ex.Name.String()), s.id(x.As.String()))
		case *sqlparser.Subquery:
			return fmt.Sprintf("(TSub %s %s)", s.stmt(ex.Select), s.id(x.As.String()))
		}
		return s.failT("aliased table expression")
	case *sqlparser.ParenTableExpr:
		var ts []string
		for _, e := range x.Exprs {
			ts = append(ts, s.table(e))
		}
		return fmt.Sprintf("(TParen %s)", coqList(ts))
	case *sqlparser.JoinTableExpr:
		kind, ok := map[string]string{sqlparser.JoinStr: "JInner", sqlparser.LeftJoinStr: "JLeft", sqlparser.RightJoinStr: "JRight", sqlparser.OuterJoinStr: "JOuter"}[x.Join]
		if !ok {
			return s.failT("join kind " + x.Join)
		}
		strat, ok := map[string]string{"": "SNone", sqlparser.UndefinedJoinStrategy: "SUndefined", sqlparser.LookupJoinStrategy: "SLookup", sqlparser.StreamJoinStrategy: "SStream"}[x.Strategy]
		if !ok {
			return s.failT("join strategy " + x.Strategy)
		}
		if strat == "SLookup" || strat == "SStream" {
			s.feat["join_strategy"] = true
		}
		if x.Condition.Using != nil {
			return s.failT("USING")
		}
		return fmt.Sprintf("(TJoin %s %s %s %s %s)", s.table(x.LeftExpr), strat, kind, s.table(x.RightExpr), s.optExpr(x.Condition.On))
	case *sqlparser.TableValuedFunction:
		s.feat["tvf"] = true
		var args []string
		for _, a := range x.Args {
			name := s.id(a.Name.String())
			switch v := a.Value.(type) {
			case *sqlparser.ExprTableValuedFunctionArgumentValue:
				args = append(args, fmt.Sprintf("AExpr %s %s", name, s.expr(v.Expr)))
			case *sqlparser.TableDescriptorTableValuedFunctionArgumentValue:
				s.feat["tvf_table"] = true
				args = append(args, fmt.Sprintf("ATable %s %s", name, s.table(v.Table)))
			case *sqlparser.FieldDescriptorTableValuedFunctionArgumentValue:
				s.feat["tvf_descriptor"] = true
				if !v.Field.Qualifier.Qualifier.IsEmpty() {
					return s.failT("db.table.column descriptor")
				}
				args = append(args, fmt.Sprintf("ADescriptor %s %s %s", name, s.id(v.Field.Qualifier.Name.String()), s.id(v.Field.Name.String())))
			default:
				return s.failT("tvf argument kind")
			}
		}
		return fmt.Sprintf("(TFunc %s %s %s)", s.id(x.Name.String()), coqList(args), s.id(x.As.String()))
	}
	return s.failT(fmt.Sprintf("table node %T", t))
}

func (s *ser) failT(why string) string {
	s.fail(why)
	return "(TParen [])"
}

// select_statement: a plain SELECT or WITH … select_statement
func (s *ser) stmt(x sqlparser.SelectStatement) string {
	switch v := x.(type) {
	case *sqlparser.Select:
		return s.sel(v)
	case *sqlparser.With:
		s.feat2["with"] = true
		var ctes []string
		for _, c := range v.CommonTableExpressions {
			ctes = append(ctes, fmt.Sprintf("Cte %s %s", s.id(c.Name.String()), s.stmt(c.Select)))
		}
		return fmt.Sprintf("(With %s %s)", coqList(ctes), s.stmt(v.Select))
	}
	s.fail(fmt.Sprintf("select statement %T", x))
	return "(With [] (With [] (With [] (Select false [] [] None [] None [] [] None))))"
}

func (s *ser) sel(x *sqlparser.Select) string {
	if x.Cache != "" || len(x.Comments) > 0 || x.Hints != "" || x.Lock != "" {
		s.fail("cache / comments / hints / lock")
	}
	having := "None"
	if x.Having != nil && x.Having.Expr != nil {
		if x.Having.Type != sqlparser.HavingStr {
			s.fail("having type")
		}
		s.feat2["having"] = true
		having = "(Some " + s.expr(x.Having.Expr) + ")"
	}
	if x.Distinct != "" && x.Distinct != sqlparser.DistinctStr {
		s.fail("distinct string")
	}
	var items []string
	for _, it := range x.SelectExprs {
		switch v := it.(type) {
		case *sqlparser.StarExpr:
			if v.TableName.IsEmpty() {
				items = append(items, "SStar")
			} else if v.TableName.Qualifier.IsEmpty() {
				items = append(items, "SQualStar "+s.id(v.TableName.Name.String()))
			} else {
				s.fail("db.t.*")
			}
		case *sqlparser.AliasedExpr:
			items = append(items, fmt.Sprintf("SExpr %s %s", s.expr(v.Expr), s.id(v.As.String())))
		case *sqlparser.ObjectExplode:
			s.feat["explode"] = true
			items = append(items, "SExplode "+s.expr(v.Object))
		default:
			s.fail(fmt.Sprintf("select item %T", it))
		}
	}
	var from []string
	for _, t := range x.From {
		from = append(from, s.table(t))
	}
	where := "None"
	if x.Where != nil && x.Where.Expr != nil {
		if x.Where.Type != sqlparser.WhereStr {
			s.fail("where type")
		}
		where = "(Some " + s.expr(x.Where.Expr) + ")"
	}
	var gb, trs, ob []string
	for _, e := range x.GroupBy {
		gb = append(gb, s.expr(e))
	}
	for _, t := range x.Trigger {
		s.feat["trigger"] = true
		switch v := t.(type) {
		case *sqlparser.CountingTrigger:
			trs = append(trs, "TrCounting "+s.expr(v.Count))
		case *sqlparser.WatermarkTrigger:
			trs = append(trs, "TrWatermark")
		case *sqlparser.EndOfStreamTrigger:
			trs = append(trs, "TrEndOfStream")
		case *sqlparser.DelayTrigger:
			trs = append(trs, "TrDelay "+s.expr(v.Delay))
		default:
			s.fail("trigger kind")
		}
	}
	for _, o := range x.OrderBy {
		switch o.Direction {
		case sqlparser.AscScr:
			ob = append(ob, fmt.Sprintf("Order %s false", s.expr(o.Expr)))
		case sqlparser.DescScr:
			ob = append(ob, fmt.Sprintf("Order %s true", s.expr(o.Expr)))
		default:
			s.fail("order direction")
		}
	}
	lim := "None"
	if x.Limit != nil {
		lim = fmt.Sprintf("(Some (Limit %s %s))", s.optExpr(x.Limit.Offset), s.expr(x.Limit.Rowcount))
	}
	return fmt.Sprintf("(Select %s %s %s %s %s %s %s %s %s)", coqBool(x.Distinct != ""), coqList(items), coqList(from), where, coqList(gb), having, coqList(trs), coqList(ob), lim)
}
