package main

// The translator: reads every `func (node X) Format(buf *TrackedBuffer)` of the fragment's node types in
// parser/sqlparser/ast.go (go/ast), extracts the Myprintf templates, the string constants the %s verbs
// print, and the %left/%right/%nonassoc lines of sql.y, and writes them as data to coq/Gen/GenAstFormat.v.

import (
	"bytes"
	"fmt"
	"go/ast"
	"go/parser"
	"go/printer"
	"go/token"
	"os"
	"path/filepath"
	"regexp"
	"sort"
	"strconv"
	"strings"
)

type shape int

const (
	shTemplate shape = iota // a sequence of Myprintf calls, some under `if cond {…} [else {…}]`, after an optional early-return guard
	shList                  // prefix := "…"; for _, n := range node { Myprintf("%s%v", prefix, n); prefix = "…" }
	shCustom                // anything else: hand-modelled in Model/Sql.v, tied by the differential printer check
)

func (s shape) String() string { return [...]string{"template", "list", "custom"}[s] }

// the fragment's node types and the shape the model was written against
var fragmentNodes = map[string]shape{
	"Select": shTemplate, "AliasedExpr": shTemplate, "ObjectExplode": shTemplate, "StarExpr": shTemplate,
	"AliasedTableExpr": shTemplate, "TableName": shTemplate, "ParenTableExpr": shTemplate, "JoinCondition": shTemplate,
	"JoinTableExpr": shTemplate, "TableValuedFunction": shTemplate, "TableValuedFunctionArgument": shTemplate,
	"ExprTableValuedFunctionArgumentValue": shTemplate, "TableDescriptorTableValuedFunctionArgumentValue": shTemplate,
	"FieldDescriptorTableValuedFunctionArgumentValue": shTemplate, "Where": shTemplate,
	"AndExpr": shTemplate, "OrExpr": shTemplate, "NotExpr": shTemplate, "ParenExpr": shTemplate, "ComparisonExpr": shTemplate,
	"IsExpr": shTemplate, "NullVal": shTemplate, "ObjectFieldAccess": shTemplate, "ColName": shTemplate, "ValTuple": shTemplate,
	"Subquery": shTemplate, "BinaryExpr": shTemplate, "IntervalExpr": shTemplate, "ConvertExpr": shTemplate,
	"ConvertTypeSimple": shTemplate, "ConvertTypeList": shTemplate, "ConvertTypeObject": shTemplate,
	"WatermarkTrigger": shTemplate, "EndOfStreamTrigger": shTemplate, "DelayTrigger": shTemplate, "CountingTrigger": shTemplate,
	"Limit": shTemplate, "RangeCond": shTemplate, "CaseExpr": shTemplate, "When": shTemplate, "ExistsExpr": shTemplate,
	"With": shTemplate, "CommonTableExpression": shTemplate, "CommonTableExpressions": shList,
	"SelectExprs": shList, "TableExprs": shList, "TableValuedFunctionArguments": shList, "Exprs": shList,
	"GroupBy": shList, "OrderBy": shList, "Triggers": shList,
	"SQLVal": shCustom, "BoolVal": shTemplate, "UnaryExpr": shCustom, "FuncExpr": shCustom, "Order": shCustom,
	"ColIdent": shCustom, "TableIdent": shCustom,
}

// string constants printed through %s by the fragment's templates
var fragmentConsts = []string{
	"DistinctStr", "JoinStr", "LeftJoinStr", "RightJoinStr", "OuterJoinStr", "LookupJoinStrategy", "StreamJoinStrategy",
	"WhereStr", "EqualStr", "LessThanStr", "GreaterThanStr", "LessEqualStr", "GreaterEqualStr", "NotEqualStr", "NullSafeEqualStr",
	"InStr", "NotInStr", "LikeStr", "NotLikeStr", "IsNullStr", "IsNotNullStr", "IsTrueStr", "IsNotTrueStr", "IsFalseStr", "IsNotFalseStr",
	"HavingStr", "BetweenStr", "NotBetweenStr", "RegexpStr", "NotRegexpStr", "LikeRegexpStr", "LikeRegexpCaseInsensitiveStr",
	"NotLikeRegexpStr", "NotLikeRegexpCaseInsensitiveStr", "PlusStr", "MinusStr", "MultStr", "DivStr", "UMinusStr", "AscScr", "DescScr",
}

func src(fset *token.FileSet, n ast.Node) string {
	var b bytes.Buffer
	printer.Fprint(&b, fset, n)
	return b.String()
}

func coqString(s string) string { return `"` + strings.ReplaceAll(s, `"`, `""`) + `"` }

type genCtx struct {
	fset *token.FileSet
	recv string
}

// normalise the receiver name to `node`
func (g *genCtx) text(n ast.Node) string {
	s := src(g.fset, n)
	if g.recv != "" && g.recv != "node" {
		re := regexp.MustCompile(`\b` + regexp.QuoteMeta(g.recv) + `\b`)
		s = re.ReplaceAllString(s, "node")
	}
	return strings.Join(strings.Fields(s), " ")
}

func (g *genCtx) fieldName(e ast.Expr) string {
	switch x := e.(type) {
	case *ast.SelectorExpr:
		if id, ok := x.X.(*ast.Ident); ok && id.Name == g.recv {
			return x.Sel.Name
		}
	case *ast.Ident:
		if x.Name == g.recv {
			return "Self"
		}
	case *ast.CallExpr: // a conversion such as Exprs(node)
		if len(x.Args) == 1 {
			if id, ok := x.Args[0].(*ast.Ident); ok && id.Name == g.recv {
				if _, ok := x.Fun.(*ast.Ident); ok {
					return "Self"
				}
			}
		}
	}
	return g.text(e)
}

func litTokens(s string) string {
	toks, _ := tokenize(s)
	return coqTokenList(toks)
}

// myprintf recognises `buf.Myprintf("fmt", args…)` and returns its pieces.
func (g *genCtx) myprintf(st ast.Stmt) ([]string, bool) {
	es, ok := st.(*ast.ExprStmt)
	if !ok {
		return nil, false
	}
	call, ok := es.X.(*ast.CallExpr)
	if !ok {
		return nil, false
	}
	sel, ok := call.Fun.(*ast.SelectorExpr)
	if !ok || sel.Sel.Name != "Myprintf" || len(call.Args) == 0 {
		return nil, false
	}
	lit, ok := call.Args[0].(*ast.BasicLit)
	if !ok || lit.Kind != token.STRING {
		return nil, false
	}
	format, err := strconv.Unquote(lit.Value)
	if err != nil {
		return nil, false
	}
	args := call.Args[1:]
	var pieces []string
	argi := 0
	for i := 0; i < len(format); {
		j := strings.IndexByte(format[i:], '%')
		if j < 0 {
			j = len(format) - i
		}
		if j > 0 {
			chunk := format[i : i+j]
			if strings.TrimSpace(chunk) != "" {
				pieces = append(pieces, "PL "+litTokens(chunk))
			}
		}
		i += j
		if i >= len(format) {
			break
		}
		if i+1 >= len(format) || argi >= len(args) {
			return nil, false
		}
		switch format[i+1] {
		case 'v':
			pieces = append(pieces, "PV "+coqString(g.fieldName(args[argi])))
		case 's':
			pieces = append(pieces, "PS "+coqString(g.fieldName(args[argi])))
		default:
			return nil, false
		}
		argi++
		i += 2
	}
	if argi != len(args) {
		return nil, false
	}
	return pieces, true
}

func isReturnOnly(b *ast.BlockStmt) bool {
	if len(b.List) != 1 {
		return false
	}
	r, ok := b.List[0].(*ast.ReturnStmt)
	return ok && len(r.Results) == 0
}

type extracted struct {
	shape  shape
	guard  string   // early-return guard condition ("" = none)
	pieces []string // template
	first  string   // list: tokens of the first prefix
	sep    string   // list: tokens of the separator
}

func strLit(e ast.Expr) (string, bool) {
	lit, ok := e.(*ast.BasicLit)
	if !ok || lit.Kind != token.STRING {
		return "", false
	}
	s, err := strconv.Unquote(lit.Value)
	return s, err == nil
}

func (g *genCtx) extract(fn *ast.FuncDecl) extracted {
	stmts := fn.Body.List
	var ex extracted
	// optional guard
	if len(stmts) > 0 {
		if ifs, ok := stmts[0].(*ast.IfStmt); ok && ifs.Init == nil && ifs.Else == nil && isReturnOnly(ifs.Body) {
			ex.guard = g.text(ifs.Cond)
			stmts = stmts[1:]
		}
	}
	// list shape
	if len(stmts) == 2 {
		first, okFirst := "", false
		switch d := stmts[0].(type) {
		case *ast.DeclStmt: // var prefix string
			if gd, ok := d.Decl.(*ast.GenDecl); ok && gd.Tok == token.VAR && len(gd.Specs) == 1 {
				if vs, ok := gd.Specs[0].(*ast.ValueSpec); ok && len(vs.Names) == 1 && vs.Names[0].Name == "prefix" && len(vs.Values) == 0 {
					okFirst = true
				}
			}
		case *ast.AssignStmt: // prefix := "…"
			if d.Tok == token.DEFINE && len(d.Lhs) == 1 && len(d.Rhs) == 1 {
				if id, ok := d.Lhs[0].(*ast.Ident); ok && id.Name == "prefix" {
					first, okFirst = strLit(d.Rhs[0])
				}
			}
		}
		if rs, ok := stmts[1].(*ast.RangeStmt); ok && okFirst && len(rs.Body.List) == 2 {
			if id, ok := rs.X.(*ast.Ident); ok && id.Name == g.recv {
				ps, ok1 := g.myprintfRaw(rs.Body.List[0])
				as, ok2 := rs.Body.List[1].(*ast.AssignStmt)
				if ok1 && ok2 && ps == "%s%v" && as.Tok == token.ASSIGN && len(as.Rhs) == 1 {
					if sep, ok := strLit(as.Rhs[0]); ok {
						ex.shape, ex.first, ex.sep = shList, litTokens(first), litTokens(sep)
						return ex
					}
				}
			}
		}
	}
	// template shape
	for _, st := range stmts {
		if ps, ok := g.myprintf(st); ok {
			ex.pieces = append(ex.pieces, ps...)
			continue
		}
		if ifs, ok := st.(*ast.IfStmt); ok && ifs.Init == nil {
			flat := func(list []ast.Stmt) ([]string, bool) {
				var out []string
				for _, b := range list {
					ps, ok := g.myprintf(b)
					if !ok {
						return nil, false
					}
					out = append(out, ps...)
				}
				return out, len(list) > 0
			}
			body, good := flat(ifs.Body.List)
			var els []string
			if good && ifs.Else != nil {
				if eb, ok := ifs.Else.(*ast.BlockStmt); ok {
					els, good = flat(eb.List)
				} else {
					good = false
				}
			}
			if good {
				ex.pieces = append(ex.pieces, fmt.Sprintf("PIf %s [%s] [%s]", coqString(g.text(ifs.Cond)), strings.Join(body, "; "), strings.Join(els, "; ")))
				continue
			}
		}
		if rs, ok := st.(*ast.RangeStmt); ok && rs.Tok == token.DEFINE {
			// for _, item := range node.<F> { buf.Myprintf("…%v…", item) }
			if sel, ok := rs.X.(*ast.SelectorExpr); ok {
				if id, ok := sel.X.(*ast.Ident); ok && id.Name == g.recv {
					if item, ok := rs.Value.(*ast.Ident); ok {
						inner := &genCtx{fset: g.fset, recv: item.Name}
						var body []string
						good := len(rs.Body.List) > 0
						for _, b := range rs.Body.List {
							ps, ok := inner.myprintf(b)
							if !ok {
								good = false
								break
							}
							for _, p := range ps {
								body = append(body, strings.Replace(p, `PV "Self"`, `PV "Item"`, 1))
							}
						}
						if good {
							ex.pieces = append(ex.pieces, fmt.Sprintf("PEach %s [%s]", coqString(sel.Sel.Name), strings.Join(body, "; ")))
							continue
						}
					}
				}
			}
		}
		return extracted{shape: shCustom}
	}
	ex.shape = shTemplate
	return ex
}

// the raw format string of a Myprintf statement
func (g *genCtx) myprintfRaw(st ast.Stmt) (string, bool) {
	es, ok := st.(*ast.ExprStmt)
	if !ok {
		return "", false
	}
	call, ok := es.X.(*ast.CallExpr)
	if !ok || len(call.Args) == 0 {
		return "", false
	}
	sel, ok := call.Fun.(*ast.SelectorExpr)
	if !ok || sel.Sel.Name != "Myprintf" {
		return "", false
	}
	return strLit(call.Args[0])
}

func recvType(fn *ast.FuncDecl) (name, recv string) {
	if fn.Recv == nil || len(fn.Recv.List) != 1 {
		return "", ""
	}
	t := fn.Recv.List[0].Type
	if st, ok := t.(*ast.StarExpr); ok {
		t = st.X
	}
	id, ok := t.(*ast.Ident)
	if !ok {
		return "", ""
	}
	if len(fn.Recv.List[0].Names) == 1 {
		recv = fn.Recv.List[0].Names[0].Name
	}
	return id.Name, recv
}

var precLine = regexp.MustCompile(`^%(left|right|nonassoc)\s+(?:<\w+>\s+)?(.*)$`)

func runGen(repo, outDir string) error {
	dir := filepath.Join(repo, "parser", "sqlparser")
	fset := token.NewFileSet()
	file, err := parser.ParseFile(fset, filepath.Join(dir, "ast.go"), nil, 0)
	if err != nil {
		return err
	}
	found := map[string]extracted{}
	consts := map[string]string{}
	for _, d := range file.Decls {
		switch x := d.(type) {
		case *ast.FuncDecl:
			if x.Name.Name != "Format" || x.Body == nil {
				continue
			}
			name, recv := recvType(x)
			if _, ok := fragmentNodes[name]; !ok {
				continue
			}
			g := &genCtx{fset: fset, recv: recv}
			found[name] = g.extract(x)
		case *ast.GenDecl:
			if x.Tok != token.CONST {
				continue
			}
			for _, sp := range x.Specs {
				vs := sp.(*ast.ValueSpec)
				for i, n := range vs.Names {
					if i < len(vs.Values) {
						if s, ok := strLit(vs.Values[i]); ok {
							consts[n.Name] = s
						}
					}
				}
			}
		}
	}
	var names []string
	for n := range fragmentNodes {
		names = append(names, n)
	}
	sort.Strings(names)
	var problems []string
	for _, n := range names {
		ex, ok := found[n]
		if !ok {
			problems = append(problems, fmt.Sprintf("%s: no Format method found in ast.go", n))
			continue
		}
		if ex.shape != fragmentNodes[n] {
			problems = append(problems, fmt.Sprintf("%s.Format changed shape: the model was written against a %s, the source is now a %s — re-model it by hand", n, fragmentNodes[n], ex.shape))
		}
	}
	for _, c := range fragmentConsts {
		if _, ok := consts[c]; !ok {
			problems = append(problems, fmt.Sprintf("string constant %s not found in ast.go", c))
		}
	}
	if len(problems) > 0 {
		return fmt.Errorf("translator: the Format methods of the fragment moved away from the model:\n  %s", strings.Join(problems, "\n  "))
	}

	var b strings.Builder
	b.WriteString("(* GENERATED by harness/cmd/c30 gen from parser/sqlparser/ast.go and sql.y — do not edit, do not commit. *)\n")
	b.WriteString("From Octo Require Import SqlTok.\nLocal Open Scope string_scope.\n\n")
	var customs []string
	for _, n := range names {
		ex := found[n]
		switch ex.shape {
		case shTemplate:
			fmt.Fprintf(&b, "Definition tpl_%s : template := [%s].\n", n, strings.Join(ex.pieces, "; "))
			fmt.Fprintf(&b, "Definition guard_%s : string := %s.\n", n, coqString(ex.guard))
		case shList:
			fmt.Fprintf(&b, "Definition lst_%s : list_template := {| lt_first := %s; lt_sep := %s |}.\n", n, ex.first, ex.sep)
		case shCustom:
			customs = append(customs, coqString(n))
		}
	}
	fmt.Fprintf(&b, "\n(* Format methods that are not plain templates: hand-modelled in Model/Sql.v *)\nDefinition custom_nodes : list string := [%s].\n\n", strings.Join(customs, "; "))
	for _, c := range fragmentConsts {
		fmt.Fprintf(&b, "Definition str_%s : list token := %s.  (* %q *)\n", c, litTokens(consts[c]), consts[c])
	}
	// precedence table of sql.y
	y, err := os.ReadFile(filepath.Join(dir, "sql.y"))
	if err != nil {
		return err
	}
	var rows []string
	for _, line := range strings.Split(string(y), "\n") {
		if strings.HasPrefix(line, "%%") {
			break
		}
		m := precLine.FindStringSubmatch(strings.TrimSpace(line))
		if m == nil {
			continue
		}
		a := map[string]string{"left": "ALeft", "right": "ARight", "nonassoc": "ANonassoc"}[m[1]]
		var toks []string
		for _, t := range strings.Fields(m[2]) {
			toks = append(toks, coqString(t))
		}
		rows = append(rows, fmt.Sprintf("(%s, [%s])", a, strings.Join(toks, "; ")))
	}
	if len(rows) == 0 {
		return fmt.Errorf("translator: no %%left/%%right lines found in sql.y")
	}
	fmt.Fprintf(&b, "\n(* %%left / %%right / %%nonassoc lines of sql.y, lowest precedence first *)\nDefinition sqly_prec : prec_table := [\n  %s\n].\n", strings.Join(rows, ";\n  "))

	if err := os.MkdirAll(outDir, 0o755); err != nil {
		return err
	}
	out := filepath.Join(outDir, "GenAstFormat.v")
	if old, err := os.ReadFile(out); err == nil && string(old) == b.String() {
		return nil // unchanged: keep the mtime
	}
	return os.WriteFile(out, []byte(b.String()), 0o644)
}
