package main

import (
	"fmt"
	"os"
	"path/filepath"
	"reflect"
	"regexp"
	"sort"
	"strconv"
	"strings"

	"github.com/cube2222/octosql/parser/sqlparser"

	"verifharness/lib"
)

// ---------------------------------------------------------------- grammar-based generator
type gen struct {
	r     *lib.Rng
	model bool // stay inside the model fragment's concrete syntax
	depth int
	// per statement, so that most statements stay outside the known-finding classes:
	special bool // string literals with control characters / double quotes
	binds   bool // '?' bind variables
	dualID  bool // `DUAL` in another case
}

func newGen(r *lib.Rng, model bool) *gen {
	g := &gen{r: r, model: model, depth: 2}
	g.special = r.Chance(1, 12)
	g.binds = r.Chance(1, 10)
	g.dualID = r.Chance(1, 25)
	return g
}

var idents = []string{"a", "b", "c", "t", "u", "x1", "col_2", "Name", "myTable", "f", "g", "amount", "user_id", "`select`", "`my col`", "`order`", "`a``b`", "`from`", "`to`", "`table`", "`1a`", "`a-b`", "`group`"}
var funcs = []string{"f", "count", "sum", "lower", "coalesce", "time_from_unix", "myFunc"}
var units = []string{"day", "SECOND", "hours", "minute"}
var plainTypes = []string{"string", "mytype", "text2", "Str"}
var kwTypes = []string{"int", "float", "bool", "time"}

func (g *gen) pick(l []string) string { return l[g.r.Intn(len(l))] }
func (g *gen) kw(s string) string {
	switch g.r.Intn(4) {
	case 0:
		return strings.ToLower(s)
	case 1:
		return strings.Title(strings.ToLower(s))
	}
	return s
}
func (g *gen) ident() string {
	if g.dualID && g.r.Chance(1, 6) {
		return g.pick([]string{"`DUAL`", "`Dual`", "`dUAL`"})
	}
	if g.r.Chance(1, 60) {
		return g.pick([]string{"dual", "DUAL", "`dual`"})
	}
	if !g.model && g.r.Chance(1, 30) {
		return g.pick([]string{"offset", "status", "watermark", "after", "\"dq id\""}) // non-reserved keywords, double-quoted identifiers
	}
	return g.pick(idents)
}

// every literal form Tokenizer.Scan knows; the ones outside the model fragment only when !g.model
var lexForms = []string{"x'1f'", "x'1F2a'", "X'AB'", "x''", "0x1F", "0xab", "b'01'", "b'1'", "B'101'", "b''",
	"1e3", "2.5E-2", ".5e+2", "1.", "0.0", "1E10"}
var lexFormsExtra = []string{"@v", "@@global_var", "\"dq\""}
var plainStrings = []string{"", "abc", "it''s", "a b", "100%", "x\\ny", "żółw", "--no comment", "a`b", "a\\'b", "back\\\\slash", "\\d+\\.\\w", "q\\0z", "/* c */", "?", ":v1", "x''1f''"}
var specialStrings = []string{"a\tb", "say \"hi\"", "c\rd", "\x00nul", "bs\bx", "z\x1az"} // bytes the printer used to escape but the tokenizer does not decode

func (g *gen) literal() string {
	if g.special && g.r.Chance(1, 5) {
		return "'" + g.pick(specialStrings) + "'"
	}
	if g.binds && g.r.Chance(1, 4) {
		return "?"
	}
	if g.r.Chance(1, 6) {
		return g.pick(lexForms)
	}
	if !g.model && g.r.Chance(1, 12) {
		return g.pick(lexFormsExtra)
	}
	switch g.r.Intn(9) {
	case 0:
		return "'" + g.pick(plainStrings) + "'"
	case 1:
		return g.pick([]string{"1.5", "0.25", "1e3", "2.5E-2", ".5", "1.5e+3", "7E0"})
	case 2:
		return g.kw("TRUE")
	case 3:
		return g.kw("FALSE")
	case 4:
		return g.kw("NULL")
	}
	return g.pick([]string{"0", "1", "2", "42", "9223372036854775807", "007"})
}

func (g *gen) column() string {
	if g.r.Chance(1, 3) {
		return g.ident() + "." + g.ident()
	}
	if !g.model && g.r.Chance(1, 12) {
		return g.ident() + "." + g.ident() + "." + g.ident()
	}
	return g.ident()
}

func (g *gen) exprList(n int) string {
	var l []string
	for i := 0; i < n; i++ {
		l = append(l, g.expr())
	}
	return strings.Join(l, ", ")
}

func (g *gen) primary() string {
	g.depth++
	defer func() { g.depth-- }()
	if g.depth > 4 {
		if g.r.Bool() {
			return g.literal()
		}
		return g.column()
	}
	switch g.r.Intn(16) {
	case 0, 1, 2:
		return g.literal()
	case 3, 4, 5:
		return g.column()
	case 6:
		return "(" + g.expr() + ")"
	case 7:
		return "(" + g.exprList(2+g.r.Intn(2)) + ")"
	case 8:
		switch g.r.Intn(4) {
		case 0:
			return g.pick(funcs) + "(*)"
		case 1:
			return g.pick(funcs) + "()"
		case 2:
			return g.pick(funcs) + "(" + g.kw("DISTINCT") + " " + g.exprList(1+g.r.Intn(2)) + ")"
		}
		return g.pick(funcs) + "(" + g.exprList(1+g.r.Intn(3)) + ")"
	case 9:
		return g.kw("INTERVAL") + " " + g.valueExpr() + " " + g.pick(units)
	case 10:
		return g.kw("CONVERT") + "(" + g.expr() + ", " + g.typeName() + ")"
	case 11:
		return "(" + g.stmtWith() + ")"
	case 13:
		c := g.kw("CASE")
		if g.r.Bool() {
			c += " " + g.expr()
		}
		for i := 1 + g.r.Intn(2); i > 0; i-- {
			c += " " + g.kw("WHEN") + " " + g.expr() + " " + g.kw("THEN") + " " + g.expr()
		}
		if g.r.Bool() {
			c += " " + g.kw("ELSE") + " " + g.expr()
		}
		return c + " " + g.kw("END")
	case 12:
		if !g.model {
			switch g.r.Intn(6) {
			case 0, 1:
				return g.kw("CAST") + "(" + g.expr() + " " + g.kw("AS") + " " + g.typeName() + ")"
			case 3:
				return "`" + g.pick([]string{"select", "from", "where", "group"}) + "`(" + g.expr() + ")"
			case 4:
				return g.pick([]string{"if", "left", "replace", "substr"}) + "(" + g.exprList(2) + ")"
			}
			return "~" + g.column()
		}
		return g.column()
	}
	return g.column()
}

func (g *gen) typeName() string {
	switch g.r.Intn(6) {
	case 0:
		return "[]"
	case 1:
		return "{}"
	case 2:
		if !g.model {
			return g.pick(kwTypes)
		}
	}
	return g.pick(plainTypes)
}

func (g *gen) postfix() string {
	e := g.primary()
	for g.r.Chance(1, 4) {
		switch g.r.Intn(4) {
		case 0, 1:
			e += "->" + g.pick([]string{"a", "field", "Name", "`key`", "x1"})
		case 2:
			e += "[" + g.valueExpr() + "]"
		default:
			e += "::" + g.typeName()
		}
	}
	return e
}

func (g *gen) unary() string {
	if g.r.Chance(1, 6) {
		if g.r.Chance(1, 3) {
			return "- " + g.unary()
		}
		return "-" + g.postfix()
	}
	if !g.model && g.r.Chance(1, 40) {
		return "+" + g.postfix()
	}
	return g.postfix()
}

func (g *gen) mul() string {
	e := g.unary()
	for g.r.Chance(1, 5) {
		op := g.pick([]string{" * ", " / "})
		if !g.model && g.r.Chance(1, 8) {
			op = g.pick([]string{" % ", " DIV ", " & ", " | ", " ^ ", " << "})
		}
		e += op + g.unary()
	}
	return e
}

func (g *gen) valueExpr() string {
	e := g.mul()
	for g.r.Chance(1, 4) {
		e += g.pick([]string{" + ", " - "}) + g.mul()
	}
	return e
}

func (g *gen) cond() string {
	l := g.valueExpr()
	switch g.r.Intn(12) {
	case 0, 1, 2:
		return l + " " + g.pick([]string{"=", "<", ">", "<=", ">=", "!=", "<>", "<=>"}) + " " + g.valueExpr()
	case 3:
		return l + " " + g.kw("LIKE") + " " + g.valueExpr()
	case 4:
		return l + " " + g.kw("NOT") + " " + g.kw("LIKE") + " " + g.valueExpr()
	case 5:
		return l + " " + g.kw("IN") + " (" + g.exprList(1+g.r.Intn(3)) + ")"
	case 6:
		n := ""
		if g.r.Bool() {
			n = g.kw("NOT") + " "
		}
		if g.r.Chance(1, 3) && g.depth < 5 {
			return l + " " + n + g.kw("IN") + " (" + g.stmtWith() + ")"
		}
		return l + " " + n + g.kw("IN") + " (" + g.exprList(1+g.r.Intn(3)) + ")"
	case 7:
		n := ""
		if g.r.Bool() {
			n = g.kw("NOT") + " "
		}
		return l + " " + n + g.kw("BETWEEN") + " " + g.valueExpr() + " " + g.kw("AND") + " " + g.valueExpr()
	case 8:
		return l + " " + g.pick([]string{"~", "~*", "!~", "!~*", "REGEXP", "regexp", "NOT REGEXP"}) + " " + g.valueExpr()
	case 9:
		if g.depth < 5 {
			return g.kw("EXISTS") + " (" + g.stmtWith() + ")"
		}
	case 10:
		if !g.model {
			return l + " " + g.kw("LIKE") + " " + g.valueExpr() + " " + g.kw("ESCAPE") + " '!'"
		}
	}
	return l
}

func (g *gen) isExpr() string {
	e := g.cond()
	for g.r.Chance(1, 6) {
		e += " " + g.kw("IS") + " " + g.pick([]string{"NULL", "NOT NULL", "TRUE", "NOT TRUE", "FALSE", "not false"})
	}
	return e
}

func (g *gen) notExpr() string {
	if g.r.Chance(1, 7) {
		return g.kw("NOT") + " " + g.notExpr()
	}
	return g.isExpr()
}

func (g *gen) andExpr() string {
	e := g.notExpr()
	for g.r.Chance(1, 5) {
		e += " " + g.kw("AND") + " " + g.notExpr()
	}
	return e
}

func (g *gen) expr() string {
	g.depth++
	defer func() { g.depth-- }()
	e := g.andExpr()
	for g.r.Chance(1, 6) {
		e += " " + g.kw("OR") + " " + g.andExpr()
	}
	return e
}

func (g *gen) alias(mandatory bool) string {
	switch g.r.Intn(3) {
	case 0:
		if !mandatory {
			return ""
		}
		return " " + g.ident()
	case 1:
		return " " + g.kw("AS") + " " + g.ident()
	}
	return " " + g.ident()
}

func (g *gen) tvfArg() string {
	name := g.pick([]string{"source", "time_field", "window_length", "arg", "x", "`from`", "`to`", "`my arg`", "`1st`"})
	switch g.r.Intn(3) {
	case 0:
		return name + " => " + g.kw("DESCRIPTOR") + "(" + g.pick([]string{"c", "t.c", "time"}) + ")"
	case 1:
		if g.depth < 5 {
			return name + " => " + g.kw("TABLE") + "(" + g.tableRef() + ")"
		}
	}
	return name + " => " + g.expr()
}

func (g *gen) tableFactor() string {
	g.depth++
	defer func() { g.depth-- }()
	if g.depth > 4 {
		return g.ident()
	}
	switch g.r.Intn(10) {
	case 0:
		return "(" + g.stmtWith() + ")" + g.alias(true)
	case 1:
		l := g.tableRef()
		for g.r.Chance(1, 3) {
			l += ", " + g.tableRef()
		}
		return "(" + l + ")"
	case 2, 3:
		n := g.r.Intn(4)
		var args []string
		for i := 0; i < n; i++ {
			args = append(args, g.tvfArg())
		}
		return g.pick([]string{"tumble", "range", "max_diff_watermark", "f"}) + "(" + strings.Join(args, ", ") + ")" + g.alias(true)
	case 4:
		return g.ident() + "." + g.ident() + g.alias(false)
	}
	return g.ident() + g.alias(false)
}

func (g *gen) tableRef() string {
	t := g.tableFactor()
	for g.r.Chance(1, 3) {
		switch g.r.Intn(8) {
		case 0, 1:
			t += " " + g.kw("JOIN") + " " + g.tableFactor()
			if g.r.Chance(2, 3) {
				t += " " + g.kw("ON") + " " + g.expr()
			}
		case 2:
			t += " " + g.kw("LOOKUP") + " " + g.kw("JOIN") + " " + g.tableFactor() + " " + g.kw("ON") + " " + g.expr()
		case 3:
			t += " " + g.kw("STREAM") + " " + g.kw("JOIN") + " " + g.tableFactor() + " " + g.kw("ON") + " " + g.expr()
		case 4, 5:
			j := g.pick([]string{"LEFT JOIN", "LEFT OUTER JOIN", "RIGHT JOIN", "RIGHT OUTER JOIN", "OUTER JOIN"})
			right := g.tableFactor()
			if g.r.Chance(1, 4) { // the right side of an outer join is a whole table reference
				right += " " + g.kw("JOIN") + " " + g.tableFactor() + " " + g.kw("ON") + " " + g.expr()
			}
			t += " " + g.kw(j) + " " + right + " " + g.kw("ON") + " " + g.expr()
		case 6:
			if !g.model && g.r.Bool() {
				t += " " + g.pick([]string{"NATURAL JOIN", "STRAIGHT_JOIN"}) + " " + g.tableFactor()
			} else {
				t += " " + g.pick([]string{"INNER JOIN", "CROSS JOIN", "inner join", "LOOKUP INNER JOIN"}) + " " + g.tableFactor()
				if g.r.Bool() {
					t += " " + g.kw("ON") + " " + g.expr()
				}
			}
		case 7:
			if !g.model {
				t += " " + g.kw("JOIN") + " " + g.tableFactor() + " USING (a, b)"
			}
		}
	}
	return t
}

func (g *gen) trigger() string {
	switch g.r.Intn(4) {
	case 0:
		return g.kw("COUNTING") + " " + g.expr()
	case 1:
		return g.kw("ON") + " " + g.kw("WATERMARK")
	case 2:
		return g.kw("ON") + " " + g.kw("END") + " " + g.kw("OF") + " " + g.kw("STREAM")
	}
	return g.kw("AFTER") + " " + g.kw("DELAY") + " " + g.expr()
}

func (g *gen) selectStmt() string {
	g.depth++
	defer func() { g.depth-- }()
	s := g.kw("SELECT")
	if g.r.Chance(1, 5) {
		s += " " + g.kw("DISTINCT")
	}
	n := 1 + g.r.Intn(3)
	var items []string
	for i := 0; i < n; i++ {
		switch g.r.Intn(8) {
		case 0:
			items = append(items, "*")
		case 1:
			items = append(items, g.ident()+".*")
		case 2:
			items = append(items, g.valueExpr()+"->*")
		default:
			items = append(items, g.expr()+g.alias(false))
		}
	}
	s += " " + strings.Join(items, ", ")
	if !g.r.Chance(1, 10) {
		s += " " + g.kw("FROM") + " " + g.tableRef()
		for g.r.Chance(1, 6) {
			s += ", " + g.tableRef()
		}
	}
	if g.r.Chance(1, 2) {
		s += " " + g.kw("WHERE") + " " + g.expr()
	}
	if g.r.Chance(1, 3) {
		s += " " + g.kw("GROUP") + " " + g.kw("BY") + " " + g.exprList(1+g.r.Intn(2))
		if g.r.Chance(1, 3) {
			s += " " + g.kw("HAVING") + " " + g.expr()
		}
	}
	if g.r.Chance(1, 2) {
		k := 1 + g.r.Intn(3)
		var ts []string
		for i := 0; i < k; i++ {
			ts = append(ts, g.trigger())
		}
		s += " " + g.kw("TRIGGER") + " " + strings.Join(ts, ", ")
	}
	if g.r.Chance(1, 3) {
		k := 1 + g.r.Intn(2)
		var os []string
		for i := 0; i < k; i++ {
			o := g.expr()
			if g.r.Chance(1, 6) {
				o = g.pick([]string{"NULL", "rand()", "RAND()"})
			}
			o += g.pick([]string{"", " ASC", " DESC", " desc"})
			os = append(os, o)
		}
		s += " " + g.kw("ORDER") + " " + g.kw("BY") + " " + strings.Join(os, ", ")
	}
	if g.r.Chance(1, 3) {
		s += " " + g.kw("LIMIT") + " " + g.expr()
		switch g.r.Intn(4) {
		case 0:
			s += ", " + g.expr()
		case 1:
			s += " " + g.kw("OFFSET") + " " + g.expr()
		}
	}
	return s
}

// select_statement: SELECT …, or WITH cte, … [,] select_statement
func (g *gen) stmtWith() string {
	s := g.selectStmt()
	if g.depth < 5 && g.r.Chance(1, 5) {
		g.depth++
		n := 1 + g.r.Intn(2)
		var ctes []string
		for i := 0; i < n; i++ {
			ctes = append(ctes, g.ident()+" "+g.kw("AS")+" ("+g.stmtWith()+")")
		}
		g.depth--
		w := g.kw("WITH") + " " + strings.Join(ctes, ", ")
		if g.r.Chance(1, 5) {
			w += "," // comma_opt
		}
		return w + " " + s
	}
	return s
}

func (g *gen) statement() string {
	s := g.stmtWith()
	if !g.model && g.r.Chance(1, 6) {
		return "(" + s + ") UNION ALL (" + g.selectStmt() + ")"
	}
	return s
}

// ---------------------------------------------------------------- token adjacency family (deterministic)
// Printed text puts some tokens directly next to each other (UnaryExpr "%s%v", "%v->%v", "%v[%v]", "%v.%v", …) and several
// operators are prefixes of longer tokens (! ~ -> !~, - - -> comment, < = -> <=, : : -> ::, - > -> ->, | | -> ||, & & -> &&,
// ~ * -> ~*, < > -> <>, ! = -> !=).  The family enumerates, independent of the seed:
//  (A) every chain of one, two and three unary operators (- + ~ !), also under NOT, over every operand kind, in a select
//      item and in WHERE;
//  (B) every binary / comparison operator followed by every unary operator, written with all blanks, with no blanks at all
//      and with a blank only between the two operators, over three operand kinds.
//  (C) signed numeric literals (the folded IntVal "-1" node) in every operand position.
//  (D) every tighter-binding construct around every parenthesised looser expression (parentheses that precedence requires).
// Statements the parser rejects are skipped (counted); accepted ones go through the round-trip oracle and, when their tree
// is in the model fragment, through the three ties.
func adjacencyFamily() []string {
	unary := []string{"-", "+", "~", "!"}
	operands := []string{"a", "t.a", "1", "1.5", "'s'", "x'1f'", "0x1F", "null", "true", "(a)", "(a + 1)", "f(a)", "a->b", "a[1]", "a::string",
		"(select 1 from t)", "interval 1 day", "case when a then 1 end", "?", "(1, 2)", "b'01'"}
	var chains []string
	for _, u1 := range unary {
		chains = append(chains, u1)
		for _, u2 := range unary {
			chains = append(chains, u1+" "+u2, u1+u2)
			for _, u3 := range unary {
				chains = append(chains, u1+" "+u2+" "+u3, u1+u2+u3)
			}
		}
	}
	var out []string
	for _, c := range chains {
		for _, o := range operands {
			e := c + o
			if strings.HasSuffix(c, " ") {
				e = c + o
			}
			out = append(out, "select "+e+" from t where "+e)
			out = append(out, "select not "+e+", "+c+" "+o+" from t")
		}
	}
	binary := []string{"+", "-", "*", "/", "%", "&", "|", "^", "<<", ">>", "=", "<", ">", "<=", ">=", "!=", "<>", "<=>", "~", "~*", "!~", "!~*",
		"&&", "||", "and", "or", "like", "regexp", "div", "in", "is", "->", "::"}
	for _, b := range binary {
		for _, u := range append([]string{""}, unary...) {
			for _, o := range []string{"b", "1", "(b)"} {
				out = append(out,
					"select a "+b+" "+u+" "+o+" from t",
					"select a"+b+u+o+" from t",
					"select a "+b+u+" "+o+" from t where a"+b+" "+u+o)
			}
		}
	}
	// (C) signed numeric literals in every operand position: the grammar folds '-' INTEGRAL into one IntVal node ("-1"), which the
	// printer writes without parentheses in front of / behind tighter-binding syntax (::, ->, [..], convert(), function arguments …)
	lits := []string{"-1", "- 1", "-1.5", "- -1", "-0x1F", "+1", "-?"}
	shapes := []string{"convert(%s, int)", "convert(%s, mytype)", "cast(%s as mytype)", "%s::mytype", "(%s)::mytype", "%s->a", "%s[0]", "a[%s]", "f(%s)",
		"f(%s, %s)", "interval %s day", "a + %s", "a - %s", "a * %s", "%s * a", "%s - %s", "%s between %s and %s", "a in (%s)", "a in (%s, %s)",
		"case %s when %s then %s else %s end", "(%s, %s)", "not %s", "%s is null", "%s like %s", "%s ~ %s", "%s = %s", "(%s)", "-%s", "- %s", "~%s"}
	for _, l := range lits {
		for _, sh := range shapes {
			e := strings.ReplaceAll(sh, "%s", l)
			out = append(out, "select "+e+" from t", "select a from t where "+e+" group by "+e+" order by "+e+" limit "+l+", "+l)
		}
		out = append(out, "select * from f(x => "+l+", y => "+l+") g trigger counting "+l+", after delay "+l)
	}
	// (D) parentheses that precedence requires: every tighter-binding construct around every parenthesised looser expression
	// (the printer never adds parentheses itself; the tree keeps ParenExpr nodes)
	inner := []string{"a + b", "a - b", "a * b", "-a", "a and b", "a or b", "a = b", "not a", "a is null", "a between 1 and 2", "a in (1)", "a like b",
		"a ~ b", "case when a then b end", "a->b", "a::mytype", "a[1]", "select a from t", "interval 1 day", "f(a)", "1", "-1", "a"}
	outer := []string{"%s->c", "%s->*", "%s[1]", "x[%s]", "%s::mytype", "-%s", "~%s", "!%s", "%s * x", "x * %s", "x - %s", "%s - x", "not %s", "%s is null", "%s like x",
		"x like %s", "%s = x", "x = %s", "%s between 1 and 2", "x between %s and 2", "x between 1 and %s", "%s in (1)", "x in (%s)", "f(%s)", "convert(%s, mytype)",
		"interval %s day", "case %s when 1 then 2 end", "%s and x", "x and %s", "x or %s", "(%s)"}
	for _, in := range inner {
		for _, o := range outer {
			e := strings.ReplaceAll(o, "%s", "("+in+")")
			out = append(out, "select "+e+" from t")
		}
	}
	return out
}

// ---------------------------------------------------------------- corpus + mutations
var goString = regexp.MustCompile("\"((?:[^\"\\\\]|\\\\.)*)\"|`([^`]*)`")
var octosqlCall = regexp.MustCompile(`octosql\s+"((?:[^"\\]|\\.)*)"`)

func loadCorpus(repo string) []string {
	seen := map[string]bool{}
	var out []string
	add := func(s string) {
		s = strings.TrimSpace(s)
		low := strings.ToLower(s)
		if !(strings.HasPrefix(low, "select") || strings.HasPrefix(low, "with") || strings.HasPrefix(low, "(select")) || seen[s] || len(s) > 600 {
			return
		}
		seen[s] = true
		out = append(out, s)
	}
	files, _ := filepath.Glob(filepath.Join(repo, "parser", "sqlparser", "*_test.go"))
	sort.Strings(files)
	for _, f := range files {
		b, err := os.ReadFile(f)
		if err != nil {
			continue
		}
		for _, m := range goString.FindAllStringSubmatch(string(b), -1) {
			if m[1] != "" {
				if u, err := strconv.Unquote(`"` + m[1] + `"`); err == nil {
					add(u)
				}
			} else {
				add(m[2])
			}
		}
	}
	filepath.Walk(filepath.Join(repo, "tests", "scenarios"), func(p string, info os.FileInfo, err error) error {
		if err == nil && !info.IsDir() && strings.HasSuffix(p, ".in") {
			b, _ := os.ReadFile(p)
			for _, m := range octosqlCall.FindAllStringSubmatch(string(b), -1) {
				if u, err := strconv.Unquote(`"` + m[1] + `"`); err == nil {
					add(u)
				} else {
					add(m[1])
				}
			}
		}
		return nil
	})
	sort.Strings(out)
	return out
}

var mutWords = []string{"TRIGGER COUNTING 2", "TRIGGER ON WATERMARK, ON END OF STREAM", "TRIGGER AFTER DELAY INTERVAL 1 SECOND", "LIMIT 3", "LIMIT 2 OFFSET 1",
	"ORDER BY 1 DESC", "ORDER BY NULL DESC", "WHERE a->b = 1", "GROUP BY a", "LOOKUP JOIN t2 ON t2.id = id", "LEFT JOIN t3 ON TRUE", "x", "1", "-", "NOT", "AND b", "OR c IS NOT NULL",
	"x'1f'", "X'AB'", "b'01'", "B'1'", "0x1F", "?", "'a\tb'", "`DUAL`", "1e3", "`from`", "@v", "::int", "->f", "(", ")", ",", "DISTINCT", "AS q", "*", "IN (1, 2)", "f(a => 1) z", "a.b", "'s'", "+ 1", "/ 2"}

func mutate(r *lib.Rng, s string) string {
	words := strings.Fields(s)
	if len(words) == 0 {
		return s
	}
	k := 1 + r.Intn(2)
	for ; k > 0; k-- {
		i := r.Intn(len(words))
		switch r.Intn(7) {
		case 0: // delete
			words = append(words[:i:i], words[i+1:]...)
		case 1: // duplicate
			words = append(words[:i+1:i+1], words[i:]...)
		case 2: // swap
			if i+1 < len(words) {
				words[i], words[i+1] = words[i+1], words[i]
			}
		case 3: // insert
			words = append(words[:i:i], append([]string{mutWords[r.Intn(len(mutWords))]}, words[i:]...)...)
		case 4: // append a clause
			words = append(words, mutWords[r.Intn(10)])
		case 5: // replace
			words[i] = mutWords[r.Intn(len(mutWords))]
		case 6: // case
			if r.Bool() {
				words[i] = strings.ToUpper(words[i])
			} else {
				words[i] = strings.ToLower(words[i])
			}
		}
		if len(words) == 0 {
			return ""
		}
	}
	return strings.Join(words, " ")
}

// ---------------------------------------------------------------- the finding class
// functions the grammar itself reads through keyword rules (their keyword names print and re-parse)
var grammarFuncs = map[string]bool{"left": true, "right": true, "if": true, "database": true, "mod": true, "replace": true, "substr": true, "substring": true,
	"current_timestamp": true, "utc_timestamp": true, "utc_time": true, "utc_date": true, "localtime": true, "localtimestamp": true, "current_date": true, "current_time": true}

// The known-finding classes a statement's tree falls in (decidable on the tree; reflection, because sqlparser.Walk
// does not reach triggers and TABLE() arguments):
//   funcname-keyword  a FuncExpr whose name, printed raw (FuncExpr.Format does not quote names), is not one identifier token
//   bind-variable     a bind variable (a '?' or :name value argument)
//   string-escape     a string literal holding NUL, '"', backspace, CR, tab or ctl-Z
//   dual-case         an identifier that is "dual" in another case (only reachable back-quoted)
var classOrder = []string{"funcname-keyword", "bind-variable", "string-escape", "dual-case"}

func classesOf(node sqlparser.SQLNode) map[string]bool {
	found := map[string]bool{}
	dual := func(v string) {
		if strings.ToLower(v) == "dual" && v != "dual" {
			found["dual-case"] = true
		}
	}
	var visit func(v reflect.Value, depth int)
	visit = func(v reflect.Value, depth int) {
		if depth > 600 || !v.IsValid() {
			return
		}
		if v.CanInterface() {
			switch x := v.Interface().(type) {
			case *sqlparser.FuncExpr:
				if x != nil {
					name := x.Name.String()
					toks, lexOk := tokenize(name)
					if !grammarFuncs[strings.ToLower(name)] && (!lexOk || len(toks) != 1 || !strings.HasPrefix(toks[0], "TId ")) {
						found["funcname-keyword"] = true
					}
				}
			case *sqlparser.SQLVal:
				if x != nil {
					switch x.Type {
					case sqlparser.ValArg:
						found["bind-variable"] = true
					case sqlparser.StrVal:
						for _, c := range x.Val {
							if c == 0 || c == '"' || c == 8 || c == 13 || c == 9 || c == 26 {
								found["string-escape"] = true
							}
						}
					}
				}
			case sqlparser.ListArg:
				found["bind-variable"] = true
				return
			case sqlparser.ColIdent:
				dual(x.String())
				return
			case sqlparser.TableIdent:
				dual(x.String())
				return
			}
		}
		switch v.Kind() {
		case reflect.Ptr, reflect.Interface:
			if !v.IsNil() {
				visit(v.Elem(), depth+1)
			}
		case reflect.Struct:
			for i := 0; i < v.NumField(); i++ {
				if v.Type().Field(i).PkgPath == "" { // exported
					visit(v.Field(i), depth+1)
				}
			}
		case reflect.Slice:
			if v.Type().Elem().Kind() == reflect.Uint8 {
				return
			}
			for i := 0; i < v.Len(); i++ {
				visit(v.Index(i), depth+1)
			}
		}
	}
	visit(reflect.ValueOf(node), 0)
	return found
}

// the lexical forms of the source text (counted in the evidence)
var lexCounters = []struct {
	name string
	re   *regexp.Regexp
}{
	{"lex_hex_lower_x", regexp.MustCompile(`(^|[^A-Za-z0-9_` + "`" + `])x'[0-9A-Fa-f]*'`)},
	{"lex_hex_upper_X", regexp.MustCompile(`(^|[^A-Za-z0-9_` + "`" + `])X'[0-9A-Fa-f]*'`)},
	{"lex_hexnum_0x", regexp.MustCompile(`(^|[^A-Za-z0-9_])0x[0-9A-Fa-f]+`)},
	{"lex_bit_lower_b", regexp.MustCompile(`(^|[^A-Za-z0-9_` + "`" + `])b'[01]*'`)},
	{"lex_bit_upper_B", regexp.MustCompile(`(^|[^A-Za-z0-9_` + "`" + `])B'[01]*'`)},
	{"lex_float_exponent", regexp.MustCompile(`[0-9.][eE][-+]?[0-9]`)},
	{"lex_bind_question_mark", regexp.MustCompile(`\?`)},
	{"lex_at_variable", regexp.MustCompile(`@`)},
	{"lex_backquoted_identifier", regexp.MustCompile("`")},
	{"lex_double_quoted_identifier", regexp.MustCompile(`"`)},
	{"lex_string_backslash", regexp.MustCompile(`'[^']*\\`)},
	{"lex_string_doubled_quote", regexp.MustCompile(`''`)},
	{"lex_string_control_or_dquote", regexp.MustCompile("'[^']*[\t\r\x00\x08\x1a\"]")},
}

// ---------------------------------------------------------------- run
type outcome struct {
	tree    sqlparser.Statement
	printed string
	what    string // violation, "" if none
}

func roundTrip(s string) (o outcome, parsed bool) {
	t1, err := sqlparser.Parse(s)
	if err != nil || t1 == nil {
		return o, false
	}
	o.tree = t1
	func() {
		defer func() {
			if r := recover(); r != nil {
				o.what = fmt.Sprintf("sqlparser.String panicked: %v", r)
			}
		}()
		o.printed = sqlparser.String(t1)
	}()
	if o.what != "" {
		return o, true
	}
	t2, err := sqlparser.Parse(o.printed)
	if err != nil {
		o.what = fmt.Sprintf("the printed statement does not parse: %q: %v", o.printed, err)
		return o, true
	}
	if !reflect.DeepEqual(t1, t2) {
		o.what = fmt.Sprintf("printing and re-parsing gives a different tree: printed %q, printed again %q", o.printed, sqlparser.String(t2))
	}
	return o, true
}

func runCases(f lib.Flags) error {
	if err := checkStructShapes(); err != nil {
		return err
	}
	rng := lib.NewRng(f.Seed)
	cf := lib.NewCaseFile("C30", f.Seed, f.Tier)
	cf.Imports = []string{"Sql"}
	cf.CaseType = "c30_case"
	cf.Checks = []lib.Check{{Name: "tie_print", Kind: "tie", Fn: "c30_tie_print"}, {Name: "tie_parse", Kind: "tie", Fn: "c30_tie_parse"}, {Name: "spec", Kind: "spec", Fn: "c30_spec"}}
	cf.Side.Rule = "grammar-generated SELECT statements of the model fragment (every OctoSQL extension: TRIGGER kinds, table valued function arguments incl. DESCRIPTOR and TABLE(), " +
		"LOOKUP/STREAM JOIN, ->, ->*, ::) + generated statements with constructs outside the fragment (WITH, UNION, HAVING, BETWEEN, CASE, EXISTS, regexp operators, a[i], USING, keyword types …) " +
		"+ 1-2 word-level mutations of the statements of parser/sqlparser/*_test.go and tests/scenarios/**/*.in; every statement the real parser accepts is a case; " +
		"oracle on the implementation: Parse(String(Parse(s))) deep-equals Parse(s); statements whose tree lies in the model fragment additionally carry the printer tie, the parser tie and the " +
		"model round trip; non-trivial = accepted statement that uses at least one extension; distinct by statement text"
	corpus := loadCorpus(repoDir())
	nGen := f.Cases(260, 3000)
	nExtra := f.Cases(160, 2000)
	nMut := f.Cases(600, 8000)

	shortestRejected := ""
	famSeen := 0
	handle := func(s string, insyntax bool, origin string) {
		cf.Count("generated_" + origin)
		o, parsed := roundTrip(s)
		if !parsed {
			cf.Count("rejected_by_parser_" + origin)
			if origin == "grammar_model" {
				if os.Getenv("C30_DEBUG") != "" {
					fmt.Fprintln(os.Stderr, "REJECTED:", s)
				}
				if shortestRejected == "" || len(s) < len(shortestRejected) {
					shortestRejected = s
				}
			}
			return
		}
		cf.Count("accepted_" + origin)
		srcToks, lexOk := tokenize(s)
		js := map[string]interface{}{"statement": s, "printed": o.printed, "origin": origin}
		sel, isSel := o.tree.(sqlparser.SelectStatement)
		inModel := false
		var sr *ser
		coq := ""
		if isSel && lexOk && o.what == "" {
			sr = newSer()
			ast := sr.stmt(sel)
			if sr.ok {
				prToks, ok2 := tokenize(o.printed)
				if ok2 {
					inModel = true
					for _, t := range srcToks {
						if strings.HasPrefix(t, "TOther") {
							insyntax = false
						}
					}
					coq = fmt.Sprintf("(%s, %s, %s, %s)", coqBool(insyntax), coqTokenList(srcToks), ast, coqTokenList(prToks))
				}
			} else {
				js["outside_model"] = sr.why
			}
		}
		nontrivial := false
		if inModel {
			for range sr.feat {
				nontrivial = true
			}
			for k := range sr.feat {
				cf.Count("ext_" + k)
			}
			for k := range sr.feat2 {
				cf.Count("construct_" + k)
			}
			if len(sr.feat2) == 0 {
				cf.Count("in_model_fragment_as_before_the_deepening_round") // uses none of the constructs added to the fragment then
			}
			cf.Count("in_model_fragment")
			if insyntax {
				cf.Count("in_model_syntax")
			}
		} else {
			cf.Count("outside_model_fragment (implementation oracle only)")
			// the case list is homogeneous: a statement outside the model is represented by a fixed trivial case
			coq = "(false, [TK K_select; TK P_star; TK K_from; TId [116]], Select false [SStar] [TName [] [116] []] None [] None [] [] None, [TK K_select; TK P_star; TK K_from; TId [116]])"
			low := strings.ToLower(s)
			nontrivial = strings.Contains(low, "trigger") || strings.Contains(low, "=>") || strings.Contains(low, "->") || strings.Contains(low, "::") || strings.Contains(low, "lookup")
		}
		if origin == "token_adjacency_family" && o.what == "" {
			// all of the family goes through the round-trip oracle above; to keep the Coq side short only every sixth
			// in-fragment statement is also listed as a case (ties), the others are counted
			famSeen++
			if !inModel {
				cf.Count("token_adjacency_family_round_trip_ok_outside_model (counted, not listed as cases)")
				return
			}
			if famSeen%6 != 0 {
				cf.Count("token_adjacency_family_round_trip_ok_in_model (counted, not listed as cases)")
				return
			}
		}
		idx := cf.Add(coq, js, nontrivial)
		for _, lc := range lexCounters {
			if lc.re.MatchString(s) {
				cf.Count(lc.name)
			}
		}
		class := ""
		cls := classesOf(o.tree)
		for _, c := range classOrder {
			if cls[c] {
				cf.Count("class_" + c)
				if class == "" {
					class = c
				}
			}
		}
		if class != "" {
			cf.SetClass(idx, class)
		} else if o.what == "" {
			cf.Count("round_trip_ok_outside_every_finding_class")
		}
		if o.what != "" {
			cf.Violation(idx, o.what, class)
		}
	}

	// the deterministic token-adjacency family: the same statements on every run, whatever the seed
	famDone := map[string]bool{}
	for _, st := range adjacencyFamily() {
		st = strings.Join(strings.Fields(st), " ")
		if !famDone[st] {
			famDone[st] = true
			handle(st, false, "token_adjacency_family")
		}
	}
	for i := 0; i < nGen; i++ {
		g := newGen(rng.Fork(), true)
		handle(g.statement(), true, "grammar_model")
	}
	for i := 0; i < nExtra; i++ {
		g := newGen(rng.Fork(), false)
		handle(g.statement(), false, "grammar_extra")
	}
	for _, s := range corpus {
		handle(s, false, "corpus")
	}
	if len(corpus) > 0 {
		for i := 0; i < nMut; i++ {
			r := rng.Fork()
			handle(mutate(r, corpus[r.Intn(len(corpus))]), false, "corpus_mutation")
		}
	}
	// mutations of generated statements reach the extensions' neighbourhoods
	for i := 0; i < nMut/3; i++ {
		r := rng.Fork()
		g := newGen(r, true)
		handle(mutate(r, g.statement()), false, "grammar_mutation")
	}
	cf.Side.Notes = append(cf.Side.Notes, fmt.Sprintf("corpus statements: %d", len(corpus)),
		"statements outside the model fragment are covered only by the implementation oracle Parse(String(Parse(s))) == Parse(s)")
	if n, _ := cf.Side.Distribution["accepted_grammar_model"].(int); n < nGen*9/10 {
		// the grammar moved away from the model: a statement of the fragment (which the reference parser reads) is rejected
		idx := cf.Add("(false, [TK K_select; TK P_star; TK K_from; TId [116]], Select false [SStar] [TName [] [116] []] None [] None [] [] None, [TK K_select; TK P_star; TK K_from; TId [116]])",
			map[string]interface{}{"statement": shortestRejected, "origin": "grammar_model", "printed": ""}, false)
		cf.Violation(idx, fmt.Sprintf("the real parser rejects %d of %d statements of the model fragment's generator, e.g. %q", nGen-n, nGen, shortestRejected), "")
	}
	return cf.Write(f.Out)
}
