// c29: deadlock-freedom / termination of the channel protocols (proved in Coq on the LTSs of
// Model/Concurrency.v) tied to the code by trace conformance, plus a race-detector search.
//
//	gen   -out coq/Gen           channel capacities and batch sizes read from the source (go/ast) -> Gen/GenC29.v
//	run   -seed N -tier T -out D (1) conformance: child processes under GOMAXPROCS 1,2,4,16 run generated JSON files
//	                             through the real datasource with the trace hook; every logged trace becomes a
//	                             case that Coq checks against the LTS;  (2) search: the CLI built with -race runs
//	                             generated queries under a wall-clock timeout (race report / timeout = failing input)
//	child ...                    one conformance worker process (internal)
package main

import (
	"fmt"
	"os"

	"verifharness/lib"
)

func main() {
	if len(os.Args) >= 2 && os.Args[1] == "child" {
		childMain(os.Args[2:])
		return
	}
	f := lib.ParseFlags()
	switch f.Cmd {
	case "gen":
		if err := genMain(f.Out); err != nil {
			fmt.Fprintln(os.Stderr, "c29 gen:", err)
			os.Exit(1)
		}
	case "run":
		if err := runMain(f); err != nil {
			fmt.Fprintln(os.Stderr, "c29 run:", err)
			os.Exit(2)
		}
	default:
		fmt.Fprintln(os.Stderr, "c29: gen | run")
		os.Exit(2)
	}
}

func repoDir() string {
	if d := os.Getenv("VERIF_REPO"); d != "" {
		return d
	}
	return "/repo"
}
