package main

import (
	"context"
	"encoding/json"
	"errors"
	"flag"
	"fmt"
	"os"
	"path/filepath"
	"runtime"
	"strings"
	"sync"
	"time"

	"github.com/cube2222/octosql/config"
	jsonds "github.com/cube2222/octosql/datasources/json"
	"github.com/cube2222/octosql/execution"
	"github.com/cube2222/octosql/physical"

	"verifharness/lib"
)

// Scenario is one generated run of the JSON datasource.
type Scenario struct {
	N        int   `json:"lines"`              // lines in the file
	Bad      []int `json:"bad_lines"`          // malformed lines (parse fails)
	Long     int   `json:"overlong_line"`      // -1, or the index of a line above MaxLineSizeBytes (sc.Err() != nil there)
	Plimit   int   `json:"produce_fails_at"`   // -1, or the produce call that returns an error (LIMIT / downstream error)
	ExtAt    int   `json:"ctx_cancel_at"`      // -1, or the produce call during which the caller cancels ctx
	ExtAfter int   `json:"ctx_cancel_after_us"` // -1, or cancel ctx from a timer after this many microseconds
	StallUs  int   `json:"consumer_stall_us"`  // the first produce call sleeps this long
	StallTok int   `json:"consumer_stall_until_tokens"` // the first produce call waits until the reader holds this many tokens (at most 3 s)
	Delay    int   `json:"delay_profile"`      // 0 none, 1 yields, 2 slow workers, 3 slow consumer, 4 slow reader
}

type ChildCase struct {
	W        int      `json:"workers"`
	Sc       Scenario `json:"scenario"`
	ScanN    int      `json:"lines_scanned"` // the model's n: lines the scanner returns
	Rerr     bool     `json:"reader_error"`
	Trace    []string `json:"-"`
	TraceLen int      `json:"trace_len"`
	Head     []string `json:"trace_head"`
	Swaps    int      `json:"send_recv_swaps"`
	RunErr   string   `json:"run_error"`
	Produced int      `json:"produced"`
	Viol     string   `json:"violation,omitempty"`
	Counts   map[string]int `json:"event_counts"`
}

type childOut struct {
	Cases []ChildCase
	Coq   [][]string // traces as Coq labels, same index
}

const maxLine = 8192

func genScenario(r *lib.Rng, big bool, batch, capTok int) Scenario {
	s := Scenario{Long: -1, Plimit: -1, ExtAt: -1, ExtAfter: -1}
	edge := []int{0, 1, 2, batch - 1, batch, batch + 1, 2*batch - 1, 2 * batch, 2*batch + 1, 3 * batch}
	switch {
	case big:
		s.N = batch*capTok + batch*(4+r.Intn(16)) + r.Intn(batch)
		s.StallTok = capTok
	case r.Chance(1, 3):
		s.N = edge[r.Intn(len(edge))]
	case r.Chance(1, 2):
		s.N = r.Intn(5 * batch)
	default:
		s.N = 5*batch + r.Intn(40*batch)
	}
	if s.N > 0 && r.Chance(1, 4) {
		k := 1 + r.Intn(2)
		for i := 0; i < k; i++ {
			s.Bad = append(s.Bad, r.Intn(s.N))
		}
	}
	if s.N > 0 && r.Chance(1, 8) {
		s.Long = r.Intn(s.N)
	}
	if r.Chance(1, 3) || (big && r.Chance(1, 2)) {
		if big {
			s.Plimit = r.Intn(batch) // inside the first batch: at most one token has been released
		} else {
			s.Plimit = r.Intn(s.N + 2)
		}
	}
	if r.Chance(1, 6) {
		if r.Bool() {
			s.ExtAt = r.Intn(s.N + 1)
		} else {
			s.ExtAfter = r.Intn(3000)
		}
	}
	if !big && r.Chance(1, 5) {
		s.StallUs = r.Intn(4000)
	}
	s.Delay = r.Intn(5)
	return s
}

func writeFile(path string, s Scenario) error {
	var b strings.Builder
	isBad := map[int]bool{}
	for _, l := range s.Bad {
		isBad[l] = true
	}
	for i := 0; i < s.N; i++ {
		switch {
		case i == s.Long:
			fmt.Fprintf(&b, "{\"a\": %d, \"s\": \"%s\"}\n", i, strings.Repeat("x", maxLine+100))
		case isBad[i] && i%2 == 0:
			fmt.Fprintf(&b, "{\"a\": %d, \"s\": \n", i)
		case isBad[i]:
			fmt.Fprintf(&b, "[%d]\n", i)
		default:
			fmt.Fprintf(&b, "{\"a\": %d, \"s\": \"v%d\"}\n", i, i%13)
		}
	}
	return os.WriteFile(path, []byte(b.String()), 0o644)
}

var errInjectedProduce = errors.New("verif: injected produce failure")

var coqLabel = map[string]string{
	"tok": "JTok", "rcancel": "JRCancel", "enq": "JEnq", "done": "JDone",
	"tokrel": "JTokRel", "produce": "JProduce", "produceerr": "JProduceErr",
	"parseerr": "JParseErr", "procend": "JProcEnd", "recvdone": "JRecvDone", "ctx": "JCtx", "ext": "JExt",
}

// normalise: `send k` is logged after the worker's select has chosen the send, so the consumer's `recv k` can
// reach the log first although the receive cannot precede the send.  Such a `send k` is moved to just before
// its `recv k` (still after the same worker's `take k`).  Nothing else is reordered.
func normalise(evs []jsonds.VerifEvent) ([]jsonds.VerifEvent, int) {
	sendPos := map[int]int{}
	for i, e := range evs {
		if e.Event == "send" {
			sendPos[e.Args[0]] = i
		}
	}
	moved := map[int]bool{} // positions of sends to skip
	var out []jsonds.VerifEvent
	swaps := 0
	for i, e := range evs {
		if moved[i] {
			continue
		}
		if e.Event == "recv" {
			if sp, ok := sendPos[e.Args[0]]; ok && sp > i {
				out = append(out, evs[sp])
				moved[sp] = true
				swaps++
			}
		}
		out = append(out, e)
	}
	return out, swaps
}

func quiescent(evs []jsonds.VerifEvent) bool {
	c := map[string]int{}
	for _, e := range evs {
		c[e.Event]++
	}
	// rexit is logged after `done <- sc.Err()` went through (done is logged before the send)
	return c["rexit"]+c["rcancel"] == 1 && c["enq"] == c["take"] && c["take"] == c["send"]+c["drop"]
}

func runScenario(dir string, idx int, s Scenario, r *lib.Rng, w int) ChildCase {
	cc := ChildCase{W: w, Sc: s, Counts: map[string]int{}}
	path := filepath.Join(dir, fmt.Sprintf("c%d.json", idx))
	// the schema is inferred from a clean file; the file is then replaced by the scenario's content
	if err := os.WriteFile(path, []byte("{\"a\": 1, \"s\": \"v\"}\n"), 0o644); err != nil {
		cc.Viol = "harness: " + err.Error()
		return cc
	}
	cfg := &config.Config{}
	cfg.Files.BufferSizeBytes = 4096
	cfg.Files.JSON.MaxLineSizeBytes = maxLine
	base := config.ContextWithConfig(context.Background(), cfg)
	impl, schema, err := jsonds.Creator(base, path, map[string]string{})
	if err != nil {
		cc.Viol = "harness: creator: " + err.Error()
		return cc
	}
	node, err := impl.Materialize(base, physical.Environment{}, schema, nil)
	if err != nil {
		cc.Viol = "harness: materialize: " + err.Error()
		return cc
	}
	if err := writeFile(path, s); err != nil {
		cc.Viol = "harness: " + err.Error()
		return cc
	}
	defer os.Remove(path)

	ctx, cancel := context.WithCancel(base)
	defer cancel()

	// seeded scheduling noise at the trace points
	var dmu sync.Mutex
	dr := r.Fork()
	delay := func(ev string) {
		dmu.Lock()
		x := dr.Intn(256)
		dmu.Unlock()
		switch s.Delay {
		case 0:
		case 1:
			if x < 96 {
				runtime.Gosched()
			}
		case 2:
			if (ev == "take" || ev == "send") && x < 64 {
				time.Sleep(time.Duration(20+x) * time.Microsecond)
			} else if x < 16 {
				runtime.Gosched()
			}
		case 3:
			if (ev == "recv" || ev == "tokrel" || ev == "procend") && x < 64 {
				time.Sleep(time.Duration(20+x) * time.Microsecond)
			} else if x < 16 {
				runtime.Gosched()
			}
		case 4:
			if (ev == "tok" || ev == "enq" || ev == "eof") && x < 64 {
				time.Sleep(time.Duration(20+x) * time.Microsecond)
			} else if x < 16 {
				runtime.Gosched()
			}
		}
	}
	jsonds.VerifTraceStart(delay)

	var extOnce sync.Once
	fireExt := func() {
		extOnce.Do(func() {
			jsonds.VerifTraceAppend("ext")
			cancel()
		})
	}
	var timer *time.Timer
	timerDone := make(chan struct{})
	if s.ExtAfter >= 0 {
		timer = time.AfterFunc(time.Duration(s.ExtAfter)*time.Microsecond, func() { fireExt(); close(timerDone) })
	}

	calls := 0
	produce := func(pctx execution.ProduceContext, rec execution.Record) error {
		k := calls
		calls++
		if k == 0 && s.StallUs > 0 {
			time.Sleep(time.Duration(s.StallUs) * time.Microsecond)
		}
		if k == 0 && s.StallTok > 0 {
			// stalled consumer: the reader runs until the token channel is full and waits there
			for t0 := time.Now(); time.Since(t0) < 3*time.Second; time.Sleep(2 * time.Millisecond) {
				held := 0
				for _, e := range jsonds.VerifTraceSnapshot() {
					if e.Event == "tok" {
						held++
					} else if e.Event == "tokrel" {
						held--
					}
				}
				if held >= s.StallTok {
					time.Sleep(2 * time.Millisecond)
					break
				}
			}
		}
		if k == s.ExtAt {
			fireExt()
		}
		if k == s.Plimit {
			return errInjectedProduce
		}
		cc.Produced++
		return nil
	}
	meta := func(pctx execution.ProduceContext, msg execution.MetadataMessage) error { return nil }

	runDone := make(chan error, 1)
	go func() {
		defer func() {
			if p := recover(); p != nil {
				runDone <- fmt.Errorf("panic: %v", p)
			}
		}()
		runDone <- node.Run(execution.ExecutionContext{Context: ctx}, produce, meta)
	}()
	select {
	case err := <-runDone:
		if err != nil {
			cc.RunErr = err.Error()
		}
	case <-time.After(20 * time.Second):
		cc.Viol = "DEADLOCK: DatasourceExecuting.Run did not return within 20 s"
	}
	if timer != nil {
		if !timer.Stop() {
			<-timerDone
		}
	}
	if cc.Viol == "" {
		// early exit / normal exit: reader and workers must become quiescent without the consumer
		deadline := time.Now().Add(5 * time.Second)
		for !quiescent(jsonds.VerifTraceSnapshot()) {
			if time.Now().After(deadline) {
				cc.Viol = "NO QUIESCENCE: 5 s after Run returned the reader goroutine has not exited or a parse job is still queued/held"
				break
			}
			time.Sleep(200 * time.Microsecond)
		}
	}
	evs := jsonds.VerifTraceStop()
	for _, e := range evs {
		cc.Counts[e.Event]++
	}
	// the model's parameters as observed/expected
	cc.ScanN = s.N
	if s.Long >= 0 {
		cc.ScanN, cc.Rerr = s.Long, true
	}
	// an `eof` before all lines were scanned, or a `done` carrying an error that the file does not explain, is the
	// scan loop ending on the file that Run's deferred f.Close() closed: label JEofClosed (the LTS allows it only
	// after Run has returned)
	closedEof := cc.Counts["scan"] != cc.ScanN
	for _, e := range evs {
		if e.Event == "done" && e.Args[0] == 1 && !cc.Rerr {
			closedEof = true
		}
	}
	norm, swaps := normalise(evs)
	cc.Swaps = swaps
	scans := 0
	for _, e := range norm {
		switch e.Event {
		case "scan":
			// one token beyond what the file holds is the truncated line bufio.Scanner returns when the file was
			// closed under it (the LTS allows it once, after Run returned)
			scans++
			if scans > cc.ScanN {
				cc.Trace = append(cc.Trace, "JScanTrunc")
			} else {
				cc.Trace = append(cc.Trace, "JScan")
			}
		case "send", "drop", "take", "recv":
			cc.Trace = append(cc.Trace, fmt.Sprintf("%s (nn %d)", map[string]string{"send": "JSend", "drop": "JDrop", "take": "JTake", "recv": "JRecv"}[e.Event], e.Args[0]))
		case "rexit": // only used for the quiescence test
		case "eof":
			if closedEof {
				cc.Trace = append(cc.Trace, "JEofClosed")
			} else {
				cc.Trace = append(cc.Trace, "JEof")
			}
		default:
			l, ok := coqLabel[e.Event]
			if !ok {
				cc.Viol = "harness: unknown event " + e.Event
				continue
			}
			cc.Trace = append(cc.Trace, l)
		}
	}
	cc.TraceLen = len(cc.Trace)
	// a readable head of the raw log for the replay file (scan/produce runs collapsed)
	last, rep := "", 0
	flush := func() {
		if last != "" {
			if rep > 1 {
				cc.Head = append(cc.Head, fmt.Sprintf("%s x%d", last, rep))
			} else {
				cc.Head = append(cc.Head, last)
			}
		}
	}
	for _, e := range evs {
		t := e.Event
		if len(e.Args) > 0 {
			t += fmt.Sprint(e.Args)
		}
		if t == last {
			rep++
			continue
		}
		flush()
		last, rep = t, 1
		if len(cc.Head) > 400 {
			last = ""
			cc.Head = append(cc.Head, "...")
			break
		}
	}
	flush()
	return cc
}

func childMain(args []string) {
	fs := flag.NewFlagSet("child", flag.ExitOnError)
	seed := fs.Int64("seed", 1, "")
	count := fs.Int("count", 10, "")
	big := fs.Int("big", 0, "number of big (token-exhausting) scenarios")
	out := fs.String("out", "child.json", "")
	dir := fs.String("dir", os.TempDir(), "")
	batch := fs.Int("batch", 64, "")
	capTok := fs.Int("captok", 128, "")
	capJob := fs.Int("capjob", 128, "")
	fs.Parse(args)
	w := runtime.GOMAXPROCS(0) // the pool was sized with this value at package init
	res := childOut{}
	if jsonds.VerifJobsCap() != *capJob {
		res.Cases = append(res.Cases, ChildCase{W: w, Viol: fmt.Sprintf("translator: cap(parserWorkReceiveChannel) is %d at run time, %d in the source", jsonds.VerifJobsCap(), *capJob)})
		res.Coq = append(res.Coq, nil)
	}
	rng := lib.NewRng(*seed)
	for i := 0; i < *count; i++ {
		r := rng.Fork()
		s := genScenario(r, i < *big, *batch, *capTok)
		cc := runScenario(*dir, i, s, r, w)
		res.Coq = append(res.Coq, cc.Trace)
		res.Cases = append(res.Cases, cc)
		if strings.HasPrefix(cc.Viol, "DEADLOCK") {
			break // the pool of this process may be wedged; stop here
		}
	}
	js, _ := json.Marshal(res)
	if err := os.WriteFile(*out, js, 0o644); err != nil {
		fmt.Fprintln(os.Stderr, err)
		os.Exit(2)
	}
}
