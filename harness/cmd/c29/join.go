package main

import (
	"context"
	"errors"
	"fmt"
	"strings"
	"sync/atomic"
	"time"

	"github.com/cube2222/octosql/execution"
	"github.com/cube2222/octosql/execution/nodes"
	"github.com/cube2222/octosql/octosql"

	"verifharness/lib"
)

// In-process runs of the real StreamJoin / OuterJoin over two scripted sources, built so that the main loop
// returns early (a key expression or produce fails = LIMIT/error above or inside the join, or a source fails)
// while a source still has more messages to deliver than its channel holds.  Observed: the main loop's
// events (verifJoinRecv hook), the sends each source completed, whether Run returned.

type JoinScenario struct {
	Node    string `json:"node"`    // stream | outer
	Variant string `json:"variant"` // keyerr | produce | srcerr | none
	NL      int    `json:"left_records"`
	NR      int    `json:"right_records"`
	ErrL    bool   `json:"left_source_fails"`
	ErrR    bool   `json:"right_source_fails"`
	FailAt  int    `json:"failing_key_evaluation"` // keyerr: this evaluation (0-based, = record received) returns an error
}

type JoinCase struct {
	Kind     string       `json:"kind"`
	Sc       JoinScenario `json:"scenario"`
	Cap      int          `json:"channel_capacity"`
	Fail     int          `json:"model_failing_action"` // -1 none
	Main     []string     `json:"main_loop_events"`
	SentL    int          `json:"left_sends_completed"`
	SentR    int          `json:"right_sends_completed"`
	Returned bool         `json:"run_returned"`
	Blocked  bool         `json:"a_source_still_blocked"`
	RunErr   string       `json:"run_error"`
	Viol     string       `json:"violation,omitempty"`
	Coq      string       `json:"-"`
}

var errInjectedSource = errors.New("verif: injected source failure")
var errInjectedKey = errors.New("verif: injected key expression failure")

type countSource struct {
	side     int
	n        int
	fail     bool
	constKey bool
	sent     int64
	finished int32
}

func (s *countSource) Run(ctx execution.ExecutionContext, produce execution.ProduceFn, metaSend execution.MetaSendFn) error {
	pctx := execution.ProduceFromExecutionContext(ctx)
	for i := 0; i < s.n; i++ {
		key := s.side*1000000000 + i // distinct on both sides: no matches
		if s.constKey {
			key = 7
		}
		vals := []octosql.Value{octosql.NewInt(int64(key)), octosql.NewInt(int64(i))}
		if err := produce(pctx, execution.NewRecord(vals, false, time.Time{})); err != nil {
			return err
		}
		atomic.AddInt64(&s.sent, 1)
	}
	atomic.StoreInt32(&s.finished, 1)
	if s.fail {
		return errInjectedSource
	}
	return nil
}

// keyExpr is the join key of both sides: column 0 of the record; its evaluation number failAt fails.
type keyExpr struct {
	calls  int
	failAt int
}

func (k *keyExpr) Evaluate(ctx execution.ExecutionContext) (octosql.Value, error) {
	c := k.calls
	k.calls++
	if c == k.failAt {
		return octosql.ZeroValue, errInjectedKey
	}
	return ctx.VariableContext.Values[0], nil
}

func genJoinScenario(r *lib.Rng, i, capc int) JoinScenario {
	over := func() int { return capc + 1 + r.Intn(2*capc) } // more than the channel holds, up to 3x
	small := func() int { return r.Intn(20) }
	s := JoinScenario{Node: []string{"stream", "outer"}[i%2], FailAt: -1}
	switch (i / 2) % 4 {
	case 0: // both sides far above the capacity, failure at an early record (LIMIT / error above the join)
		s.Variant, s.NL, s.NR, s.FailAt = "keyerr", over(), over(), r.Intn(40)
	case 1: // one side above the capacity, produce fails at the first joined row (LIMIT 1 above the join)
		s.Variant = "produce"
		if r.Bool() {
			s.NL, s.NR = over(), 1+small()
		} else {
			s.NL, s.NR = 1+small(), over()
		}
		if s.Node == "outer" { // the failing action of an outer join is not computable from the event order: use keyerr
			s.Variant, s.FailAt = "keyerr", r.Intn(10)
		}
	case 2: // a small source fails, the other one is far above the capacity
		s.Variant = "srcerr"
		if r.Bool() {
			s.NL, s.ErrL, s.NR = small(), true, over()
		} else {
			s.NL, s.NR, s.ErrR = over(), small(), true
		}
	default: // small inputs read to the end (both phases of the loop), sometimes with a late failure
		s.Variant, s.NL, s.NR = "none", small(), small()
		if r.Chance(1, 3) {
			s.Variant, s.FailAt = "keyerr", r.Intn(s.NL+s.NR+1)
		}
	}
	return s
}

func runJoinScenario(s JoinScenario, capc int) JoinCase {
	jc := JoinCase{Kind: "join_conformance", Sc: s, Cap: capc, Fail: -1}
	left := &countSource{side: 0, n: s.NL, fail: s.ErrL, constKey: s.Variant == "produce"}
	right := &countSource{side: 1, n: s.NR, fail: s.ErrR, constKey: s.Variant == "produce"}
	key := &keyExpr{failAt: s.FailAt}
	var node execution.Node
	if s.Node == "outer" {
		node = nodes.NewOuterJoin(left, right, 2, 2, []execution.Expression{key}, []execution.Expression{key}, false, false)
	} else {
		node = nodes.NewStreamJoin(left, right, []execution.Expression{key}, []execution.Expression{key})
	}
	type mainEv struct{ side, kind int }
	var evs []mainEv
	nodes.VerifJoinRecv = func(side, kind int) { evs = append(evs, mainEv{side, kind}) } // main loop goroutine only
	produce := func(pctx execution.ProduceContext, rec execution.Record) error {
		if s.Variant == "produce" {
			return errInjectedProduce
		}
		return nil
	}
	meta := func(pctx execution.ProduceContext, msg execution.MetadataMessage) error { return nil }
	runDone := make(chan error, 1)
	go func() {
		defer func() {
			if p := recover(); p != nil {
				runDone <- fmt.Errorf("panic: %v", p)
			}
		}()
		runDone <- node.Run(execution.ExecutionContext{Context: context.Background()}, produce, meta)
	}()
	select {
	case err := <-runDone:
		jc.Returned = true
		if err != nil {
			jc.RunErr = err.Error()
		}
	case <-time.After(15 * time.Second):
		jc.Viol = fmt.Sprintf("NON-TERMINATION: %s join Run did not return within 15 s (left %d records, right %d, channel capacity %d, %s)",
			s.Node, s.NL, s.NR, capc, s.Variant)
	}
	nodes.VerifJoinRecv = nil
	if !jc.Returned {
		// evs may still be written by the stuck main loop: do not read it
		jc.SentL, jc.SentR = int(atomic.LoadInt64(&left.sent)), int(atomic.LoadInt64(&right.sent))
		jc.Coq = fmt.Sprintf("(AJoin (mkc29j %d %d %s %s %d None [] %d %d false true))", s.NL, s.NR, coqBool(s.ErrL), coqBool(s.ErrR), capc, jc.SentL, jc.SentR)
		return jc
	}
	// the sources run on: wait until their send counters are stable (blocked on a full channel, or finished)
	for stable, last := 0, int64(-1); stable < 25; time.Sleep(2 * time.Millisecond) {
		cur := atomic.LoadInt64(&left.sent)*1000003 + atomic.LoadInt64(&right.sent)
		if cur == last {
			stable++
		} else {
			stable, last = 0, cur
		}
	}
	jc.SentL, jc.SentR = int(atomic.LoadInt64(&left.sent)), int(atomic.LoadInt64(&right.sent))
	fin := [2]bool{atomic.LoadInt32(&left.finished) == 1, atomic.LoadInt32(&right.finished) == 1}
	jc.Blocked = !fin[0] || !fin[1]

	// the model's failing action: data messages and the flush at the phase switch are numbered together
	recs, closes, failRec := 0, 0, -1
	switch s.Variant {
	case "keyerr":
		failRec = s.FailAt
	case "produce": // constant key: the first record that finds a record of the other side produces a row
		seen := [2]bool{}
		n := 0
		for _, e := range evs {
			if e.kind == nodes.VerifJoinRecord {
				if seen[1-e.side] {
					failRec = n
					break
				}
				seen[e.side] = true
				n++
			}
		}
	}
	for _, e := range evs {
		if e.kind == nodes.VerifJoinRecord {
			if recs == failRec {
				jc.Fail = recs + closes
			}
			recs++
		} else if e.kind == nodes.VerifJoinClose && closes == 0 {
			closes++ // only the first close (phase switch) is a processing action before later records
		}
	}
	if failRec >= 0 && jc.Fail < 0 {
		jc.Fail = failRec + 100000 // never reached in this run
	}

	// replay: main-loop events in observed order, producers' sends filled in eagerly
	sideName := []string{"SL", "SR"}
	kindName := []string{"rec", "meta", "err", "close"}
	n := [2]int{s.NL, s.NR}
	srcErr := [2]bool{s.ErrL, s.ErrR}
	sent := [2]int{jc.SentL, jc.SentR}
	var occ, emitted [2]int
	var errSent, closed [2]bool
	var macro []string
	fill := func() {
		for d := 0; d < 2; d++ {
			k := sent[d] - emitted[d]
			if capc-occ[d] < k {
				k = capc - occ[d]
			}
			if k > 0 {
				macro = append(macro, fmt.Sprintf("NMany %s (nn %d)", sideName[d], k))
				occ[d] += k
				emitted[d] += k
			}
		}
	}
	one := func(l string, d int) { macro = append(macro, fmt.Sprintf("NOne (%s %s)", l, sideName[d])) }
	for _, e := range evs {
		jc.Main = append(jc.Main, sideName[e.side][1:]+":"+kindName[e.kind])
		fill()
		d := e.side
		switch e.kind {
		case nodes.VerifJoinError:
			if !errSent[d] {
				one("NErr", d)
				errSent[d] = true
				occ[d]++
			}
			one("NRecv", d)
			occ[d]--
		case nodes.VerifJoinClose:
			if !closed[d] {
				if srcErr[d] && !errSent[d] && emitted[d] == n[d] {
					one("NErr", d)
					errSent[d] = true
					occ[d]++
				}
				one("NClose", d)
				closed[d] = true
			}
			one("NClosed", d)
		default:
			one("NRecv", d)
			occ[d]--
		}
	}
	fill()
	if len(jc.Main) > 120 {
		jc.Main = append(jc.Main[:120], "...")
	}
	fail := "None"
	if jc.Fail >= 0 {
		fail = fmt.Sprintf("(Some %d)", jc.Fail)
	}
	jc.Coq = fmt.Sprintf("(AJoin (mkc29j %d %d %s %s %d %s [%s] %d %d %s %s))", s.NL, s.NR, coqBool(s.ErrL), coqBool(s.ErrR), capc, fail,
		strings.Join(macro, "; "), jc.SentL, jc.SentR, coqBool(jc.Returned), coqBool(jc.Blocked))
	return jc
}
