package main

import (
	"bytes"
	"fmt"
	"go/ast"
	"go/parser"
	"go/printer"
	"go/token"
	"os"
	"path/filepath"
	"strconv"
	"strings"
)

// Consts are the numbers of the protocols that the Coq theorems are instantiated with.
type Consts struct {
	Batch, BatchTail       int // batchSize := 64 ; batchSize = 1 (tail)
	CapOut, CapTok, CapJob int // cap(outChan), cap(outChanAvailableTokens), cap(parserWorkReceiveChannel)
	CapDone                int
	JoinCaps               []int // leftMessages/rightMessages of stream_join.go and outer_join.go
}

func exprText(fset *token.FileSet, e ast.Expr) string {
	var b bytes.Buffer
	printer.Fprint(&b, fset, e)
	return b.String()
}

// makeChans lists (element type text, capacity) of every `make(chan T, N)` in a file, in source order.
func makeChans(path string) ([][2]string, *ast.File, *token.FileSet, error) {
	fset := token.NewFileSet()
	f, err := parser.ParseFile(fset, path, nil, 0)
	if err != nil {
		return nil, nil, nil, err
	}
	var out [][2]string
	ast.Inspect(f, func(n ast.Node) bool {
		c, ok := n.(*ast.CallExpr)
		if !ok {
			return true
		}
		if id, ok := c.Fun.(*ast.Ident); !ok || id.Name != "make" || len(c.Args) == 0 {
			return true
		}
		ch, ok := c.Args[0].(*ast.ChanType)
		if !ok {
			return true
		}
		capText := "0"
		if len(c.Args) >= 2 {
			capText = exprText(fset, c.Args[1])
		}
		out = append(out, [2]string{exprText(fset, ch.Value), capText})
		return true
	})
	return out, f, fset, nil
}

func readConsts(repo string) (Consts, error) {
	var k Consts
	atoi := func(s, what string) (int, error) {
		v, err := strconv.Atoi(strings.ReplaceAll(s, "_", ""))
		if err != nil {
			return 0, fmt.Errorf("%s: capacity %q is not an integer literal", what, s)
		}
		return v, nil
	}
	// execution.go
	exe := filepath.Join(repo, "datasources/json/execution.go")
	chans, f, _, err := makeChans(exe)
	if err != nil {
		return k, err
	}
	seen := map[string]int{}
	for _, c := range chans {
		v, err := atoi(c[1], exe)
		if err != nil {
			return k, err
		}
		switch c[0] {
		case "[]jobOutRecord":
			k.CapOut = v
		case "struct{}":
			k.CapTok = v
		case "error":
			k.CapDone = v
		default:
			return k, fmt.Errorf("%s: unexpected channel of %s", exe, c[0])
		}
		seen[c[0]]++
	}
	if seen["[]jobOutRecord"] != 1 || seen["struct{}"] != 1 || seen["error"] != 1 {
		return k, fmt.Errorf("%s: expected exactly one outChan, one token channel and one done channel, found %v", exe, seen)
	}
	// batchSize := N ; batchSize = M
	ast.Inspect(f, func(n ast.Node) bool {
		a, ok := n.(*ast.AssignStmt)
		if !ok || len(a.Lhs) != 1 || len(a.Rhs) != 1 {
			return true
		}
		id, ok := a.Lhs[0].(*ast.Ident)
		lit, ok2 := a.Rhs[0].(*ast.BasicLit)
		if !ok || !ok2 || id.Name != "batchSize" {
			return true
		}
		v, _ := strconv.Atoi(lit.Value)
		if a.Tok == token.DEFINE {
			k.Batch = v
		} else {
			k.BatchTail = v
		}
		return true
	})
	if k.Batch == 0 || k.BatchTail == 0 {
		return k, fmt.Errorf("%s: batchSize definitions not found", exe)
	}
	// workers.go
	wrk := filepath.Join(repo, "datasources/json/workers.go")
	chans, _, _, err = makeChans(wrk)
	if err != nil {
		return k, err
	}
	if len(chans) != 1 || chans[0][0] != "jobIn" {
		return k, fmt.Errorf("%s: expected exactly one make(chan jobIn, N), found %v", wrk, chans)
	}
	if k.CapJob, err = atoi(chans[0][1], wrk); err != nil {
		return k, err
	}
	// joins
	for _, name := range []string{"execution/nodes/stream_join.go", "execution/nodes/outer_join.go"} {
		p := filepath.Join(repo, name)
		chans, _, _, err = makeChans(p)
		if err != nil {
			return k, err
		}
		if len(chans) != 2 {
			return k, fmt.Errorf("%s: expected two message channels, found %v", p, chans)
		}
		for _, c := range chans {
			v, err := atoi(c[1], p)
			if err != nil {
				return k, err
			}
			k.JoinCaps = append(k.JoinCaps, v)
		}
	}
	return k, nil
}

func genMain(out string) error {
	k, err := readConsts(repoDir())
	if err != nil {
		return err
	}
	var b strings.Builder
	b.WriteString("(* Gen/GenC29.v — written by `c29 gen` from the source of the tree under check; do not edit.\n")
	b.WriteString("   datasources/json/execution.go, workers.go; execution/nodes/stream_join.go, outer_join.go *)\n")
	b.WriteString("From Coq Require Import ZArith List.\nImport ListNotations.\nOpen Scope Z_scope.\n")
	fmt.Fprintf(&b, "Definition gen_json_batch : Z := %d.\n", k.Batch)
	fmt.Fprintf(&b, "Definition gen_json_batch_tail : Z := %d.\n", k.BatchTail)
	fmt.Fprintf(&b, "Definition gen_json_cap_out : Z := %d.\n", k.CapOut)
	fmt.Fprintf(&b, "Definition gen_json_cap_tokens : Z := %d.\n", k.CapTok)
	fmt.Fprintf(&b, "Definition gen_json_cap_jobs : Z := %d.\n", k.CapJob)
	fmt.Fprintf(&b, "Definition gen_json_cap_done : Z := %d.\n", k.CapDone)
	var js []string
	for _, c := range k.JoinCaps {
		js = append(js, strconv.Itoa(c))
	}
	fmt.Fprintf(&b, "Definition gen_join_caps : list Z := [%s].\n", strings.Join(js, "; "))
	if err := os.MkdirAll(out, 0o755); err != nil {
		return err
	}
	path := filepath.Join(out, "GenC29.v")
	if old, err := os.ReadFile(path); err == nil && string(old) == b.String() {
		return nil // unchanged content keeps its mtime
	}
	return os.WriteFile(path, []byte(b.String()), 0o644)
}
