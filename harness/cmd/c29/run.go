package main

import (
	"bytes"
	"context"
	"encoding/json"
	"fmt"
	"os"
	"os/exec"
	"path/filepath"
	"strconv"
	"strings"
	"sync"
	"time"

	"verifharness/lib"
)

var gomaxprocs = []int{1, 2, 4, 16}

func coqBool(b bool) string {
	if b {
		return "true"
	}
	return "false"
}

func runMain(f lib.Flags) error {
	repo := repoDir()
	k, err := readConsts(repo)
	if err != nil {
		return fmt.Errorf("translator: %w", err)
	}
	if err := os.MkdirAll(f.Out, 0o755); err != nil {
		return err
	}
	work, err := os.MkdirTemp("", "c29-")
	if err != nil {
		return err
	}
	defer os.RemoveAll(work)

	cf := lib.NewCaseFile("C29", f.Seed, f.Tier)
	cf.Imports = []string{"Base", "Concurrency"}
	cf.CaseType = "c29_any"
	cf.Checks = []lib.Check{{Name: "tie", Kind: "tie", Fn: "c29_tie_any"}, {Name: "spec", Kind: "spec", Fn: "c29_spec_any"}}
	cf.Side.Rule = "conformance: generated JSON files (0..~11000 lines: batch-size edges, malformed lines, an over-long line, produce failing at call k (LIMIT), " +
		"ctx cancelled by the caller, a stalled consumer that lets the reader exhaust the tokens) through json.DatasourceExecuting.Run in child processes with " +
		"GOMAXPROCS 1,2,4,16 and seeded delays at every protocol point; the logged trace must be a run of the Coq LTS into a final state (tie) along which the " +
		"token invariant holds (spec). non-trivial = the run exits early (error, LIMIT, cancel) or the reader waits for a token or a worker result is reordered. " +
		"join conformance: the real StreamJoin/OuterJoin over two scripted sources of up to 3x the channel capacity (read from the source), returning early " +
		"(failing key expression / produce = LIMIT or error, failing source) or read to the end; the main loop's events (verifJoinRecv) with the sources' sends filled in " +
		"must be a run of the join LTS into a final state with exactly the observed sends completed and a source blocked iff one was seen blocked (tie); Run must return (spec). " +
		"search: the CLI built with -race runs generated queries (parallel JSON, JSON joins, LIKE/~/~* in both branches, stdin, LIMIT, injected parse error) under a timeout"

	// ---- (1) conformance ----
	perChild := f.Cases(30, 300)
	bigPer := 1
	if f.Tier == "thorough" {
		bigPer = 6
	}
	self, err := os.Executable()
	if err != nil {
		return err
	}
	type childRes struct {
		out childOut
		err error
		log string
	}
	results := make([]childRes, len(gomaxprocs))
	var wg sync.WaitGroup
	for i, g := range gomaxprocs {
		wg.Add(1)
		go func(i, g int) {
			defer wg.Done()
			dir := filepath.Join(work, fmt.Sprintf("child%d", g))
			os.MkdirAll(dir, 0o755)
			outFile := filepath.Join(dir, "out.json")
			ctx, cancel := context.WithTimeout(context.Background(), 20*time.Minute)
			defer cancel()
			cmd := exec.CommandContext(ctx, self, "child", "-seed", strconv.FormatInt(f.Seed*1000+int64(g), 10),
				"-count", strconv.Itoa(perChild), "-big", strconv.Itoa(bigPer), "-out", outFile, "-dir", dir,
				"-batch", strconv.Itoa(k.Batch), "-captok", strconv.Itoa(k.CapTok), "-capjob", strconv.Itoa(k.CapJob))
			cmd.Env = append(os.Environ(), "GOMAXPROCS="+strconv.Itoa(g))
			var eb bytes.Buffer
			cmd.Stderr, cmd.Stdout = &eb, &eb
			err := cmd.Run()
			results[i].log = eb.String()
			if err != nil {
				results[i].err = fmt.Errorf("child GOMAXPROCS=%d: %v: %s", g, err, tail(eb.String(), 1500))
				return
			}
			js, err := os.ReadFile(outFile)
			if err != nil {
				results[i].err = err
				return
			}
			results[i].err = json.Unmarshal(js, &results[i].out)
		}(i, g)
	}

	// ---- (2) search: -race build of the CLI, in parallel with the conformance children ----
	type searchRes struct {
		cases []searchCase
		note  string
	}
	var sr searchRes
	wg.Add(1)
	go func() {
		defer wg.Done()
		jc := 0
		for _, c := range k.JoinCaps {
			if c > jc {
				jc = c
			}
		}
		sr.cases, sr.note = raceSearch(repo, work, f, jc)
	}()
	wg.Wait()

	for i, g := range gomaxprocs {
		if results[i].err != nil {
			return results[i].err
		}
		for j, cc := range results[i].out.Cases {
			tr := results[i].out.Coq[j]
			bad := make([]string, len(cc.Sc.Bad))
			for x, l := range cc.Sc.Bad {
				bad[x] = strconv.Itoa(l)
			}
			pl := "None"
			if cc.Sc.Plimit >= 0 {
				pl = fmt.Sprintf("(Some %d)", cc.Sc.Plimit)
			}
			coq := fmt.Sprintf("(AJson (mkc29 %d %d %d %d %d %d %s [%s] %s [%s])", cc.W, cc.ScanN, k.Batch, k.CapJob, k.CapTok, k.CapOut,
				coqBool(cc.Rerr), strings.Join(bad, "; "), pl, strings.Join(tr, "; ")) + ")"
			early := cc.RunErr != ""
			nontrivial := early || cc.Counts["rcancel"] > 0 || cc.Counts["drop"] > 0 || cc.Swaps > 0 || cc.Counts["enq"] >= k.CapTok
			idx := cf.Add(coq, cc, nontrivial)
			cf.Count(fmt.Sprintf("gomaxprocs_%02d", g))
			switch {
			case cc.Sc.N >= k.Batch*k.CapTok:
				cf.Count("lines_above_token_capacity")
			case cc.Sc.N > 5*k.Batch:
				cf.Count("lines_many_batches")
			default:
				cf.Count("lines_few_batches")
			}
			for _, e := range []string{"rcancel", "drop", "parseerr", "produceerr", "ctx", "ext"} {
				if cc.Counts[e] > 0 {
					cf.Count("runs_with_" + e)
				}
			}
			if cc.Rerr {
				cf.Count("runs_with_reader_error")
			}
			if early {
				cf.Count("runs_exiting_early")
			}
			if cc.Swaps > 0 {
				cf.Count("runs_with_send_logged_after_recv")
			}
			if cc.Viol != "" {
				cf.Violation(idx, cc.Viol, "")
			}
		}
	}
	// ---- (1b) join conformance, in this process ----
	joinCap := 0
	for _, c := range k.JoinCaps {
		if c > joinCap {
			joinCap = c
		}
	}
	jr := lib.NewRng(f.Seed ^ 0x6a01)
	nJoin := 8
	if f.Tier == "thorough" {
		nJoin = 40
	}
	for i := 0; i < nJoin; i++ {
		r := jr.Fork()
		sc := genJoinScenario(r, i, joinCap)
		jc := runJoinScenario(sc, joinCap)
		early := jc.RunErr != ""
		idx := cf.Add(jc.Coq, jc, early || jc.Blocked)
		cf.Count("join_" + sc.Node + "_" + sc.Variant)
		if jc.Blocked {
			cf.Count("join_runs_returning_with_a_source_blocked")
		}
		if sc.NL > joinCap || sc.NR > joinCap {
			cf.Count("join_inputs_above_channel_capacity")
		}
		if jc.Viol != "" {
			cf.Violation(idx, jc.Viol, "")
		}
	}
	if err := cf.Write(f.Out); err != nil { // writes cases.v; the sidecar is rewritten below with the search cases appended
		return err
	}
	// search cases are not Coq cases: they follow the Coq cases in the sidecar (indices beyond the last Coq case)
	base := len(cf.Items)
	for i, sc := range sr.cases {
		cf.Side.Cases = append(cf.Side.Cases, sc)
		cf.Count("search_queries")
		cf.Count("search_" + sc.Kind)
		if sc.Viol != "" {
			cf.Violation(base+i, sc.Viol, "")
		}
	}
	if sr.note != "" {
		cf.Side.Notes = append(cf.Side.Notes, sr.note)
	}
	js, err := json.MarshalIndent(cf.Side, "", " ")
	if err != nil {
		return err
	}
	return os.WriteFile(filepath.Join(f.Out, "cases.json"), js, 0o644)
}

func tail(s string, n int) string {
	if len(s) > n {
		return s[len(s)-n:]
	}
	return s
}

// ------------------------------------------------------------------------------------------------
// search with the race detector
// ------------------------------------------------------------------------------------------------

type searchCase struct {
	Kind       string            `json:"kind"`
	Query      string            `json:"query"`
	Gomaxprocs int               `json:"gomaxprocs"`
	Stdin      string            `json:"stdin_file,omitempty"`
	Files      map[string]string `json:"files"` // name -> how it was generated
	Exit       int               `json:"exit_code"`
	WallMs     int64             `json:"wall_ms"`
	Viol       string            `json:"violation,omitempty"`
	Stderr     string            `json:"stderr_tail,omitempty"`
	ExpectFail bool              `json:"expect_error"`
	AnyExit    bool              `json:"any_exit_code"` // the query may succeed or fail cleanly; only races, crashes and hangs count
}

// buildRace builds the CLI of the tree under check with the race detector.  `go build` decides staleness
// itself (content hashes of every package of the working tree), so an unchanged tree costs about a second
// and any change of the tree is rebuilt.
func buildRace(repo string) (string, string, error) {
	verif := os.Getenv("VERIF_DIR")
	if verif == "" {
		verif = "/verif"
	}
	dir := filepath.Join(verif, ".build", "C29")
	os.MkdirAll(dir, 0o755)
	bin := filepath.Join(dir, "octosql-race")
	env := append(os.Environ(), "CGO_ENABLED=1", "GOFLAGS=-mod=mod", "GOPROXY=off", "GOSUMDB=off", "GOTOOLCHAIN=local")
	ctx, cancel := context.WithTimeout(context.Background(), 25*time.Minute)
	defer cancel()
	t0 := time.Now()
	cmd := exec.CommandContext(ctx, "go", "build", "-race", "-o", bin, ".")
	cmd.Dir, cmd.Env = repo, env
	out, err := cmd.CombinedOutput()
	if err == nil {
		return bin, fmt.Sprintf("race detector: go build -race of the CLI took %.1fs", time.Since(t0).Seconds()), nil
	}
	// no cgo / no C compiler: fall back to a plain build; the search then only finds non-termination
	bin2 := filepath.Join(dir, "octosql-norace")
	cmd = exec.CommandContext(ctx, "go", "build", "-o", bin2, ".")
	cmd.Dir, cmd.Env = repo, append(os.Environ(), "CGO_ENABLED=0", "GOFLAGS=-mod=mod", "GOPROXY=off", "GOSUMDB=off", "GOTOOLCHAIN=local")
	out2, err2 := cmd.CombinedOutput()
	if err2 != nil {
		return "", "", fmt.Errorf("the CLI does not build: %s", tail(string(out2), 1500))
	}
	return bin2, "RACE DETECTOR UNAVAILABLE (go build -race failed: " + tail(strings.TrimSpace(string(out)), 300) + "); the search ran without it and can only flag non-termination", nil
}

func writeJSONL(path string, n int, gen func(i int) string) {
	var b strings.Builder
	for i := 0; i < n; i++ {
		b.WriteString(gen(i))
		b.WriteByte('\n')
	}
	os.WriteFile(path, []byte(b.String()), 0o644)
}

func raceSearch(repo, work string, f lib.Flags, joinCap int) ([]searchCase, string) {
	bin, note, err := buildRace(repo)
	if err != nil {
		return []searchCase{{Kind: "build", Viol: err.Error()}}, ""
	}
	r := lib.NewRng(f.Seed ^ 0x5eed29)
	dir := filepath.Join(work, "search")
	home := filepath.Join(work, "home")
	os.MkdirAll(dir, 0o755)
	os.MkdirAll(home, 0o755)
	na, nb := 1500+r.Intn(2500), 800+r.Intn(1500)
	keys := 20 + r.Intn(60)
	files := map[string]string{
		"a.json":   fmt.Sprintf("%d lines {id,k=id%%%d,s=name<id%%7>}", na, keys),
		"b.json":   fmt.Sprintf("%d lines {id,k=id%%%d,t=val<id%%11>}", nb, keys),
		"bad.json": fmt.Sprintf("%d lines like a.json, line %d is malformed", na, 200+na/3),
		"big.json": "9000 lines {id,k,s} (more than batch*tokens)",
	}
	nh := 3 * joinCap // well above the capacity of the join's message channels
	if nh < 9000 {
		nh = 9000
	}
	files["hugel.json"] = fmt.Sprintf("%d lines {id,k,s} (3x the join channel capacity %d)", nh, joinCap)
	files["huger.json"] = fmt.Sprintf("%d lines {id,k,t}", nh)
	hugeBadAt := 150 + r.Intn(300)
	files["hugebad.json"] = fmt.Sprintf("%d lines like hugel.json, line %d is malformed", nh, hugeBadAt)
	writeJSONL(filepath.Join(dir, "hugel.json"), nh, func(i int) string {
		return fmt.Sprintf("{\"id\": %d, \"k\": %d, \"s\": \"name%d\"}", i, i%keys, i%7)
	})
	writeJSONL(filepath.Join(dir, "huger.json"), nh, func(i int) string {
		return fmt.Sprintf("{\"id\": %d, \"k\": %d, \"t\": \"val%d\"}", i, i%keys, i%11)
	})
	writeJSONL(filepath.Join(dir, "hugebad.json"), nh, func(i int) string {
		if i == hugeBadAt {
			return "{\"id\": 7, \"k\": "
		}
		return fmt.Sprintf("{\"id\": %d, \"k\": %d, \"s\": \"name%d\"}", i, i%keys, i%7)
	})
	writeJSONL(filepath.Join(dir, "a.json"), na, func(i int) string {
		return fmt.Sprintf("{\"id\": %d, \"k\": %d, \"s\": \"name%d\"}", i, i%keys, i%7)
	})
	writeJSONL(filepath.Join(dir, "b.json"), nb, func(i int) string {
		return fmt.Sprintf("{\"id\": %d, \"k\": %d, \"t\": \"val%d\"}", i, i%keys, i%11)
	})
	badAt := 200 + na/3
	writeJSONL(filepath.Join(dir, "bad.json"), na, func(i int) string {
		if i == badAt {
			return "{\"id\": 7, \"k\": "
		}
		return fmt.Sprintf("{\"id\": %d, \"k\": %d, \"s\": \"name%d\"}", i, i%keys, i%7)
	})
	writeJSONL(filepath.Join(dir, "big.json"), 9000, func(i int) string {
		return fmt.Sprintf("{\"id\": %d, \"k\": %d, \"s\": \"name%d\"}", i, i%keys, i%7)
	})
	// pattern columns: every row carries its own LIKE pattern and its own regular expression, so the operators'
	// process-wide pattern caches see far more distinct patterns than any bound a cache implementation may have
	np := 8*1024 + r.Intn(600) // several times any plausible cache bound, so a bounded cache is reset/evicted many times during the query
	files["pa.json"] = fmt.Sprintf("%d lines {id,s=name<id>,lp=name<id>%%,rp=^name<id>$,ip=^NAME<id>$}: %d distinct patterns per column", np, np)
	files["pb.json"] = fmt.Sprintf("%d lines {id,t=val<id>,lp=val<id>_,rp=^val<id>.$,ip=^VAL<id>.$}", np)
	writeJSONL(filepath.Join(dir, "pa.json"), np, func(i int) string {
		return fmt.Sprintf("{\"id\": %d, \"s\": \"name%d\", \"lp\": \"name%d%%\", \"rp\": \"^name%d$\", \"ip\": \"^NAME%d$\"}", i, i, i, i, i)
	})
	writeJSONL(filepath.Join(dir, "pb.json"), np, func(i int) string {
		return fmt.Sprintf("{\"id\": %d, \"t\": \"val%dx\", \"lp\": \"val%d_\", \"rp\": \"^val%d.$\", \"ip\": \"^VAL%d.$\"}", i, i, i, i, i)
	})
	lim := 1 + r.Intn(40)
	type q struct {
		kind, sql, stdin string
		fail             bool
		anyExit          bool
	}
	qs := []q{
		{"parallel_json", "SELECT COUNT(*), SUM(id) FROM a.json", "", false, false},
		{"parallel_json_big", "SELECT COUNT(*) FROM big.json WHERE s LIKE 'name%'", "", false, false},
		{"join_json", "SELECT COUNT(*) FROM a.json a JOIN b.json b ON a.k = b.k", "", false, false},
		{"join_like_regex", "SELECT COUNT(*) FROM a.json a JOIN b.json b ON a.k = b.k WHERE a.s LIKE 'name_' AND b.t ~ 'val[0-9]+' AND a.s ~* 'NAME[0-6]'", "", false, false},
		{"join_like_both", "SELECT a.id, b.id FROM (SELECT * FROM a.json x WHERE x.s LIKE '%me" + strconv.Itoa(r.Intn(7)) + "') a JOIN (SELECT * FROM b.json y WHERE y.t LIKE 'val%' AND y.t ~ '^val') b ON a.k = b.k", "", false, false},
		{"left_join", "SELECT COUNT(*) FROM a.json a LEFT JOIN b.json b ON a.id = b.id WHERE a.s LIKE 'na%'", "", false, false},
		{"limit", fmt.Sprintf("SELECT id FROM big.json LIMIT %d", lim), "", false, false},
		{"join_limit", fmt.Sprintf("SELECT a.id, b.id FROM big.json a JOIN b.json b ON a.k = b.k WHERE a.s LIKE 'name%%' LIMIT %d", lim), "", false, false},
		{"injected_error", "SELECT COUNT(*) FROM bad.json", "", true, false},
		{"join_injected_error", "SELECT COUNT(*) FROM bad.json a JOIN b.json b ON a.k = b.k WHERE b.t ~ 'val'", "", true, false},
		{"stdin", "SELECT COUNT(*) FROM stdin.json", "a.json", false, false},
		// early stop while far more input is pending on stdin than the scanner has buffered
		{"stdin_limit", fmt.Sprintf("SELECT id FROM stdin.json LIMIT %d", 1+r.Intn(4)), "hugel.json", false, false},
		{"stdin_limit", fmt.Sprintf("SELECT id, s FROM stdin.json WHERE s LIKE 'name%%' LIMIT %d", lim), "hugel.json", false, false},
		{"stdin_error", "SELECT COUNT(*) FROM stdin.json", "hugebad.json", true, false},
		{"stdin_join", "SELECT COUNT(*) FROM stdin.json a JOIN b.json b ON a.k = b.k WHERE a.s ~* 'NaMe'", "a.json", false, false},
		// early stop of a join whose inputs have far more rows left than the join's channels hold
		{"join_limit_over_capacity", fmt.Sprintf("SELECT l.id, r.id FROM hugel.json l JOIN huger.json r ON l.id = r.id LIMIT %d", 1+r.Intn(5)), "", false, false},
		{"left_join_limit_over_capacity", fmt.Sprintf("SELECT l.id, r.id FROM hugel.json l LEFT JOIN huger.json r ON l.id = r.id LIMIT %d", 1+r.Intn(5)), "", false, false},
		{"join_error_over_capacity", "SELECT COUNT(*) FROM hugebad.json l JOIN huger.json r ON l.id = r.id", "", true, false},
		{"join_like_limit_over_capacity", fmt.Sprintf("SELECT l.id FROM hugel.json l JOIN huger.json r ON l.id = r.id WHERE l.s LIKE 'name%%' AND r.t ~ 'val' LIMIT %d", 1+r.Intn(5)), "", false, false},
		// every process-wide cache of functions.go driven from both inputs of a join (two goroutines) with > 2000 distinct patterns
		{"join_like_pattern_column", "SELECT COUNT(*) FROM (SELECT * FROM pa.json x WHERE x.s LIKE x.lp) a JOIN (SELECT * FROM pb.json y WHERE y.t LIKE y.lp) b ON a.id = b.id", "", false, false},
		{"join_regex_pattern_column", "SELECT COUNT(*) FROM (SELECT * FROM pa.json x WHERE x.s ~ x.rp) a JOIN (SELECT * FROM pb.json y WHERE y.t ~ y.rp) b ON a.id = b.id", "", false, false},
		{"join_iregex_pattern_column", "SELECT COUNT(*) FROM (SELECT * FROM pa.json x WHERE x.s ~* x.ip) a JOIN (SELECT * FROM pb.json y WHERE y.t ~* y.ip) b ON a.id = b.id", "", false, false},
		// the stdin globals of execution/files (previewedBuffer, its mutex, the two counters) reached from two goroutines:
		// stdin opened by two sources of one query (the second open is refused; the query may fail, cleanly)
		{"stdin_self_join", "SELECT COUNT(*) FROM stdin.json a JOIN stdin.json b ON a.id = b.id", "a.json", false, true},
		{"stdin_self_left_join_limit", "SELECT a.id FROM stdin.json a LEFT JOIN stdin.json b ON a.id = b.id LIMIT 3", "hugel.json", false, true},
		{"stdin_two_sources_subquery", "SELECT COUNT(*) FROM (SELECT * FROM stdin.json x WHERE x.s LIKE 'name%') a JOIN (SELECT * FROM stdin.json y WHERE y.s LIKE 'name_') b ON a.id = b.id", "a.json", false, true},
		{"self_join", "SELECT COUNT(*) FROM a.json a JOIN a.json b ON a.id = b.id WHERE a.s LIKE b.s", "", false, false},
	}
	reps := 1
	if f.Tier == "thorough" {
		reps = 4
		qs = append(qs, q{"left_join_all_pattern_columns", "SELECT COUNT(*) FROM (SELECT * FROM pa.json x WHERE x.s ~ x.rp AND x.s ~* x.ip AND x.s LIKE x.lp) a LEFT JOIN (SELECT * FROM pb.json y WHERE y.t ~ y.rp AND y.t ~* y.ip AND y.t LIKE y.lp) b ON a.id = b.id", "", false, false})
	}
	var cases []searchCase
	for rep := 0; rep < reps; rep++ {
		for i, x := range qs {
			cases = append(cases, searchCase{Kind: x.kind, Query: x.sql, Stdin: x.stdin, Files: files, ExpectFail: x.fail, AnyExit: x.anyExit,
				Gomaxprocs: gomaxprocs[(i+rep+int(f.Seed))%len(gomaxprocs)]})
		}
	}
	sem := make(chan struct{}, 6)
	var wg sync.WaitGroup
	for i := range cases {
		wg.Add(1)
		go func(c *searchCase) {
			defer wg.Done()
			sem <- struct{}{}
			defer func() { <-sem }()
			runQuery(bin, dir, home, c)
		}(&cases[i])
	}
	wg.Wait()
	return cases, note
}

const queryTimeout = 60 * time.Second
const hardTimeout = 6 * time.Minute

// procCPU returns the CPU seconds (user+system) a process has used so far, or -1.
func procCPU(pid int) float64 {
	b, err := os.ReadFile(fmt.Sprintf("/proc/%d/stat", pid))
	if err != nil {
		return -1
	}
	s := string(b)
	i := strings.LastIndex(s, ")") // the command name may contain spaces
	if i < 0 {
		return -1
	}
	f := strings.Fields(s[i+1:])
	if len(f) < 13 {
		return -1
	}
	ut, e1 := strconv.ParseFloat(f[11], 64) // fields 14 and 15 of the stat line
	st, e2 := strconv.ParseFloat(f[12], 64)
	if e1 != nil || e2 != nil {
		return -1
	}
	return (ut + st) / 100
}

func runQuery(bin, dir, home string, c *searchCase) {
	cmd := exec.Command(bin, c.Query, "-o", "json")
	cmd.Dir = dir
	cmd.Env = append(os.Environ(), "OCTOSQL_NO_TELEMETRY=1", "HOME="+home, "GOMAXPROCS="+strconv.Itoa(c.Gomaxprocs),
		"GORACE=halt_on_error=0 exitcode=66")
	if c.Stdin != "" {
		in, err := os.Open(filepath.Join(dir, c.Stdin))
		if err == nil {
			defer in.Close()
			cmd.Stdin = in
		}
	}
	var eb, ob bytes.Buffer
	cmd.Stderr, cmd.Stdout = &eb, &ob
	t0 := time.Now()
	hung := ""
	err := cmd.Start()
	if err == nil {
		// Wall-clock oracle that survives a loaded machine: after queryTimeout the query is declared hung only if
		// it has also stopped consuming CPU (a deadlocked Go process is idle); a query that is still computing gets
		// more time, up to hardTimeout (which also bounds a livelock).
		done := make(chan error, 1)
		go func() { done <- cmd.Wait() }()
		lastCPU, lastAt := procCPU(cmd.Process.Pid), time.Now()
	wait:
		for {
			select {
			case err = <-done:
				break wait
			case <-time.After(2 * time.Second):
			}
			wall := time.Since(t0)
			if time.Since(lastAt) >= 10*time.Second {
				cur := procCPU(cmd.Process.Pid)
				idle := cur >= 0 && lastCPU >= 0 && cur-lastCPU < 0.3
				lastCPU, lastAt = cur, time.Now()
				if wall > queryTimeout && (idle || cur < 0) {
					hung = fmt.Sprintf("NON-TERMINATION: the query did not finish within %v and used no CPU in its last 10 s (GOMAXPROCS=%d)", wall.Round(time.Second), c.Gomaxprocs)
				}
			}
			if hung == "" && wall > hardTimeout {
				hung = fmt.Sprintf("NON-TERMINATION: the query did not finish within %v (GOMAXPROCS=%d)", hardTimeout, c.Gomaxprocs)
			}
			if hung != "" {
				cmd.Process.Kill()
				err = <-done
				break wait
			}
		}
	}
	c.WallMs = time.Since(t0).Milliseconds()
	if cmd.ProcessState != nil {
		c.Exit = cmd.ProcessState.ExitCode()
	}
	es := eb.String()
	switch {
	case hung != "":
		c.Viol = hung
	case strings.Contains(es, "WARNING: DATA RACE"):
		c.Viol = "DATA RACE reported by the race detector: " + firstRace(es)
	case strings.Contains(es, "fatal error: all goroutines are asleep - deadlock!"):
		c.Viol = "DEADLOCK reported by the Go runtime"
	case strings.Contains(es, "panic:") || strings.Contains(es, "fatal error:"):
		c.Viol = "the process crashed: " + tail(es, 600)
	case c.AnyExit:
	case err != nil && !c.ExpectFail:
		c.Viol = fmt.Sprintf("the query failed (exit %d): %s", c.Exit, tail(es, 400))
	case err == nil && c.ExpectFail:
		c.Viol = "the query over a file with a malformed line exited 0"
	}
	if c.Viol != "" {
		c.Stderr = tail(es, 3000)
	}
}

func firstRace(es string) string {
	i := strings.Index(es, "WARNING: DATA RACE")
	s := es[i:]
	if j := strings.Index(s, "Goroutine "); j > 0 {
		s = s[:j]
	}
	if len(s) > 1200 {
		s = s[:1200]
	}
	return strings.Join(strings.Fields(s), " ")
}
