// c01: single-source SELECT through the built CLI (WHERE, projections, DISTINCT, ORDER BY, LIMIT, subquery in
// FROM, WITH) on generated CSV/JSON tables; the rows printed with -o json are the observation.  A sample of
// the cases is run again with -o csv, -o stream_native, -o batch_table and --optimize=false and compared on
// the Go side with the -o json rows.
package main

import (
	"fmt"
	"os"
	"path/filepath"

	"verifharness/cmd/c01/relq"
	"verifharness/lib"
)

func main() {
	f := lib.ParseFlags()
	if f.Cmd != "run" {
		fmt.Fprintln(os.Stderr, "c01: only 'run'")
		os.Exit(2)
	}
	out, _ := filepath.Abs(f.Out)
	work := filepath.Join(out, "work")
	home := filepath.Join(work, "home")
	os.MkdirAll(home, 0o755)
	bin, err := relq.BuildCLI(work)
	if err != nil {
		fmt.Fprintln(os.Stderr, err)
		os.Exit(2)
	}
	rng := lib.NewRng(f.Seed)
	cf := lib.NewCaseFile("C01", f.Seed, f.Tier)
	cf.Imports = []string{"Rel"}
	cf.CaseType = "rel_case"
	cf.Checks = []lib.Check{{Name: "tie", Kind: "tie", Fn: "rel_tie"}, {Name: "spec", Kind: "spec", Fn: "rel_spec"}}
	cf.Side.Rule = "depth-bounded well-typed queries of the fragment (SELECT [DISTINCT] items FROM table|subquery|WITH name [WHERE] [GROUP BY] " +
		"[ORDER BY] [LIMIT]; Int/String/Boolean/NULL expressions) over 1-2 generated CSV/JSON tables (0..8 rows, NULL-heavy, duplicate rows, " +
		"ints at the int64 limits, strings with non-ASCII and non-UTF-8 bytes, '%'), run through the built CLI with -o json; " +
		"non-trivial = at least one output row and a WHERE, DISTINCT, ORDER BY, GROUP BY or nested source; distinct by full case text. " +
		"Never generated: LIMIT 0 and ORDER BY+LIMIT over rows that may repeat (C05's defects), LIMIT without ORDER BY over grouping output (hash order)."
	n := f.Cases(320, 3200)
	cases, err := relq.Generate(rng, n, relq.Profile{GroupBias: 2, MaxDepth: 2, AllowErrors: true}, bin, home, work)
	if err != nil {
		fmt.Fprintln(os.Stderr, err)
		os.Exit(2)
	}
	idxs := make([]int, len(cases))
	for i, c := range cases {
		idxs[i] = relq.AddCase(cf, c)
	}
	// other output modes and the optimizer switch, on a sample (every case with a '%' goes through stream_native)
	type job struct {
		i    int
		mode string
	}
	var jobs []job
	modes := []string{"csv", "stream_native", "batch_table", "noopt"}
	for i, c := range cases {
		if c.IsErr {
			continue
		}
		pct := false
		for _, r := range c.Rows {
			for _, v := range r {
				if v.K == relq.KStr {
					for k := 0; k < len(v.S); k++ {
						if v.S[k] == '%' {
							pct = true
						}
					}
				}
			}
		}
		if pct {
			jobs = append(jobs, job{i, "stream_native"})
		}
		if i%4 == 0 {
			jobs = append(jobs, job{i, modes[(i/4)%len(modes)]})
		}
	}
	diffs := make([]string, len(jobs))
	relq.Parallel(len(jobs), 8, func(k int) { diffs[k] = relq.CrossCheck(cases[jobs[k].i], bin, home, jobs[k].mode) })
	for k, j := range jobs {
		cf.Count("crosscheck_" + j.mode)
		if diffs[k] != "" {
			cf.Violation(idxs[j.i], diffs[k], "")
		}
	}
	os.RemoveAll(filepath.Join(work, "home"))
	if err := cf.Write(f.Out); err != nil {
		fmt.Fprintln(os.Stderr, err)
		os.Exit(2)
	}
}
