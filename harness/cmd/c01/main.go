// c01: single-source SELECT through the built CLI (WHERE, projections, DISTINCT, ORDER BY, LIMIT, subquery in
// FROM, WITH) on generated CSV/JSON tables; the rows printed with -o json are the observation.  A sample of
// the cases is run again with -o csv, -o stream_native, -o batch_table and --optimize=false and compared on
// the Go side with the -o json rows.
package main

import (
	"fmt"
	"os"
	"path/filepath"

	"verifharness/cmd/c01/relq"
	"verifharness/lib"
)

func main() {
	f := lib.ParseFlags()
	if f.Cmd != "run" {
		fmt.Fprintln(os.Stderr, "c01: only 'run'")
		os.Exit(2)
	}
	out, _ := filepath.Abs(f.Out)
	work := filepath.Join(out, "work")
	home := filepath.Join(work, "home")
	os.MkdirAll(home, 0o755)
	bin, err := relq.BuildCLI(work)
	if err != nil {
		fmt.Fprintln(os.Stderr, err)
		os.Exit(2)
	}
	rng := lib.NewRng(f.Seed*1000003 + 17) // lib's streams for consecutive seeds are one step apart
	cf := lib.NewCaseFile("C01", f.Seed, f.Tier)
	cf.Imports = []string{"Rel"}
	cf.CaseType = "rel_case"
	cf.Checks = []lib.Check{{Name: "tie", Kind: "tie", Fn: "rel_tie"}, {Name: "spec", Kind: "spec", Fn: "rel_spec"}}
	cf.Side.Rule = "depth-bounded well-typed queries of the fragment (SELECT [DISTINCT] items FROM table|subquery|WITH name [WHERE] [GROUP BY] " +
		"[ORDER BY] [LIMIT]; Int/String/Boolean/NULL expressions) over 1-2 generated CSV/JSON tables (0..8 rows, NULL-heavy, duplicate rows, " +
		"ints at the int64 limits, strings with non-ASCII and non-UTF-8 bytes, '%'), run through the built CLI with -o json; " +
		"non-trivial = at least one output row and a WHERE, DISTINCT, ORDER BY, GROUP BY or nested source; distinct by full case text. " +
		"Plus the ORDER BY + LIMIT family (runs of fully equal rows, LIMIT 0 .. rows+1, top-level and in a subquery), each case also through " +
		"-o batch_table, -o csv and -o stream_native. Never generated: LIMIT without ORDER BY over grouping output (hash order)."
	n := f.Cases(240, 2400)
	cases, err := relq.Generate(rng, n, relq.Profile{GroupBias: 2, MaxDepth: 2, AllowErrors: true, AliasShapes: true, AllowTripleMap: true, TripleClass: "c01-triple-name", KeyClass: "c01-key-name", Floats: true}, bin, home, work)
	if err != nil {
		fmt.Fprintln(os.Stderr, err)
		os.Exit(2)
	}
	// the ORDER BY + LIMIT family: runs of equal rows, every limit from 0 to past the end, top-level and nested;
	// each case goes through every output mode
	nol := f.Cases(48, 480)
	if f.N > 0 {
		nol = f.N / 5
	}
	olCases, err := relq.Generate(rng, nol, relq.Profile{OrderLimit: true, Simple: true}, bin, home, filepath.Join(work, "ol"))
	if err != nil {
		fmt.Fprintln(os.Stderr, err)
		os.Exit(2)
	}
	first := len(cases)
	cases = append(cases, olCases...)
	// the nested-relation family (subquery in FROM / WITH read in part by the outer select), also with the optimizer off
	nestedCases, err := relq.Generate(rng, nol, relq.Profile{Nested: true, Simple: true}, bin, home, filepath.Join(work, "nested"))
	if err != nil {
		fmt.Fprintln(os.Stderr, err)
		os.Exit(2)
	}
	firstNested := len(cases)
	cases = append(cases, nestedCases...)
	// the three-valued-logic family (WHERE keeps TRUE only; NULL propagation through NOT / AND / OR / =)
	logicCases, err := relq.Generate(rng, nol, relq.Profile{Logic: true, Simple: true}, bin, home, filepath.Join(work, "logic"))
	if err != nil {
		fmt.Fprintln(os.Stderr, err)
		os.Exit(2)
	}
	firstLogic := len(cases)
	cases = append(cases, logicCases...)
	idxs := make([]int, len(cases))
	for i, c := range cases {
		idxs[i] = relq.AddCase(cf, c)
	}
	// other output modes and the optimizer switch, on a sample (every case with a '%' goes through stream_native)
	type job struct {
		i    int
		mode string
	}
	var jobs []job
	modes := []string{"csv", "stream_native", "batch_table", "noopt"}
	for i, c := range cases {
		if c.IsErr {
			continue
		}
		pct := false
		for _, r := range c.Rows {
			for _, v := range r {
				if v.K == relq.KStr {
					for k := 0; k < len(v.S); k++ {
						if v.S[k] == '%' {
							pct = true
						}
					}
				}
			}
		}
		if pct {
			jobs = append(jobs, job{i, "stream_native"})
		}
		if i >= firstLogic {
			continue
		}
		if i >= firstNested {
			jobs = append(jobs, job{i, "noopt"})
			continue
		}
		if i >= first {
			jobs = append(jobs, job{i, "batch_table"}, job{i, "csv"}, job{i, "stream_native"})
			continue
		}
		if i%4 == 0 {
			jobs = append(jobs, job{i, modes[(i/4)%len(modes)]})
		}
		if c.Top.Main.Limit != nil && len(c.Top.Main.OrderBy) > 0 && (i/4)%len(modes) != 2 {
			jobs = append(jobs, job{i, "batch_table"}) // the table printer sorts and limits on its own
		}
	}
	diffs := make([]string, len(jobs))
	relq.Parallel(len(jobs), 8, func(k int) { diffs[k] = relq.CrossCheck(cases[jobs[k].i], bin, home, jobs[k].mode) })
	for k, j := range jobs {
		cf.Count("crosscheck_" + j.mode)
		if diffs[k] != "" {
			cf.Violation(idxs[j.i], diffs[k], "")
		}
	}
	os.RemoveAll(filepath.Join(work, "home"))
	if err := cf.Write(f.Out); err != nil {
		fmt.Fprintln(os.Stderr, err)
		os.Exit(2)
	}
}
