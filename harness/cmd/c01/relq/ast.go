// Package relq: the SQL fragment of C01/C03 as a Go AST with a generator of well-typed queries over
// generated CSV/JSON tables, an SQL printer, a printer of Coq terms of Model/Rel.v, the CLI runner and the
// parsers of the CLI's stdout.  Shared by the engines c01 and c03.
package relq

import (
	"fmt"
	"math"
	"strconv"
	"strings"

	"verifharness/lib"
)

// ---- values (the fragment: NULL, Int, Boolean, String, lists of those) ----

type Kind int

const (
	KNull Kind = iota
	KInt
	KBool
	KStr
	KList
	KFloat
)

type Val struct {
	K    Kind
	I    int64
	B    bool
	S    string
	F    float64
	List []Val
}

func Null() Val           { return Val{K: KNull} }
func Int(i int64) Val     { return Val{K: KInt, I: i} }
func Bool(b bool) Val     { return Val{K: KBool, B: b} }
func Str(s string) Val    { return Val{K: KStr, S: s} }
func Float(f float64) Val { return Val{K: KFloat, F: f} }
func ListOf(l []Val) Val  { return Val{K: KList, List: l} }

func (v Val) Coq() string {
	switch v.K {
	case KNull:
		return "VNull"
	case KInt:
		return "VInt " + lib.Z(v.I)
	case KBool:
		return "VBool " + lib.CoqBool(v.B)
	case KStr:
		return "VStr " + lib.CoqBytes(v.S)
	case KFloat:
		return "VFloat " + lib.U(math.Float64bits(v.F))
	default:
		parts := make([]string, len(v.List))
		for i := range v.List {
			parts[i] = v.List[i].Coq()
		}
		return "VList [" + strings.Join(parts, "; ") + "]"
	}
}

func (v Val) JSON() interface{} {
	switch v.K {
	case KNull:
		return nil
	case KInt:
		return fmt.Sprint(v.I)
	case KBool:
		return v.B
	case KStr:
		return fmt.Sprintf("%q", v.S)
	case KFloat:
		return fmt.Sprintf("float %v", v.F)
	default:
		out := make([]interface{}, len(v.List))
		for i := range v.List {
			out[i] = v.List[i].JSON()
		}
		return out
	}
}

func (v Val) Equal(w Val) bool {
	if v.K != w.K {
		return false
	}
	switch v.K {
	case KInt:
		return v.I == w.I
	case KBool:
		return v.B == w.B
	case KStr:
		return v.S == w.S
	case KFloat:
		return math.Float64bits(v.F) == math.Float64bits(w.F)
	case KList:
		if len(v.List) != len(w.List) {
			return false
		}
		for i := range v.List {
			if !v.List[i].Equal(w.List[i]) {
				return false
			}
		}
	}
	return true
}

func CoqRow(r []Val) string {
	parts := make([]string, len(r))
	for i := range r {
		parts[i] = r[i].Coq()
	}
	return "[" + strings.Join(parts, "; ") + "]"
}

func CoqRows(rows [][]Val) string {
	parts := make([]string, len(rows))
	for i := range rows {
		parts[i] = CoqRow(rows[i])
	}
	return "[" + strings.Join(parts, "; ") + "]"
}

func RowsJSON(rows [][]Val) []interface{} {
	out := make([]interface{}, len(rows))
	for i := range rows {
		r := make([]interface{}, len(rows[i]))
		for j := range rows[i] {
			r[j] = rows[i][j].JSON()
		}
		out[i] = r
	}
	return out
}

func CoqName(s string) string { return lib.CoqBytes(s) }

// ---- expressions ----

type Expr interface {
	SQL() string
	Coq() string
}

type Col struct {
	Qual string // "" = unqualified
	Name string
}

func (c Col) SQL() string {
	if c.Qual != "" {
		return c.Qual + "." + c.Name
	}
	return c.Name
}
func (c Col) Coq() string {
	if c.Qual != "" {
		return fmt.Sprintf("ECol (Some %s) %s", CoqName(c.Qual), CoqName(c.Name))
	}
	return fmt.Sprintf("ECol None %s", CoqName(c.Name))
}

type Lit struct{ V Val }

func (l Lit) SQL() string {
	switch l.V.K {
	case KNull:
		return "NULL"
	case KInt:
		return fmt.Sprint(l.V.I)
	case KBool:
		if l.V.B {
			return "TRUE"
		}
		return "FALSE"
	case KFloat:
		t := strconv.FormatFloat(l.V.F, 'f', -1, 64)
		if !strings.Contains(t, ".") {
			t += ".0"
		}
		return t
	default:
		return "'" + l.V.S + "'" // the generator draws literals without quotes and backslashes
	}
}
func (l Lit) Coq() string { return "ELit (" + l.V.Coq() + ")" }

type Bin struct {
	Op   string // + - * = != < <= > >=
	A, B Expr
}

var binCoq = map[string]string{"+": "BAdd", "-": "BSub", "*": "BMul", "=": "BEq", "!=": "BNe", "<": "BLt", "<=": "BLe", ">": "BGt", ">=": "BGe"}

func (b Bin) SQL() string { return "(" + b.A.SQL() + " " + b.Op + " " + b.B.SQL() + ")" }
func (b Bin) Coq() string {
	return fmt.Sprintf("EBin %s (%s) (%s)", binCoq[b.Op], b.A.Coq(), b.B.Coq())
}

type Un struct {
	Op string // neg not isnull isnotnull
	A  Expr
}

func (u Un) SQL() string {
	switch u.Op {
	case "neg":
		return "(- " + u.A.SQL() + ")"
	case "not":
		return "(NOT " + u.A.SQL() + ")"
	case "isnull":
		return "(" + u.A.SQL() + " IS NULL)"
	default:
		return "(" + u.A.SQL() + " IS NOT NULL)"
	}
}
func (u Un) Coq() string {
	op := map[string]string{"neg": "UNeg", "not": "UNot", "isnull": "UIsNull", "isnotnull": "UIsNotNull"}[u.Op]
	return fmt.Sprintf("EUn %s (%s)", op, u.A.Coq())
}

type And struct{ A, B Expr }

func (a And) SQL() string { return "(" + a.A.SQL() + " AND " + a.B.SQL() + ")" }
func (a And) Coq() string { return fmt.Sprintf("EAnd (%s) (%s)", a.A.Coq(), a.B.Coq()) }

type Or struct{ A, B Expr }

func (a Or) SQL() string { return "(" + a.A.SQL() + " OR " + a.B.SQL() + ")" }
func (a Or) Coq() string { return fmt.Sprintf("EOr (%s) (%s)", a.A.Coq(), a.B.Coq()) }

// ---- queries ----

type Item struct {
	Star  bool
	QStar string // t.* (with Star)
	Agg   string // "" for a plain expression; count sum avg min max array_agg
	Dist  bool
	CStar bool // count(*)
	E     Expr
	Alias string // the name of the output column (what the parser makes of the alias / the generated name)
	// how the item is written: without AS (NoAlias), or AS SQLAlias when that differs from the column name
	// (an alias that repeats another column's name gets a numeric suffix from the parser)
	NoAlias  bool
	SQLAlias string
}

// the alias as written (the Coq model derives the column name itself)
func (it Item) coqAlias() string {
	switch {
	case it.NoAlias:
		return "None"
	case it.SQLAlias != "":
		return "(Some " + CoqName(it.SQLAlias) + ")"
	default:
		return "(Some " + CoqName(it.Alias) + ")"
	}
}

func (it Item) as() string {
	if it.NoAlias {
		return ""
	}
	if it.SQLAlias != "" {
		return " AS " + it.SQLAlias
	}
	return " AS " + it.Alias
}

var aggCoq = map[string]string{"count": "ACount", "sum": "ASum", "avg": "AAvg", "min": "AMin", "max": "AMax", "array_agg": "AArr"}

func (it Item) SQL() string {
	switch {
	case it.Star && it.QStar != "":
		return it.QStar + ".*"
	case it.Star:
		return "*"
	case it.Agg != "":
		arg := it.E.SQL()
		if it.CStar {
			arg = "*"
		}
		if it.Dist {
			arg = "DISTINCT " + arg
		}
		return fmt.Sprintf("%s(%s)%s", it.Agg, arg, it.as())
	default:
		return it.E.SQL() + it.as()
	}
}
func (it Item) Coq() string {
	switch {
	case it.Star && it.QStar != "":
		return "IQStar " + CoqName(it.QStar)
	case it.Star:
		return "IStar"
	case it.Agg != "":
		return fmt.Sprintf("IAgg %s %s (%s) %s", aggCoq[it.Agg], lib.CoqBool(it.Dist), it.E.Coq(), it.coqAlias())
	default:
		return fmt.Sprintf("IExpr (%s) %s", it.E.Coq(), it.coqAlias())
	}
}

type OrderKey struct {
	E    Expr
	Desc bool
}

type Source struct {
	Kind  string // table sub cte
	Table string // table: file name without directory, e.g. t1.csv ; cte: name
	Alias string // table: alias the fields carry; sub: subquery alias
	// ExplicitAlias: print "FROM file alias"; otherwise the alias is the one octosql derives from the file name
	ExplicitAlias bool
	Sub           *Query
}

type Query struct {
	Distinct bool
	Items    []Item
	From     Source
	Where    Expr // nil
	GroupBy  []Expr
	Trigger  string // text after TRIGGER ("" = none); the relational result does not depend on it
	OrderBy  []OrderKey
	Limit    *int64
}

type Top struct {
	CTEs  []CTE
	Main  *Query
	Files map[string]string // table name in the model -> path handed to octosql (filled by the runner)
}

type CTE struct {
	Name string
	Q    *Query
}

func (s Source) SQL(path func(string) string) string {
	switch s.Kind {
	case "table":
		if s.ExplicitAlias {
			return path(s.Table) + " " + s.Alias
		}
		return path(s.Table)
	case "sub":
		return "(" + s.Sub.SQL(path) + ") " + s.Alias
	default:
		return s.Table
	}
}

func (s Source) Coq() string {
	switch s.Kind {
	case "table":
		return fmt.Sprintf("STable %s %s", CoqName(s.Table), CoqName(s.Alias))
	case "sub":
		return fmt.Sprintf("SSub (%s) %s", s.Sub.Coq(), CoqName(s.Alias))
	default:
		return fmt.Sprintf("SCte %s", CoqName(s.Table))
	}
}

func (q *Query) SQL(path func(string) string) string {
	var b strings.Builder
	b.WriteString("SELECT ")
	if q.Distinct {
		b.WriteString("DISTINCT ")
	}
	items := make([]string, len(q.Items))
	for i := range q.Items {
		items[i] = q.Items[i].SQL()
	}
	b.WriteString(strings.Join(items, ", "))
	b.WriteString(" FROM " + q.From.SQL(path))
	if q.Where != nil {
		b.WriteString(" WHERE " + q.Where.SQL())
	}
	if len(q.GroupBy) > 0 {
		ks := make([]string, len(q.GroupBy))
		for i := range q.GroupBy {
			ks[i] = q.GroupBy[i].SQL()
		}
		b.WriteString(" GROUP BY " + strings.Join(ks, ", "))
	}
	if q.Trigger != "" {
		b.WriteString(" TRIGGER " + q.Trigger)
	}
	if len(q.OrderBy) > 0 {
		ks := make([]string, len(q.OrderBy))
		for i := range q.OrderBy {
			ks[i] = q.OrderBy[i].E.SQL()
			if q.OrderBy[i].Desc {
				ks[i] += " DESC"
			} else {
				ks[i] += " ASC"
			}
		}
		b.WriteString(" ORDER BY " + strings.Join(ks, ", "))
	}
	if q.Limit != nil {
		b.WriteString(fmt.Sprintf(" LIMIT %d", *q.Limit))
	}
	return b.String()
}

func (q *Query) Coq() string {
	items := make([]string, len(q.Items))
	for i := range q.Items {
		items[i] = q.Items[i].Coq()
	}
	wh := "None"
	if q.Where != nil {
		wh = "(Some (" + q.Where.Coq() + "))"
	}
	gb := make([]string, len(q.GroupBy))
	for i := range q.GroupBy {
		gb[i] = q.GroupBy[i].Coq()
	}
	ob := make([]string, len(q.OrderBy))
	for i := range q.OrderBy {
		ob[i] = fmt.Sprintf("(%s, %s)", q.OrderBy[i].E.Coq(), lib.CoqBool(q.OrderBy[i].Desc))
	}
	lim := "None"
	if q.Limit != nil {
		lim = "(Some " + lib.Z(*q.Limit) + ")"
	}
	return fmt.Sprintf("Q %s [%s] (%s) %s [%s] [%s] %s", lib.CoqBool(q.Distinct), strings.Join(items, "; "), q.From.Coq(), wh,
		strings.Join(gb, "; "), strings.Join(ob, "; "), lim)
}

func (t *Top) SQL(path func(string) string) string {
	if len(t.CTEs) == 0 {
		return t.Main.SQL(path)
	}
	parts := make([]string, len(t.CTEs))
	for i, c := range t.CTEs {
		parts[i] = c.Name + " AS (" + c.Q.SQL(path) + ")"
	}
	return "WITH " + strings.Join(parts, ", ") + " " + t.Main.SQL(path)
}

func (t *Top) Coq() string {
	parts := make([]string, len(t.CTEs))
	for i, c := range t.CTEs {
		parts[i] = fmt.Sprintf("(%s, %s)", CoqName(c.Name), c.Q.Coq())
	}
	return fmt.Sprintf("([%s], %s)", strings.Join(parts, "; "), t.Main.Coq())
}

// ---- tables ----

type Table struct {
	Name  string // t1.csv / t2.json  (the model's table name)
	Cols  []string
	Types []Kind // KInt KStr KBool, or KNull when the column holds no non-NULL value
	Rows  [][]Val
}

func (t *Table) Coq() string {
	fs := make([]string, len(t.Cols))
	for i, c := range t.Cols {
		fs[i] = "(None, " + CoqName(c) + ")"
	}
	return fmt.Sprintf("(%s, mkrel [%s] %s)", CoqName(t.Name), strings.Join(fs, "; "), CoqRows(t.Rows))
}

func CoqDB(ts []*Table) string {
	parts := make([]string, len(ts))
	for i := range ts {
		parts[i] = ts[i].Coq()
	}
	return "[" + strings.Join(parts, "; ") + "]"
}
