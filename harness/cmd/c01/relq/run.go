package relq

import (
	"bytes"
	"context"
	"encoding/csv"
	"fmt"
	"os"
	"os/exec"
	"path/filepath"
	"strconv"
	"strings"
	"sync"
	"time"
)

// BuildCLI builds the octosql binary of $VERIF_REPO once per run.
func BuildCLI(dir string) (string, error) {
	repo := os.Getenv("VERIF_REPO")
	if repo == "" {
		repo = "/repo"
	}
	if abs, err := filepath.Abs(dir); err == nil {
		dir = abs
	}
	bin := filepath.Join(dir, "octosql")
	cmd := exec.Command("go", "build", "-o", bin, ".")
	cmd.Dir = repo
	cmd.Env = append(os.Environ(), "GOFLAGS=-mod=mod", "GOPROXY=off", "GOSUMDB=off", "GOTOOLCHAIN=local", "CGO_ENABLED=0")
	out, err := cmd.CombinedOutput()
	if err != nil {
		return "", fmt.Errorf("go build of the CLI failed: %v\n%s", err, out)
	}
	return bin, nil
}

// WriteTable writes the table as a CSV or JSON-lines file.
func WriteTable(dir string, t *Table) (string, error) {
	path := filepath.Join(dir, t.Name)
	var b bytes.Buffer
	if strings.HasSuffix(t.Name, ".csv") {
		w := csv.NewWriter(&b)
		w.Write(t.Cols)
		for _, row := range t.Rows {
			cells := make([]string, len(row))
			for i, v := range row {
				switch v.K {
				case KNull:
					cells[i] = ""
				case KInt:
					cells[i] = strconv.FormatInt(v.I, 10)
				case KBool:
					cells[i] = strconv.FormatBool(v.B)
				case KStr:
					cells[i] = v.S
				case KFloat:
					cells[i] = strconv.FormatFloat(v.F, 'f', -1, 64)
					if !strings.Contains(cells[i], ".") {
						cells[i] += ".0" // "0" / "-0" would be read as Int
					}
				}
			}
			if len(cells) == 1 && cells[0] == "" {
				b.WriteString("\"\"\n") // encoding/csv would write an empty line, which readers skip
				w.Flush()
				continue
			}
			w.Write(cells)
		}
		w.Flush()
	} else {
		for _, row := range t.Rows {
			b.WriteByte('{')
			for i, v := range row {
				if i > 0 {
					b.WriteByte(',')
				}
				b.WriteString(strconv.Quote(t.Cols[i]) + ":")
				switch v.K {
				case KNull:
					b.WriteString("null")
				case KBool:
					b.WriteString(strconv.FormatBool(v.B))
				case KStr:
					b.WriteString(jsonQuote(v.S))
				case KInt:
					b.WriteString(strconv.FormatInt(v.I, 10))
				case KFloat:
					b.WriteString(strconv.FormatFloat(v.F, 'g', -1, 64))
				}
			}
			b.WriteString("}\n")
		}
	}
	return path, os.WriteFile(path, b.Bytes(), 0o644)
}

func jsonQuote(s string) string {
	var b strings.Builder
	b.WriteByte('"')
	for i := 0; i < len(s); i++ {
		c := s[i]
		switch {
		case c == '"':
			b.WriteString("\\\"")
		case c == '\\':
			b.WriteString("\\\\")
		case c == '\n':
			b.WriteString("\\n")
		case c == '\t':
			b.WriteString("\\t")
		case c < 0x20:
			fmt.Fprintf(&b, "\\u%04x", c)
		default:
			b.WriteByte(c)
		}
	}
	b.WriteByte('"')
	return b.String()
}

// Result of one CLI invocation.
type Result struct {
	Stdout   []byte
	Stderr   string
	ExitCode int
	Crashed  bool // Go panic / signal
	TimedOut bool
}

func RunCLI(bin, home, dir, query string, extra ...string) Result {
	ctx, cancel := context.WithTimeout(context.Background(), 30*time.Second)
	defer cancel()
	args := append([]string{query}, extra...)
	cmd := exec.CommandContext(ctx, bin, args...)
	cmd.Dir = dir
	cmd.Env = []string{"OCTOSQL_NO_TELEMETRY=1", "HOME=" + home, "PATH=" + os.Getenv("PATH")}
	var so, se bytes.Buffer
	cmd.Stdout, cmd.Stderr = &so, &se
	err := cmd.Run()
	res := Result{Stdout: so.Bytes(), Stderr: se.String()}
	if ctx.Err() != nil {
		res.TimedOut = true
	}
	if err != nil {
		if ee, ok := err.(*exec.ExitError); ok {
			res.ExitCode = ee.ExitCode()
		} else {
			res.ExitCode = -1
		}
	}
	if strings.Contains(res.Stderr, "panic:") || strings.Contains(res.Stderr, "goroutine ") || strings.Contains(res.Stderr, "fatal error:") || res.ExitCode == 2 || res.ExitCode == -1 {
		res.Crashed = true
	}
	return res
}

// Parallel runs f(i) for i in [0,n) on w workers.
func Parallel(n, w int, f func(i int)) {
	var wg sync.WaitGroup
	ch := make(chan int)
	for k := 0; k < w; k++ {
		wg.Add(1)
		go func() {
			defer wg.Done()
			for i := range ch {
				f(i)
			}
		}()
	}
	for i := 0; i < n; i++ {
		ch <- i
	}
	close(ch)
	wg.Wait()
}

// ---- parsing the CLI's `-o json` output: one object per line, keys in schema order; bytes kept as they are ----

type jparser struct {
	s []byte
	i int
}

func (p *jparser) ws() {
	for p.i < len(p.s) && (p.s[p.i] == ' ' || p.s[p.i] == '\t') {
		p.i++
	}
}

func (p *jparser) str() (string, error) {
	if p.i >= len(p.s) || p.s[p.i] != '"' {
		return "", fmt.Errorf("expected string at %d", p.i)
	}
	p.i++
	var b []byte
	for p.i < len(p.s) {
		c := p.s[p.i]
		switch {
		case c == '"':
			p.i++
			return string(b), nil
		case c == '\\':
			if p.i+1 >= len(p.s) {
				return "", fmt.Errorf("dangling escape")
			}
			e := p.s[p.i+1]
			p.i += 2
			switch e {
			case '"', '\\', '/':
				b = append(b, e)
			case 'n':
				b = append(b, '\n')
			case 't':
				b = append(b, '\t')
			case 'r':
				b = append(b, '\r')
			case 'b':
				b = append(b, '\b')
			case 'f':
				b = append(b, '\f')
			case 'u':
				if p.i+4 > len(p.s) {
					return "", fmt.Errorf("short \\u escape")
				}
				n, err := strconv.ParseUint(string(p.s[p.i:p.i+4]), 16, 32)
				if err != nil {
					return "", err
				}
				p.i += 4
				b = append(b, []byte(string(rune(n)))...)
			default:
				return "", fmt.Errorf("escape \\%c is not JSON", e)
			}
		default:
			b = append(b, c)
			p.i++
		}
	}
	return "", fmt.Errorf("unterminated string")
}

func (p *jparser) value() (Val, error) {
	p.ws()
	if p.i >= len(p.s) {
		return Val{}, fmt.Errorf("unexpected end")
	}
	c := p.s[p.i]
	switch {
	case c == '"':
		s, err := p.str()
		return Str(s), err
	case c == '[':
		p.i++
		var l []Val
		p.ws()
		if p.i < len(p.s) && p.s[p.i] == ']' {
			p.i++
			return ListOf(l), nil
		}
		for {
			v, err := p.value()
			if err != nil {
				return Val{}, err
			}
			l = append(l, v)
			p.ws()
			if p.i < len(p.s) && p.s[p.i] == ',' {
				p.i++
				continue
			}
			if p.i < len(p.s) && p.s[p.i] == ']' {
				p.i++
				return ListOf(l), nil
			}
			return Val{}, fmt.Errorf("bad array at %d", p.i)
		}
	case bytes.HasPrefix(p.s[p.i:], []byte("null")):
		p.i += 4
		return Null(), nil
	case bytes.HasPrefix(p.s[p.i:], []byte("true")):
		p.i += 4
		return Bool(true), nil
	case bytes.HasPrefix(p.s[p.i:], []byte("false")):
		p.i += 5
		return Bool(false), nil
	default:
		j := p.i
		for j < len(p.s) && (p.s[j] == '-' || p.s[j] == '+' || p.s[j] == '.' || p.s[j] == 'e' || p.s[j] == 'E' || (p.s[j] >= '0' && p.s[j] <= '9')) {
			j++
		}
		n, err := strconv.ParseInt(string(p.s[p.i:j]), 10, 64)
		if err != nil {
			f, err2 := strconv.ParseFloat(string(p.s[p.i:j]), 64)
			if err2 != nil {
				return Val{}, fmt.Errorf("not a number: %q", p.s[p.i:j])
			}
			p.i = j
			return Float(f), nil
		}
		p.i = j
		return Int(n), nil
	}
}

// ParseJSONLine returns the keys and values of one printed record, in the order printed.
func ParseJSONLine(line []byte) ([]string, []Val, error) {
	p := &jparser{s: line}
	p.ws()
	if p.i >= len(p.s) || p.s[p.i] != '{' {
		return nil, nil, fmt.Errorf("expected object")
	}
	p.i++
	var keys []string
	var vals []Val
	p.ws()
	if p.i < len(p.s) && p.s[p.i] == '}' {
		return keys, vals, nil
	}
	for {
		p.ws()
		k, err := p.str()
		if err != nil {
			return nil, nil, err
		}
		p.ws()
		if p.i >= len(p.s) || p.s[p.i] != ':' {
			return nil, nil, fmt.Errorf("expected ':'")
		}
		p.i++
		v, err := p.value()
		if err != nil {
			return nil, nil, err
		}
		keys = append(keys, k)
		vals = append(vals, v)
		p.ws()
		if p.i < len(p.s) && p.s[p.i] == ',' {
			p.i++
			continue
		}
		if p.i < len(p.s) && p.s[p.i] == '}' {
			p.i++
			p.ws()
			if p.i != len(p.s) {
				return nil, nil, fmt.Errorf("trailing bytes")
			}
			return keys, vals, nil
		}
		return nil, nil, fmt.Errorf("bad object at %d", p.i)
	}
}

// ParseJSONOutput parses all of stdout.
func ParseJSONOutput(out []byte) ([]string, [][]Val, error) {
	var keys []string
	var rows [][]Val
	for _, line := range bytes.Split(out, []byte("\n")) {
		if len(line) == 0 {
			continue
		}
		k, v, err := ParseJSONLine(line)
		if err != nil {
			return nil, nil, fmt.Errorf("%v in line %q", err, line)
		}
		if keys == nil {
			keys = k
		}
		rows = append(rows, v)
	}
	return keys, rows, nil
}

// ---- the other output modes, rendered from the values the JSON run showed ----

// NativeString is octosql.Value.String() for the fragment.
func NativeString(v Val) string {
	switch v.K {
	case KNull:
		return "<null>"
	case KInt:
		return strconv.FormatInt(v.I, 10)
	case KBool:
		return strconv.FormatBool(v.B)
	case KStr:
		return "'" + v.S + "'"
	default:
		parts := make([]string, len(v.List))
		for i := range v.List {
			parts[i] = NativeString(v.List[i])
		}
		return "[" + strings.Join(parts, ", ") + "]"
	}
}

// NativeLine is execution.Record.String() of an insertion without event time.
func NativeLine(row []Val) string {
	parts := make([]string, len(row))
	for i := range row {
		parts[i] = NativeString(row[i])
	}
	return "{+0001-01-01T00:00:00Z| " + strings.Join(parts, ", ") + " |}"
}

// CSVText is what `-o csv` prints for the rows (header + records through encoding/csv); ok=false when a
// value cannot be printed as CSV (lists).
func CSVText(names []string, rows [][]Val) (string, bool) {
	var b bytes.Buffer
	w := csv.NewWriter(&b)
	w.Write(names)
	for _, row := range rows {
		cells := make([]string, len(row))
		for i, v := range row {
			switch v.K {
			case KNull:
			case KInt:
				cells[i] = strconv.FormatInt(v.I, 10)
			case KBool:
				cells[i] = strconv.FormatBool(v.B)
			case KStr:
				cells[i] = v.S
			default:
				return "", false
			}
		}
		w.Write(cells)
	}
	w.Flush()
	return b.String(), true
}

func HasList(rows [][]Val) bool {
	for _, r := range rows {
		for _, v := range r {
			if v.K == KList {
				return true
			}
		}
	}
	return false
}

func SortedLines(s string) []string {
	lines := strings.Split(strings.TrimRight(s, "\n"), "\n")
	if len(lines) == 1 && lines[0] == "" {
		return nil
	}
	// insertion sort: few lines
	for i := 1; i < len(lines); i++ {
		for j := i; j > 0 && lines[j] < lines[j-1]; j-- {
			lines[j], lines[j-1] = lines[j-1], lines[j]
		}
	}
	return lines
}

// SimpleRows: every value prints in -o stream_native in a way ParseNativeLine reads back.
func SimpleRows(rows [][]Val) bool {
	var ok func(v Val) bool
	ok = func(v Val) bool {
		switch v.K {
		case KStr:
			for i := 0; i < len(v.S); i++ {
				c := v.S[i]
				if !(c >= 'a' && c <= 'z' || c >= 'A' && c <= 'Z' || c >= '0' && c <= '9') {
					return false
				}
			}
		case KList:
			for _, e := range v.List {
				if !ok(e) {
					return false
				}
			}
		}
		return true
	}
	for _, r := range rows {
		for _, v := range r {
			if !ok(v) {
				return false
			}
		}
	}
	return true
}

// ParseNativeLine reads "{+time| v1, v2 |}" / "{-time| ... |}" back (simple values only): +1 / -1 and the values.
func ParseNativeLine(line string) (int, []Val, error) {
	if len(line) < 4 || line[0] != '{' || !strings.HasSuffix(line, " |}") {
		return 0, nil, fmt.Errorf("not a record line")
	}
	sign := 1
	switch line[1] {
	case '+':
	case '-':
		sign = -1
	default:
		return 0, nil, fmt.Errorf("no +/- flag")
	}
	bar := strings.Index(line, "| ")
	if bar < 0 {
		return 0, nil, fmt.Errorf("no '| '")
	}
	body := line[bar+2 : len(line)-3]
	p := &nparser{s: body}
	vals, err := p.seq(0)
	if err != nil {
		return 0, nil, err
	}
	if p.i != len(p.s) {
		return 0, nil, fmt.Errorf("trailing text %q", p.s[p.i:])
	}
	return sign, vals, nil
}

type nparser struct {
	s string
	i int
}

func (p *nparser) seq(close byte) ([]Val, error) {
	var out []Val
	if p.i >= len(p.s) || (close != 0 && p.s[p.i] == close) {
		return out, nil
	}
	for {
		v, err := p.val()
		if err != nil {
			return nil, err
		}
		out = append(out, v)
		if strings.HasPrefix(p.s[p.i:], ", ") {
			p.i += 2
			continue
		}
		return out, nil
	}
}

func (p *nparser) val() (Val, error) {
	rest := p.s[p.i:]
	switch {
	case strings.HasPrefix(rest, "<null>"):
		p.i += 6
		return Null(), nil
	case strings.HasPrefix(rest, "true"):
		p.i += 4
		return Bool(true), nil
	case strings.HasPrefix(rest, "false"):
		p.i += 5
		return Bool(false), nil
	case strings.HasPrefix(rest, "'"):
		j := strings.Index(rest[1:], "'")
		if j < 0 {
			return Val{}, fmt.Errorf("unterminated string")
		}
		p.i += j + 2
		return Str(rest[1 : j+1]), nil
	case strings.HasPrefix(rest, "["):
		p.i++
		l, err := p.seq(']')
		if err != nil {
			return Val{}, err
		}
		if p.i >= len(p.s) || p.s[p.i] != ']' {
			return Val{}, fmt.Errorf("unterminated list")
		}
		p.i++
		return ListOf(l), nil
	default:
		j := 0
		for j < len(rest) && (rest[j] == '-' || rest[j] >= '0' && rest[j] <= '9') {
			j++
		}
		n, err := strconv.ParseInt(rest[:j], 10, 64)
		if err != nil {
			return Val{}, fmt.Errorf("unexpected %q", rest)
		}
		p.i += j
		return Int(n), nil
	}
}

// Coerce reads the numbers of Float columns (and of lists of Floats) as Floats: -o json prints 3.0 as 3.
func Coerce(rows [][]Val, out []Field) {
	toF := func(v Val) Val {
		if v.K == KInt {
			return Float(float64(v.I))
		}
		return v
	}
	for _, r := range rows {
		for i := range r {
			if i >= len(out) {
				break
			}
			switch {
			case out[i].T == KFloat:
				r[i] = toF(r[i])
			case out[i].T == KList && out[i].Elem == KFloat && r[i].K == KList:
				for j := range r[i].List {
					r[i].List[j] = toF(r[i].List[j])
				}
			}
		}
	}
}

func HasFloat(rows [][]Val) bool {
	for _, r := range rows {
		for _, v := range r {
			if v.K == KFloat {
				return true
			}
			if v.K == KList {
				for _, e := range v.List {
					if e.K == KFloat {
						return true
					}
				}
			}
		}
	}
	return false
}
