package relq

import (
	"bytes"
	"encoding/csv"
	"fmt"
	"os"
	"path/filepath"
	"sort"
	"strings"

	"verifharness/lib"
)

// Case is one generated query with its tables and what the CLI printed.
type Case struct {
	G       *Gen
	Top     *Top
	SQL     string
	Dir     string
	Res     Result
	Names   []string
	Rows    [][]Val
	IsErr   bool
	ParseEr error
	Inject  string // structural error injected on purpose ("" = none)
}

func (c *Case) Ordered() bool { return len(c.Top.Main.OrderBy) > 0 }

func (c *Case) Coq() string {
	obs := "ObsErr"
	if !c.IsErr {
		names := make([]string, len(c.Names))
		for i := range c.Names {
			names[i] = CoqName(c.Names[i])
		}
		obs = "ObsRows [" + strings.Join(names, "; ") + "] " + CoqRows(c.Rows)
	}
	return fmt.Sprintf("(%s, %s, %s)", c.Top.Coq(), CoqDB(c.G.Tables), obs)
}

func (c *Case) JSON() map[string]interface{} {
	tabs := map[string]interface{}{}
	for _, t := range c.G.Tables {
		tabs[t.Name] = map[string]interface{}{"columns": t.Cols, "rows": RowsJSON(t.Rows)}
	}
	js := map[string]interface{}{"query": c.SQL, "tables": tabs}
	if c.IsErr {
		js["observed"] = "error: " + lastLine(c.Res.Stderr)
	} else {
		js["observed_rows"] = RowsJSON(c.Rows)
	}
	return js
}

func lastLine(s string) string {
	lines := strings.Split(strings.TrimSpace(s), "\n")
	l := lines[len(lines)-1]
	if len(l) > 300 {
		l = l[:300]
	}
	return l
}

func relPath(name string) string { return name }

// inject turns the main query into one that must be rejected (structurally, whatever the data).
func inject(g *Gen, t *Top) string {
	q := t.Main
	r := g.R
	grouping := len(q.GroupBy) > 0
	for _, it := range q.Items {
		if it.Agg != "" {
			grouping = true
		}
	}
	switch r.Intn(3) {
	case 0:
		if grouping {
			// a select expression that is neither an aggregate nor a group key
			q.Items = append(q.Items, Item{E: Bin{"+", Lit{Int(40)}, Lit{Int(2)}}, Alias: g.fresh("e")})
			return "non-key expression in a grouping select"
		}
	case 1:
		if q.From.Kind == "table" {
			q.From.Table = "nosuch.csv"
			q.From.Alias = "nosuch"
			q.From.ExplicitAlias = false
			return "unknown table"
		}
	case 2:
		if grouping {
			q.Items = append(q.Items, Item{Agg: "min", Dist: true, E: Lit{Int(1)}, Alias: g.fresh("e")})
			return "min(DISTINCT ...) does not exist"
		}
	}
	return ""
}

// Generate draws n cases, writes their tables under work/, runs the CLI on each (-o json) and parses stdout.
func Generate(rng *lib.Rng, n int, p Profile, bin, home, work string) ([]*Case, error) {
	cases := make([]*Case, n)
	for i := 0; i < n; i++ {
		r := rng.Fork()
		pc := p
		if p.SimpleEvery > 0 && i%p.SimpleEvery == 0 {
			pc.Simple = true
		}
		g := &Gen{R: r, P: pc}
		var top *Top
		if p.OrderLimit {
			top = g.GenOrderLimitTop(i)
		} else if p.Mixed {
			top = g.GenMixedTop(i)
		} else if p.Having {
			top = g.GenHavingTop(i)
		} else if p.ManyKeys {
			top = g.GenManyKeysTop(i)
		} else if p.OuterTrig {
			top = g.GenOuterTrigTop(i)
		} else if p.TrigFamily {
			top = g.GenTriggerTop(i)
		} else if p.Logic {
			top = g.GenLogicTop(i)
		} else if p.Nested {
			top = g.GenNestedTop(i)
		} else {
			top = g.GenTop()
		}
		c := &Case{G: g, Top: top, Dir: filepath.Join(work, fmt.Sprintf("case%05d", i))}
		if p.AllowErrors && r.Chance(1, 25) {
			c.Inject = inject(g, top)
		}
		c.SQL = top.SQL(relPath)
		if err := os.MkdirAll(c.Dir, 0o755); err != nil {
			return nil, err
		}
		for _, t := range g.Tables {
			if _, err := WriteTable(c.Dir, t); err != nil {
				return nil, err
			}
		}
		cases[i] = c
	}
	Parallel(n, 8, func(i int) {
		c := cases[i]
		c.Res = RunCLI(bin, home, c.Dir, c.SQL, "-o", "json")
		if c.Res.ExitCode != 0 {
			c.IsErr = true
			return
		}
		c.Names, c.Rows, c.ParseEr = ParseJSONOutput(c.Res.Stdout)
		Coerce(c.Rows, c.G.MainOut)
	})
	return cases, nil
}

// AddCase puts the case into the case file and reports what the Go side can already decide.
func AddCase(cf *lib.CaseFile, c *Case) int {
	nontrivial := false
	if !c.IsErr && len(c.Rows) > 0 {
		q := c.Top.Main
		if q.Where != nil || q.Distinct || len(q.OrderBy) > 0 || len(q.GroupBy) > 0 || q.From.Kind != "table" {
			nontrivial = true
		}
	}
	idx := cf.Add(c.Coq(), c.JSON(), nontrivial)
	q := c.Top.Main
	class := ""
	if c.G.TripleName && c.G.P.TripleClass != "" {
		// three columns of one name in a non-grouping select: the tree without the fix names them x, x_1, x_1 and
		// the second one loses its name (finding class; see findings/C01.txt)
		class = c.G.P.TripleClass
		cf.SetClass(idx, class)
	} else if c.G.KeyNameClash && c.G.P.KeyClass != "" {
		// a tree without the fix gives the GroupBy node two fields of one name (see findings)
		class = c.G.P.KeyClass
		cf.SetClass(idx, class)
	}
	for k, n := range c.G.Shapes {
		for j := 0; j < n; j++ {
			cf.Count(k)
		}
	}
	count0 := func(ok bool, key string) {
		if ok {
			cf.Count(key)
		}
	}
	count0(len(c.G.Triggers) > 0, "with_trigger")
	count0(q.Limit != nil && *q.Limit == 0, "limit_0")
	count0(q.Limit != nil && len(q.OrderBy) > 0, "order_by_and_limit")
	cf.Count(fmt.Sprintf("rows_out_%s", bucket(len(c.Rows))))
	count := func(ok bool, key string) {
		if ok {
			cf.Count(key)
		}
	}
	count(q.Where != nil, "with_where")
	count(q.Distinct, "with_distinct")
	count(len(q.OrderBy) > 0, "with_order_by")
	count(q.Limit != nil, "with_limit")
	count(len(q.GroupBy) > 0, "with_group_by")
	count(hasAgg(q), "with_aggregate")
	count(len(q.GroupBy) > 0 && !hasAgg(q), "group_by_without_aggregate")
	count(q.From.Kind == "sub", "from_subquery")
	count(q.From.Kind == "cte", "from_with_name")
	count(len(c.Top.CTEs) > 0, "with_clause")
	count(c.IsErr, "rejected_by_cli")
	count(c.Inject != "", "injected_error")
	for _, t := range c.G.Tables {
		count(len(t.Rows) == 0, "empty_table")
		count(strings.HasSuffix(t.Name, ".json"), "json_table")
	}
	switch {
	case c.Res.TimedOut:
		cf.Violation(idx, "the CLI did not finish within 30 s", class)
	case c.Res.Crashed:
		cf.Violation(idx, "the CLI crashed: "+lastLine(c.Res.Stderr), class)
	case c.ParseEr != nil:
		cf.Violation(idx, "stdout of -o json is not the expected JSON lines: "+c.ParseEr.Error(), class)
	case c.IsErr && c.Inject == "":
		// decided by the tie as well (the model gives rows); say why here
		cf.Violation(idx, "the CLI rejected a query of the fragment: "+lastLine(c.Res.Stderr), class)
	}
	return idx
}

func hasAgg(q *Query) bool {
	for _, it := range q.Items {
		if it.Agg != "" {
			return true
		}
	}
	return false
}

func bucket(n int) string {
	switch {
	case n == 0:
		return "0"
	case n == 1:
		return "1"
	case n <= 4:
		return "2-4"
	default:
		return "5+"
	}
}

// ---- cross-checks in other output modes and with the optimizer off (Go side) ----

func rowKey(r []Val) string { return CoqRow(r) }

func sameRows(ordered bool, a, b [][]Val) bool {
	if len(a) != len(b) {
		return false
	}
	ka := make([]string, len(a))
	kb := make([]string, len(b))
	for i := range a {
		ka[i], kb[i] = rowKey(a[i]), rowKey(b[i])
	}
	if !ordered {
		sort.Strings(ka)
		sort.Strings(kb)
	}
	for i := range ka {
		if ka[i] != kb[i] {
			return false
		}
	}
	return true
}

// CrossCheck runs the case again in another mode and compares with the -o json run.  Returns "" or what differs.
func CrossCheck(c *Case, bin, home, mode string) string {
	if c.IsErr || c.ParseEr != nil {
		return ""
	}
	if mode != "noopt" && HasFloat(c.Rows) {
		return "" // the text forms of floats belong to C25
	}
	switch mode {
	case "noopt":
		res := RunCLI(bin, home, c.Dir, c.SQL, "-o", "json", "--optimize=false")
		if res.Crashed || res.ExitCode != 0 {
			return "--optimize=false fails: " + lastLine(res.Stderr)
		}
		_, rows, err := ParseJSONOutput(res.Stdout)
		if err != nil {
			return "--optimize=false: " + err.Error()
		}
		Coerce(rows, c.G.MainOut)
		if !sameRows(c.Ordered(), c.Rows, rows) {
			return fmt.Sprintf("--optimize=false prints different rows: %s", CoqRows(rows))
		}
	case "native_consolidated":
		// insertions minus retractions of the -o stream_native stream = the rows (the TRIGGER family)
		if !SimpleRows(c.Rows) {
			return ""
		}
		res := RunCLI(bin, home, c.Dir, c.SQL, "-o", "stream_native")
		if res.Crashed || res.ExitCode != 0 {
			return "-o stream_native fails: " + lastLine(res.Stderr)
		}
		net := map[string]int{}
		for _, line := range strings.Split(strings.TrimRight(string(res.Stdout), "\n"), "\n") {
			if line == "" || strings.HasPrefix(line, "{~") {
				continue
			}
			sign, vals, err := ParseNativeLine(line)
			if err != nil {
				return fmt.Sprintf("-o stream_native line %q: %v", line, err)
			}
			net[rowKey(vals)] += sign
		}
		for _, r := range c.Rows {
			net[rowKey(r)]--
		}
		for k, n := range net {
			if n != 0 {
				return fmt.Sprintf("-o stream_native: insertions minus retractions differ from the -o json rows by %+d x %s; stream: %q", n, k, res.Stdout)
			}
		}
	case "stream_native":
		res := RunCLI(bin, home, c.Dir, c.SQL, "-o", "stream_native")
		if res.Crashed || res.ExitCode != 0 {
			return "-o stream_native fails: " + lastLine(res.Stderr)
		}
		var want []string
		for _, r := range c.Rows {
			want = append(want, NativeLine(r))
		}
		wantText := strings.Join(want, "\n")
		if len(want) > 0 {
			wantText += "\n"
		}
		got := string(res.Stdout)
		if c.Ordered() {
			if got != wantText {
				return fmt.Sprintf("-o stream_native prints %q, the rows are %q", got, wantText)
			}
		} else if strings.Join(SortedLines(got), "\n") != strings.Join(SortedLines(wantText), "\n") {
			return fmt.Sprintf("-o stream_native prints %q, the rows are %q", got, wantText)
		}
	case "csv":
		if HasList(c.Rows) {
			return "" // lists cannot be printed as CSV (C25)
		}
		res := RunCLI(bin, home, c.Dir, c.SQL, "-o", "csv")
		if res.Crashed || res.ExitCode != 0 {
			return "-o csv fails: " + lastLine(res.Stderr)
		}
		wantText, _ := CSVText(c.Names, c.Rows)
		wr, err1 := csv.NewReader(strings.NewReader(wantText)).ReadAll()
		rd := csv.NewReader(bytes.NewReader(res.Stdout))
		rd.FieldsPerRecord = -1
		gr, err2 := rd.ReadAll()
		if err1 != nil || err2 != nil {
			return fmt.Sprintf("-o csv output does not parse: %v %v", err1, err2)
		}
		if len(c.Rows) == 0 { // no record was printed by -o json, so the column names are not known here
			if len(gr) > 1 {
				return fmt.Sprintf("-o csv prints %q, -o json printed no row", res.Stdout)
			}
			return ""
		}
		flat := func(recs [][]string) []string {
			out := make([]string, len(recs))
			for i := range recs {
				out[i] = strings.Join(recs[i], "\x00")
			}
			return out
		}
		w, g := flat(wr), flat(gr)
		if len(w) > 0 && len(g) > 0 && !c.Ordered() {
			sort.Strings(w[1:])
			sort.Strings(g[1:])
		}
		if strings.Join(w, "\x01") != strings.Join(g, "\x01") {
			return fmt.Sprintf("-o csv prints %q, the rows are %q", res.Stdout, wantText)
		}
	case "batch_table":
		// only when every cell is short and plain enough to survive tablewriter untouched
		for _, r := range c.Rows {
			for _, v := range r {
				s := NativeString(v)
				if len(s) > 20 || strings.ContainsAny(s, "|\n\t ") || s == "" || v.K == KList {
					return ""
				}
				for i := 0; i < len(s); i++ {
					if s[i] >= 0x80 {
						return ""
					}
				}
			}
		}
		res := RunCLI(bin, home, c.Dir, c.SQL, "-o", "batch_table")
		if res.Crashed || res.ExitCode != 0 {
			return "-o batch_table fails: " + lastLine(res.Stderr)
		}
		var got []string
		lines := strings.Split(string(res.Stdout), "\n")
		seenHeader := false
		for _, l := range lines {
			if !strings.HasPrefix(l, "|") {
				continue
			}
			if !seenHeader {
				seenHeader = true
				continue
			}
			cells := strings.Split(strings.Trim(l, "|"), "|")
			for i := range cells {
				cells[i] = strings.TrimSpace(cells[i])
			}
			got = append(got, strings.Join(cells, "\x00"))
		}
		var want []string
		for _, r := range c.Rows {
			cells := make([]string, len(r))
			for i := range r {
				cells[i] = NativeString(r[i])
			}
			want = append(want, strings.Join(cells, "\x00"))
		}
		if !c.Ordered() {
			sort.Strings(got)
			sort.Strings(want)
		}
		if strings.Join(got, "\x01") != strings.Join(want, "\x01") {
			return fmt.Sprintf("-o batch_table prints %q, the rows are %q", res.Stdout, want)
		}
	}
	return ""
}
