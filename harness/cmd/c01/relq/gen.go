package relq

import (
	"fmt"
	"math"

	"verifharness/lib"
)

// Field of a relation as the generator sees it (what a column reference may use and what it yields).
type Field struct {
	Qual string // "" when the field has no qualifier (a WITH name's aliased column)
	Name string
	T    Kind
}

// Profile steers the generator.
type Profile struct {
	GroupBias   int // of 10: how often a select is a grouping select
	MaxDepth    int // nesting of subqueries
	AllowErrors bool
}

var edgeInts = []int64{0, 1, -1, 2, 3, 5, 7, -7, 10, 42, math.MaxInt64, math.MinInt64, math.MaxInt64 - 1, math.MinInt64 + 1, 1 << 32, -(1 << 31), 4611686018427387904}
var smallInts = []int64{0, 1, 2, 3, -1}

// strings a CSV cell can hold without being read as NULL, a number, a boolean or a time
var csvStrings = []string{"a", "b", "ab", "A", "aa", "Ab", "z", "é", "日本", "a b", "%d", "%s%%", "x,y", "q\"q", "l1\nl2", "tab\tx", "ab\xffc", "\xfe", "x'y", "100%", "%!v"}
var smallStrings = []string{"a", "b", "é"}

// JSON tables additionally hold the empty string
var jsonStrings = []string{"", "a", "b", "ab", "A", "é", "日本", "a b", "%d", "%v%%", "x,y", "q\"q", "l1\nl2", "back\\slash", "z"}

// literals inside SQL text: no quote, no backslash
var litStrings = []string{"a", "b", "ab", "é", "%d", "z", "x,y", "", "A"}

type Gen struct {
	R      *lib.Rng
	P      Profile
	Tables []*Table
	ctes   []cteInfo
	nalias int
}

type cteInfo struct {
	name   string
	fields []Field
}

func (g *Gen) fresh(prefix string) string {
	g.nalias++
	return fmt.Sprintf("%s%d", prefix, g.nalias)
}

// GenTables draws 1..2 tables: NULL-heavy, duplicates, ints near the int64 limits, strings with non-ASCII bytes.
func (g *Gen) GenTables() {
	r := g.R
	n := 1 + r.Intn(2)
	for ti := 0; ti < n; ti++ {
		isJSON := r.Chance(1, 4)
		t := &Table{}
		if isJSON {
			t.Name = fmt.Sprintf("t%d.json", ti+1)
		} else {
			t.Name = fmt.Sprintf("t%d.csv", ti+1)
		}
		ncols := 2 + r.Intn(3)
		names := []string{"a", "b", "c", "d"}
		var kinds []Kind
		for c := 0; c < ncols; c++ {
			var k Kind
			if isJSON {
				k = []Kind{KStr, KBool, KStr, KNull}[r.Intn(4)]
			} else {
				k = []Kind{KInt, KInt, KStr, KBool, KInt, KNull}[r.Intn(6)]
			}
			kinds = append(kinds, k)
		}
		nrows := 0
		switch {
		case r.Chance(1, 12) && !isJSON: // an empty JSON file has no columns at all
			nrows = 0
		case r.Chance(1, 8):
			nrows = 1
		default:
			nrows = 2 + r.Intn(7)
		}
		small := r.Chance(1, 2) // small domains: duplicates, equal keys
		nullRate := 1 + r.Intn(3)
		for i := 0; i < nrows; i++ {
			if i > 0 && r.Chance(1, 5) {
				t.Rows = append(t.Rows, append([]Val(nil), t.Rows[r.Intn(i)]...)) // duplicate row
				continue
			}
			row := make([]Val, ncols)
			for c := 0; c < ncols; c++ {
				if kinds[c] == KNull || r.Chance(nullRate, 8) {
					row[c] = Null()
					continue
				}
				switch kinds[c] {
				case KInt:
					if small {
						row[c] = Int(smallInts[r.Intn(len(smallInts))])
					} else if r.Chance(3, 4) {
						row[c] = Int(edgeInts[r.Intn(len(edgeInts))])
					} else {
						row[c] = Int(int64(r.U64()))
					}
				case KBool:
					row[c] = Bool(r.Bool())
				case KStr:
					switch {
					case small:
						row[c] = Str(smallStrings[r.Intn(len(smallStrings))])
					case isJSON:
						row[c] = Str(jsonStrings[r.Intn(len(jsonStrings))])
					default:
						row[c] = Str(csvStrings[r.Intn(len(csvStrings))])
					}
				}
			}
			t.Rows = append(t.Rows, row)
		}
		// the type octosql infers: a column without any non-NULL value is of type NULL
		t.Cols = names[:ncols]
		t.Types = make([]Kind, ncols)
		for c := 0; c < ncols; c++ {
			t.Types[c] = KNull
			for _, row := range t.Rows {
				if row[c].K != KNull {
					t.Types[c] = kinds[c]
				}
			}
		}
		g.Tables = append(g.Tables, t)
	}
}

func tableAlias(name string) string {
	for i := 0; i < len(name); i++ {
		if name[i] == '.' {
			return name[:i]
		}
	}
	return name
}

// ---- expressions ----

func pick(r *lib.Rng, fs []Field, ok func(Field) bool) (Field, bool) {
	var c []Field
	for _, f := range fs {
		if ok(f) {
			c = append(c, f)
		}
	}
	if len(c) == 0 {
		return Field{}, false
	}
	return c[r.Intn(len(c))], true
}

func (g *Gen) colRef(f Field) Expr {
	if f.Qual != "" && g.R.Chance(1, 2) {
		return Col{Qual: f.Qual, Name: f.Name}
	}
	return Col{Name: f.Name}
}

func (g *Gen) intLit() Expr {
	r := g.R
	var v int64
	if r.Chance(2, 3) {
		v = smallInts[r.Intn(len(smallInts))]
	} else {
		v = edgeInts[r.Intn(len(edgeInts))]
	}
	if v == math.MinInt64 {
		v = math.MinInt64 + 1 // "-9223372036854775808" is not a literal the SQL parser accepts
	}
	if v < 0 {
		return Un{Op: "neg", A: Lit{Int(-v)}}
	}
	return Lit{Int(v)}
}

// GenExpr draws an expression of kind k over the fields (KList is never asked for).
func (g *Gen) GenExpr(fs []Field, k Kind, depth int) Expr {
	r := g.R
	leaf := depth <= 0 || r.Chance(1, 3)
	switch k {
	case KInt:
		if leaf {
			if f, ok := pick(r, fs, func(f Field) bool { return f.T == KInt }); ok && r.Chance(3, 4) {
				return g.colRef(f)
			}
			return g.intLit()
		}
		switch r.Intn(4) {
		case 0:
			return Bin{"+", g.GenExpr(fs, KInt, depth-1), g.GenExpr(fs, KInt, depth-1)}
		case 1:
			return Bin{"-", g.GenExpr(fs, KInt, depth-1), g.GenExpr(fs, KInt, depth-1)}
		case 2:
			return Bin{"*", g.GenExpr(fs, KInt, depth-1), g.GenExpr(fs, KInt, depth-1)}
		default:
			return Un{"neg", g.GenExpr(fs, KInt, depth-1)}
		}
	case KStr:
		if leaf {
			if f, ok := pick(r, fs, func(f Field) bool { return f.T == KStr }); ok && r.Chance(3, 4) {
				return g.colRef(f)
			}
			return Lit{Str(litStrings[r.Intn(len(litStrings))])}
		}
		return Bin{"+", g.GenExpr(fs, KStr, depth-1), g.GenExpr(fs, KStr, depth-1)}
	case KBool:
		if leaf {
			if f, ok := pick(r, fs, func(f Field) bool { return f.T == KBool }); ok && r.Chance(2, 3) {
				return g.colRef(f)
			}
			if r.Chance(1, 3) {
				return Lit{Bool(r.Bool())}
			}
			// fall through to a comparison of leaves
			depth = 1
		}
		switch r.Intn(8) {
		case 0, 1, 2:
			kk := []Kind{KInt, KInt, KStr, KBool}[r.Intn(4)]
			op := []string{"=", "!=", "<", "<=", ">", ">="}[r.Intn(6)]
			return Bin{op, g.GenExpr(fs, kk, depth-1), g.GenExpr(fs, kk, depth-1)}
		case 3:
			if f, ok := pick(r, fs, func(f Field) bool { return f.T != KList }); ok {
				op := []string{"isnull", "isnotnull"}[r.Intn(2)]
				return Un{op, g.colRef(f)}
			}
			return Un{"isnull", g.GenExpr(fs, KInt, depth-1)}
		case 4:
			return Un{"not", g.GenExpr(fs, KBool, depth-1)}
		case 5:
			return And{g.boolOrNull(fs, depth-1), g.boolOrNull(fs, depth-1)}
		case 6:
			return Or{g.boolOrNull(fs, depth-1), g.boolOrNull(fs, depth-1)}
		default:
			// "=" between different kinds (Any, Any) and against a NULL-typed operand
			if f, ok := pick(r, fs, func(f Field) bool { return f.T != KList }); ok {
				if r.Chance(1, 3) {
					return Bin{"=", g.colRef(f), Lit{Null()}}
				}
				return Bin{[]string{"=", "!="}[r.Intn(2)], g.colRef(f), g.GenExpr(fs, []Kind{KInt, KStr}[r.Intn(2)], 0)}
			}
			return Lit{Bool(true)}
		}
	}
	return Lit{Null()}
}

func (g *Gen) boolOrNull(fs []Field, depth int) Expr {
	if g.R.Chance(1, 8) {
		return Lit{Null()}
	}
	return g.GenExpr(fs, KBool, depth)
}

// any scalar kind for which the fields (or literals) give something
func (g *Gen) anyKind() Kind { return []Kind{KInt, KInt, KStr, KBool}[g.R.Intn(4)] }

// ---- sources and queries ----

type srcInfo struct {
	src     Source
	fields  []Field
	ordered bool // the row order is determined (file order), so LIMIT without ORDER BY is determined
}

func (g *Gen) genSource(depth int) srcInfo {
	r := g.R
	switch {
	case depth > 0 && r.Chance(2, 5):
		alias := g.fresh("x")
		q, out, ordered, _ := g.GenQuery(depth-1, false)
		fs := make([]Field, len(out))
		for i := range out {
			fs[i] = Field{Qual: alias, Name: out[i].Name, T: out[i].T}
		}
		return srcInfo{Source{Kind: "sub", Sub: q, Alias: alias}, fs, ordered}
	case len(g.ctes) > 0 && r.Chance(1, 3):
		c := g.ctes[r.Intn(len(g.ctes))]
		return srcInfo{Source{Kind: "cte", Table: c.name}, c.fields, false}
	default:
		t := g.Tables[r.Intn(len(g.Tables))]
		alias := tableAlias(t.Name)
		explicit := r.Chance(1, 3)
		if explicit {
			alias = g.fresh("r")
		}
		fs := make([]Field, len(t.Cols))
		for i := range t.Cols {
			fs[i] = Field{Qual: alias, Name: t.Cols[i], T: t.Types[i]}
		}
		return srcInfo{Source{Kind: "table", Table: t.Name, Alias: alias, ExplicitAlias: explicit}, fs, true}
	}
}

// GenQuery returns the query, its output fields (unqualified), whether its row order is determined, and
// whether its rows are pairwise distinct by construction.
func (g *Gen) GenQuery(depth int, top bool) (*Query, []Field, bool, bool) {
	r := g.R
	si := g.genSource(depth)
	q := &Query{From: si.src}
	fs := si.fields
	if r.Chance(2, 5) {
		q.Where = g.GenExpr(fs, KBool, 1+r.Intn(2))
	}
	var out []Field
	grouping := r.Intn(10) < g.P.GroupBias
	distinctRows := false
	if grouping {
		nkeys := []int{0, 1, 1, 1, 2, 2, 3}[r.Intn(7)]
		var keyKinds []Kind
		for i := 0; i < nkeys; i++ {
			var e Expr
			k := KInt
			if f, ok := pick(r, fs, func(f Field) bool { return f.T != KList }); ok && r.Chance(4, 5) {
				e = Col{Name: f.Name}
				if f.Qual != "" && r.Chance(1, 3) {
					e = Col{Qual: f.Qual, Name: f.Name}
				}
				k = f.T
			} else {
				k = g.anyKind()
				e = g.GenExpr(fs, k, 1)
			}
			dup := false
			for _, prev := range q.GroupBy {
				if prev.Coq() == e.Coq() {
					dup = true
				}
			}
			if dup {
				continue
			}
			q.GroupBy = append(q.GroupBy, e)
			keyKinds = append(keyKinds, k)
		}
		nagg := []int{0, 1, 1, 2, 2, 3, 4}[r.Intn(7)]
		if len(q.GroupBy) == 0 && nagg == 0 {
			nagg = 1
		}
		// selected keys: each at most once
		allKeys := true
		type sel struct {
			it Item
			f  Field
		}
		var sels []sel
		for i, k := range q.GroupBy {
			if r.Chance(4, 5) || (nagg == 0 && i == 0) {
				a := g.fresh("k")
				sels = append(sels, sel{Item{E: k, Alias: a}, Field{Name: a, T: keyKinds[i]}})
			} else {
				allKeys = false
			}
		}
		for i := 0; i < nagg; i++ {
			a := g.fresh("g")
			it := Item{Alias: a}
			var t Kind
			switch r.Intn(9) {
			case 0:
				it.Agg, it.CStar, it.E, t = "count", true, Lit{Bool(true)}, KInt
			case 1:
				it.Agg, it.E, t = "count", g.GenExpr(fs, g.anyKind(), 1), KInt
				it.Dist = r.Chance(1, 2)
			case 2, 3:
				it.Agg, it.E, t = "sum", g.GenExpr(fs, KInt, 1), KInt
				it.Dist = r.Chance(1, 3)
			case 4:
				it.Agg, it.E, t = "avg", g.GenExpr(fs, KInt, 1), KInt
				it.Dist = r.Chance(1, 3)
			case 5:
				it.Agg, it.E, t = "min", g.GenExpr(fs, KInt, 1), KInt
			case 6:
				it.Agg, it.E, t = "max", g.GenExpr(fs, KInt, 1), KInt
			default:
				it.Agg, it.E, t = "array_agg", g.GenExpr(fs, g.anyKind(), 1), KList
				it.Dist = r.Chance(1, 3)
			}
			sels = append(sels, sel{it, Field{Name: a, T: t}})
		}
		// shuffle the select list
		for i := len(sels) - 1; i > 0; i-- {
			j := r.Intn(i + 1)
			sels[i], sels[j] = sels[j], sels[i]
		}
		for _, s := range sels {
			q.Items = append(q.Items, s.it)
			out = append(out, s.f)
		}
		distinctRows = allKeys
	} else {
		if r.Chance(1, 8) {
			q.Items = []Item{{Star: true}}
			for _, f := range fs {
				out = append(out, Field{Name: f.Name, T: f.T})
			}
		} else {
			n := 1 + r.Intn(4)
			for i := 0; i < n; i++ {
				if r.Chance(1, 12) && !hasStar(q.Items) {
					q.Items = append(q.Items, Item{Star: true})
					for _, f := range fs {
						out = append(out, Field{Name: f.Name, T: f.T})
					}
					continue
				}
				a := g.fresh("c")
				if f, ok := pick(r, fs, func(Field) bool { return true }); ok && r.Chance(1, 3) {
					q.Items = append(q.Items, Item{E: g.colRef(f), Alias: a}) // also passes list and NULL-typed columns through
					out = append(out, Field{Name: a, T: f.T})
					continue
				}
				if r.Chance(1, 15) {
					q.Items = append(q.Items, Item{E: Lit{Null()}, Alias: a})
					out = append(out, Field{Name: a, T: KNull})
					continue
				}
				k := g.anyKind()
				q.Items = append(q.Items, Item{E: g.GenExpr(fs, k, 2), Alias: a})
				out = append(out, Field{Name: a, T: k})
			}
		}
	}
	if r.Chance(1, 4) {
		q.Distinct = true
		distinctRows = true
	}
	ordered := si.ordered && !grouping
	if r.Chance(2, 5) {
		nk := 1 + r.Intn(2)
		for i := 0; i < nk; i++ {
			f, ok := pick(r, out, func(f Field) bool { return f.T != KList })
			if !ok {
				break
			}
			var e Expr = Col{Name: f.Name}
			if f.T == KInt && r.Chance(1, 4) {
				e = Bin{"+", Col{Name: f.Name}, g.intLit()}
			}
			q.OrderBy = append(q.OrderBy, OrderKey{E: e, Desc: r.Bool()})
		}
	}
	if len(q.OrderBy) > 0 {
		ordered = true
		// ORDER BY + LIMIT only over rows that are distinct by construction (the pinned tree counts
		// distinct rows there: C05's defect)
		if distinctRows && r.Chance(1, 2) {
			n := int64(1 + r.Intn(5))
			q.Limit = &n
		}
	} else if ordered && r.Chance(1, 4) {
		n := int64(1 + r.Intn(5)) // never LIMIT 0 (C05's defect on the pinned tree)
		q.Limit = &n
	}
	return q, out, ordered, distinctRows
}

func hasStar(items []Item) bool {
	for _, it := range items {
		if it.Star {
			return true
		}
	}
	return false
}

// GenTop draws the tables, 0..2 WITH definitions and the main query.
func (g *Gen) GenTop() *Top {
	r := g.R
	g.GenTables()
	t := &Top{}
	nc := []int{0, 0, 0, 1, 1, 2}[r.Intn(6)]
	for i := 0; i < nc; i++ {
		q, out, _, _ := g.GenQuery(g.P.MaxDepth-1, false)
		name := fmt.Sprintf("w%d", i+1)
		t.CTEs = append(t.CTEs, CTE{name, q})
		fs := make([]Field, len(out))
		copy(fs, out) // fields of a WITH name keep the names its select gave them, without a qualifier
		g.ctes = append(g.ctes, cteInfo{name, fs})
	}
	t.Main, _, _, _ = g.GenQuery(g.P.MaxDepth, true)
	return t
}

// OutNames gives the column names the CLI prints for the main query (formats.WithoutQualifiers).
func (g *Gen) OutNames(q *Query) []string {
	var names []string
	for _, it := range q.Items {
		if it.Star {
			for _, f := range g.sourceFieldNames(q.From) {
				names = append(names, f)
			}
		} else {
			names = append(names, it.Alias)
		}
	}
	return names
}

func (g *Gen) sourceFieldNames(s Source) []string {
	switch s.Kind {
	case "table":
		for _, t := range g.Tables {
			if t.Name == s.Table {
				return t.Cols
			}
		}
	case "sub":
		return g.OutNames(s.Sub)
	case "cte":
		for _, c := range g.ctes {
			if c.name == s.Table {
				out := make([]string, len(c.fields))
				for i := range c.fields {
					out[i] = c.fields[i].Name
				}
				return out
			}
		}
	}
	return nil
}
