package relq

import (
	"fmt"
	"math"
	"strings"

	"verifharness/lib"
)

// Field of a relation as the generator sees it (what a column reference may use and what it yields).
type Field struct {
	Qual  string // "" when the field has no qualifier (a WITH name's aliased column)
	Name  string
	T     Kind
	Elem  Kind // element kind of a list column
	NoRef bool // never referenced by the generator (a generated name that is also a function name, ...)
}

// Profile steers the generator.
type Profile struct {
	GroupBias      int // of 10: how often a select is a grouping select
	MaxDepth       int // nesting of subqueries
	AllowErrors    bool
	AliasShapes    bool   // grouping select lists without aliases / with repeated aliases / aliases equal to generated names
	AllowTripleMap bool   // three columns of one name in a non-grouping select (finding class TripleClass on a tree without the fix)
	KeyClass       string // finding class of cases in which a selected column of a grouping select is called key_<i> for an unselected key i (on a tree without that fix)
	TripleClass    string
	Floats         bool // JSON number columns (Float)
	AllowTriple    bool // ... including three columns of one name (finding class c03-triple-name on the tree without the fix)
	TriggerBias    int  // of 10: how often a grouping select carries a TRIGGER clause
	Simple         bool // tables of short plain cells (every output mode can be parsed back)
	SimpleEvery    int  // every n-th case uses Simple tables
	OrderLimit     bool // the ORDER BY + LIMIT family: duplicate rows, every limit from 0 to one past the row count
	Mixed          bool // a column holding values of different runtime types (Int | String from CSV, Float | String | Boolean from JSON) under the order- and equality-based operators
	Having         bool // grouping subquery / WITH table whose aggregate columns (NULL for all-NULL groups) feed strict operators, filters and further aggregates of the enclosing query
	ManyKeys       bool // >= 200 rows, >= 100 distinct Float keys incl. 0.0 and -0.0: GROUP BY / DISTINCT / count(DISTINCT) beyond the hashmaps' initial size
	OuterTrig      bool // aggregates (incl. DISTINCT ones) of an enclosing query over a GROUP BY ... TRIGGER COUNTING subquery
	TrigFamily     bool // GROUP BY ... TRIGGER COUNTING n over keys that fire repeatedly, with and without a change of the aggregates
	Logic          bool // the three-valued-logic family: WHERE / select expressions over nullable and non-nullable columns
	Nested         bool // the nested-relation family: an outer select reading part of a DISTINCT / grouping / limited relation
}

var edgeInts = []int64{0, 1, -1, 2, 3, 5, 7, -7, 10, 42, math.MaxInt64, math.MinInt64, math.MaxInt64 - 1, math.MinInt64 + 1, 1 << 32, -(1 << 31), 4611686018427387904}
var smallInts = []int64{0, 1, 2, 3, -1}

// JSON numbers (every JSON number is read as a Float): no -0, NaN cannot be written
var floatVals = []float64{0, 0.5, 1, 1.5, -2.25, 3, 2.5, 1e100, -1e-3, 9007199254740993, -1, 1e-300, math.MaxFloat64, 4.9e-324}
var floatLits = []float64{0, 0.5, 1, 1.5, 2.5, 3}

// sums and averages beyond 2^53 (not representable in a float64), near the int64 limits
var bigInts = []int64{9007199254740993, -9007199254740993, 6000000000000000007, math.MaxInt64, math.MinInt64 + 1, 4611686018427387905, 9007199254740992 * 3, 1, 2, -1}

// strings a CSV cell can hold without being read as NULL, a number, a boolean or a time
var csvStrings = []string{"a", "b", "ab", "A", "aa", "Ab", "z", "é", "日本", "a b", "%d", "%s%%", "x,y", "q\"q", "l1\nl2", "tab\tx", "ab\xffc", "\xfe", "x'y", "100%", "%!v"}
var smallStrings = []string{"a", "b", "é"}
var simpleStrings = []string{"a", "b", "ab"}

// JSON tables additionally hold the empty string
var jsonStrings = []string{"", "a", "b", "ab", "A", "é", "日本", "a b", "%d", "%v%%", "x,y", "q\"q", "l1\nl2", "back\\slash", "z"}

// literals inside SQL text: no quote, no backslash
var litStrings = []string{"a", "b", "ab", "é", "%d", "z", "x,y", "", "A"}

type Gen struct {
	R      *lib.Rng
	P      Profile
	Tables []*Table
	ctes   []cteInfo
	nalias int
	// set while generating
	MainOut      []Field  // output columns of the main query
	Triggers     []*Query // selects carrying a TRIGGER clause
	TripleName   bool     // some grouping select has three columns of one name
	KeyNameClash bool     // a selected column of a grouping select has the default name of an unselected key
	Shapes       map[string]int
}

func (g *Gen) shape(k string) {
	if g.Shapes == nil {
		g.Shapes = map[string]int{}
	}
	g.Shapes[k]++
}

type cteInfo struct {
	name   string
	fields []Field
}

func (g *Gen) fresh(prefix string) string {
	g.nalias++
	return fmt.Sprintf("%s%d", prefix, g.nalias)
}

// GenTables draws 1..2 tables: NULL-heavy, duplicates, ints near the int64 limits, strings with non-ASCII bytes.
func (g *Gen) GenTables() {
	r := g.R
	n := 1 + r.Intn(2)
	for ti := 0; ti < n; ti++ {
		isJSON := r.Chance(1, 4) && !g.P.Simple
		t := &Table{}
		if isJSON {
			t.Name = fmt.Sprintf("t%d.json", ti+1)
		} else {
			t.Name = fmt.Sprintf("t%d.csv", ti+1)
		}
		ncols := 2 + r.Intn(3)
		names := []string{"a", "b", "c", "d"}
		var kinds []Kind
		for c := 0; c < ncols; c++ {
			var k Kind
			if isJSON {
				k = []Kind{KStr, KBool, KStr, KNull}[r.Intn(4)]
				if g.P.Floats && r.Chance(1, 2) {
					k = KFloat
				}
			} else {
				k = []Kind{KInt, KInt, KStr, KBool, KInt, KNull}[r.Intn(6)]
			}
			kinds = append(kinds, k)
		}
		nrows := 0
		switch {
		case r.Chance(1, 12) && !isJSON: // an empty JSON file has no columns at all
			nrows = 0
		case r.Chance(1, 8):
			nrows = 1
		default:
			nrows = 2 + r.Intn(7)
		}
		small := r.Chance(1, 2) || g.P.Simple // small domains: duplicates, equal keys
		big := !small && r.Chance(1, 2)
		nullRate := 1 + r.Intn(3)
		for i := 0; i < nrows; i++ {
			if i > 0 && r.Chance(1, 5) {
				t.Rows = append(t.Rows, append([]Val(nil), t.Rows[r.Intn(i)]...)) // duplicate row
				continue
			}
			row := make([]Val, ncols)
			for c := 0; c < ncols; c++ {
				if kinds[c] == KNull || r.Chance(nullRate, 8) {
					row[c] = Null()
					continue
				}
				switch kinds[c] {
				case KInt:
					if small {
						row[c] = Int(smallInts[r.Intn(len(smallInts))])
					} else if big {
						row[c] = Int(bigInts[r.Intn(len(bigInts))])
					} else if r.Chance(3, 4) {
						row[c] = Int(edgeInts[r.Intn(len(edgeInts))])
					} else {
						row[c] = Int(int64(r.U64()))
					}
				case KBool:
					row[c] = Bool(r.Bool())
				case KFloat:
					if small {
						row[c] = Float([]float64{0, 0.5, 1, 2.5}[r.Intn(4)])
					} else {
						row[c] = Float(floatVals[r.Intn(len(floatVals))])
					}
				case KStr:
					switch {
					case g.P.Simple:
						row[c] = Str(simpleStrings[r.Intn(len(simpleStrings))])
					case small:
						row[c] = Str(smallStrings[r.Intn(len(smallStrings))])
					case isJSON:
						row[c] = Str(jsonStrings[r.Intn(len(jsonStrings))])
					default:
						row[c] = Str(csvStrings[r.Intn(len(csvStrings))])
					}
				}
			}
			t.Rows = append(t.Rows, row)
		}
		// the type octosql infers: a column without any non-NULL value is of type NULL
		t.Cols = names[:ncols]
		t.Types = make([]Kind, ncols)
		for c := 0; c < ncols; c++ {
			t.Types[c] = KNull
			for _, row := range t.Rows {
				if row[c].K != KNull {
					t.Types[c] = kinds[c]
				}
			}
		}
		g.Tables = append(g.Tables, t)
	}
}

func tableAlias(name string) string {
	for i := 0; i < len(name); i++ {
		if name[i] == '.' {
			return name[:i]
		}
	}
	return name
}

// ---- expressions ----

func pick(r *lib.Rng, fs []Field, ok func(Field) bool) (Field, bool) {
	var c []Field
	for _, f := range fs {
		if ok(f) && !f.NoRef {
			c = append(c, f)
		}
	}
	if len(c) == 0 {
		return Field{}, false
	}
	return c[r.Intn(len(c))], true
}

func (g *Gen) colRef(f Field) Expr {
	if f.Qual != "" && g.R.Chance(1, 2) {
		return Col{Qual: f.Qual, Name: f.Name}
	}
	return Col{Name: f.Name}
}

func (g *Gen) intLit() Expr {
	r := g.R
	var v int64
	if r.Chance(2, 3) {
		v = smallInts[r.Intn(len(smallInts))]
	} else {
		v = edgeInts[r.Intn(len(edgeInts))]
	}
	if v == math.MinInt64 {
		v = math.MinInt64 + 1 // "-9223372036854775808" is not a literal the SQL parser accepts
	}
	if v < 0 {
		return Un{Op: "neg", A: Lit{Int(-v)}}
	}
	return Lit{Int(v)}
}

// GenExpr draws an expression of kind k over the fields (KList is never asked for).
func (g *Gen) GenExpr(fs []Field, k Kind, depth int) Expr {
	r := g.R
	leaf := depth <= 0 || r.Chance(1, 3)
	switch k {
	case KInt:
		if leaf {
			if f, ok := pick(r, fs, func(f Field) bool { return f.T == KInt }); ok && r.Chance(3, 4) {
				return g.colRef(f)
			}
			return g.intLit()
		}
		switch r.Intn(4) {
		case 0:
			return Bin{"+", g.GenExpr(fs, KInt, depth-1), g.GenExpr(fs, KInt, depth-1)}
		case 1:
			return Bin{"-", g.GenExpr(fs, KInt, depth-1), g.GenExpr(fs, KInt, depth-1)}
		case 2:
			return Bin{"*", g.GenExpr(fs, KInt, depth-1), g.GenExpr(fs, KInt, depth-1)}
		default:
			return Un{"neg", g.GenExpr(fs, KInt, depth-1)}
		}
	case KFloat: // no arithmetic: column or literal
		if f, ok := pick(r, fs, func(f Field) bool { return f.T == KFloat }); ok && r.Chance(3, 4) {
			return g.colRef(f)
		}
		return Lit{Float(floatLits[r.Intn(len(floatLits))])}
	case KStr:
		if leaf {
			if f, ok := pick(r, fs, func(f Field) bool { return f.T == KStr }); ok && r.Chance(3, 4) {
				return g.colRef(f)
			}
			return Lit{Str(litStrings[r.Intn(len(litStrings))])}
		}
		return Bin{"+", g.GenExpr(fs, KStr, depth-1), g.GenExpr(fs, KStr, depth-1)}
	case KBool:
		if leaf {
			if f, ok := pick(r, fs, func(f Field) bool { return f.T == KBool }); ok && r.Chance(2, 3) {
				return g.colRef(f)
			}
			if r.Chance(1, 3) {
				return Lit{Bool(r.Bool())}
			}
			// fall through to a comparison of leaves
			depth = 1
		}
		switch r.Intn(9) {
		case 8:
			// a strict function (NOT, =) over an AND / OR with one operand that can be NULL (a comparison on a
			// column) and one that cannot (IS [NOT] NULL, a literal, a comparison of literals)
			var p Expr = Lit{Null()}
			if f, ok := pick(r, fs, func(f Field) bool { return f.T == KInt || f.T == KStr || f.T == KBool }); ok {
				switch f.T {
				case KInt:
					p = Bin{[]string{"<", ">=", "="}[r.Intn(3)], g.colRef(f), g.intLit()}
				case KStr:
					p = Bin{[]string{"<", ">=", "!="}[r.Intn(3)], g.colRef(f), Lit{Str(litStrings[r.Intn(len(litStrings))])}}
				default:
					p = g.colRef(f)
				}
			}
			var q Expr
			switch r.Intn(3) {
			case 0:
				q = Lit{Bool(r.Chance(3, 4))}
			case 1:
				q = Bin{"<=", Lit{Int(int64(r.Intn(3)))}, Lit{Int(int64(r.Intn(3)))}}
			default:
				if f, ok := pick(r, fs, func(f Field) bool { return f.T != KList }); ok {
					q = Un{[]string{"isnull", "isnotnull"}[r.Intn(2)], g.colRef(f)}
				} else {
					q = Lit{Bool(true)}
				}
			}
			if r.Bool() {
				p, q = q, p
			}
			var e Expr = And{p, q}
			if r.Chance(1, 3) {
				e = Or{p, q}
			}
			if r.Chance(3, 4) {
				return Un{"not", e}
			}
			return Bin{"=", e, Lit{Bool(r.Bool())}}
		case 0, 1, 2:
			kk := []Kind{KInt, KInt, KStr, KBool}[r.Intn(4)]
			if _, ok := pick(r, fs, func(f Field) bool { return f.T == KFloat }); ok && r.Chance(1, 2) {
				kk = KFloat
			}
			op := []string{"=", "!=", "<", "<=", ">", ">="}[r.Intn(6)]
			return Bin{op, g.GenExpr(fs, kk, depth-1), g.GenExpr(fs, kk, depth-1)}
		case 3:
			if f, ok := pick(r, fs, func(f Field) bool { return f.T != KList }); ok {
				op := []string{"isnull", "isnotnull"}[r.Intn(2)]
				return Un{op, g.colRef(f)}
			}
			return Un{"isnull", g.GenExpr(fs, KInt, depth-1)}
		case 4:
			return Un{"not", g.GenExpr(fs, KBool, depth-1)}
		case 5:
			return And{g.boolOrNull(fs, depth-1), g.boolOrNull(fs, depth-1)}
		case 6:
			return Or{g.boolOrNull(fs, depth-1), g.boolOrNull(fs, depth-1)}
		default:
			// "=" between different kinds (Any, Any) and against a NULL-typed operand
			if f, ok := pick(r, fs, func(f Field) bool { return f.T != KList }); ok {
				if r.Chance(1, 3) {
					return Bin{"=", g.colRef(f), Lit{Null()}}
				}
				return Bin{[]string{"=", "!="}[r.Intn(2)], g.colRef(f), g.GenExpr(fs, []Kind{KInt, KStr}[r.Intn(2)], 0)}
			}
			return Lit{Bool(true)}
		}
	}
	return Lit{Null()}
}

func (g *Gen) boolOrNull(fs []Field, depth int) Expr {
	if g.R.Chance(1, 8) {
		return Lit{Null()}
	}
	return g.GenExpr(fs, KBool, depth)
}

// any scalar kind for which the fields (or literals) give something
func (g *Gen) anyKind() Kind {
	if g.P.Floats && g.R.Chance(1, 6) {
		return KFloat
	}
	return []Kind{KInt, KInt, KStr, KBool}[g.R.Intn(4)]
}

// numKind: Int, or Float when the fields have a Float column (min / max have both overloads)
func (g *Gen) numKind(fs []Field) Kind {
	if _, ok := pick(g.R, fs, func(f Field) bool { return f.T == KFloat }); ok && g.R.Chance(1, 2) {
		return KFloat
	}
	return KInt
}

// ---- sources and queries ----

type srcInfo struct {
	src     Source
	fields  []Field
	ordered bool // the row order is determined (file order), so LIMIT without ORDER BY is determined
}

func (g *Gen) genSource(depth int) srcInfo {
	r := g.R
	switch {
	case depth > 0 && r.Chance(2, 5):
		alias := g.fresh("x")
		q, out, ordered, _ := g.GenQuery(depth-1, false)
		fs := make([]Field, len(out))
		for i := range out {
			fs[i] = Field{Qual: alias, Name: out[i].Name, T: out[i].T, Elem: out[i].Elem, NoRef: out[i].NoRef}
		}
		markAmbiguous(fs)
		return srcInfo{Source{Kind: "sub", Sub: q, Alias: alias}, fs, ordered}
	case len(g.ctes) > 0 && r.Chance(1, 3):
		c := g.ctes[r.Intn(len(g.ctes))]
		return srcInfo{Source{Kind: "cte", Table: c.name}, c.fields, false}
	default:
		t := g.Tables[r.Intn(len(g.Tables))]
		alias := tableAlias(t.Name)
		explicit := r.Chance(1, 3)
		if explicit {
			alias = g.fresh("r")
		}
		fs := make([]Field, len(t.Cols))
		for i := range t.Cols {
			fs[i] = Field{Qual: alias, Name: t.Cols[i], T: t.Types[i]}
		}
		return srcInfo{Source{Kind: "table", Table: t.Name, Alias: alias, ExplicitAlias: explicit}, fs, true}
	}
}

// GenQuery returns the query, its output fields (unqualified), whether its row order is determined, and
// whether its rows are pairwise distinct by construction.
func (g *Gen) GenQuery(depth int, top bool) (*Query, []Field, bool, bool) {
	r := g.R
	si := g.genSource(depth)
	q := &Query{From: si.src}
	fs := si.fields
	if r.Chance(2, 5) {
		q.Where = g.GenExpr(fs, KBool, 1+r.Intn(2))
	}
	var out []Field
	grouping := r.Intn(10) < g.P.GroupBias
	distinctRows := false
	if grouping {
		nkeys := []int{0, 1, 1, 1, 2, 2, 3}[r.Intn(7)]
		var keyKinds []Kind
		for i := 0; i < nkeys; i++ {
			var e Expr
			k := KInt
			if f, ok := pick(r, fs, func(f Field) bool { return f.T != KList }); ok && r.Chance(4, 5) {
				e = Col{Name: f.Name}
				if f.Qual != "" && r.Chance(1, 3) {
					e = Col{Qual: f.Qual, Name: f.Name}
				}
				k = f.T
			} else {
				k = g.anyKind()
				e = g.GenExpr(fs, k, 1)
			}
			dup := false
			for _, prev := range q.GroupBy {
				if prev.Coq() == e.Coq() {
					dup = true
				}
			}
			if dup {
				continue
			}
			q.GroupBy = append(q.GroupBy, e)
			keyKinds = append(keyKinds, k)
		}
		nagg := []int{0, 1, 1, 2, 2, 3, 4}[r.Intn(7)]
		if len(q.GroupBy) == 0 && nagg == 0 {
			nagg = 1
		}
		// selected keys: each at most once
		allKeys := true
		type sel struct {
			it Item
			f  Field
		}
		var sels []sel
		for i, k := range q.GroupBy {
			if r.Chance(4, 5) || (nagg == 0 && i == 0) {
				a := g.fresh("k")
				sels = append(sels, sel{Item{E: k, Alias: a}, Field{Name: a, T: keyKinds[i]}})
			} else {
				allKeys = false
			}
		}
		for i := 0; i < nagg; i++ {
			a := g.fresh("g")
			it := Item{Alias: a}
			var t, elem Kind
			switch r.Intn(10) {
			case 9:
				it.Agg, it.E, t = "avg", g.GenExpr(fs, KInt, 0), KInt
				it.Dist = r.Chance(1, 3)
			case 0:
				it.Agg, it.CStar, it.E, t = "count", true, Lit{Bool(true)}, KInt
			case 1:
				it.Agg, it.E, t = "count", g.GenExpr(fs, g.anyKind(), 1), KInt
				it.Dist = r.Chance(1, 2)
			case 2, 3:
				it.Agg, it.E, t = "sum", g.GenExpr(fs, KInt, 1), KInt
				it.Dist = r.Chance(1, 3)
			case 4:
				it.Agg, it.E, t = "avg", g.GenExpr(fs, KInt, 1), KInt
				it.Dist = r.Chance(1, 3)
			case 5:
				t = g.numKind(fs)
				it.Agg, it.E = "min", g.GenExpr(fs, t, 1)
			case 6:
				t = g.numKind(fs)
				it.Agg, it.E = "max", g.GenExpr(fs, t, 1)
			default:
				elem = g.anyKind()
				it.Agg, it.E, t = "array_agg", g.GenExpr(fs, elem, 1), KList
				it.Dist = r.Chance(1, 3)
			}
			sels = append(sels, sel{it, Field{Name: a, T: t, Elem: elem}})
		}
		// shuffle the select list
		for i := len(sels) - 1; i > 0; i-- {
			j := r.Intn(i + 1)
			sels[i], sels[j] = sels[j], sels[i]
		}
		items := make([]Item, len(sels))
		for i := range sels {
			items[i] = sels[i].it
		}
		names, noref := g.nameGroupingItems(items, q.GroupBy)
		for i, s := range sels {
			s.f.Name, s.f.NoRef = names[i], noref[i]
			q.Items = append(q.Items, items[i])
			out = append(out, s.f)
		}
		if g.P.TriggerBias > 0 && r.Intn(10) < g.P.TriggerBias {
			q.Trigger = []string{"COUNTING 1", "COUNTING 1", "COUNTING 2", "COUNTING 3", "COUNTING 2, ON END OF STREAM", "ON END OF STREAM"}[r.Intn(6)]
			g.Triggers = append(g.Triggers, q)
			g.shape("trigger " + q.Trigger)
		}
		distinctRows = allKeys
	} else {
		if si.src.Kind != "table" && len(fs) >= 2 && r.Chance(2, 5) {
			// projection of a strict subset of the columns of a nested relation
			k := 1 + r.Intn(len(fs)-1)
			start := r.Intn(len(fs))
			for j := 0; j < k; j++ {
				f := fs[(start+j)%len(fs)]
				if f.NoRef {
					continue
				}
				a := g.fresh("c")
				q.Items = append(q.Items, Item{E: g.colRef(f), Alias: a})
				out = append(out, Field{Name: a, T: f.T, Elem: f.Elem})
			}
			g.shape("subset projection of a nested relation")
			if sub := si.src.Sub; sub != nil && !sub.Distinct && r.Chance(1, 2) {
				sub.Distinct = true // DISTINCT over more columns than the outer select reads
				g.shape("nested DISTINCT")
			}
		}
		if len(q.Items) > 0 {
		} else if r.Chance(1, 8) {
			q.Items = []Item{{Star: true}}
			for _, f := range fs {
				out = append(out, Field{Qual: f.Qual, Name: f.Name, T: f.T, Elem: f.Elem})
			}
		} else {
			n := 1 + r.Intn(4)
			if !top && n < 2 {
				n = 2 + r.Intn(2)
			}
			for i := 0; i < n; i++ {
				if r.Chance(1, 12) && !hasStar(q.Items) {
					it := Item{Star: true}
					if si.src.Kind != "cte" && len(fs) > 0 && fs[0].Qual != "" && r.Chance(1, 2) {
						it.QStar = fs[0].Qual // t.*: every field of a table / subquery source carries its alias
						g.shape("qualified star")
					}
					q.Items = append(q.Items, it)
					for _, f := range fs {
						out = append(out, Field{Qual: f.Qual, Name: f.Name, T: f.T, Elem: f.Elem})
					}
					continue
				}
				a := g.fresh("c")
				if f, ok := pick(r, fs, func(Field) bool { return true }); ok && r.Chance(1, 3) {
					q.Items = append(q.Items, Item{E: g.colRef(f), Alias: a}) // also passes list and NULL-typed columns through
					out = append(out, Field{Name: a, T: f.T, Elem: f.Elem})
					continue
				}
				if r.Chance(1, 15) {
					q.Items = append(q.Items, Item{E: Lit{Null()}, Alias: a})
					out = append(out, Field{Name: a, T: KNull})
					continue
				}
				k := g.anyKind()
				q.Items = append(q.Items, Item{E: g.GenExpr(fs, k, 2), Alias: a})
				out = append(out, Field{Name: a, T: k})
			}
		}
	}
	if !grouping {
		g.nameMapItems(q.Items, fs, out)
	}
	// nested selects (subquery in FROM, WITH) are DISTINCT more often and have >= 2 columns: the outer select then
	// usually reads a strict subset of the columns of a DISTINCT / grouping / ORDER BY+LIMIT relation
	if r.Chance(1, 4) || (!top && r.Chance(1, 4)) {
		q.Distinct = true
		distinctRows = true
		if !top {
			g.shape("nested DISTINCT")
		}
	}
	ordered := si.ordered && !grouping
	if r.Chance(2, 5) {
		nk := 1 + r.Intn(2)
		for i := 0; i < nk; i++ {
			f, ok := pick(r, out, func(f Field) bool { return f.T != KList })
			if !ok {
				break
			}
			var e Expr = Col{Name: f.Name}
			if f.T == KInt && r.Chance(1, 4) {
				e = Bin{"+", Col{Name: f.Name}, g.intLit()}
			}
			q.OrderBy = append(q.OrderBy, OrderKey{E: e, Desc: r.Bool()})
		}
	}
	if len(q.OrderBy) > 0 {
		ordered = true
		if r.Chance(1, 2) {
			n := int64(r.Intn(6)) // 0 included
			q.Limit = &n
			if !top {
				// Inside a subquery / WITH the cut must not fall between rows that differ only in columns the
				// outer select may not read: the optimizer prunes such columns and the tie order at the cut
				// (which SQL leaves open) changes.  Every output column becomes a key.
				for _, f := range out {
					if f.T == KList || f.NoRef {
						q.Limit = nil
						break
					}
					q.OrderBy = append(q.OrderBy, OrderKey{E: Col{Name: f.Name}, Desc: r.Bool()})
				}
			}
		}
	} else if ordered && r.Chance(1, 4) {
		n := int64(r.Intn(6))
		q.Limit = &n
	}
	return q, out, ordered, distinctRows
}

func hasStar(items []Item) bool {
	for _, it := range items {
		if it.Star {
			return true
		}
	}
	return false
}

// GenTop draws the tables, 0..2 WITH definitions and the main query.
func (g *Gen) GenTop() *Top {
	r := g.R
	g.GenTables()
	t := &Top{}
	nc := []int{0, 0, 0, 1, 1, 2}[r.Intn(6)]
	for i := 0; i < nc; i++ {
		q, out, _, _ := g.GenQuery(g.P.MaxDepth-1, false)
		name := fmt.Sprintf("w%d", i+1)
		t.CTEs = append(t.CTEs, CTE{name, q})
		fs := make([]Field, len(out))
		copy(fs, out) // fields of a WITH name keep the names its select gave them, without a qualifier
		g.ctes = append(g.ctes, cteInfo{name, fs})
	}
	var out []Field
	t.Main, out, _, _ = g.GenQuery(g.P.MaxDepth, true)
	g.MainOut = out
	// a TRIGGER clause makes the plan emit retractions; -o json consolidates them only through the
	// OrderSensitiveTransform, so such a statement gets a top-level ORDER BY (or loses its triggers)
	if len(g.Triggers) > 0 && len(t.Main.OrderBy) == 0 {
		if f, ok := pick(r, out, func(f Field) bool { return f.T != KList }); ok {
			t.Main.OrderBy = []OrderKey{{E: Col{Name: f.Name}, Desc: r.Bool()}}
			if t.Main.Limit != nil && r.Bool() {
				t.Main.Limit = nil
			}
		} else {
			for _, q := range g.Triggers {
				q.Trigger = ""
			}
			g.Triggers = nil
		}
	}
	return t
}

// ---- names of a grouping select list ----

// parser.ParseSelect's getUniqueName (after the fix for three columns of one name: the requested name's counter
// advances and the suffixed candidate is checked as well).
type uniqueNamer map[string]int

func (n uniqueNamer) get(name string) string {
	for {
		count, used := n[name]
		n[name] = count + 1
		if !used {
			return name
		}
		name = fmt.Sprintf("%s_%d", name, count)
	}
}

var aggWords = map[string]bool{"count": true, "sum": true, "avg": true, "min": true, "max": true, "array_agg": true,
	"count_distinct": true, "sum_distinct": true, "avg_distinct": true, "array_agg_distinct": true}

// generatedName is the name the parser gives an item written without AS.
func generatedName(it Item, keys []Expr) string {
	if it.Agg != "" {
		agg := it.Agg
		if it.Dist {
			agg += "_distinct"
		}
		if c, ok := it.E.(Col); ok && !it.CStar {
			return agg + "_" + c.Name
		}
		return agg
	}
	if c, ok := it.E.(Col); ok {
		return c.Name
	}
	for i, k := range keys {
		if k.Coq() == it.E.Coq() {
			return fmt.Sprintf("key_%d", i)
		}
	}
	return "key_0"
}

// nameGroupingItems decides how each item of a grouping select list is written (fresh alias, no alias, an alias
// that repeats another column's name) and returns the column names the parser derives, in select order.
func (g *Gen) nameGroupingItems(items []Item, keys []Expr) ([]string, []bool) {
	r := g.R
	n := len(items)
	base := make([]string, n)
	for i := range items {
		base[i] = items[i].Alias // fresh
		if g.P.AliasShapes && r.Chance(1, 3) {
			items[i].NoAlias = true
			base[i] = generatedName(items[i], keys)
			g.shape("item without alias")
		}
	}
	mult := func(b string) int {
		c := 0
		for _, x := range base {
			if x == b {
				c++
			}
		}
		return c
	}
	if g.P.AliasShapes && n >= 2 && r.Chance(1, 3) {
		// an explicit alias that repeats another column's alias or generated name
		j := r.Intn(n)
		i := (j + 1 + r.Intn(n-1)) % n
		target := base[i]
		if r.Chance(1, 3) {
			target = generatedName(items[i], keys) // the name the other item would have had without its alias
		}
		if !strings.HasPrefix(target, "key_") && base[j] != target && mult(target) <= 1 {
			items[j].NoAlias, items[j].SQLAlias, base[j] = false, target, target
			g.shape("alias repeating another column's name")
		}
	}
	if g.P.AllowTriple && n >= 3 && r.Chance(1, 10) {
		target := base[r.Intn(n)]
		if !strings.HasPrefix(target, "key_") {
			c := 0
			for j := range items {
				if base[j] != target && c < 2 {
					items[j].NoAlias, items[j].SQLAlias, base[j] = false, target, target
					c++
				}
			}
			g.shape("three columns of one name")
		}
	}
	un := uniqueNamer{}
	names := make([]string, n)
	noref := make([]bool, n)
	defer func() {
		// the default name key_<j> of a key that is not selected must not be the name of a selected column
		for j, k := range keys {
			selected := false
			for _, it := range items {
				if it.Agg == "" && !it.Star && it.E.Coq() == k.Coq() {
					selected = true
				}
			}
			if selected {
				continue
			}
			for _, nm := range names {
				if nm == fmt.Sprintf("key_%d", j) {
					g.KeyNameClash = true
					g.shape("selected column named like an unselected key")
				}
			}
		}
	}()
	for i := range items {
		names[i] = un.get(base[i])

		items[i].Alias = names[i]
		if !items[i].NoAlias && items[i].SQLAlias == "" && names[i] != base[i] {
			items[i].SQLAlias = base[i]
		}
		noref[i] = aggWords[names[i]] || mult(base[i]) >= 3
	}
	return names, noref
}

// GenOrderLimitTop: ORDER BY k [ASC|DESC] LIMIT n over a table with runs of fully equal rows, n running through
// 0 .. rows+1 with the case index (so that the n-th row falls inside, at the end of, and past a run); a third of
// the cases have the ORDER BY + LIMIT inside a subquery.
func (g *Gen) GenOrderLimitTop(i int) *Top {
	r := g.R
	t := &Table{Name: "t1.csv", Cols: []string{"a", "b"}, Types: []Kind{KInt, KStr}}
	distinct := 1 + r.Intn(3)
	if i%4 == 3 {
		distinct = 3 + r.Intn(2)
	}
	var pool [][]Val
	for k := 0; k < distinct; k++ {
		row := []Val{Int(int64(r.Intn(3))), Str(simpleStrings[r.Intn(len(simpleStrings))])}
		if i%4 == 3 {
			// keys whose differences do not fit in an int64
			row[0] = Int([]int64{math.MaxInt64, math.MinInt64 + 1, -3, 1, 0, math.MaxInt64 - 1}[r.Intn(6)])
		}
		if r.Chance(1, 6) {
			row[0] = Null()
		}
		pool = append(pool, row)
	}
	nrows := 3 + r.Intn(5)
	for k := 0; k < nrows; k++ {
		t.Rows = append(t.Rows, append([]Val(nil), pool[r.Intn(len(pool))]...))
	}
	for c := 0; c < 2; c++ {
		has := false
		for _, row := range t.Rows {
			if row[c].K != KNull {
				has = true
			}
		}
		if !has {
			t.Rows[0][c] = []Val{Int(1), Str("a")}[c]
		}
	}
	g.Tables = []*Table{t}
	n := int64(i % (nrows + 2))
	inner := &Query{From: Source{Kind: "table", Table: t.Name, Alias: "t1"}}
	a1, a2 := g.fresh("c"), g.fresh("c")
	inner.Items = []Item{{E: Col{Name: "a"}, Alias: a1}, {E: Col{Name: "b"}, Alias: a2}}
	if r.Chance(1, 3) {
		inner.Items = inner.Items[:1]
	}
	key := inner.Items[r.Intn(len(inner.Items))].Alias
	inner.OrderBy = []OrderKey{{E: Col{Name: key}, Desc: r.Bool()}}
	if len(inner.Items) == 2 && i%2 == 1 {
		// two keys, every combination of directions in turn (ties on the first key, different second keys)
		d := (i / 2) % 4
		inner.OrderBy = []OrderKey{{E: Col{Name: inner.Items[1].Alias}, Desc: d < 2}, {E: Col{Name: inner.Items[0].Alias}, Desc: d%2 == 1}}
		g.shape(fmt.Sprintf("order_limit two keys desc=%v,%v", d < 2, d%2 == 1))
	}
	inner.Limit = &n
	g.shape(fmt.Sprintf("order_limit n-rows=%+d", int(n)-nrows))
	if i%3 != 2 {
		return &Top{Main: inner}
	}
	x := g.fresh("x")
	outer := &Query{From: Source{Kind: "sub", Sub: inner, Alias: x}}
	outer.Items = []Item{{E: Col{Qual: x, Name: inner.Items[0].Alias}, Alias: g.fresh("c")}}
	if r.Bool() {
		outer.OrderBy = []OrderKey{{E: Col{Name: outer.Items[0].Alias}, Desc: r.Bool()}}
		m := int64(r.Intn(nrows + 1))
		outer.Limit = &m
	}
	return &Top{Main: outer}
}

// GenNestedTop: a DISTINCT / GROUP BY / ORDER BY+LIMIT / filtered select over a small table whose rows agree on some
// columns and differ on others, as a subquery in FROM or a WITH table, under an outer select that reads a strict
// subset of its columns (optionally with WHERE, DISTINCT, ORDER BY).  What the inner relation is must not depend
// on what the outer select reads.
func (g *Gen) GenNestedTop(i int) *Top {
	r := g.R
	t := &Table{Name: "t1.csv", Cols: []string{"a", "b", "c"}, Types: []Kind{KInt, KStr, KInt}}
	nrows := 4 + r.Intn(5)
	for k := 0; k < nrows; k++ {
		row := []Val{Int(int64(r.Intn(2))), Str(simpleStrings[r.Intn(2)]), Int(int64(r.Intn(3)))}
		for c := range row {
			if r.Chance(1, 8) {
				row[c] = Null()
			}
		}
		if k > 0 && r.Chance(1, 4) {
			row = append([]Val(nil), t.Rows[r.Intn(k)]...)
		}
		t.Rows = append(t.Rows, row)
	}
	t.Rows[0] = []Val{Int(0), Str("a"), Int(1)}
	g.Tables = []*Table{t}
	from := Source{Kind: "table", Table: t.Name, Alias: "t1"}
	inner := &Query{From: from}
	var out []Field
	add := func(col string, k Kind) {
		a := g.fresh("c")
		inner.Items = append(inner.Items, Item{E: Col{Name: col}, Alias: a})
		out = append(out, Field{Name: a, T: k})
	}
	kind := i % 4
	switch kind {
	case 0:
		inner.Distinct = true
		add("a", KInt)
		add("b", KStr)
		add("c", KInt)
	case 1:
		inner.GroupBy = []Expr{Col{Name: "a"}, Col{Name: "b"}}
		add("a", KInt)
		add("b", KStr)
		a := g.fresh("g")
		inner.Items = append(inner.Items, Item{Agg: "count", CStar: true, E: Lit{Bool(true)}, Alias: a})
		out = append(out, Field{Name: a, T: KInt})
	case 2:
		add("a", KInt)
		add("b", KStr)
		add("c", KInt)
		// a total order: the optimizer prunes what the outer select does not read, which may reorder ties
		inner.OrderBy = []OrderKey{{E: Col{Name: out[2].Name}, Desc: r.Bool()}, {E: Col{Name: out[0].Name}, Desc: r.Bool()}, {E: Col{Name: out[1].Name}, Desc: r.Bool()}}
		n := int64(r.Intn(nrows + 1))
		inner.Limit = &n
		if i%8 == 6 {
			inner.OrderBy = nil // a WITH / subquery body ending in LIMIT n alone: the first n rows of the file
			n = int64(r.Intn(nrows))
			g.shape("nested LIMIT without ORDER BY")
		}
	default:
		inner.Distinct = true
		add("a", KInt)
		add("b", KStr)
		inner.Where = Un{"isnotnull", Col{Name: "c"}}
	}
	g.shape([]string{"nested DISTINCT", "nested GROUP BY", "nested ORDER BY+LIMIT", "nested DISTINCT+WHERE"}[kind] + " under a subset projection")
	top := &Top{}
	var fs []Field
	var src Source
	if i%8 >= 4 {
		top.CTEs = []CTE{{"w1", inner}}
		src = Source{Kind: "cte", Table: "w1"}
		fs = out
	} else {
		x := g.fresh("x")
		src = Source{Kind: "sub", Sub: inner, Alias: x}
		for _, f := range out {
			fs = append(fs, Field{Qual: x, Name: f.Name, T: f.T})
		}
	}
	outer := &Query{From: src}
	k := 1 + r.Intn(len(fs)-1)
	start := r.Intn(len(fs))
	var read []Field
	for j := 0; j < k; j++ {
		f := fs[(start+j)%len(fs)]
		read = append(read, f)
		outer.Items = append(outer.Items, Item{E: g.colRef(f), Alias: g.fresh("c")})
	}
	switch r.Intn(4) {
	case 0:
		f := fs[r.Intn(len(fs))] // read or not read by the select list
		if f.T == KInt {
			outer.Where = Bin{[]string{"=", "<", ">="}[r.Intn(3)], g.colRef(f), Lit{Int(int64(r.Intn(2)))}}
		} else {
			outer.Where = Bin{"=", g.colRef(f), Lit{Str("a")}}
		}
	case 1:
		outer.Distinct = true
	}
	if r.Chance(1, 3) {
		outer.OrderBy = []OrderKey{{E: Col{Name: outer.Items[0].Alias}, Desc: r.Bool()}}
	}
	top.Main = outer
	_ = read
	return top
}

// GenLogicTop: WHERE keeps TRUE only.  A table with columns that hold NULLs (a, s, f) and columns that never do
// (b, d); boolean expressions of depth <= 3 built from comparisons on both kinds of column, IS [NOT] NULL, literals,
// NOT, AND, OR, = TRUE|FALSE, used as the WHERE predicate and as a select expression.
func (g *Gen) GenLogicTop(i int) *Top {
	r := g.R
	t := &Table{Name: "t1.csv", Cols: []string{"a", "b", "s", "f", "d"}, Types: []Kind{KInt, KInt, KStr, KBool, KBool}}
	nrows := 5 + r.Intn(4)
	for k := 0; k < nrows; k++ {
		row := []Val{Int(int64(r.Intn(3))), Int(int64(r.Intn(3))), Str(simpleStrings[r.Intn(2)]), Bool(r.Bool()), Bool(r.Bool())}
		for _, c := range []int{0, 2, 3} {
			if r.Chance(2, 5) {
				row[c] = Null()
			}
		}
		t.Rows = append(t.Rows, row)
	}
	t.Rows[0] = []Val{Null(), Int(1), Str("a"), Bool(true), Bool(true)}
	t.Rows[1] = []Val{Int(0), Int(0), Null(), Null(), Bool(false)}
	g.Tables = []*Table{t}
	col := func(n string) Expr {
		if r.Chance(1, 4) {
			return Col{Qual: "t1", Name: n}
		}
		return Col{Name: n}
	}
	atom := func() Expr {
		switch r.Intn(13) {
		case 0:
			return Bin{[]string{"<", ">=", "="}[r.Intn(3)], col("a"), Lit{Int(int64(r.Intn(3)))}}
		case 1:
			return Bin{[]string{"=", "!=", "<="}[r.Intn(3)], col("a"), col("b")}
		case 2:
			return Bin{[]string{"=", "!=", "<"}[r.Intn(3)], col("s"), Lit{Str(simpleStrings[r.Intn(2)])}}
		case 3:
			return col("f")
		case 4:
			return Bin{"=", col("f"), col("d")}
		case 5:
			return Bin{[]string{">=", "<", "="}[r.Intn(3)], col("b"), Lit{Int(int64(r.Intn(3)))}}
		case 6:
			return col("d")
		case 7:
			return Un{"isnull", col([]string{"a", "s", "f", "b"}[r.Intn(4)])}
		case 8:
			return Un{"isnotnull", col([]string{"a", "s", "f", "d"}[r.Intn(4)])}
		case 9:
			return Lit{Bool(r.Chance(3, 4))}
		case 11, 12:
			// = / != take Any: an operand whose static type is exactly NULL still makes the result NULL
			c := col([]string{"a", "b", "s", "d"}[r.Intn(4)])
			if r.Bool() {
				return Bin{[]string{"=", "!="}[r.Intn(2)], c, Lit{Null()}}
			}
			return Bin{[]string{"=", "!="}[r.Intn(2)], Lit{Null()}, c}
		default:
			return Bin{"<=", Lit{Int(int64(r.Intn(3)))}, Lit{Int(int64(r.Intn(3)))}}
		}
	}
	var gen func(d int) Expr
	gen = func(d int) Expr {
		if d <= 0 || r.Chance(1, 5) {
			return atom()
		}
		switch r.Intn(10) {
		case 0, 1, 2:
			return Un{"not", gen(d - 1)}
		case 3, 4, 5:
			return And{gen(d - 1), gen(d - 1)}
		case 6, 7:
			return Or{gen(d - 1), gen(d - 1)}
		case 8:
			return Bin{[]string{"=", "!="}[r.Intn(2)], gen(d - 1), Lit{Bool(r.Bool())}}
		default:
			return Un{[]string{"isnull", "isnotnull"}[r.Intn(2)], gen(d - 1)}
		}
	}
	q := &Query{From: Source{Kind: "table", Table: t.Name, Alias: "t1"}}
	q.Items = []Item{{E: Col{Name: "a"}, Alias: g.fresh("c")}, {E: Col{Name: "b"}, Alias: g.fresh("c")}}
	switch i % 3 {
	case 0:
		q.Where = gen(3)
	case 1:
		q.Items = append(q.Items, Item{E: gen(3), Alias: g.fresh("c")})
	default:
		q.Where = gen(2)
		q.Items = append(q.Items, Item{E: gen(3), Alias: g.fresh("c")})
	}
	g.shape("three-valued logic family")
	return &Top{Main: q}
}

// markAmbiguous: a column whose (short) name is not unique among the fields is never referenced.
func markAmbiguous(fs []Field) {
	count := map[string]int{}
	for _, f := range fs {
		count[f.Name]++
	}
	for i := range fs {
		if count[fs[i].Name] > 1 {
			fs[i].NoRef = true
		}
	}
}

// nameMapItems decides how the items of a non-grouping select list are written (fresh alias / no alias / an alias
// repeating another column's name) and sets the names of the output columns as logical.Map.Typecheck derives them:
// the alias; for an un-aliased column reference the (qualified) name of the field it reads; otherwise col_<position>;
// repeated names get _<n> (out has one entry per expanded column, stars expanded in place).
func (g *Gen) nameMapItems(items []Item, fs []Field, out []Field) {
	r := g.R
	type cand struct{ qual, name string }
	var cands []cand
	var owner []int // item of each expanded column
	for i := range items {
		it := &items[i]
		if it.Star {
			for _, f := range fs {
				cands = append(cands, cand{f.Qual, f.Name})
				owner = append(owner, i)
			}
			continue
		}
		if g.P.AliasShapes && r.Chance(1, 5) {
			it.NoAlias = true
			g.shape("item without alias")
		}
		c := cand{"", it.Alias}
		if it.NoAlias {
			c = cand{"", fmt.Sprintf("col_%d", len(cands))}
			if col, ok := it.E.(Col); ok {
				for _, f := range fs {
					if f.Name == col.Name && (col.Qual == "" || col.Qual == f.Qual) {
						c = cand{f.Qual, f.Name}
						break
					}
				}
			}
		}
		cands = append(cands, c)
		owner = append(owner, i)
	}
	mult := func(c cand) int {
		n := 0
		for _, x := range cands {
			if x == c {
				n++
			}
		}
		return n
	}
	aliased := func(k int) bool { return !items[owner[k]].Star && !items[owner[k]].NoAlias }
	if g.P.AliasShapes && len(cands) >= 2 && r.Chance(1, 4) {
		j, i := r.Intn(len(cands)), r.Intn(len(cands))
		if i != j && aliased(j) && cands[i].qual == "" && cands[j] != cands[i] && mult(cands[i]) == 1 {
			items[owner[j]].SQLAlias = cands[i].name
			cands[j] = cands[i]
			g.shape("alias repeating another column's name")
		}
	}
	if g.P.AllowTripleMap && len(cands) >= 3 && r.Chance(1, 12) {
		t := cands[r.Intn(len(cands))]
		if t.qual == "" {
			n := 0
			for j := range cands {
				if aliased(j) && cands[j] != t && n < 2 {
					items[owner[j]].SQLAlias = t.name
					cands[j] = t
					n++
				}
			}
			if mult(t) >= 3 {
				g.TripleName = true
				g.shape("three columns of one name (Map)")
			}
		}
	}
	un := uniqueNamer{}
	for k, c := range cands {
		key := c.name
		if c.qual != "" {
			key = c.qual + "." + c.name
		}
		got := un.get(key)
		out[k].Qual = c.qual
		out[k].Name = got[len(key)-len(c.name):]
		if mult(c) >= 3 {
			out[k].NoRef = true
		}
	}
	markAmbiguous(out)
}

// GenTriggerTop: GROUP BY k TRIGGER COUNTING n over a table in which each key occurs several times and many
// aggregate inputs are NULL or repeat, with aggregates that ignore NULLs (and, for the DISTINCT ones, repetitions):
// a key fires, fires again with unchanged aggregates, then with changed ones.  The final rows must be the grouping.
func (g *Gen) GenTriggerTop(i int) *Top {
	r := g.R
	t := &Table{Name: "t1.csv", Cols: []string{"k", "v", "w"}, Types: []Kind{KStr, KInt, KInt}}
	nrows := 6 + r.Intn(6)
	for j := 0; j < nrows; j++ {
		row := []Val{Str(simpleStrings[r.Intn(2+i%2)]), Int(int64(r.Intn(3))), Int(int64(1 + r.Intn(3)))}
		if r.Chance(2, 5) {
			row[1] = Null() // the input of the earlier aggregates is NULL while w is not
		}
		if r.Chance(1, 6) {
			row[2] = Null()
		}
		t.Rows = append(t.Rows, row)
	}
	t.Rows[0][1] = Int(1)
	t.Rows[1][1], t.Rows[1][2] = Null(), Int(2)
	g.Tables = []*Table{t}
	q := &Query{From: Source{Kind: "table", Table: t.Name, Alias: "t1"}, GroupBy: []Expr{Col{Name: "k"}}}
	q.Items = []Item{{E: Col{Name: "k"}, Alias: g.fresh("k")}}
	aggs := []Item{{Agg: "sum", E: Col{Name: "v"}}, {Agg: "max", E: Col{Name: "v"}}, {Agg: "min", E: Col{Name: "v"}},
		{Agg: "count", E: Col{Name: "v"}}, {Agg: "count", Dist: true, E: Col{Name: "v"}}, {Agg: "sum", Dist: true, E: Col{Name: "v"}},
		{Agg: "array_agg", Dist: true, E: Col{Name: "v"}}}
	n := 1 + r.Intn(2)
	for j := 0; j < n; j++ {
		it := aggs[r.Intn(len(aggs))]
		it.Alias = g.fresh("g")
		q.Items = append(q.Items, it)
	}
	// a later aggregate over another column, and the row count
	last := []Item{{Agg: "sum", E: Col{Name: "w"}}, {Agg: "count", CStar: true, E: Lit{Bool(true)}}, {Agg: "max", E: Col{Name: "w"}}}[i%3]
	last.Alias = g.fresh("g")
	q.Items = append(q.Items, last)
	q.Trigger = []string{"COUNTING 1", "COUNTING 1", "COUNTING 2", "COUNTING 1, ON END OF STREAM"}[i%4]
	g.Triggers = append(g.Triggers, q)
	g.shape("trigger family " + q.Trigger)
	q.OrderBy = []OrderKey{{E: Col{Name: q.Items[0].Alias}, Desc: r.Bool()}}
	return &Top{Main: q}
}

// GenHavingTop: SELECT k, sum(v), max(v), count(v), avg(v), min(w) ... GROUP BY k over a table in which one key has
// only NULL inputs (its aggregates are NULL) as a subquery in FROM or a WITH table, under an enclosing query that
// applies strict operators (<, +, NOT, =), a filter, or further aggregates (also DISTINCT ones, also grouped) to the
// aggregate columns.  NULL must propagate through the enclosing query's operators exactly as for a NULL column.
func (g *Gen) GenHavingTop(i int) *Top {
	r := g.R
	t := &Table{Name: "t1.csv", Cols: []string{"k", "v", "w"}, Types: []Kind{KStr, KInt, KInt}}
	keys := []string{"a", "b", "ab"}
	big := i%5 == 0
	nrows := 6 + r.Intn(5)
	for j := 0; j < nrows; j++ {
		k := keys[r.Intn(3)]
		row := []Val{Str(k), Int(int64(r.Intn(7))), Int(int64(r.Intn(4)))}
		if k == "ab" || r.Chance(1, 4) {
			row[1] = Null() // every v of key ab is NULL
		}
		if big {
			row[2] = Int(bigInts[r.Intn(7)]) // sums and averages beyond 2^53
		}
		if r.Chance(1, 4) {
			row[2] = Null()
		}
		t.Rows = append(t.Rows, row)
	}
	t.Rows[0] = []Val{Str("ab"), Null(), Int(1)}
	t.Rows[1] = []Val{Str("a"), Int(5), Null()}
	t.Rows[2] = []Val{Str("b"), Null(), Null()}
	if r.Chance(1, 3) {
		t.Rows = append(t.Rows, []Val{Null(), Null(), Int(2)}) // a NULL key whose inputs are NULL as well
	}
	g.Tables = []*Table{t}
	inner := &Query{From: Source{Kind: "table", Table: t.Name, Alias: "t1"}, GroupBy: []Expr{Col{Name: "k"}}}
	k1 := g.fresh("k")
	inner.Items = []Item{{E: Col{Name: "k"}, Alias: k1}}
	pool := []Item{{Agg: "sum", E: Col{Name: "v"}}, {Agg: "max", E: Col{Name: "v"}}, {Agg: "min", E: Col{Name: "v"}},
		{Agg: "avg", E: Col{Name: "v"}}, {Agg: "count", E: Col{Name: "v"}}, {Agg: "sum", Dist: true, E: Col{Name: "v"}},
		{Agg: "min", E: Col{Name: "w"}}, {Agg: "count", Dist: true, E: Col{Name: "w"}}}
	var aggs []string
	for j := 0; j < 2; j++ {
		it := pool[(i+3*j+r.Intn(2))%len(pool)]
		if big && j == 1 {
			it = Item{Agg: "avg", Dist: i%10 == 0, E: Col{Name: "w"}}
		}
		it.Alias = g.fresh("g")
		inner.Items = append(inner.Items, it)
		aggs = append(aggs, it.Alias)
	}
	top := &Top{}
	var src Source
	qual := ""
	if i%4 == 3 {
		top.CTEs = []CTE{{"w1", inner}}
		src = Source{Kind: "cte", Table: "w1"}
	} else {
		qual = g.fresh("x")
		src = Source{Kind: "sub", Sub: inner, Alias: qual}
	}
	ref := func(n string) Expr {
		if qual != "" && r.Bool() {
			return Col{Qual: qual, Name: n}
		}
		return Col{Name: n}
	}
	a, b := aggs[0], aggs[1]
	lit := func() Expr { return Lit{Int(int64(r.Intn(7)))} }
	outer := &Query{From: src}
	switch i % 8 {
	case 0: // HAVING-like filter with a strict comparison
		outer.Where = Bin{[]string{"<", "<=", ">", ">=", "=", "!="}[r.Intn(6)], ref(a), lit()}
		outer.Items = []Item{{E: ref(k1), Alias: g.fresh("c")}, {E: ref(a), Alias: g.fresh("c")}}
	case 1: // arithmetic and comparison in the select list
		outer.Items = []Item{{E: ref(k1), Alias: g.fresh("c")}, {E: Bin{"+", ref(a), Lit{Int(1)}}, Alias: g.fresh("c")},
			{E: Bin{"<", ref(b), lit()}, Alias: g.fresh("c")}, {E: Un{"neg", ref(a)}, Alias: g.fresh("c")}}
	case 2: // NOT / AND over comparisons of aggregates
		outer.Where = Un{"not", And{Bin{">=", ref(a), lit()}, Un{"isnotnull", ref(k1)}}}
		outer.Items = []Item{{E: ref(k1), Alias: g.fresh("c")}, {E: ref(b), Alias: g.fresh("c")}}
	case 3: // aggregate against aggregate
		outer.Where = Bin{[]string{"<", "=", ">="}[r.Intn(3)], ref(a), ref(b)}
		outer.Items = []Item{{E: ref(k1), Alias: g.fresh("c")}, {E: Bin{"*", ref(a), ref(b)}, Alias: g.fresh("c")}}
	case 4: // further aggregates over the aggregate columns
		outer.Items = []Item{{Agg: "sum", E: ref(a), Alias: g.fresh("g")}, {Agg: "count", E: ref(a), Alias: g.fresh("g")},
			{Agg: "count", Dist: true, E: ref(b), Alias: g.fresh("g")}, {Agg: "max", E: Bin{"+", ref(a), Lit{Int(1)}}, Alias: g.fresh("g")}}
	case 5: // grouped again by an aggregate column
		outer.GroupBy = []Expr{ref(b)}
		outer.Items = []Item{{E: outer.GroupBy[0], Alias: g.fresh("k")}, {Agg: "array_agg", E: ref(a), Alias: g.fresh("g")},
			{Agg: "count", CStar: true, E: Lit{Bool(true)}, Alias: g.fresh("g")}}
	case 6: // filter on IS NULL and a strict operator on the other aggregate
		outer.Where = Or{Un{"isnull", ref(a)}, Bin{"<", Bin{"-", ref(b), Lit{Int(1)}}, lit()}}
		outer.Items = []Item{{E: ref(k1), Alias: g.fresh("c")}, {E: Bin{"=", ref(a), ref(b)}, Alias: g.fresh("c")}}
	default: // DISTINCT aggregates of the enclosing query
		outer.Items = []Item{{Agg: "sum", Dist: true, E: ref(a), Alias: g.fresh("g")}, {Agg: "avg", E: ref(b), Alias: g.fresh("g")},
			{Agg: "array_agg", Dist: true, E: ref(a), Alias: g.fresh("g")}}
	}
	g.shape(fmt.Sprintf("having family shape %d", i%8))
	top.Main = outer
	return top
}

// GenManyKeysTop: a CSV table whose (Int, Float) key takes >= 70 distinct values, among them (0, 0.0) and (0, -0.0)
// (equal under Compare, so one key / one DISTINCT value), both zeros occurring before and after the hashmaps of
// SimpleGroupBy / Distinct / the DISTINCT aggregates have grown beyond their initial 128 slots (65th distinct key).
// The Int column comes first so that the model's row comparisons are mostly decided on it (Float comparison is
// costly inside Coq); the third shape puts >= 66 distinct Floats into one group of count(DISTINCT f).
func (g *Gen) GenManyKeysTop(i int) *Top {
	r := g.R
	t := &Table{Name: "t1.csv", Cols: []string{"i", "f"}, Types: []Kind{KInt, KFloat}}
	negZero := math.Copysign(0, -1)
	ndist := 70 + r.Intn(20)
	if i%3 == 2 {
		ndist = 66 + r.Intn(6)
	}
	zero := func(neg bool) []Val {
		if neg {
			return []Val{Int(0), Float(negZero)}
		}
		return []Val{Int(0), Float(0)}
	}
	t.Rows = append(t.Rows, []Val{Int(1), Float(0.5)}, zero(i%2 == 0), zero(i%2 != 0)) // 0.5 first: the column is inferred Float
	for j := 2; j <= ndist; j++ {
		v := float64(j) * 0.5
		if j%3 == 0 {
			v = -v
		}
		t.Rows = append(t.Rows, []Val{Int(int64(j)), Float(v)})
		if j%9 == 0 {
			t.Rows = append(t.Rows, zero(j%2 == 0))
		}
		if r.Chance(1, 4) {
			k := r.Intn(len(t.Rows))
			t.Rows = append(t.Rows, append([]Val(nil), t.Rows[k]...)) // repeated keys
		}
	}
	t.Rows = append(t.Rows, zero(true), zero(false), zero(true))
	g.Tables = []*Table{t}
	q := &Query{From: Source{Kind: "table", Table: t.Name, Alias: "t1"}}
	switch i % 3 {
	case 0:
		q.GroupBy = []Expr{Col{Name: "i"}, Col{Name: "f"}}
		q.Items = []Item{{E: Col{Name: "i"}, Alias: g.fresh("k")}, {E: Col{Name: "f"}, Alias: g.fresh("k")},
			{Agg: "count", CStar: true, E: Lit{Bool(true)}, Alias: g.fresh("g")}}
		g.MainOut = []Field{{T: KInt}, {T: KFloat}, {T: KInt}}
	case 1:
		q.Distinct = true
		q.Items = []Item{{E: Col{Name: "i"}, Alias: g.fresh("c")}, {E: Col{Name: "f"}, Alias: g.fresh("c")}}
		g.MainOut = []Field{{T: KInt}, {T: KFloat}}
	default:
		q.Items = []Item{{Agg: "count", Dist: true, E: Col{Name: "f"}, Alias: g.fresh("g")}, {Agg: "count", E: Col{Name: "f"}, Alias: g.fresh("g")}}
		g.MainOut = []Field{{T: KInt}, {T: KInt}}
	}
	g.shape(fmt.Sprintf("many keys family shape %d", i%3))
	return &Top{Main: q}
}

// GenOuterTrigTop: SELECT k, count(*) AS c, sum(v) AS s FROM t GROUP BY k TRIGGER COUNTING n as a subquery whose
// output (insertions and retractions of partial results; several keys pass through the same counts) feeds
// aggregates of the enclosing query: count / sum / array_agg with and without DISTINCT, min, max, avg, grouped or not.
func (g *Gen) GenOuterTrigTop(i int) *Top {
	r := g.R
	t := &Table{Name: "t1.csv", Cols: []string{"k", "v"}, Types: []Kind{KStr, KInt}}
	nrows := 6 + r.Intn(6)
	for j := 0; j < nrows; j++ {
		row := []Val{Str(simpleStrings[r.Intn(3)]), Int(int64(r.Intn(3)))}
		if r.Chance(1, 4) {
			row[1] = Null()
		}
		t.Rows = append(t.Rows, row)
	}
	t.Rows[0] = []Val{Str("a"), Int(1)}
	t.Rows[1] = []Val{Str("b"), Int(1)}
	t.Rows[2] = []Val{Str("a"), Int(2)}
	g.Tables = []*Table{t}
	inner := &Query{From: Source{Kind: "table", Table: t.Name, Alias: "t1"}, GroupBy: []Expr{Col{Name: "k"}}}
	k1, c, s := g.fresh("k"), g.fresh("g"), g.fresh("g")
	inner.Items = []Item{{E: Col{Name: "k"}, Alias: k1}, {Agg: "count", CStar: true, E: Lit{Bool(true)}, Alias: c},
		{Agg: []string{"sum", "max", "count"}[r.Intn(3)], E: Col{Name: "v"}, Alias: s}}
	inner.Trigger = []string{"COUNTING 1", "COUNTING 1", "COUNTING 2", "COUNTING 1, ON END OF STREAM"}[i%4]
	g.Triggers = append(g.Triggers, inner)
	x := g.fresh("x")
	outer := &Query{From: Source{Kind: "sub", Sub: inner, Alias: x}}
	pool := []Item{{Agg: "count", Dist: true, E: Col{Name: c}}, {Agg: "sum", Dist: true, E: Col{Name: c}},
		{Agg: "array_agg", Dist: true, E: Col{Name: c}}, {Agg: "avg", Dist: true, E: Col{Name: c}}, {Agg: "count", E: Col{Name: s}},
		{Agg: "sum", E: Col{Name: c}}, {Agg: "max", E: Col{Name: s}}, {Agg: "min", E: Col{Name: c}}, {Agg: "array_agg", E: Col{Name: c}},
		{Agg: "count", Dist: true, E: Col{Name: s}}, {Agg: "avg", E: Col{Name: s}}}
	n := 2 + r.Intn(2)
	for j := 0; j < n; j++ {
		it := pool[(i+j*4+r.Intn(3))%len(pool)]
		if j == 0 {
			it = pool[i%4] // always a DISTINCT aggregate of the counts
		}
		it.Alias = g.fresh("g")
		outer.Items = append(outer.Items, it)
	}
	if i%3 == 2 { // grouped by a column that changes while the inner query runs
		outer.GroupBy = []Expr{Col{Name: s}}
		outer.Items = append([]Item{{E: Col{Name: s}, Alias: g.fresh("k")}}, outer.Items...)
	}
	g.shape("outer aggregation over TRIGGER " + inner.Trigger)
	return &Top{Main: outer}
}

// GenMixedTop: a column whose values have different runtime types inside one group — numbers and words in a CSV
// column (Int | String), numbers, strings and booleans in a JSON column — under everything that orders or
// identifies values: array_agg, array_agg(DISTINCT), count(DISTINCT), GROUP BY, SELECT DISTINCT, ORDER BY.
// Value.Compare orders different types by type id (Int < Float < Boolean < String); no two of them are equal.
func (g *Gen) GenMixedTop(i int) *Top {
	r := g.R
	json := i%2 == 1
	t := &Table{Name: "t1.csv", Cols: []string{"k", "m"}, Types: []Kind{KStr, KStr}}
	var pool []Val
	if json {
		t.Name = "t1.json"
		pool = []Val{Float(0.5), Float(2.5), Float(-1.5), Str("abc"), Str("b"), Str(""), Str("5"), Bool(true), Bool(false), Float(7.25)}
	} else {
		pool = []Val{Int(5), Int(7), Int(0), Int(-3), Int(12), Str("abc"), Str("b"), Str("x1"), Str("seven"), Int(5)}
	}
	nrows := 7 + r.Intn(5)
	for j := 0; j < nrows; j++ {
		row := []Val{Str(simpleStrings[r.Intn(2)]), pool[r.Intn(len(pool))]}
		if r.Chance(1, 6) {
			row[1] = Null()
		}
		t.Rows = append(t.Rows, row)
	}
	// every group holds a non-negative number next to words
	t.Rows[0] = []Val{Str("a"), pool[0]}
	t.Rows[1] = []Val{Str("a"), pool[3+2*(i%2)]}
	t.Rows[2] = []Val{Str("b"), pool[1]}
	t.Rows[3] = []Val{Str("b"), Str("b")}
	t.Rows[4] = []Val{Str("a"), Str("abc")}
	g.Tables = []*Table{t}
	q := &Query{From: Source{Kind: "table", Table: t.Name, Alias: "t1"}}
	m := Col{Name: "m"}
	switch (i / 2) % 6 {
	case 0:
		q.GroupBy = []Expr{Col{Name: "k"}}
		q.Items = []Item{{E: Col{Name: "k"}, Alias: g.fresh("k")}, {Agg: "array_agg", E: m, Alias: g.fresh("g")}}
	case 1:
		q.GroupBy = []Expr{Col{Name: "k"}}
		q.Items = []Item{{E: Col{Name: "k"}, Alias: g.fresh("k")}, {Agg: "array_agg", Dist: true, E: m, Alias: g.fresh("g")},
			{Agg: "count", Dist: true, E: m, Alias: g.fresh("g")}, {Agg: "count", E: m, Alias: g.fresh("g")}}
	case 2:
		q.Distinct = true
		q.Items = []Item{{E: m, Alias: g.fresh("c")}}
	case 3:
		q.GroupBy = []Expr{m}
		q.Items = []Item{{E: m, Alias: g.fresh("k")}, {Agg: "count", CStar: true, E: Lit{Bool(true)}, Alias: g.fresh("g")},
			{Agg: "array_agg", E: Col{Name: "k"}, Alias: g.fresh("g")}}
	case 4:
		a := g.fresh("c")
		q.Items = []Item{{E: m, Alias: a}, {E: Col{Name: "k"}, Alias: g.fresh("c")}}
		q.OrderBy = []OrderKey{{E: Col{Name: a}, Desc: r.Bool()}}
	default:
		q.Items = []Item{{Agg: "array_agg", E: m, Alias: g.fresh("g")}, {Agg: "array_agg", Dist: true, E: m, Alias: g.fresh("g")},
			{Agg: "count", Dist: true, E: m, Alias: g.fresh("g")}}
	}
	g.shape(fmt.Sprintf("mixed runtime types shape %d json=%v", (i/2)%6, json))
	return &Top{Main: q}
}
