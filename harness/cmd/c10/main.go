// c10: the type algebra of octosql/types.go (Is, Equals, TypeSum, TypeIntersection, NonNullable) and Value.Type,
// on an exhaustive set of small types and on random nested ones.
package main

import (
	"fmt"
	"os"
	"strings"

	"github.com/cube2222/octosql/octosql"

	"verifharness/lib"
)

// ---- printing ----------------------------------------------------------------------------------

func coqType(t octosql.Type) string {
	switch t.TypeID {
	case octosql.TypeIDNull:
		return "TNull"
	case octosql.TypeIDInt:
		return "TInt"
	case octosql.TypeIDFloat:
		return "TFloat"
	case octosql.TypeIDBoolean:
		return "TBool"
	case octosql.TypeIDString:
		return "TStr"
	case octosql.TypeIDTime:
		return "TTime"
	case octosql.TypeIDDuration:
		return "TDur"
	case octosql.TypeIDAny:
		return "TAny"
	case octosql.TypeIDList:
		if t.List.Element == nil {
			return "(TList None)"
		}
		return "(TList (Some " + coqType(*t.List.Element) + "))"
	case octosql.TypeIDStruct:
		parts := make([]string, len(t.Struct.Fields))
		for i, f := range t.Struct.Fields {
			parts[i] = "(" + lib.CoqBytes(f.Name) + ", " + coqType(f.Type) + ")"
		}
		return "(TStruct " + lib.CoqList(parts) + ")"
	case octosql.TypeIDTuple:
		return "(TTuple " + coqTypes(t.Tuple.Elements) + ")"
	case octosql.TypeIDUnion:
		return "(TUnion " + coqTypes(t.Union.Alternatives) + ")"
	}
	panic(fmt.Sprintf("coqType: type id %d", t.TypeID))
}

func coqTypes(ts []octosql.Type) string {
	parts := make([]string, len(ts))
	for i := range ts {
		parts[i] = coqType(ts[i])
	}
	return lib.CoqList(parts)
}

func coqRel(r octosql.TypeRelation) string {
	switch r {
	case octosql.TypeRelationIs:
		return "Is"
	case octosql.TypeRelationMaybe:
		return "Maybe"
	}
	return "Isnt"
}

// show is unambiguous (String() prints nested unions and "" names ambiguously).
func show(t octosql.Type) string {
	switch t.TypeID {
	case octosql.TypeIDList:
		if t.List.Element == nil {
			return "[]"
		}
		return "[" + show(*t.List.Element) + "]"
	case octosql.TypeIDStruct:
		parts := make([]string, len(t.Struct.Fields))
		for i, f := range t.Struct.Fields {
			parts[i] = fmt.Sprintf("%q: %s", f.Name, show(f.Type))
		}
		return "{" + strings.Join(parts, "; ") + "}"
	case octosql.TypeIDTuple:
		parts := make([]string, len(t.Tuple.Elements))
		for i := range parts {
			parts[i] = show(t.Tuple.Elements[i])
		}
		return "(" + strings.Join(parts, ", ") + ")"
	case octosql.TypeIDUnion:
		parts := make([]string, len(t.Union.Alternatives))
		for i := range parts {
			parts[i] = show(t.Union.Alternatives[i])
		}
		return "<" + strings.Join(parts, " | ") + ">"
	}
	return t.String()
}

// ---- constructors ------------------------------------------------------------------------------

func tList(e *octosql.Type) octosql.Type {
	return octosql.Type{TypeID: octosql.TypeIDList, List: struct{ Element *octosql.Type }{Element: e}}
}
func tStruct(fs ...octosql.StructField) octosql.Type {
	return octosql.Type{TypeID: octosql.TypeIDStruct, Struct: struct{ Fields []octosql.StructField }{Fields: fs}}
}
func tTuple(es ...octosql.Type) octosql.Type {
	return octosql.Type{TypeID: octosql.TypeIDTuple, Tuple: struct{ Elements []octosql.Type }{Elements: es}}
}
func tUnion(as ...octosql.Type) octosql.Type {
	return octosql.Type{TypeID: octosql.TypeIDUnion, Union: struct{ Alternatives []octosql.Type }{Alternatives: as}}
}
func fld(n string, t octosql.Type) octosql.StructField { return octosql.StructField{Name: n, Type: t} }

// smallTypes: every type of up to two constructors over the leaves Null, Int, String (+ Any), field names a, b,
// plus the normal-form unions of two and three of the one-constructor types.
func smallTypes() []octosql.Type {
	leaves := []octosql.Type{octosql.Null, octosql.Int, octosql.String, tList(nil), tStruct(), tTuple()}
	level1 := append(append([]octosql.Type{}, leaves...), octosql.Any)
	out := append([]octosql.Type{}, level1...)
	for _, t := range level1 {
		t := t
		out = append(out, tList(&t), tStruct(fld("a", t)), tStruct(fld("b", t)), tTuple(t))
	}
	for i := range leaves { // leaves are in ascending TypeID order
		for j := i + 1; j < len(leaves); j++ {
			out = append(out, tUnion(leaves[i], leaves[j]))
		}
	}
	out = append(out,
		tUnion(octosql.Null, octosql.Int, octosql.String),
		tStruct(fld("a", octosql.Int), fld("b", octosql.String)), tStruct(fld("b", octosql.String), fld("a", octosql.Int)),
		tStruct(fld("a", octosql.Int), fld("b", octosql.Int)), tStruct(fld("a", octosql.String), fld("b", octosql.Int)),
		tTuple(octosql.Int, octosql.String), tTuple(octosql.Int, octosql.Int), tTuple(octosql.String, octosql.Int),
		tUnion(octosql.Null, tStruct(fld("a", octosql.Int))), tUnion(octosql.Int, tTuple(octosql.Int)),
		tUnion(octosql.Null, tList(&octosql.Int)),
	)
	return out
}

var names = []string{"a", "b", "c", ""}

var leafTypes = []octosql.Type{octosql.Null, octosql.Int, octosql.Float, octosql.Boolean, octosql.String, octosql.Time, octosql.Duration}

// genType draws a random nested type; unions are in normal form unless messy is set.
func genType(r *lib.Rng, depth int, messy bool) octosql.Type {
	if depth <= 0 || r.Chance(2, 5) {
		if r.Chance(1, 12) {
			return octosql.Any
		}
		if r.Chance(1, 10) {
			return tList(nil)
		}
		return leafTypes[r.Intn(len(leafTypes))]
	}
	switch r.Intn(5) {
	case 0:
		e := genType(r, depth-1, messy)
		return tList(&e)
	case 1:
		n := r.Intn(4)
		fs := make([]octosql.StructField, n)
		switch {
		case r.Chance(1, 2): // sorted distinct names
			for i := range fs {
				fs[i] = fld(names[i], genType(r, depth-1, messy))
			}
		default:
			for i := range fs {
				fs[i] = fld(names[r.Intn(len(names))], genType(r, depth-1, messy))
			}
		}
		return tStruct(fs...)
	case 2:
		n := r.Intn(4)
		es := make([]octosql.Type, n)
		for i := range es {
			es[i] = genType(r, depth-1, messy)
		}
		return tTuple(es...)
	default:
		n := 2 + r.Intn(3)
		if messy && r.Chance(1, 2) { // any alternatives in any order: duplicates of a TypeID, nested unions, Any, 0 or 1 alternative
			as := make([]octosql.Type, r.Intn(4))
			for i := range as {
				as[i] = genType(r, depth-1, messy)
			}
			return tUnion(as...)
		}
		// normal form: distinct TypeIDs ascending, no union / Any alternative
		byID := map[octosql.TypeID]octosql.Type{}
		for i := 0; i < n; i++ {
			a := genType(r, depth-1, messy)
			if a.TypeID == octosql.TypeIDUnion || a.TypeID == octosql.TypeIDAny {
				a = leafTypes[r.Intn(len(leafTypes))]
			}
			byID[a.TypeID] = a
		}
		if len(byID) < 2 {
			if _, ok := byID[octosql.TypeIDNull]; ok {
				byID[octosql.TypeIDInt] = octosql.Int
			} else {
				byID[octosql.TypeIDNull] = octosql.Null
			}
		}
		var as []octosql.Type
		for id := octosql.TypeIDNull; id <= octosql.TypeIDTuple; id++ {
			if a, ok := byID[id]; ok {
				as = append(as, a)
			}
		}
		return tUnion(as...)
	}
}

// tweak returns a type close to t (so that Is/Maybe/Equals relations between the two are frequent).
func tweak(r *lib.Rng, t octosql.Type, messy bool) octosql.Type {
	switch t.TypeID {
	case octosql.TypeIDList:
		if t.List.Element == nil || r.Chance(1, 5) {
			if r.Bool() {
				return tList(nil)
			}
			e := genType(r, 1, messy)
			return tList(&e)
		}
		e := tweak(r, *t.List.Element, messy)
		return tList(&e)
	case octosql.TypeIDStruct:
		fs := append([]octosql.StructField{}, t.Struct.Fields...)
		switch {
		case len(fs) > 0 && r.Chance(1, 2):
			i := r.Intn(len(fs))
			fs[i] = fld(fs[i].Name, tweak(r, fs[i].Type, messy))
		case len(fs) > 0 && r.Chance(1, 3):
			i := r.Intn(len(fs))
			fs[i] = fld(names[r.Intn(len(names))], fs[i].Type)
		case len(fs) > 0 && r.Chance(1, 2):
			fs = fs[:len(fs)-1]
		default:
			fs = append(fs, fld(names[r.Intn(len(names))], genType(r, 1, messy)))
		}
		return tStruct(fs...)
	case octosql.TypeIDTuple:
		es := append([]octosql.Type{}, t.Tuple.Elements...)
		switch {
		case len(es) > 0 && r.Chance(2, 3):
			i := r.Intn(len(es))
			es[i] = tweak(r, es[i], messy)
		case len(es) > 0 && r.Chance(1, 2):
			es = es[:len(es)-1]
		default:
			es = append(es, genType(r, 1, messy))
		}
		return tTuple(es...)
	case octosql.TypeIDUnion:
		as := append([]octosql.Type{}, t.Union.Alternatives...)
		switch {
		case len(as) > 2 && r.Chance(1, 3):
			i := r.Intn(len(as))
			as = append(as[:i:i], as[i+1:]...)
			return tUnion(as...)
		case len(as) > 0 && r.Chance(1, 2):
			i := r.Intn(len(as))
			if as[i].TypeID >= octosql.TypeIDList && as[i].TypeID <= octosql.TypeIDTuple {
				n := tweak(r, as[i], messy)
				if n.TypeID == as[i].TypeID {
					as[i] = n
				}
			}
			return tUnion(as...)
		default:
			return octosql.TypeSum(t, genType(r, 1, false))
		}
	}
	if r.Chance(1, 3) {
		return octosql.TypeSum(t, leafTypes[r.Intn(len(leafTypes))])
	}
	return genType(r, 1, messy)
}

// inhabit draws a value of type t (ok=false when t has none: an empty union).
func inhabit(r *lib.Rng, t octosql.Type) (octosql.Value, bool) {
	switch t.TypeID {
	case octosql.TypeIDAny:
		return lib.GenValue(r, lib.AllProfile, 1), true
	case octosql.TypeIDList:
		if t.List.Element == nil {
			return octosql.NewList(nil), true
		}
		var vs []octosql.Value
		for i := r.Intn(3); i > 0; i-- {
			if v, ok := inhabit(r, *t.List.Element); ok {
				vs = append(vs, v)
			}
		}
		return octosql.NewList(vs), true
	case octosql.TypeIDStruct:
		vs := make([]octosql.Value, len(t.Struct.Fields))
		for i, f := range t.Struct.Fields {
			v, ok := inhabit(r, f.Type)
			if !ok {
				return v, false
			}
			vs[i] = v
		}
		return octosql.NewStruct(vs), true
	case octosql.TypeIDTuple:
		vs := make([]octosql.Value, len(t.Tuple.Elements))
		for i, e := range t.Tuple.Elements {
			v, ok := inhabit(r, e)
			if !ok {
				return v, false
			}
			vs[i] = v
		}
		return octosql.NewTuple(vs), true
	case octosql.TypeIDUnion:
		if len(t.Union.Alternatives) == 0 {
			return octosql.Value{}, false
		}
		return inhabit(r, t.Union.Alternatives[r.Intn(len(t.Union.Alternatives))])
	}
	return lib.GenValueOfKind(r, lib.ScalarProfile, t.TypeID, 0), true
}

func probes(r *lib.Rng, ts ...octosql.Type) []octosql.Value {
	vs := []octosql.Value{octosql.NewNull()}
	for _, t := range ts {
		for i := 0; i < 2; i++ {
			if v, ok := inhabit(r, t); ok {
				vs = append(vs, v)
			}
		}
	}
	return append(vs, lib.GenValue(r, lib.AllProfile, 1))
}

// ---- the known finding's class -----------------------------------------------------------------

func flatten(t octosql.Type) []octosql.Type {
	if t.TypeID != octosql.TypeIDUnion {
		return []octosql.Type{t}
	}
	var out []octosql.Type
	for _, a := range t.Union.Alternatives {
		out = append(out, flatten(a)...)
	}
	return out
}

func strictlyAscending(fs []octosql.StructField) bool {
	for i := 1; i < len(fs); i++ {
		if !(fs[i-1].Name < fs[i].Name) {
			return false
		}
	}
	return true
}

// shapeClash: do a and b hold, at corresponding positions (the positions TypeSum merges), struct types whose
// field-name lists differ or are not strictly ascending, or tuple types of different arity?
// Decided on the types alone (never on what TypeSum answered).
func shapeClash(a, b octosql.Type) bool {
	for _, x := range flatten(a) {
		for _, y := range flatten(b) {
			if x.TypeID != y.TypeID {
				continue
			}
			switch x.TypeID {
			case octosql.TypeIDList:
				if x.List.Element != nil && y.List.Element != nil && shapeClash(*x.List.Element, *y.List.Element) {
					return true
				}
			case octosql.TypeIDStruct:
				fx, fy := x.Struct.Fields, y.Struct.Fields
				if len(fx) != len(fy) || !strictlyAscending(fx) {
					return true
				}
				for i := range fx {
					if fx[i].Name != fy[i].Name {
						return true
					}
				}
				for i := range fx {
					if shapeClash(fx[i].Type, fy[i].Type) {
						return true
					}
				}
			case octosql.TypeIDTuple:
				ex, ey := x.Tuple.Elements, y.Tuple.Elements
				if len(ex) != len(ey) {
					return true
				}
				for i := range ex {
					if shapeClash(ex[i], ey[i]) {
						return true
					}
				}
			}
		}
	}
	return false
}

// selfClash: two alternatives of t itself clash (relevant when TypeIntersection sums alternatives of one operand).
func selfClash(t octosql.Type) bool {
	fl := flatten(t)
	for i := range fl {
		for j := i + 1; j < len(fl); j++ {
			if shapeClash(fl[i], fl[j]) {
				return true
			}
		}
	}
	return false
}

// ---- the finding's class, mirrored from coq/Model/TypesClash.v (compared with the model on every case) ----

const is = octosql.TypeRelationIs

// shapesOK: same field-name list, strictly ascending (struct_shapes_ok).
func shapesOK(f1, f2 []octosql.StructField) bool {
	if len(f1) != len(f2) {
		return false
	}
	for i := range f1 {
		if f1[i].Name != f2[i].Name {
			return false
		}
	}
	return strictlyAscending(f1)
}

// clashFlat mirrors clash_flat: the struct / list / tuple merges of TypeSum on two operands that are not unions.
func clashFlat(a, b octosql.Type) bool {
	if a.Is(b) == is || b.Is(a) == is {
		return false
	}
	switch {
	case a.TypeID == octosql.TypeIDStruct && b.TypeID == octosql.TypeIDStruct:
		f1, f2 := a.Struct.Fields, b.Struct.Fields
		if !shapesOK(f1, f2) {
			return true
		}
		for i := range f1 {
			if sumClash(f1[i].Type, f2[i].Type) {
				return true
			}
		}
	case a.TypeID == octosql.TypeIDList && b.TypeID == octosql.TypeIDList:
		if a.List.Element != nil && b.List.Element != nil {
			return sumClash(*a.List.Element, *b.List.Element)
		}
	case a.TypeID == octosql.TypeIDTuple && b.TypeID == octosql.TypeIDTuple:
		l1, l2 := a.Tuple.Elements, b.Tuple.Elements
		if len(l1) != len(l2) {
			return true
		}
		for i := range l1 {
			if sumClash(l2[i], l1[i]) { // equal arity: TypeSum takes t2 as "longer"
				return true
			}
		}
	}
	return false
}

func clashFirst(alts []octosql.Type, b octosql.Type) bool {
	for _, a := range alts {
		if a.TypeID == b.TypeID {
			return clashFlat(a, b)
		}
	}
	return false
}

// sumClash mirrors sum_clash: does the computation of TypeSum(a, b) meet a struct merge with different or unsorted
// field-name lists or a tuple merge of different arities?  The accumulator of the union/union fold is obtained
// from the implementation's TypeSum; the verdict never looks at whether a sum is an upper bound.
func sumClash(a, b octosql.Type) bool {
	if a.Is(b) == is || b.Is(a) == is {
		return false
	}
	au, bu := a.TypeID == octosql.TypeIDUnion, b.TypeID == octosql.TypeIDUnion
	switch {
	case au && bu:
		out := a
		for _, bk := range b.Union.Alternatives {
			if sumClash(out, bk) {
				return true
			}
			out = octosql.TypeSum(out, bk)
		}
		return false
	case bu:
		return clashFirst(b.Union.Alternatives, a)
	case au:
		return clashFirst(a.Union.Alternatives, b)
	}
	return clashFlat(a, b)
}

// interClash mirrors inter_clash: the accumulating sums of TypeIntersection.
func interClash(a, b octosql.Type) bool {
	var out *octosql.Type
	flag := false
	loop := func(ps []octosql.Type, other octosql.Type) {
		for _, t := range ps {
			t := t
			if t.Is(other) != is {
				continue
			}
			if out == nil {
				out = &t
			} else {
				flag = flag || sumClash(*out, t)
				s := octosql.TypeSum(*out, t)
				out = &s
			}
		}
	}
	loop(flatten(a), b)
	loop(flatten(b), a)
	return flag
}

// valueClashModel mirrors value_clash: the sums Value.Type makes for the lists inside v.
func valueClashModel(v octosql.Value) bool {
	any := func(vs []octosql.Value) bool {
		for _, x := range vs {
			if valueClashModel(x) {
				return true
			}
		}
		return false
	}
	switch v.TypeID {
	case octosql.TypeIDList:
		if any(v.List) {
			return true
		}
		var e *octosql.Type
		flag := false
		for _, x := range v.List {
			t := x.Type()
			if e == nil {
				e = &t
			} else {
				flag = flag || sumClash(*e, t)
				s := octosql.TypeSum(*e, t)
				e = &s
			}
		}
		return flag
	case octosql.TypeIDStruct:
		return any(v.Struct)
	case octosql.TypeIDTuple:
		return any(v.Tuple)
	}
	return false
}

// wfType mirrors wf_ty (the normal form TypeSum keeps).
func wfType(t octosql.Type) bool {
	switch t.TypeID {
	case octosql.TypeIDList:
		return t.List.Element == nil || wfType(*t.List.Element)
	case octosql.TypeIDStruct:
		for _, f := range t.Struct.Fields {
			if !wfType(f.Type) {
				return false
			}
		}
	case octosql.TypeIDTuple:
		for _, e := range t.Tuple.Elements {
			if !wfType(e) {
				return false
			}
		}
	case octosql.TypeIDUnion:
		as := t.Union.Alternatives
		if len(as) < 2 {
			return false
		}
		for i, a := range as {
			if !wfType(a) || a.TypeID == octosql.TypeIDUnion || a.TypeID == octosql.TypeIDAny || (i > 0 && as[i-1].TypeID >= a.TypeID) {
				return false
			}
		}
	}
	return true
}

const classStructMerge = "sum-of-different-shapes"

// ---- cases -------------------------------------------------------------------------------------

type engine struct {
	cf *lib.CaseFile
}

func (e *engine) guarded(idx *int, what string, f func()) {
	defer func() {
		if p := recover(); p != nil {
			i := e.cf.Add("CValue VNull TNull false", map[string]interface{}{"kind": "panic", "what": what, "panic": fmt.Sprint(p)}, false)
			e.cf.Violation(i, fmt.Sprintf("%s panicked: %v", what, p), "")
		}
	}()
	f()
}

func (e *engine) addPair(r *lib.Rng, a, b octosql.Type, kind string) {
	e.guarded(nil, fmt.Sprintf("type algebra on %s and %s", show(a), show(b)), func() {
		cf := e.cf
		ab, ba, eq := a.Is(b), b.Is(a), a.Equals(b)
		sab, sba := octosql.TypeSum(a, b), octosql.TypeSum(b, a)
		comm := sab.Equals(sba)
		inter := octosql.TypeIntersection(a, b)
		vals := probes(r, a, b)
		interCoq, interJS := "None", interface{}(nil)
		if inter != nil {
			interCoq, interJS = "(Some "+coqType(*inter)+")", show(*inter)
		}
		js := map[string]interface{}{"kind": kind, "a": show(a), "b": show(b), "a_is_b": coqRel(ab), "b_is_a": coqRel(ba), "equals": eq,
			"sum_ab": show(sab), "sum_ba": show(sba), "sums_equal": comm, "intersection": interJS, "probe_values": lib.ValuesJSON(vals)}
		related := ab != octosql.TypeRelationIsnt || ba != octosql.TypeRelationIsnt
		clAB, clBA, clInter := sumClash(a, b), sumClash(b, a), interClash(a, b)
		js["class_sum_ab"], js["class_sum_ba"], js["class_intersection"] = clAB, clBA, clInter
		cf.Add(fmt.Sprintf("CPair %s %s %s %s %s %s %s %s %s %s %s %s %s", coqType(a), coqType(b), lib.CoqValues(vals), coqRel(ab), coqRel(ba), lib.CoqBool(eq),
			coqType(sab), coqType(sba), lib.CoqBool(comm), interCoq, lib.CoqBool(clAB), lib.CoqBool(clBA), lib.CoqBool(clInter)),
			js, related || (a.TypeID == b.TypeID && a.TypeID >= octosql.TypeIDList))
		if !clAB && a.TypeID == b.TypeID && (a.TypeID == octosql.TypeIDStruct || a.TypeID == octosql.TypeIDTuple) && !related {
			cf.Count("same_shape_struct_or_tuple_merge_outside_class")
		}
		cf.Count(kind + "_pair")
		cf.Count("a_is_b_" + coqRel(ab))

		as, bs := a.Is(sab), b.Is(sab)
		clash := clAB // exactly the model's class: C10_sum_upper covers every pair outside it
		idx := cf.Add(fmt.Sprintf("CUpper %s %s %s %s %s", coqType(a), coqType(b), coqType(sab), coqRel(as), coqRel(bs)),
			map[string]interface{}{"kind": "sum_upper_bound", "a": show(a), "b": show(b), "sum": show(sab), "a_is_sum": coqRel(as), "b_is_sum": coqRel(bs), "shape_clash": clash},
			ab != octosql.TypeRelationIs && ba != octosql.TypeRelationIs)
		if clash {
			cf.SetClass(idx, classStructMerge)
			cf.Count("upper_in_known_class")
		}
		if inter != nil {
			ia, ib := inter.Is(a), inter.Is(b)
			idx := cf.Add(fmt.Sprintf("CInter %s %s %s %s %s", coqType(a), coqType(b), coqType(*inter), coqRel(ia), coqRel(ib)),
				map[string]interface{}{"kind": "intersection_lower_bound", "a": show(a), "b": show(b), "intersection": show(*inter), "i_is_a": coqRel(ia), "i_is_b": coqRel(ib)},
				!eq)
			// C10_inter_lower covers normal-form operands outside interClash; for operands that are not normal forms
			// the coarser structural predicates are kept as well
			if clInter || (!(wfType(a) && wfType(b)) && (selfClash(a) || selfClash(b) || shapeClash(a, b))) {
				cf.SetClass(idx, classStructMerge)
				cf.Count("inter_in_known_class")
			}
			cf.Count("intersection_nonempty")
		}
	})
}

func (e *engine) addType(r *lib.Rng, a octosql.Type, kind string) {
	e.guarded(nil, "type algebra on "+show(a), func() {
		aa := a.Is(a)
		saa := octosql.TypeSum(a, a)
		idem := saa.Equals(a)
		nn := octosql.NonNullable(a)
		vals := probes(r, a, nn)
		e.cf.Add(fmt.Sprintf("CType %s %s %s %s %s %s", coqType(a), lib.CoqValues(vals), coqRel(aa), coqType(saa), lib.CoqBool(idem), coqType(nn)),
			map[string]interface{}{"kind": kind, "a": show(a), "a_is_a": coqRel(aa), "sum_aa": show(saa), "idempotent": idem, "non_nullable": show(nn), "probe_values": lib.ValuesJSON(vals)},
			a.TypeID >= octosql.TypeIDList && a.TypeID != octosql.TypeIDAny)
		e.cf.Count(kind + "_type")
	})
}

// shapesIn collects the field counts of the structs and the arities of the tuples that occur anywhere in v.
func shapesIn(v octosql.Value, structs, tuples map[int]bool) {
	switch v.TypeID {
	case octosql.TypeIDList:
		for _, x := range v.List {
			shapesIn(x, structs, tuples)
		}
	case octosql.TypeIDStruct:
		structs[len(v.Struct)] = true
		for _, x := range v.Struct {
			shapesIn(x, structs, tuples)
		}
	case octosql.TypeIDTuple:
		tuples[len(v.Tuple)] = true
		for _, x := range v.Tuple {
			shapesIn(x, structs, tuples)
		}
	}
}

// valueClash: does v hold a list under which structs of several field counts or of two or more fields (Value.Type
// names every field "", so such struct types never have strictly ascending names) or tuples of several arities
// occur?  Then Value.Type sums types of different shapes.  Decided on the value alone.
func valueClash(v octosql.Value) bool {
	switch v.TypeID {
	case octosql.TypeIDList:
		structs, tuples := map[int]bool{}, map[int]bool{}
		for _, x := range v.List {
			shapesIn(x, structs, tuples)
		}
		if len(structs) > 1 || len(tuples) > 1 {
			return true
		}
		for n := range structs {
			if n >= 2 {
				return true
			}
		}
		for _, x := range v.List {
			if valueClash(x) {
				return true
			}
		}
	case octosql.TypeIDStruct:
		for _, x := range v.Struct {
			if valueClash(x) {
				return true
			}
		}
	case octosql.TypeIDTuple:
		for _, x := range v.Tuple {
			if valueClash(x) {
				return true
			}
		}
	}
	return false
}

func (e *engine) addValue(v octosql.Value) {
	e.guarded(nil, "Value.Type of "+v.String(), func() {
		t := v.Type()
		js := map[string]interface{}{"kind": "value", "value": lib.ValueJSON(v), "type": show(t)}
		clash := valueClashModel(v) // exactly the model's class: C10_value_type covers every value outside it
		js["class_value"] = clash
		e.cf.Add(fmt.Sprintf("CValue %s %s %s", lib.CoqValue(v), coqType(t), lib.CoqBool(clash)), js, v.TypeID >= octosql.TypeIDList)
		structs, tuples := map[int]bool{}, map[int]bool{}
		if v.TypeID == octosql.TypeIDList {
			shapesIn(v, structs, tuples)
		}
		if !clash && len(structs)+len(tuples) > 0 {
			e.cf.Count("value_lists_of_structs_or_tuples_outside_class")
		}
		idx := e.cf.Add(fmt.Sprintf("CValueType %s %s", lib.CoqValue(v), coqType(t)),
			map[string]interface{}{"kind": "value_inhabits_its_type", "value": lib.ValueJSON(v), "type": show(t), "shape_clash": clash}, v.TypeID >= octosql.TypeIDList)
		if clash {
			e.cf.SetClass(idx, classStructMerge)
			e.cf.Count("value_in_known_class")
		}
		e.cf.Count("value")
	})
}

func main() {
	f := lib.ParseFlags()
	if f.Cmd != "run" {
		fmt.Fprintln(os.Stderr, "c10: only 'run'")
		os.Exit(2)
	}
	rng := lib.NewRng(f.Seed)
	cf := lib.NewCaseFile("C10", f.Seed, f.Tier)
	cf.Imports = []string{"Types", "C10Spec"}
	cf.CaseType = "c10_case"
	cf.Checks = []lib.Check{{Name: "tie", Kind: "tie", Fn: "c10_tie"}, {Name: "spec", Kind: "spec", Fn: "c10_spec"}}
	cf.Side.Rule = "pairs from the exhaustive set of small types (<= 2 constructors over Null/Int/String/Any, names a,b, normal-form unions; all ordered pairs in the thorough tier, a seeded sample in quick) " +
		"and random nested types (depth <= 3, a second operand derived from the first; a share with non-normal unions): Is both ways, Equals, TypeSum both ways, TypeIntersection, " +
		"NonNullable, TypeSum(a,a); Value.Type of generated values. non-trivial = related or same-container pairs / container types / container values; distinct by full case text"
	e := &engine{cf: cf}

	small := smallTypes()
	for _, t := range small {
		e.addType(rng.Fork(), t, "small")
	}
	if f.Tier == "thorough" {
		for _, a := range small {
			for _, b := range small {
				e.addPair(rng.Fork(), a, b, "small")
			}
		}
	} else {
		for i := 0; i < 400; i++ {
			r := rng.Fork()
			e.addPair(r, small[r.Intn(len(small))], small[r.Intn(len(small))], "small")
		}
	}
	nPairs, nTypes, nValues := f.Cases(250, 2000), f.Cases(100, 800), f.Cases(200, 1600)
	for i := 0; i < nPairs; i++ {
		r := rng.Fork()
		messy := r.Chance(1, 4)
		a := genType(r, 1+r.Intn(3), messy)
		var b octosql.Type
		switch r.Intn(4) {
		case 0:
			b = genType(r, 1+r.Intn(3), messy)
		default:
			b = tweak(r, a, messy)
		}
		if r.Bool() {
			a, b = b, a
		}
		kind := "random"
		if messy {
			kind = "random_messy"
		}
		e.addPair(r, a, b, kind)
	}
	for i := 0; i < nTypes; i++ {
		r := rng.Fork()
		messy := r.Chance(1, 4)
		kind := "random"
		if messy {
			kind = "random_messy"
		}
		e.addType(r, genType(r, 1+r.Intn(3), messy), kind)
	}
	for i := 0; i < nValues; i++ {
		r := rng.Fork()
		e.addValue(lib.GenValue(r, lib.AllProfile, r.Intn(4)))
	}
	// values whose lists hold structs / tuples of several shapes
	for i := 0; i < nValues/4; i++ {
		r := rng.Fork()
		t := genType(r, 2, false)
		var vs []octosql.Value
		for j := 0; j < 1+r.Intn(3); j++ {
			if v, ok := inhabit(r, tweak(r, t, false)); ok {
				vs = append(vs, v)
			}
		}
		e.addValue(octosql.NewList(vs))
	}
	// lists of equal-shape tuples / one-field structs with different component types (outside the finding's class)
	for i := 0; i < nValues/4; i++ {
		r := rng.Fork()
		k := 1 + r.Intn(3)
		asStruct := r.Chance(1, 3)
		var vs []octosql.Value
		for j := 0; j < 2+r.Intn(2); j++ {
			parts := make([]octosql.Value, k)
			for c := range parts {
				parts[c] = lib.GenValue(r, lib.ScalarProfile, 0)
				if r.Chance(1, 5) {
					parts[c] = octosql.NewList([]octosql.Value{lib.GenValue(r, lib.ScalarProfile, 0)})
				}
			}
			if asStruct {
				vs = append(vs, octosql.NewStruct(parts[:1]))
			} else {
				vs = append(vs, octosql.NewTuple(parts))
			}
		}
		e.addValue(octosql.NewList(vs))
	}
	if err := cf.Write(f.Out); err != nil {
		fmt.Fprintln(os.Stderr, err)
		os.Exit(2)
	}
}
