// c25: generated result rows through the JSON and CSV formatters, driven the way outputs/eager drives them
// (formatter over a 4 MiB bufio.Writer, SetSchema, Write per record until the first error, Flush);
// the exact output bytes are the observation.
package main

import (
	"bufio"
	"bytes"
	"encoding/csv"
	"encoding/json"
	"fmt"
	"io"
	"log"
	"math"
	"os"
	"strconv"
	"strings"
	"time"
	"unicode/utf8"

	"github.com/cube2222/octosql/octosql"
	"github.com/cube2222/octosql/outputs/formats"
	"github.com/cube2222/octosql/physical"

	"verifharness/lib"
)

// ---------- generators ----------

var edgeStrings = []string{
	"", "a", "plain text", "x\x00y", "\x01\x02\x1f", "\a\b\f\n\r\t\v", "\x7f", "q\"uote", "back\\slash", "\\\"", "\"", "\\",
	"a,b", " lead", "\tlead", "trail ", "line\nbreak", "cr\rlf\r\n", "\r", "\n", "\\.", "\u00e9", "\u65e5\u672c\u8a9e", "\U0001F600",
	"\u00a0nbsp", "\u0085nel", "\u2028ls", "\u3000ideo", "\u1680og", "\u205fmm", "\u2003em", "\u200bzwsp", "\u202fnn",
	"\xff", "\xc3", "a\xc3(", "\xe2\x82", "\xed\xa0\x80", "\xf0\x9f\x98", "\xc0\x80", "\xc2", "\xe2\x80", "\u00ad\ufeff",
	"</script>&", "\\u0041", "{\"a\":[1,2]}", "null", "NaN", "-0", "1e5", "\x1b[0m", "\"\"", ",,", "\"a\",\"b\"",
}

var edgeNames = []string{"a", "b", "col_0", "x y", "q\"n", "back\\n", "nl\nn", "z\x01", "\u00e9", "\u540d", ",c", " s", "\xffn", "", "A", "count"}

func genString(r *lib.Rng) string {
	switch {
	case r.Chance(6, 10):
		return edgeStrings[r.Intn(len(edgeStrings))]
	case r.Chance(1, 12):
		// very long, with everything that needs escaping somewhere inside
		n := 1500 + r.Intn(2500)
		b := make([]byte, n)
		for i := range b {
			switch r.Intn(12) {
			case 0:
				b[i] = byte(r.Intn(32))
			case 1:
				b[i] = '"'
			case 2:
				b[i] = '\\'
			case 3:
				b[i] = byte(128 + r.Intn(128))
			default:
				b[i] = byte(32 + r.Intn(95))
			}
		}
		return string(b)
	case r.Chance(1, 2):
		n := r.Intn(8)
		b := make([]byte, n)
		for i := range b {
			b[i] = byte(r.Intn(256))
		}
		return string(b)
	default:
		n := 1 + r.Intn(3)
		var sb strings.Builder
		for i := 0; i < n; i++ {
			sb.WriteString(edgeStrings[r.Intn(len(edgeStrings))])
		}
		return sb.String()
	}
}

var edgeFloats = []float64{0, math.Copysign(0, -1), 1, -1, 0.1, -0.5, 1.5, 1e21, 1e20, 1e-7, 123456789.125, 5e-324, -5e-324, 2.2250738585072014e-308,
	2.225073858507201e-308, math.MaxFloat64, -math.MaxFloat64, 1e100, 3.141592653589793, 9007199254740993, 0.30000000000000004, 1e23, 4.35, 100}
var nonFinite = []float64{math.NaN(), math.Inf(1), math.Inf(-1), math.Float64frombits(0x7FF8000000000002), math.Float64frombits(0xFFF0000000000001)}

func genFloat(r *lib.Rng, allowNonFinite bool) float64 {
	switch {
	case allowNonFinite && r.Chance(1, 8):
		return nonFinite[r.Intn(len(nonFinite))]
	case r.Chance(1, 2):
		return edgeFloats[r.Intn(len(edgeFloats))]
	default:
		for {
			f := math.Float64frombits(r.U64())
			if !math.IsNaN(f) && !math.IsInf(f, 0) {
				return f
			}
		}
	}
}

func genInt(r *lib.Rng) int64 {
	if r.Chance(2, 3) {
		return lib.EdgeInts[r.Intn(len(lib.EdgeInts))]
	}
	return int64(r.U64()) >> uint(r.Intn(64))
}


func scalarType(id octosql.TypeID) octosql.Type { return octosql.Type{TypeID: id} }

func distinctNames(r *lib.Rng, n int) []string {
	seen := map[string]bool{}
	var out []string
	for len(out) < n {
		nm := edgeNames[r.Intn(len(edgeNames))]
		if r.Chance(1, 2) {
			nm = []string{"a", "b", "c", "d", "e"}[r.Intn(5)]
		}
		if seen[nm] {
			nm = fmt.Sprintf("%s_%d", nm, len(out))
		}
		if seen[nm] {
			continue
		}
		seen[nm] = true
		out = append(out, nm)
	}
	return out
}

var qualifiers = []string{"a", "b", "t1", "tab le", "\u00e9", "q\"", "", "A", "\xffq", "x,y"}

// refPrintedNames is the specification of SetSchema's WithoutQualifiers (the same definition as
// Model/Formats.v without_qualifiers): the text after the first '.' when that short name occurs once.
func refPrintedNames(names []string) []string {
	short := func(n string) string {
		if i := strings.IndexByte(n, '.'); i >= 0 {
			return n[i+1:]
		}
		return n
	}
	count := map[string]int{}
	for _, n := range names {
		count[short(n)]++
	}
	out := make([]string, len(names))
	for i, n := range names {
		out[i] = n
		if count[short(n)] == 1 {
			out[i] = short(n)
		}
	}
	return out
}

func hasDup(names []string) bool {
	seen := map[string]bool{}
	for _, n := range names {
		if seen[n] {
			return true
		}
		seen[n] = true
	}
	return false
}

// schemaNames draws the (pairwise distinct) column names of a case. The family is fixed by the case index, so every
// seed covers: plain names; all columns qualified with distinct short names; the same short name under two or three
// qualifiers (join output); a bare name next to a qualified one with the same short name; empty qualifier / short name;
// and one schema whose column name itself holds a '.' (finding class qualifier-strip-collision).
func schemaNames(r *lib.Rng, i int, nf int) (names []string, family string) {
	q := func() string { return qualifiers[r.Intn(len(qualifiers))] }
	twoQ := func() (string, string) {
		a := q()
		b := q()
		for b == a {
			b = q()
		}
		return a, b
	}
	shorts := distinctNames(r, 4)
	switch i % 6 {
	case 2:
		family = "names_short_shared_by_two_qualifiers"
		a, b := twoQ()
		names = []string{a + "." + shorts[0], a + "." + shorts[1], b + "." + shorts[1]}
		if r.Bool() {
			names = append(names, b+"."+shorts[2])
		}
	case 3:
		family = "names_all_qualified_distinct_shorts"
		for k := 0; k < nf; k++ {
			names = append(names, q()+"."+shorts[k])
		}
	case 4:
		family = "names_bare_next_to_qualified"
		a, b := twoQ()
		names = []string{shorts[0], a + "." + shorts[0], b + "." + shorts[1]}
		if r.Bool() {
			names = append(names, "."+shorts[2], a+".") // empty qualifier, empty short name
		}
	case 5:
		if i == 5 {
			family = "names_dotted_column_collision"
			names = []string{"q.x.y", "x.y", "z.y"}
		} else {
			family = "names_short_shared_by_three_qualifiers"
			names = []string{"a." + shorts[0], "b." + shorts[0], "t1." + shorts[0], "b." + shorts[1]}
		}
	default:
		family = "names_plain"
		names = distinctNames(r, nf)
	}
	// column names of a result are pairwise distinct: drop a name that repeats an earlier one
	// (e.g. qualifier "x" + "." + short name "" equals qualifier "x" + ".")
	seen := map[string]bool{}
	var uniq []string
	for _, n := range names {
		if !seen[n] {
			seen[n] = true
			uniq = append(uniq, n)
		}
	}
	return uniq, family
}

// genType draws a type; unions hold at most one alternative per type id (what TypeSum produces for scalars).
func genType(r *lib.Rng, depth int) octosql.Type { return genTypeU(r, depth, true) }

func genTypeU(r *lib.Rng, depth int, allowUnion bool) octosql.Type {
	k := r.Intn(100)
	if !allowUnion && k >= 34 && k < 50 {
		k = 50
	}
	switch {
	case depth > 0 && k < 14:
		if r.Chance(1, 8) {
			return octosql.Type{TypeID: octosql.TypeIDList} // Element == nil: the type of an empty list literal
		}
		e := genType(r, depth-1)
		t := octosql.Type{TypeID: octosql.TypeIDList}
		t.List.Element = &e
		return t
	case depth > 0 && k < 26:
		n := r.Intn(4)
		names := distinctNames(r, n)
		t := octosql.Type{TypeID: octosql.TypeIDStruct}
		for i := 0; i < n; i++ {
			t.Struct.Fields = append(t.Struct.Fields, octosql.StructField{Name: names[i], Type: genType(r, depth-1)})
		}
		return t
	case depth > 0 && k < 34:
		n := r.Intn(4)
		t := octosql.Type{TypeID: octosql.TypeIDTuple}
		for i := 0; i < n; i++ {
			t.Tuple.Elements = append(t.Tuple.Elements, genType(r, depth-1))
		}
		return t
	case k >= 34 && k < 50:
		// union: nullable something, or several alternatives with distinct type ids
		t := octosql.Type{TypeID: octosql.TypeIDUnion}
		seen := map[octosql.TypeID]bool{}
		n := 2 + r.Intn(3)
		if r.Chance(2, 3) {
			t.Union.Alternatives = append(t.Union.Alternatives, scalarType(octosql.TypeIDNull))
			seen[octosql.TypeIDNull] = true
		}
		for len(t.Union.Alternatives) < n {
			a := genTypeU(r, depth-1, false)
			if seen[a.TypeID] {
				continue
			}
			seen[a.TypeID] = true
			t.Union.Alternatives = append(t.Union.Alternatives, a)
		}
		return t
	default:
		w := []octosql.TypeID{octosql.TypeIDString, octosql.TypeIDString, octosql.TypeIDString, octosql.TypeIDInt, octosql.TypeIDInt, octosql.TypeIDFloat, octosql.TypeIDFloat,
			octosql.TypeIDBoolean, octosql.TypeIDNull, octosql.TypeIDTime, octosql.TypeIDDuration}
		return scalarType(w[r.Intn(len(w))])
	}
}

func genValue(r *lib.Rng, t octosql.Type, nonFin bool) octosql.Value {
	switch t.TypeID {
	case octosql.TypeIDUnion:
		return genValue(r, t.Union.Alternatives[r.Intn(len(t.Union.Alternatives))], nonFin)
	case octosql.TypeIDNull:
		return octosql.NewNull()
	case octosql.TypeIDInt:
		return octosql.NewInt(genInt(r))
	case octosql.TypeIDFloat:
		return octosql.NewFloat(genFloat(r, nonFin))
	case octosql.TypeIDBoolean:
		return octosql.NewBoolean(r.Bool())
	case octosql.TypeIDString:
		return octosql.NewString(genString(r))
	case octosql.TypeIDTime:
		ts := lib.EdgeTimes()
		if r.Chance(1, 2) {
			return octosql.NewTime(ts[r.Intn(len(ts))])
		}
		return octosql.NewTime(time.Unix(int64(r.U64()%4e9), int64(r.Intn(1e9))).In(time.FixedZone("", (r.Intn(27)-13)*1800)))
	case octosql.TypeIDDuration:
		if r.Chance(1, 2) {
			return octosql.NewDuration(lib.EdgeDurations[r.Intn(len(lib.EdgeDurations))])
		}
		return octosql.NewDuration(time.Duration(int64(r.U64()) >> uint(r.Intn(64))))
	case octosql.TypeIDList:
		if t.List.Element == nil {
			return octosql.NewList(nil)
		}
		n := r.Intn(4)
		vs := make([]octosql.Value, n)
		for i := range vs {
			vs[i] = genValue(r, *t.List.Element, nonFin)
		}
		return octosql.NewList(vs)
	case octosql.TypeIDStruct:
		vs := make([]octosql.Value, len(t.Struct.Fields))
		for i := range vs {
			vs[i] = genValue(r, t.Struct.Fields[i].Type, nonFin)
		}
		return octosql.NewStruct(vs)
	case octosql.TypeIDTuple:
		vs := make([]octosql.Value, len(t.Tuple.Elements))
		for i := range vs {
			vs[i] = genValue(r, t.Tuple.Elements[i], nonFin)
		}
		return octosql.NewTuple(vs)
	}
	panic("genValue")
}

// ---------- Coq rendering ----------

func coqType(t octosql.Type) string {
	switch t.TypeID {
	case octosql.TypeIDList:
		if t.List.Element == nil {
			return "(TList None)"
		}
		return "(TList (Some " + coqType(*t.List.Element) + "))"
	case octosql.TypeIDStruct:
		parts := make([]string, len(t.Struct.Fields))
		for i, f := range t.Struct.Fields {
			parts[i] = "(" + lib.CoqBytes(f.Name) + ", " + coqType(f.Type) + ")"
		}
		return "(TStruct " + lib.CoqList(parts) + ")"
	case octosql.TypeIDTuple:
		parts := make([]string, len(t.Tuple.Elements))
		for i, e := range t.Tuple.Elements {
			parts[i] = coqType(e)
		}
		return "(TTuple " + lib.CoqList(parts) + ")"
	case octosql.TypeIDUnion:
		parts := make([]string, len(t.Union.Alternatives))
		for i, e := range t.Union.Alternatives {
			parts[i] = coqType(e)
		}
		return "(TUnion " + lib.CoqList(parts) + ")"
	}
	return fmt.Sprintf("(TScalar %d)", int(t.TypeID))
}

func coqVal(v octosql.Value) string {
	switch v.TypeID {
	case octosql.TypeIDNull:
		return "FNull"
	case octosql.TypeIDInt:
		return "(FInt " + lib.Z(int64(v.Int)) + ")"
	case octosql.TypeIDFloat:
		// the two float texts are computed here with strconv directly (the model treats them as opaque)
		return "(FFloat " + lib.U(math.Float64bits(v.Float)) + " " + lib.CoqBytes(string(strconv.AppendFloat(nil, v.Float, 'g', -1, 64))) + " " +
			lib.CoqBytes(strconv.FormatFloat(v.Float, 'f', -1, 64)) + ")"
	case octosql.TypeIDBoolean:
		return "(FBool " + lib.CoqBool(v.Boolean) + ")"
	case octosql.TypeIDString:
		return "(FStr " + lib.CoqBytes(v.Str) + ")"
	case octosql.TypeIDTime:
		return "(FTime " + lib.CoqBytes(v.Time.Format(time.RFC3339)) + ")"
	case octosql.TypeIDDuration:
		return "(FDur " + lib.CoqBytes(v.Duration.String()) + ")"
	case octosql.TypeIDList:
		return "(FList " + coqVals(v.List) + ")"
	case octosql.TypeIDStruct:
		return "(FStruct " + coqVals(v.Struct) + ")"
	case octosql.TypeIDTuple:
		return "(FTuple " + coqVals(v.Tuple) + ")"
	}
	panic("coqVal")
}

func coqVals(vs []octosql.Value) string {
	parts := make([]string, len(vs))
	for i := range vs {
		parts[i] = coqVal(vs[i])
	}
	return lib.CoqList(parts)
}

// ---------- running the implementation ----------

type format interface {
	SetSchema(physical.Schema)
	Write([]octosql.Value) error
	Close() error
}

// runFormatter drives a formatter exactly as outputs/eager.OutputPrinter.Run does.
// status: 0 all records written, 1 Write returned an error (the run stops), 2 panic.
func runFormatter(mk func(io.Writer) format, schema physical.Schema, rows [][]octosql.Value) (status int, out []byte, msg string) {
	var buf bytes.Buffer
	w := bufio.NewWriterSize(&buf, 4096*1024)
	defer func() {
		if p := recover(); p != nil {
			w.Flush()
			status, out, msg = 2, buf.Bytes(), fmt.Sprint(p)
		}
	}()
	f := mk(w)
	f.SetSchema(schema)
	for _, row := range rows {
		vals := make([]octosql.Value, len(row))
		copy(vals, row)
		if err := f.Write(vals); err != nil {
			w.Flush()
			return 1, buf.Bytes(), err.Error()
		}
	}
	w.Flush()
	return 0, buf.Bytes(), ""
}

func coqObs(status int, out []byte) string {
	return fmt.Sprintf("(%d, %s)", status, lib.CoqBytes(string(out)))
}

// ---------- Go-side oracles (cross-checks with encoding/json and encoding/csv, float exactness) ----------

func hasNonFinite(v octosql.Value) bool {
	switch v.TypeID {
	case octosql.TypeIDFloat:
		return math.IsNaN(v.Float) || math.IsInf(v.Float, 0)
	case octosql.TypeIDList:
		for _, x := range v.List {
			if hasNonFinite(x) {
				return true
			}
		}
	case octosql.TypeIDStruct:
		for _, x := range v.Struct {
			if hasNonFinite(x) {
				return true
			}
		}
	case octosql.TypeIDTuple:
		for _, x := range v.Tuple {
			if hasNonFinite(x) {
				return true
			}
		}
	}
	return false
}

func isContainer(v octosql.Value) bool {
	return v.TypeID == octosql.TypeIDList || v.TypeID == octosql.TypeIDStruct || v.TypeID == octosql.TypeIDTuple
}

func resolve(t octosql.Type, v octosql.Value) octosql.Type {
	if t.TypeID == octosql.TypeIDUnion {
		for _, a := range t.Union.Alternatives {
			if a.TypeID == v.TypeID {
				return a
			}
		}
	}
	return t
}

// lossyUTF8 is what encoding/json's decoder makes of a string: every byte that is not part of a valid
// sequence becomes U+FFFD.
func lossyUTF8(s string) string { return string([]rune(s)) }

// matchJSON compares a value with what encoding/json decoded (UseNumber). "" = agrees.
func matchJSON(t octosql.Type, v octosql.Value, d interface{}) string {
	t = resolve(t, v)
	switch v.TypeID {
	case octosql.TypeIDNull:
		if d != nil {
			return fmt.Sprintf("NULL decoded as %v", d)
		}
	case octosql.TypeIDInt:
		n, ok := d.(json.Number)
		if !ok {
			return fmt.Sprintf("int decoded as %T", d)
		}
		z, err := strconv.ParseInt(string(n), 10, 64)
		if err != nil || z != int64(v.Int) {
			return fmt.Sprintf("int %d decoded as %s", v.Int, n)
		}
	case octosql.TypeIDFloat:
		n, ok := d.(json.Number)
		if !ok {
			return fmt.Sprintf("float decoded as %T", d)
		}
		f, err := strconv.ParseFloat(string(n), 64)
		if err != nil || math.Float64bits(f) != math.Float64bits(v.Float) {
			return fmt.Sprintf("float with bits %#x printed as %s, which reads back as bits %#x", math.Float64bits(v.Float), n, math.Float64bits(f))
		}
	case octosql.TypeIDBoolean:
		if b, ok := d.(bool); !ok || b != v.Boolean {
			return fmt.Sprintf("boolean %v decoded as %v", v.Boolean, d)
		}
	case octosql.TypeIDString:
		if s, ok := d.(string); !ok || s != lossyUTF8(v.Str) {
			return fmt.Sprintf("string %q decoded as %#v", v.Str, d)
		}
	case octosql.TypeIDTime:
		if s, ok := d.(string); !ok || s != v.Time.Format(time.RFC3339) {
			return fmt.Sprintf("time decoded as %#v", d)
		}
	case octosql.TypeIDDuration:
		if s, ok := d.(string); !ok || s != v.Duration.String() {
			return fmt.Sprintf("duration decoded as %#v", d)
		}
	case octosql.TypeIDList:
		a, ok := d.([]interface{})
		if !ok || len(a) != len(v.List) {
			return fmt.Sprintf("list of %d decoded as %#v", len(v.List), d)
		}
		for i := range a {
			if m := matchJSON(*t.List.Element, v.List[i], a[i]); m != "" {
				return m
			}
		}
	case octosql.TypeIDTuple:
		a, ok := d.([]interface{})
		if !ok || len(a) != len(v.Tuple) {
			return fmt.Sprintf("tuple of %d decoded as %#v", len(v.Tuple), d)
		}
		for i := range a {
			if m := matchJSON(t.Tuple.Elements[i], v.Tuple[i], a[i]); m != "" {
				return m
			}
		}
	case octosql.TypeIDStruct:
		o, ok := d.(map[string]interface{})
		if !ok || len(o) != len(v.Struct) {
			return fmt.Sprintf("object of %d fields decoded as %#v", len(v.Struct), d)
		}
		for i := range v.Struct {
			x, ok := o[lossyUTF8(t.Struct.Fields[i].Name)]
			if !ok {
				return fmt.Sprintf("object field %q missing", t.Struct.Fields[i].Name)
			}
			if m := matchJSON(t.Struct.Fields[i].Type, v.Struct[i], x); m != "" {
				return m
			}
		}
	}
	return ""
}

func decodeJSON(b []byte) (interface{}, error) {
	dec := json.NewDecoder(bytes.NewReader(b))
	dec.UseNumber()
	var d interface{}
	if err := dec.Decode(&d); err != nil {
		return nil, err
	}
	if _, err := dec.Token(); err != io.EOF {
		return nil, fmt.Errorf("trailing data")
	}
	return d, nil
}

func allValidUTF8(fields []physical.SchemaField, rows [][]octosql.Value) bool {
	var tyOK func(t octosql.Type) bool
	tyOK = func(t octosql.Type) bool {
		switch t.TypeID {
		case octosql.TypeIDList:
			return t.List.Element == nil || tyOK(*t.List.Element)
		case octosql.TypeIDStruct:
			for _, f := range t.Struct.Fields {
				if !utf8.ValidString(f.Name) || !tyOK(f.Type) {
					return false
				}
			}
		case octosql.TypeIDTuple:
			for _, e := range t.Tuple.Elements {
				if !tyOK(e) {
					return false
				}
			}
		case octosql.TypeIDUnion:
			for _, e := range t.Union.Alternatives {
				if !tyOK(e) {
					return false
				}
			}
		}
		return true
	}
	var valOK func(v octosql.Value) bool
	valOK = func(v octosql.Value) bool {
		switch v.TypeID {
		case octosql.TypeIDString:
			return utf8.ValidString(v.Str)
		case octosql.TypeIDList:
			for _, x := range v.List {
				if !valOK(x) {
					return false
				}
			}
		case octosql.TypeIDStruct:
			for _, x := range v.Struct {
				if !valOK(x) {
					return false
				}
			}
		case octosql.TypeIDTuple:
			for _, x := range v.Tuple {
				if !valOK(x) {
					return false
				}
			}
		}
		return true
	}
	for _, f := range fields {
		if !utf8.ValidString(f.Name) || !tyOK(f.Type) {
			return false
		}
	}
	for _, row := range rows {
		for _, v := range row {
			if !valOK(v) {
				return false
			}
		}
	}
	return true
}

// checkJSON: every line is valid for encoding/json and decodes to the row (floats by bit pattern).
func checkJSON(fields []physical.SchemaField, printed []string, rows [][]octosql.Value, status int, out []byte) string {
	expect := rows
	if status != 0 {
		expect = nil
		for _, row := range rows {
			bad := false
			for _, v := range row {
				bad = bad || hasNonFinite(v)
			}
			if bad {
				break
			}
			expect = append(expect, row)
		}
		if len(expect) == len(rows) {
			return "Write returned an error although no value is NaN or infinite"
		}
	}
	if len(out) > 0 && out[len(out)-1] != '\n' {
		return "output does not end with a newline"
	}
	var lines [][]byte
	if len(out) > 0 {
		lines = bytes.Split(out[:len(out)-1], []byte{'\n'})
	}
	if len(lines) != len(expect) {
		return fmt.Sprintf("%d lines for %d records", len(lines), len(expect))
	}
	for i, line := range lines {
		if !json.Valid(line) {
			return fmt.Sprintf("line %d is not valid JSON (encoding/json): %q", i, line)
		}
		d, err := decodeJSON(line)
		if err != nil {
			return fmt.Sprintf("line %d does not decode: %v", i, err)
		}
		o, ok := d.(map[string]interface{})
		// exactly one member per column: a decoder that keeps one value per key must still see every column
		if !ok || len(o) != len(fields) {
			return fmt.Sprintf("line %d: the row has %d columns but the line decodes to %d members: %s", i, len(fields), len(o), line)
		}
		for k, f := range fields {
			x, ok := o[lossyUTF8(printed[k])]
			if !ok {
				return fmt.Sprintf("line %d: member %q (column %q) missing", i, printed[k], f.Name)
			}
			if m := matchJSON(f.Type, expect[i][k], x); m != "" {
				return fmt.Sprintf("line %d member %q: %s", i, printed[k], m)
			}
		}
	}
	if allValidUTF8(fields, rows) && !utf8.Valid(out) {
		return "all strings of the case are valid UTF-8 but the JSON output is not"
	}
	return ""
}

// checkCSV: encoding/csv reads the output back to the header and the cells. Its reader skips empty lines and
// turns \r\n inside quoted fields into \n; the expectation is adjusted for both (the Coq-side RFC 4180 oracle is exact).
func checkCSV(fields []physical.SchemaField, printed []string, rows [][]octosql.Value, status int, out []byte) string {
	if status != 0 {
		return "" // judged by the Coq-side oracle
	}
	rd := csv.NewReader(bytes.NewReader(out))
	rd.FieldsPerRecord = -1
	recs, err := rd.ReadAll()
	if err != nil {
		return "encoding/csv cannot read the output back: " + err.Error()
	}
	norm := func(s string) string { return strings.ReplaceAll(s, "\r\n", "\n") }
	type exp struct {
		cells []string
		row   []octosql.Value
	}
	var want []exp
	hdr := make([]string, len(fields))
	for i := range fields {
		hdr[i] = norm(printed[i])
	}
	if hasDup(hdr) {
		return fmt.Sprintf("the CSV header names two columns alike: %q", hdr)
	}
	if !(len(hdr) == 1 && hdr[0] == "") {
		want = append(want, exp{cells: hdr})
	}
	for _, row := range rows {
		if len(row) == 1 && (row[0].TypeID == octosql.TypeIDNull || (row[0].TypeID == octosql.TypeIDString && row[0].Str == "")) {
			continue // an empty line: skipped by encoding/csv's reader
		}
		want = append(want, exp{row: row})
	}
	if len(recs) != len(want) {
		return fmt.Sprintf("encoding/csv read %d records, %d expected", len(recs), len(want))
	}
	for i, w := range want {
		got := recs[i]
		if w.row == nil {
			if strings.Join(got, "\x00|") != strings.Join(w.cells, "\x00|") {
				return fmt.Sprintf("header read back as %q", got)
			}
			continue
		}
		if len(got) != len(w.row) {
			return fmt.Sprintf("record %d has %d fields, %d expected", i, len(got), len(w.row))
		}
		for k, v := range w.row {
			cell := got[k]
			switch v.TypeID {
			case octosql.TypeIDNull:
				if cell != "" {
					return fmt.Sprintf("NULL printed as %q", cell)
				}
			case octosql.TypeIDInt:
				z, err := strconv.ParseInt(cell, 10, 64)
				if err != nil || z != int64(v.Int) {
					return fmt.Sprintf("int %d printed as %q", v.Int, cell)
				}
			case octosql.TypeIDFloat:
				f, err := strconv.ParseFloat(cell, 64)
				if err != nil || (math.Float64bits(f) != math.Float64bits(v.Float) && !(math.IsNaN(f) && math.IsNaN(v.Float))) {
					return fmt.Sprintf("float with bits %#x printed as %q, which reads back as bits %#x", math.Float64bits(v.Float), cell, math.Float64bits(f))
				}
			case octosql.TypeIDBoolean:
				if cell != strconv.FormatBool(v.Boolean) {
					return fmt.Sprintf("boolean printed as %q", cell)
				}
			case octosql.TypeIDString:
				if cell != norm(v.Str) {
					return fmt.Sprintf("string %q read back as %q", v.Str, cell)
				}
			case octosql.TypeIDTime:
				if cell != v.Time.Format(time.RFC3339) {
					return fmt.Sprintf("time printed as %q", cell)
				}
			case octosql.TypeIDDuration:
				if cell != v.Duration.String() {
					return fmt.Sprintf("duration printed as %q", cell)
				}
			default:
				if strings.Contains(cell, "\n") {
					continue // JSON text never holds a raw newline; unreachable unless the Coq oracle fails too
				}
				d, err := decodeJSON([]byte(cell))
				if err != nil {
					return fmt.Sprintf("nested value printed as %q, which is not JSON: %v", cell, err)
				}
				if m := matchJSON(fields[k].Type, v, d); m != "" {
					return "nested cell: " + m
				}
			}
		}
	}
	return ""
}

// ---------- main ----------

func needsEscape(s string) bool {
	for i := 0; i < len(s); i++ {
		if s[i] < 0x20 || s[i] == '"' || s[i] == '\\' || s[i] >= 0x80 || s[i] == ',' {
			return true
		}
	}
	return false
}

func interesting(v octosql.Value) bool {
	switch v.TypeID {
	case octosql.TypeIDString:
		return needsEscape(v.Str)
	case octosql.TypeIDInt:
		return v.Int > 1<<53 || v.Int < -(1<<53)
	case octosql.TypeIDFloat:
		return true
	case octosql.TypeIDList, octosql.TypeIDStruct, octosql.TypeIDTuple:
		return true
	}
	return false
}

func main() {
	f := lib.ParseFlags()
	if f.Cmd != "run" {
		fmt.Fprintln(os.Stderr, "c25: only 'run'")
		os.Exit(2)
	}
	log.SetOutput(io.Discard) // ValueToJson logs for ill-typed union values; the generator makes none
	rng := lib.NewRng(f.Seed)
	cf := lib.NewCaseFile("C25", f.Seed, f.Tier)
	cf.Imports = []string{"Formats"}
	cf.CaseType = "c25_case"
	cf.Checks = []lib.Check{
		{Name: "tie_json", Kind: "tie", Fn: "c25_tie_json"}, {Name: "tie_csv", Kind: "tie", Fn: "c25_tie_csv"},
		{Name: "spec_json", Kind: "spec", Fn: "c25_spec_json"}, {Name: "spec_csv", Kind: "spec", Fn: "c25_spec_csv"}}
	cf.Side.Rule = "schemas of 1..5 fields (column names plain, qualified, sharing a short name under 2-3 qualifiers, bare next to qualified, empty qualifier/short name - family fixed by the case index; scalar, nullable/union, list, object, tuple types nested to depth 2; field and member names with quotes, " +
		"control bytes, multibyte and invalid UTF-8) and 1..4 conforming rows (strings with control bytes, quotes, backslashes, CR/LF, leading spaces, " +
		"multibyte, invalid UTF-8, 1.5-4 kB; extreme ints; floats incl. subnormals, extremes, -0, NaN and infinities; NULLs) through " +
		"formats.NewJSONFormatter and formats.NewCSVFormatter driven as outputs/eager does; non-trivial = some value is a string needing " +
		"escaping/quoting, an int beyond 2^53, a float or a nested value; distinct by full case text"
	n := f.Cases(220, 2200)
	for i := 0; i < n; i++ {
		r := rng.Fork()
		nf := 1 + r.Intn(4)
		names, family := schemaNames(r, i, nf)
		nf = len(names)
		cf.Count(family)
		printed := refPrintedNames(names)
		class := ""
		if !hasDup(names) && hasDup(printed) {
			class = "qualifier-strip-collision" // only reachable with a '.' inside a column name (findings/C25.txt)
		}
		fields := make([]physical.SchemaField, nf)
		for k := range fields {
			fields[k] = physical.SchemaField{Name: names[k], Type: genType(r, 2)}
		}
		nonFin := r.Chance(1, 2)
		nr := 1 + r.Intn(4)
		rows := make([][]octosql.Value, nr)
		nontrivial := false
		for j := range rows {
			rows[j] = make([]octosql.Value, nf)
			for k := range rows[j] {
				rows[j][k] = genValue(r, fields[k].Type, nonFin)
				nontrivial = nontrivial || interesting(rows[j][k])
				cf.Count("value_" + rows[j][k].TypeID.String())
			}
		}
		schema := physical.NewSchema(fields, -1)
		js, jout, jmsg := runFormatter(func(w io.Writer) format { return formats.NewJSONFormatter(w) }, schema, rows)
		cs, cout, cmsg := runFormatter(func(w io.Writer) format { return formats.NewCSVFormatter(w) }, schema, rows)

		fparts := make([]string, nf)
		for k, fl := range fields {
			fparts[k] = "(" + lib.CoqBytes(fl.Name) + ", " + coqType(fl.Type) + ")"
		}
		rparts := make([]string, nr)
		rjs := make([]interface{}, nr)
		for j := range rows {
			rparts[j] = coqVals(rows[j])
			rjs[j] = lib.ValuesJSON(rows[j])
		}
		tjs := make([]string, nf)
		for k, fl := range fields {
			tjs[k] = fmt.Sprintf("%q: %s", fl.Name, coqType(fl.Type))
		}
		readable := map[string]interface{}{"fields": tjs, "rows": rjs,
			"json_status": js, "json_output": fmt.Sprintf("%q", jout), "json_message": jmsg,
			"csv_status": cs, "csv_output": fmt.Sprintf("%q", cout), "csv_message": cmsg}
		idx := cf.Add(fmt.Sprintf("(%s, %s, %s, %s)", lib.CoqList(fparts), lib.CoqList(rparts), coqObs(js, jout), coqObs(cs, cout)), readable, nontrivial)
		cf.Count(fmt.Sprintf("json_status_%d", js))
		cf.Count(fmt.Sprintf("csv_status_%d", cs))
		if class != "" {
			cf.SetClass(idx, class)
		}
		if js == 2 {
			cf.Violation(idx, "the JSON formatter panicked: "+jmsg, "")
		} else if m := checkJSON(fields, printed, rows, js, jout); m != "" {
			cf.Violation(idx, "JSON output: "+m, class)
		}
		if cs == 2 {
			cf.Violation(idx, "the CSV formatter panicked: "+cmsg, "")
		} else if m := checkCSV(fields, printed, rows, cs, cout); m != "" {
			cf.Violation(idx, "CSV output: "+m, class)
		}
	}
	if err := cf.Write(f.Out); err != nil {
		fmt.Fprintln(os.Stderr, err)
		os.Exit(2)
	}
}
