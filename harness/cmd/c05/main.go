// c05: LIMIT / ORDER BY in every output mode and nesting.
//   in-process: the three LIMIT implementations (Limit node, OrderSensitiveTransform with limit and with/without
//   DeleteMax pruning, batch.OutputPrinter with limit) over generated changelogs, exact tie with Model/Operators.v;
//   CLI: the built octosql binary runs SELECT a, b, c FROM f [ORDER BY ...] LIMIT n for every n in 0..K over generated
//   JSON files with duplicate rows, in batch_table / csv / json / stream_native, at top level, as a subquery and as
//   a CTE; stdout is parsed per mode, compared with Model/LimitOrder.v's [printed] and judged by is_top_n in Coq.
package main

import (
	"bytes"
	"encoding/json"
	"fmt"
	"os"
	"os/exec"
	"path/filepath"
	"sort"
	"strconv"
	"strings"
	"sync"
	"time"

	"github.com/cube2222/octosql/execution"
	"github.com/cube2222/octosql/octosql"

	"verifharness/cmd/c15/ops"
	"verifharness/lib"
)

var modes = []string{"batch_table", "csv", "json", "stream_native"}
var coqModes = []string{"BatchTable", "Csv", "Json", "StreamNative"}
var colNames = []string{"a", "b", "c"}

// column kinds of the generated files: a int|null, b string|null, c small int
func genFileRow(r *lib.Rng) []octosql.Value {
	row := make([]octosql.Value, 3)
	switch r.Intn(6) {
	case 0:
		row[0] = octosql.NewNull()
	case 1:
		row[0] = octosql.NewInt([]int64{-3, 100, -1}[r.Intn(3)])
	default:
		row[0] = octosql.NewInt(int64(r.Intn(3)))
	}
	if r.Chance(1, 5) {
		row[1] = octosql.NewNull()
	} else {
		row[1] = octosql.NewString([]string{"x", "y", "Ab", "ab", "z"}[r.Intn(5)])
	}
	row[2] = octosql.NewInt(int64(r.Intn(2)))
	return row
}

func jsonLine(row []octosql.Value) string {
	m := make([]string, len(row))
	for i, v := range row {
		var s string
		switch v.TypeID {
		case octosql.TypeIDNull:
			s = "null"
		case octosql.TypeIDInt:
			s = strconv.FormatInt(v.Int, 10)
		default:
			b, _ := json.Marshal(v.Str)
			s = string(b)
		}
		m[i] = fmt.Sprintf("%q:%s", colNames[i], s)
	}
	return "{" + strings.Join(m, ",") + "}"
}

// column kinds of a result shape: an Int column, a String column, a Time column (carried as its RFC3339 text,
// which is what every output mode prints)
const (
	kInt = iota
	kStr
	kTime
)

type shape struct {
	cols  []string
	kinds []int
}

var shapeABC = shape{cols: []string{"a", "b", "c"}, kinds: []int{kInt, kStr, kInt}}
var shapeTimeC = shape{cols: []string{"time", "c"}, kinds: []int{kTime, kInt}}

func parseCell(kind int, s string, quoted bool) (octosql.Value, error) {
	s = strings.TrimSpace(s)
	if quoted {
		if s == "<null>" {
			return octosql.NewNull(), nil
		}
		if len(s) >= 2 && s[0] == '\'' && s[len(s)-1] == '\'' {
			return octosql.NewString(s[1 : len(s)-1]), nil
		}
		if kind == kTime {
			return octosql.NewString(s), nil
		}
		n, err := strconv.ParseInt(s, 10, 64)
		return octosql.NewInt(n), err
	}
	// csv: by the column's kind
	if s == "" {
		return octosql.NewNull(), nil
	}
	if kind != kInt {
		return octosql.NewString(s), nil
	}
	n, err := strconv.ParseInt(s, 10, 64)
	return octosql.NewInt(n), err
}

func parseOutput(mode string, out string, sh shape) ([][]octosql.Value, error) {
	colNames := sh.cols
	nc := len(colNames)
	rows := [][]octosql.Value{}
	lines := strings.Split(strings.TrimRight(out, "\n"), "\n")
	if out == "" {
		lines = nil
	}
	switch mode {
	case "json":
		for _, l := range lines {
			var m map[string]interface{}
			d := json.NewDecoder(strings.NewReader(l))
			d.UseNumber()
			if err := d.Decode(&m); err != nil {
				return nil, fmt.Errorf("json line %q: %v", l, err)
			}
			row := make([]octosql.Value, nc)
			for i, c := range colNames {
				switch v := m[c].(type) {
				case nil:
					row[i] = octosql.NewNull()
				case json.Number:
					n, err := v.Int64()
					if err != nil {
						return nil, err
					}
					row[i] = octosql.NewInt(n)
				case string:
					row[i] = octosql.NewString(v)
				default:
					return nil, fmt.Errorf("json value %v", v)
				}
			}
			rows = append(rows, row)
		}
	case "csv":
		if len(lines) == 0 || lines[0] != strings.Join(colNames, ",") {
			return nil, fmt.Errorf("csv header missing: %q", out)
		}
		for _, l := range lines[1:] {
			cells := strings.Split(l, ",")
			if len(cells) != nc {
				return nil, fmt.Errorf("csv line %q", l)
			}
			row := make([]octosql.Value, nc)
			for i := range cells {
				v, err := parseCell(sh.kinds[i], cells[i], false)
				if err != nil {
					return nil, err
				}
				row[i] = v
			}
			rows = append(rows, row)
		}
	case "batch_table":
		first := true
		for _, l := range lines {
			if !strings.HasPrefix(l, "|") {
				continue
			}
			if first { // header
				first = false
				continue
			}
			cells := strings.Split(strings.Trim(l, "|"), "|")
			if len(cells) != nc {
				return nil, fmt.Errorf("table line %q", l)
			}
			row := make([]octosql.Value, nc)
			for i := range cells {
				v, err := parseCell(sh.kinds[i], cells[i], true)
				if err != nil {
					return nil, err
				}
				row[i] = v
			}
			rows = append(rows, row)
		}
	case "stream_native":
		for _, l := range lines {
			// {+0001-01-01T00:00:00Z| 2, 'x', 1 |}   and   {~2021-01-01 00:00:00 +0000 UTC}  (a watermark)
			if strings.HasPrefix(l, "{~") {
				continue
			}
			if !strings.HasPrefix(l, "{+") || !strings.HasSuffix(l, "|}") {
				return nil, fmt.Errorf("stream_native line %q (a retraction or an unknown shape)", l)
			}
			i := strings.IndexByte(l, '|')
			body := l[i+1 : len(l)-2]
			cells := strings.Split(body, ",")
			if len(cells) != nc {
				return nil, fmt.Errorf("stream_native line %q", l)
			}
			row := make([]octosql.Value, nc)
			for j := range cells {
				v, err := parseCell(sh.kinds[j], cells[j], true)
				if err != nil {
					return nil, err
				}
				row[j] = v
			}
			rows = append(rows, row)
		}
	}
	return rows, nil
}

type cliJob struct {
	family    string // "file", "group_counting" (Cli cases); "limit_over_flush" (CliLimitOf cases); "reference"
	noretr    bool
	sh        shape
	refKey    string // limit_over_flush: which reference run gives the rows of the query without its LIMIT
	iks       []ops.Key // cross_subquery: ORDER BY / LIMIT of the subquery
	hasIL     bool
	il        int
	expected  [][]octosql.Value // lookup_limit_subquery: the result bag computed here
	mode      int
	placement int // 0 top level, 1 subquery, 2 WITH
	keys      []ops.Key
	n         int
	file      string
	rows      [][]octosql.Value
	query     string
	stdout    string
	stderr    string
	err       error
}

func orderBy(keys []ops.Key) string {
	if len(keys) == 0 {
		return ""
	}
	parts := make([]string, len(keys))
	for i, k := range keys {
		parts[i] = colNames[k.E.I]
		if k.Desc {
			parts[i] += " DESC"
		}
	}
	return " ORDER BY " + strings.Join(parts, ", ")
}

func buildCLI(dir string) (string, error) {
	repo := os.Getenv("VERIF_REPO")
	if repo == "" {
		repo = "/repo"
	}
	// a stable path next to the run directory: `go build` leaves an up-to-date binary alone (about 3 s instead
	// of a relink), and rebuilds it whenever the tree under $VERIF_REPO changed
	cliDir := filepath.Join(filepath.Dir(filepath.Clean(dir)), "cli")
	if err := os.MkdirAll(cliDir, 0o755); err != nil {
		return "", err
	}
	bin, err := filepath.Abs(filepath.Join(cliDir, "octosql"))
	if err != nil {
		return "", err
	}
	cmd := exec.Command("go", "build", "-o", bin, ".")
	cmd.Dir = repo
	out, err := cmd.CombinedOutput()
	if err != nil {
		return "", fmt.Errorf("go build of the CLI failed: %v\n%s", err, out)
	}
	return bin, nil
}

// groupCounts: the final result of SELECT a, b, COUNT(*) AS c ... GROUP BY a, b (keys compared by Value.Compare,
// NULL keys form a group of their own)
func groupCounts(rows [][]octosql.Value) [][]octosql.Value {
	var out [][]octosql.Value
	for _, row := range rows {
		found := false
		for _, g := range out {
			if g[0].Compare(row[0]) == 0 && g[1].Compare(row[1]) == 0 {
				g[2] = octosql.NewInt(g[2].Int + 1)
				found = true
				break
			}
		}
		if !found {
			out = append(out, []octosql.Value{row[0], row[1], octosql.NewInt(1)})
		}
	}
	return out
}

func coqRows(rows [][]octosql.Value) string {
	parts := make([]string, len(rows))
	for i := range rows {
		parts[i] = lib.CoqValues(rows[i])
	}
	return lib.CoqList(parts)
}

func rowsJSON(rows [][]octosql.Value) []interface{} {
	out := make([]interface{}, len(rows))
	for i := range rows {
		out[i] = lib.ValuesJSON(rows[i])
	}
	return out
}

func main() {
	f := lib.ParseFlags()
	if f.Cmd != "run" {
		fmt.Fprintln(os.Stderr, "c05: only 'run'")
		os.Exit(2)
	}
	rng := lib.NewRng(f.Seed)
	cf := lib.NewCaseFile("C05", f.Seed, f.Tier)
	cf.Imports = []string{"LimitOrder"}
	cf.CaseType = "c05_case"
	cf.Checks = []lib.Check{{Name: "tie", Kind: "tie", Fn: "c05_tie"}, {Name: "spec", Kind: "spec", Fn: "c05_spec"}}
	K := 6
	if f.Tier == "thorough" {
		K = 12
	}
	cf.Side.Rule = fmt.Sprintf("in-process: Limit node, OrderSensitiveTransform with limit (with and without DeleteMax pruning) and batch.OutputPrinter with limit over generated valid changelogs "+
		"(insert-only when noRetractionsPossible), n in 0..%d, exact tie; CLI: the built binary on SELECT a, b, c FROM f [ORDER BY 1-2 columns, ASC/DESC] LIMIT n for every n in 0..%d x "+
		"{batch_table,csv,json,stream_native} x {top level, subquery, WITH} over generated JSON files (1..9 rows, duplicates, NULLs), stdout parsed per mode; "+
		"non-trivial = at least 3 input rows with a duplicate and 0 < n < #rows; distinct by full case text", K, K)

	// ---- in-process ----
	nIn := f.Cases(450, 4500)
	for i := 0; i < nIn; i++ {
		r := rng.Fork()
		arity := 1 + r.Intn(3)
		var spec ops.Spec
		n := int64(r.Intn(K + 1))
		switch i % 5 {
		case 0:
			spec = ops.Spec{Kind: ops.NLimit, N: n}
		case 1, 2:
			spec = ops.Spec{Kind: ops.NOst, Keys: ops.GenKeys(r, arity), HasLimit: true, Limit: n, NoRetr: r.Bool()}
		default:
			spec = ops.Spec{Kind: ops.NPrinter, Keys: ops.GenKeys(r, arity), HasLimit: true, Limit: n, NoRetr: r.Bool()}
		}
		if spec.Kind == ops.NOst && r.Chance(1, 25) {
			spec.Limit = -1
		}
		insertOnly := spec.Kind == ops.NLimit || spec.NoRetr
		script := ops.GenChangelog(r, arity, -1, 12, insertOnly, true)
		var obs ops.Obs
		if spec.Kind == ops.NPrinter && i%45 == 3 {
			// live_table: the printer with live = true over a source that pauses 300 ms in the middle, so that an
			// intermediate frame is drawn (records carry no event time, as the live refresh requires); the final
			// frame is the observation and must be what batch_table prints
			spec.Live = true
			if spec.Limit == 0 {
				spec.Limit = 1 + int64(r.Intn(K))
			}
			for k := range script {
				if !script[k].IsWM {
					script[k].Rec.EventTime = time.Time{}
				}
			}
			at := len(script) / 2
			if at == 0 && len(script) > 1 {
				at = 1
			}
			obs = spec.RunOver(&ops.SlowSource{Events: script, Pause: map[int]time.Duration{at: 300 * time.Millisecond}})
			cf.Count("inproc_live_printer")
			if obs.Frames > 1 {
				cf.Count("inproc_live_printer_with_intermediate_frame")
			}
		} else {
			obs = spec.Run(script)
		}
		recs, retr, _, dups := ops.ScriptFacts(script)
		nontrivial := recs-2*retr >= 3 && dups > 0 && n > 0 && int(n) < recs-2*retr
		js := map[string]interface{}{"kind": "in-process", "arity": arity, "node": spec.JSON(), "input": lib.EventsJSON(script), "observed": obs.JSON()}
		idx := cf.Add(fmt.Sprintf("InProc (%s, %s, %s, %s)", ops.Nat(arity), spec.Coq(), lib.CoqEvents(script), obs.Coq()), js, nontrivial)
		cf.Count("inproc_" + ops.KindNames[spec.Kind])
		if spec.NoRetr {
			cf.Count("inproc_no_retractions_possible")
		}
		if obs.Panicked != nil {
			cf.Violation(idx, fmt.Sprintf("%s panicked on a valid changelog: %v", ops.KindNames[spec.Kind], obs.Panicked), "")
		}
	}

	// deterministic families (every seed): ORDER BY + LIMIT 1..3 with a retraction among the first n rows, equal
	// duplicates on the boundary (OST with and without pruning, printer); the live printer with a fixed script
	for _, fc := range ops.FixedLimitCases() {
		obs := fc.Spec.Run(fc.Script)
		js := map[string]interface{}{"kind": "in-process", "family": fc.Family, "arity": fc.Arity, "node": fc.Spec.JSON(), "input": lib.EventsJSON(fc.Script), "observed": obs.JSON()}
		idx := cf.Add(fmt.Sprintf("InProc (%s, %s, %s, %s)", ops.Nat(fc.Arity), fc.Spec.Coq(), lib.CoqEvents(fc.Script), obs.Coq()), js, true)
		cf.Count("fixed_" + fc.Family)
		if obs.Panicked != nil {
			cf.Violation(idx, fmt.Sprintf("%s panicked on a valid changelog: %v", ops.KindNames[fc.Spec.Kind], obs.Panicked), "")
		}
	}
	for _, limit := range []int64{2, 3} {
		var script []lib.Event
		for v := int64(1); v <= 6; v++ {
			script = append(script, lib.Event{Rec: execution.NewRecord([]octosql.Value{octosql.NewInt(7 - v)}, false, time.Time{})})
		}
		spec := ops.Spec{Kind: ops.NPrinter, Keys: []ops.Key{{E: ops.Expr{Kind: ops.EVar, I: 0}}}, HasLimit: true, Limit: limit, NoRetr: limit == 2, Live: true}
		obs := spec.RunOver(&ops.SlowSource{Events: script, Pause: map[int]time.Duration{4: 300 * time.Millisecond}})
		js := map[string]interface{}{"kind": "in-process", "family": "fixed_live_printer", "arity": 1, "node": spec.JSON(), "input": lib.EventsJSON(script), "observed": obs.JSON(), "frames": obs.Frames}
		cf.Add(fmt.Sprintf("InProc (%s, %s, %s, %s)", ops.Nat(1), spec.Coq(), lib.CoqEvents(script), obs.Coq()), js, obs.Frames > 1)
		cf.Count("fixed_live_printer")
		if obs.Frames > 1 {
			cf.Count("fixed_live_printer_with_intermediate_frame")
		}
	}

	// round 2: LIMIT above / below ORDER BY and other nodes as pipelines, every node object run twice
	ops.Round2Families(cf, "InProc", rng.Fork(), f.Cases(90, 900), false)

	// ---- CLI ----
	bin, err := buildCLI(f.Out)
	if err != nil {
		fmt.Fprintln(os.Stderr, err)
		os.Exit(2)
	}
	home := filepath.Join(f.Out, "home")
	os.MkdirAll(home, 0o755)
	nFiles := 3
	if f.Tier == "thorough" {
		nFiles = 12
	}
	var jobs []*cliJob
	fileRows := map[int][][]octosql.Value{}
	for d := 0; d < nFiles; d++ {
		r := rng.Fork()
		nrows := 1 + r.Intn(9) // an empty file has no columns to select: octosql rejects the query at typecheck time
		if d == 0 {
			nrows = 6
		}
		var rows [][]octosql.Value
		for i := 0; i < nrows; i++ {
			if len(rows) > 0 && r.Chance(2, 5) {
				rows = append(rows, rows[r.Intn(len(rows))])
			} else {
				rows = append(rows, genFileRow(r))
			}
		}
		var b strings.Builder
		for _, row := range rows {
			b.WriteString(jsonLine(row) + "\n")
		}
		fileRows[d] = rows
		file := fmt.Sprintf("d%d.json", d)
		if err := os.WriteFile(filepath.Join(f.Out, file), []byte(b.String()), 0o644); err != nil {
			fmt.Fprintln(os.Stderr, err)
			os.Exit(2)
		}
		// one query without ORDER BY and one with, per file
		nk := 1 + r.Intn(2)
		var keys []ops.Key
		for i := 0; i < nk; i++ {
			keys = append(keys, ops.Key{Desc: r.Bool(), E: ops.Expr{Kind: ops.EVar, I: r.Intn(3)}})
		}
		// family "file": the source is the file itself (no retraction possible)
		// family "group_counting": the source is GROUP BY a, b TRIGGER COUNTING k over the file: it retracts each
		// group's previous row whenever it fires again, so Schema.NoRetractions is false
		type source struct {
			family string
			sql    string
			rows   [][]octosql.Value
			noretr bool
		}
		var srcs []source
		if d != 2 || f.Tier == "thorough" {
			srcs = append(srcs, source{"file", "SELECT a, b, c FROM " + file, rows, true})
		}
		if d != 1 || f.Tier == "thorough" {
			// its own file: 3..5 groups with 1..4 rows each in a random interleaving, so that groups overtake each
			// other in COUNT(*) while the query runs (every overtaking is a retraction + insertion downstream)
			var pool, grows [][]octosql.Value
			ng := 3 + r.Intn(3)
			for len(pool) < ng {
				cand := genFileRow(r)
				fresh := true
				for _, p := range pool {
					if p[0].Compare(cand[0]) == 0 && p[1].Compare(cand[1]) == 0 {
						fresh = false
					}
				}
				if fresh {
					pool = append(pool, cand)
				}
			}
			for _, p := range pool {
				for c := 1 + r.Intn(4); c > 0; c-- {
					grows = append(grows, []octosql.Value{p[0], p[1], octosql.NewInt(int64(r.Intn(2)))})
				}
			}
			for i := len(grows) - 1; i > 0; i-- {
				j := r.Intn(i + 1)
				grows[i], grows[j] = grows[j], grows[i]
			}
			var gb strings.Builder
			for _, row := range grows {
				gb.WriteString(jsonLine(row) + "\n")
			}
			gfile := fmt.Sprintf("g%d.json", d)
			if err := os.WriteFile(filepath.Join(f.Out, gfile), []byte(gb.String()), 0o644); err != nil {
				fmt.Fprintln(os.Stderr, err)
				os.Exit(2)
			}
			k := 1 + r.Intn(2)
			srcs = append(srcs, source{"group_counting", fmt.Sprintf("SELECT a, b, COUNT(*) AS c FROM %s GROUP BY a, b TRIGGER COUNTING %d", gfile, k), groupCounts(grows), false})
		}
		for _, src := range srcs {
			keySets := [][]ops.Key{nil, keys}
			if !src.noretr {
				// a retracting source changes column c (the count) of a group by retracting the old row and inserting
				// the new one: order by the updated column, both directions (rows move across the LIMIT boundary)
				keySets = append(keySets,
					[]ops.Key{{Desc: false, E: ops.Expr{Kind: ops.EVar, I: 2}}, {Desc: r.Bool(), E: ops.Expr{Kind: ops.EVar, I: r.Intn(2)}}},
					[]ops.Key{{Desc: true, E: ops.Expr{Kind: ops.EVar, I: 2}}})
			}
			for _, ks := range keySets {
				for n := 0; n <= K; n++ {
					for m := range modes {
						for p := 0; p < 3; p++ {
							if !src.noretr && p == 2 && f.Tier != "thorough" {
								continue // quick tier: the retracting source at top level and as a subquery (WITH takes the same planner path)
							}
							inner := fmt.Sprintf("%s%s LIMIT %d", src.sql, orderBy(ks), n)
							q := inner
							switch p {
							case 1:
								q = "SELECT a, b, c FROM (" + inner + ") t"
							case 2:
								q = "WITH t AS (" + inner + ") SELECT a, b, c FROM t"
							}
							jobs = append(jobs, &cliJob{family: src.family, noretr: src.noretr, sh: shapeABC, mode: m, placement: p, keys: ks, n: n, file: file, rows: src.rows, query: q})
						}
					}
				}
			}
		}
	}
	// deterministic: three groups that overtake each other in COUNT(*) (k = 1,2,3,1,2,1), ordered by the count, nested
	{
		var gbld strings.Builder
		var grows [][]octosql.Value
		for _, k := range []int64{1, 2, 3, 1, 2, 1} {
			row := []octosql.Value{octosql.NewInt(k), octosql.NewString("x"), octosql.NewInt(0)}
			grows = append(grows, row)
			gbld.WriteString(jsonLine(row) + "\n")
		}
		if err := os.WriteFile(filepath.Join(f.Out, "gfixed.json"), []byte(gbld.String()), 0o644); err != nil {
			fmt.Fprintln(os.Stderr, err)
			os.Exit(2)
		}
		ks := []ops.Key{{Desc: false, E: ops.Expr{Kind: ops.EVar, I: 2}}, {Desc: false, E: ops.Expr{Kind: ops.EVar, I: 0}}}
		for n := 0; n <= K; n++ {
			for m := range modes {
				for p := 0; p < 2; p++ {
					inner := fmt.Sprintf("SELECT a, b, COUNT(*) AS c FROM gfixed.json GROUP BY a, b TRIGGER COUNTING 1%s LIMIT %d", orderBy(ks), n)
					q := inner
					if p == 1 {
						q = "SELECT a, b, c FROM (" + inner + ") t"
					}
					jobs = append(jobs, &cliJob{family: "group_counting", noretr: false, sh: shapeABC, mode: m, placement: p, keys: ks, n: n, file: "gfixed.json", rows: groupCounts(grows), query: q})
				}
			}
		}
	}
	// family "cross_subquery": LIMIT and ORDER BY on both sides of a subquery boundary, all combinations, over d0.json
	{
		rows := fileRows[0]
		k1 := []ops.Key{{Desc: true, E: ops.Expr{Kind: ops.EVar, I: 0}}}
		k2 := []ops.Key{{Desc: false, E: ops.Expr{Kind: ops.EVar, I: 1}}, {Desc: false, E: ops.Expr{Kind: ops.EVar, I: 2}}}
		type innerV struct {
			ks  []ops.Key
			has bool
			m   int
		}
		inners := []innerV{{k1, false, 0}, {nil, true, 4}, {k1, true, 4}, {k2, true, 2}}
		for _, iv := range inners {
			for oi, oks := range [][]ops.Key{nil, k2} {
				for n := 0; n <= K; n++ {
					for m := range modes {
						if f.Tier != "thorough" && oi == 1 && m%2 == 1 {
							continue // quick tier: the outer ORDER BY variants in two of the four modes
						}
						inner := "SELECT a, b, c FROM d0.json" + orderBy(iv.ks)
						if iv.has {
							inner += fmt.Sprintf(" LIMIT %d", iv.m)
						}
						q := fmt.Sprintf("SELECT a, b, c FROM (%s) t%s LIMIT %d", inner, orderBy(oks), n)
						jobs = append(jobs, &cliJob{family: "cross_subquery", sh: shapeABC, mode: m, placement: 1, keys: oks, iks: iv.ks, hasIL: iv.has, il: iv.m, n: n, file: "d0.json", rows: rows, query: q})
					}
				}
			}
		}
	}
	// family "lookup_limit_subquery": a LIMIT m subquery (with and without an inner ORDER BY) on the right side of a
	// LOOKUP JOIN is run again for every left row; the result bag is computed here
	{
		left, right := fileRows[0], fileRows[1]
		sortedRight := append([][]octosql.Value{}, right...)
		sort.SliceStable(sortedRight, func(i, j int) bool { // ORDER BY c DESC, then the values (the tree's order)
			if c := sortedRight[i][2].Compare(sortedRight[j][2]); c != 0 {
				return c > 0
			}
			for k := range sortedRight[i] {
				if c := sortedRight[i][k].Compare(sortedRight[j][k]); c != 0 {
					return c < 0
				}
			}
			return false
		})
		for m := 0; m <= 4; m++ {
			for v, src := range [][][]octosql.Value{right, sortedRight} {
				sub := "SELECT a, b, c FROM d1.json r"
				if v == 1 {
					sub = "SELECT a, b, c FROM (SELECT a, b, c FROM d1.json r ORDER BY c DESC) s"
				}
				q := fmt.Sprintf("SELECT l.a AS a, l.b AS b, q.c AS c FROM d0.json l LOOKUP JOIN (%s LIMIT %d) q", sub, m)
				var expected [][]octosql.Value
				for _, l := range left {
					for i := 0; i < m && i < len(src); i++ {
						expected = append(expected, []octosql.Value{l[0], l[1], src[i][2]})
					}
				}
				for mo := range modes {
					jobs = append(jobs, &cliJob{family: "lookup_limit_subquery", sh: shapeABC, mode: mo, placement: 1, n: m, file: "d0.json", rows: left, expected: expected, query: q})
				}
			}
		}
	}
	// family "limit_over_flush": Q LIMIT n against Q for queries with an operator that keeps emitting after its
	// source ended (GROUP BY time ... TRIGGER ON WATERMARK over max_diff_watermark) above an inner LIMIT (or none)
	nEv := 1
	if f.Tier == "thorough" {
		nEv = 4
	}
	for d := 0; d < nEv; d++ {
		r := rng.Fork()
		nrows := 6 + r.Intn(7)
		sec := 1
		var b strings.Builder
		for i := 0; i < nrows; i++ {
			sec += r.Intn(3) // non-decreasing, with equal instants
			fmt.Fprintf(&b, "{\"time\":\"2021-01-01T00:00:%02dZ\",\"v\":%d}\n", sec, r.Intn(3))
		}
		file := fmt.Sprintf("ev%d.json", d)
		if err := os.WriteFile(filepath.Join(f.Out, file), []byte(b.String()), 0o644); err != nil {
			fmt.Fprintln(os.Stderr, err)
			os.Exit(2)
		}
		for _, m := range []int{nrows - 1, nrows/2 + 1, 0} {
			inner := "SELECT * FROM " + file + " e"
			if m > 0 {
				inner += fmt.Sprintf(" LIMIT %d", m)
			}
			q := "WITH src AS (" + inner + "), wm AS (SELECT * FROM max_diff_watermark(source=>TABLE(src), max_diff=>INTERVAL 1 SECOND, time_field=>DESCRIPTOR(time)) w) " +
				"SELECT time, COUNT(*) AS c FROM wm GROUP BY time TRIGGER ON WATERMARK"
			key := fmt.Sprintf("%s/%d", file, m)
			jobs = append(jobs, &cliJob{family: "reference", sh: shapeTimeC, mode: 2, refKey: key, file: file, query: q})
			for n := 0; n <= K; n++ {
				for mo := range modes {
					for p := 0; p < 2; p++ {
						ql := fmt.Sprintf("%s LIMIT %d", q, n)
						if p == 1 {
							ql = "SELECT time, c FROM (" + ql + ") x"
						}
						jobs = append(jobs, &cliJob{family: "limit_over_flush", sh: shapeTimeC, mode: mo, placement: p, n: n, refKey: key, file: file, query: ql})
					}
				}
			}
		}
	}
	var wg sync.WaitGroup
	ch := make(chan *cliJob)
	for w := 0; w < 8; w++ {
		wg.Add(1)
		go func() {
			defer wg.Done()
			for j := range ch {
				cmd := exec.Command(bin, j.query, "-o", modes[j.mode])
				cmd.Dir = f.Out
				cmd.Env = append(os.Environ(), "OCTOSQL_NO_TELEMETRY=1", "HOME="+home)
				var so, se bytes.Buffer
				cmd.Stdout, cmd.Stderr = &so, &se
				j.err = cmd.Run()
				j.stdout, j.stderr = so.String(), se.String()
			}
		}()
	}
	for _, j := range jobs {
		ch <- j
	}
	close(ch)
	wg.Wait()
	refs := map[string][][]octosql.Value{}
	for _, j := range jobs {
		if j.family != "reference" {
			continue
		}
		if j.err != nil {
			fmt.Fprintf(os.Stderr, "c05: reference query failed: %q: %v %s\n", j.query, j.err, firstLine(j.stderr))
			os.Exit(2)
		}
		rows, perr := parseOutput(modes[j.mode], j.stdout, j.sh)
		if perr != nil {
			fmt.Fprintf(os.Stderr, "c05: reference query output unparseable: %q: %v\n", j.query, perr)
			os.Exit(2)
		}
		refs[j.refKey] = rows
	}
	for _, j := range jobs {
		if j.family == "reference" {
			continue
		}
		var obs ops.Obs
		obs.IsRows = true
		var perr error
		if j.err != nil {
			obs.Err = fmt.Errorf("exit: %v: %s", j.err, j.stderr)
		} else {
			obs.Rows, perr = parseOutput(modes[j.mode], j.stdout, j.sh)
		}
		src := j.rows
		if j.family == "limit_over_flush" {
			src = refs[j.refKey]
		}
		dup := false
		for a := range src {
			for b := 0; b < a; b++ {
				if fmt.Sprint(src[a]) == fmt.Sprint(src[b]) {
					dup = true
				}
			}
		}
		js := map[string]interface{}{"kind": "cli", "family": j.family, "query": j.query, "output_mode": modes[j.mode], "source_rows": rowsJSON(src), "stdout": j.stdout, "observed": obs.JSON()}
		var idx int
		if j.family == "limit_over_flush" {
			idx = cf.Add(fmt.Sprintf("CliLimitOf %s %s %s", lib.Z(int64(j.n)), coqRows(src), obs.Coq()), js, len(src) >= 3 && j.n > 0 && j.n < len(src))
		} else if j.family == "cross_subquery" {
			il := "None"
			if j.hasIL {
				il = "(Some " + lib.Z(int64(j.il)) + ")"
			}
			idx = cf.Add(fmt.Sprintf("Cli2 %s %s %s %s %s %s %s", coqModes[j.mode], ops.CoqKeys(j.iks), il, ops.CoqKeys(j.keys), lib.Z(int64(j.n)), coqRows(src), obs.Coq()), js, j.n > 0 && j.n < len(src))
		} else if j.family == "lookup_limit_subquery" {
			js["expected_bag"] = rowsJSON(j.expected)
			idx = cf.Add(fmt.Sprintf("CliBag %s %s", coqRows(j.expected), obs.Coq()), js, j.n > 0 && len(j.expected) > 0)
		} else {
			idx = cf.Add(fmt.Sprintf("Cli %s %s %s %s %s %s %s", coqModes[j.mode], lib.CoqBool(j.placement > 0), lib.CoqBool(j.noretr), ops.CoqKeys(j.keys), lib.Z(int64(j.n)), coqRows(src), obs.Coq()), js,
				len(src) >= 3 && (dup || j.family != "file") && j.n > 0 && j.n < len(src))
		}
		cf.Count("cli_family_" + j.family)
		cf.Count("cli_" + modes[j.mode])
		cf.Count([]string{"cli_top_level", "cli_subquery", "cli_with"}[j.placement])
		if len(j.keys) > 0 {
			cf.Count("cli_order_by")
		}
		if j.err != nil {
			cf.Violation(idx, fmt.Sprintf("octosql failed on %q -o %s: %v %s", j.query, modes[j.mode], j.err, firstLine(j.stderr)), "")
		} else if perr != nil {
			cf.Violation(idx, fmt.Sprintf("unparseable %s output for %q: %v", modes[j.mode], j.query, perr), "")
		}
	}
	if err := cf.Write(f.Out); err != nil {
		fmt.Fprintln(os.Stderr, err)
		os.Exit(2)
	}
}

func firstLine(s string) string {
	if i := strings.IndexByte(s, '\n'); i >= 0 {
		s = s[:i]
	}
	return s
}
