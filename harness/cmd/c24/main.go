// c24: file datasources produce values that match their inferred schema.
// Generated CSV and JSON-lines files with mixed-kind cells/values and kind changes after the 100-row
// preview, through the real datasources in-process: the schema the Creator reports and every produced
// value (or the error).  Ties: the integer/boolean parser models on generated cell texts, the CSV
// inference+execution model, getOctoSQLValue (through the verif hook), the JSON row model, the flat JSON
// inference model.  Oracle: every produced value is of the type reported for its column.
package main

import (
	"bytes"
	"context"
	"encoding/csv"
	"fmt"
	"math"
	"os"
	"path/filepath"
	"sort"
	"strconv"
	"strings"
	"time"

	"github.com/valyala/fastjson"
	"github.com/valyala/fastjson/fastfloat"

	"github.com/cube2222/octosql/config"
	csvds "github.com/cube2222/octosql/datasources/csv"
	jsonds "github.com/cube2222/octosql/datasources/json"
	"github.com/cube2222/octosql/execution"
	"github.com/cube2222/octosql/octosql"
	"github.com/cube2222/octosql/physical"

	"verifharness/lib"
)

type creator func(ctx context.Context, name string, options map[string]string) (physical.DatasourceImplementation, physical.Schema, error)

func ctxWith() context.Context {
	return config.ContextWithConfig(context.Background(), &config.Config{Files: config.FilesConfig{
		BufferSizeBytes: 32 * 1024, JSON: config.JSONConfig{MaxLineSizeBytes: 1024 * 1024}}})
}

func runSource(cr creator, path string, options map[string]string) (schema physical.Schema, recs [][]octosql.Value, createErr, runErr error, panicked interface{}) {
	defer func() {
		if p := recover(); p != nil {
			panicked = p
		}
	}()
	ctx := ctxWith()
	impl, schema, err := cr(ctx, path, options)
	if err != nil {
		return schema, nil, err, nil, nil
	}
	node, err := impl.Materialize(ctx, physical.Environment{}, schema, nil)
	if err != nil {
		return schema, nil, err, nil, nil
	}
	runErr = node.Run(execution.ExecutionContext{Context: ctx},
		func(pctx execution.ProduceContext, record execution.Record) error {
			vals := make([]octosql.Value, len(record.Values))
			copy(vals, record.Values)
			recs = append(recs, vals)
			return nil
		},
		func(pctx execution.ProduceContext, msg execution.MetadataMessage) error { return nil })
	return
}

func must(err error) {
	if err != nil {
		fmt.Fprintln(os.Stderr, "c24:", err)
		os.Exit(2)
	}
}

func trunc(s string) string {
	if len(s) > 400 {
		return s[:400] + fmt.Sprintf("...(%d bytes)", len(s))
	}
	return s
}

// ---------- Coq rendering ----------

func optZ(ok bool, z string) string {
	if ok {
		return "(Some " + z + ")"
	}
	return "None"
}

func coqTime(s string) string {
	t, err := time.Parse(time.RFC3339Nano, s)
	if err != nil {
		return "None"
	}
	return fmt.Sprintf("(Some (%s, %d))", lib.Ns(t), lib.LocID(t))
}

func coqCell(s string) string {
	fs, errs := strconv.ParseFloat(s, 64)
	ff, errf := fastfloat.Parse(s)
	return fmt.Sprintf("(mkcell %s %s %s %s)", lib.CoqBytes(s), optZ(errs == nil, lib.U(math.Float64bits(fs))), optZ(errf == nil, lib.U(math.Float64bits(ff))), coqTime(s))
}

// flat type (primitive or union of primitives); ok=false when the type is not flat
func coqFty(t octosql.Type) (string, bool) {
	if t.TypeID == octosql.TypeIDUnion {
		ids := make([]string, len(t.Union.Alternatives))
		for i, a := range t.Union.Alternatives {
			if a.TypeID > octosql.TypeIDTime {
				return "", false
			}
			ids[i] = fmt.Sprint(int(a.TypeID))
		}
		return "(FUnion " + lib.CoqList(ids) + ")", true
	}
	if t.TypeID > octosql.TypeIDTime {
		return "", false
	}
	return fmt.Sprintf("(FPrim %d)", int(t.TypeID)), true
}

func coqJty(t octosql.Type) string {
	switch t.TypeID {
	case octosql.TypeIDNull:
		return "JNull"
	case octosql.TypeIDInt:
		return "JInt"
	case octosql.TypeIDFloat:
		return "JFloat"
	case octosql.TypeIDBoolean:
		return "JBool"
	case octosql.TypeIDString:
		return "JStr"
	case octosql.TypeIDTime:
		return "JTime"
	case octosql.TypeIDDuration:
		return "JDur"
	case octosql.TypeIDList:
		if t.List.Element == nil {
			return "(JList None)"
		}
		return "(JList (Some " + coqJty(*t.List.Element) + "))"
	case octosql.TypeIDStruct:
		items := make([]string, len(t.Struct.Fields))
		for i, f := range t.Struct.Fields {
			items[i] = fmt.Sprintf("(%s, %s)", lib.CoqBytes(f.Name), coqJty(f.Type))
		}
		return "(JStruct " + lib.CoqList(items) + ")"
	case octosql.TypeIDTuple:
		items := make([]string, len(t.Tuple.Elements))
		for i, e := range t.Tuple.Elements {
			items[i] = coqJty(e)
		}
		return "(JTuple " + lib.CoqList(items) + ")"
	case octosql.TypeIDUnion:
		items := make([]string, len(t.Union.Alternatives))
		for i, e := range t.Union.Alternatives {
			items[i] = coqJty(e)
		}
		return "(JUnion " + lib.CoqList(items) + ")"
	}
	return "JAny"
}

func coqJval(v *fastjson.Value) string {
	switch v.Type() {
	case fastjson.TypeNull:
		return "JVNull"
	case fastjson.TypeNumber:
		f, _ := v.Float64()
		return "(JVNum " + lib.U(math.Float64bits(f)) + ")"
	case fastjson.TypeTrue:
		return "(JVBool true)"
	case fastjson.TypeFalse:
		return "(JVBool false)"
	case fastjson.TypeString:
		b, _ := v.StringBytes()
		s := string(b)
		d, err := time.ParseDuration(s)
		return fmt.Sprintf("(JVStr %s %s %s)", lib.CoqBytes(s), coqTime(s), optZ(err == nil, lib.Z(int64(d))))
	case fastjson.TypeArray:
		arr, _ := v.Array()
		items := make([]string, len(arr))
		for i := range arr {
			items[i] = coqJval(arr[i])
		}
		return "(JVArr " + lib.CoqList(items) + ")"
	case fastjson.TypeObject:
		return "(JVObj " + coqJobj(v) + ")"
	}
	panic("json value type")
}

func coqJobj(v *fastjson.Value) string {
	o, _ := v.Object()
	var items []string
	o.Visit(func(key []byte, val *fastjson.Value) {
		items = append(items, fmt.Sprintf("(%s, %s)", lib.CoqBytes(string(key)), coqJval(val)))
	})
	return lib.CoqList(items)
}

func coqRows(recs [][]octosql.Value) string {
	items := make([]string, len(recs))
	for i := range recs {
		items[i] = lib.CoqValues(recs[i])
	}
	return lib.CoqList(items)
}

// typeAdmits is the Go-side oracle: the value is of the reported type (octosql's own Is check on the value's type)
func typeAdmits(t octosql.Type, v octosql.Value) bool {
	switch v.TypeID {
	case octosql.TypeIDList:
		var et *octosql.Type
		switch {
		case t.TypeID == octosql.TypeIDList:
			et = t.List.Element
		case t.TypeID == octosql.TypeIDUnion:
			for _, a := range t.Union.Alternatives {
				if typeAdmits(a, v) {
					return true
				}
			}
			return false
		default:
			return t.TypeID == octosql.TypeIDAny
		}
		for _, e := range v.List {
			if et == nil || !typeAdmits(*et, e) {
				return false
			}
		}
		return true
	case octosql.TypeIDStruct:
		if t.TypeID == octosql.TypeIDUnion {
			for _, a := range t.Union.Alternatives {
				if typeAdmits(a, v) {
					return true
				}
			}
			return false
		}
		if t.TypeID != octosql.TypeIDStruct || len(t.Struct.Fields) != len(v.Struct) {
			return t.TypeID == octosql.TypeIDAny
		}
		for i := range v.Struct {
			if !typeAdmits(t.Struct.Fields[i].Type, v.Struct[i]) {
				return false
			}
		}
		return true
	}
	return octosql.Type{TypeID: v.TypeID}.Is(t) == octosql.TypeRelationIs
}

// ---------- generators ----------

var intTexts = []string{"0", "1", "-1", "+5", "-0", "+0", "007", "42", "9223372036854775807", "9223372036854775808", "-9223372036854775808",
	"-9223372036854775809", "123456789012345678", "1234567890123456789", "-123456789012345678", "-1234567890123456789", "+123456789012345678901",
	"1_000", "0x10", "1e3", " 5", "5 ", "-", "+", "--1", "12a", "000000000000000000000005", "99999999999999999999", "१२"}
var floatTexts = []string{"1.5", "-2.25", "1e3", "1E-2", ".5", "5.", "0x1p-2", "Inf", "-inf", "+Inf", "infinity", "nan", "NaN", "1e999", "1_0.5", "0.1", "123456789.123456789",
	"1.7976931348623157e308", "4.9e-324", "-0.0", "1e", "e5", "1.5.2", "0x1.8p1"}
var boolTexts = []string{"true", "false", "TRUE", "FALSE", "True", "False", "t", "f", "T", "F", "tRUE", "yes", "no"}
var timeTexts = []string{"2020-01-02T03:04:05Z", "2020-01-02T03:04:05.123456789+05:30", "2020-01-02T03:04:05", "2020-01-02", "2020-01-02T03:04:05-07:00", "0001-01-01T00:00:00Z"}
var strTexts = []string{"abc", "é", " ", "a b", "null", "NULL", "日本", "-", "x,y", "line\nbreak"}

func genCell(r *lib.Rng) string {
	switch r.Intn(12) {
	case 0:
		return ""
	case 1, 2, 3:
		return intTexts[r.Intn(len(intTexts))]
	case 4, 5:
		return floatTexts[r.Intn(len(floatTexts))]
	case 6:
		return boolTexts[r.Intn(len(boolTexts))]
	case 7:
		return timeTexts[r.Intn(len(timeTexts))]
	case 8:
		return strTexts[r.Intn(len(strTexts))]
	case 9:
		return fmt.Sprint(int64(r.U64()))
	case 10:
		n := r.Intn(25)
		var b strings.Builder
		if r.Chance(1, 3) {
			b.WriteByte("+-"[r.Intn(2)])
		}
		for i := 0; i < n; i++ {
			b.WriteByte(byte('0' + r.Intn(10)))
		}
		return b.String()
	}
	return " " + intTexts[r.Intn(len(intTexts))]
}

// a column profile: cells of the first 100 rows come from [early], later ones from [late]
func genFrom(r *lib.Rng, kinds [][]string) string {
	k := kinds[r.Intn(len(kinds))]
	return k[r.Intn(len(k))]
}

var profiles = [][][]string{
	{{"1", "2", "42", "-7"}},                        // Int
	{{"1", "2"}, {"+5"}},                            // Int with +5
	{{"1.5", "2", "1e3"}},                           // Float
	{{"1.5", "0x1p-2"}},                             // hex floats
	{{"1", "2"}, {""}},                              // nullable Int
	{{"true", "f", "T"}},                            // Boolean
	{{"2020-01-02T03:04:05Z", "2020-01-02T03:04:05.5+05:30"}}, // Time
	{{"abc", "é"}},                                  // String
	{{"1", "2"}, {"abc"}},                           // Int | String
	{{"1"}, {"true"}, {"1.5"}},                      // mixed
	{{"Inf", "nan", "1.5"}},                         // special floats
}

var latePool = []string{"", "abc", "+5", "1.5", "true", "2020-01-02T03:04:05Z", "7", "0x1p-2"}

func csvFileCase(cf *lib.CaseFile, r *lib.Rng, dir string, idx int) {
	ncols := 2 + r.Intn(2)
	early := make([][][]string, ncols)
	late := make([][][]string, ncols)
	for j := 0; j < ncols; j++ {
		early[j] = profiles[r.Intn(len(profiles))]
		late[j] = early[j]
		if r.Chance(1, 2) {
			late[j] = profiles[r.Intn(len(profiles))] // the kind changes after the preview
		}
	}
	nrows := r.Intn(8)
	if r.Chance(1, 5) {
		nrows = 99 + r.Intn(12)
	}
	wild := r.Chance(1, 4)
	rows := make([][]string, nrows)
	for i := range rows {
		rows[i] = make([]string, ncols)
		for j := range rows[i] {
			switch {
			case wild:
				rows[i][j] = genCell(r)
			case i < 100:
				rows[i][j] = genFrom(r, early[j])
			case r.Chance(1, 3):
				rows[i][j] = latePool[r.Intn(len(latePool))] // a cell of another kind after the preview
			default:
				rows[i][j] = genFrom(r, late[j])
			}
		}
	}
	header := make([]string, ncols)
	for j := range header {
		header[j] = fmt.Sprintf("c%d", j)
	}
	var b bytes.Buffer
	w := csv.NewWriter(&b)
	w.Write(header)
	w.WriteAll(rows)
	path := filepath.Join(dir, fmt.Sprintf("f%d.csv", idx))
	must(os.WriteFile(path, b.Bytes(), 0o644))
	defer os.Remove(path)
	schema, recs, cerr, rerr, p := runSource(csvds.Creator(','), path, map[string]string{})

	rowItems := make([]string, len(rows))
	for i := range rows {
		cells := make([]string, ncols)
		for j := range cells {
			cells[j] = coqCell(rows[i][j])
		}
		rowItems[i] = lib.CoqList(cells)
	}
	tys := make([]string, len(schema.Fields))
	names := make([]string, len(schema.Fields))
	flat := true
	for j, f := range schema.Fields {
		var ok bool
		tys[j], ok = coqFty(f.Type)
		flat = flat && ok
		names[j] = f.Name + ": " + f.Type.String()
	}
	js := map[string]interface{}{"kind": "csv", "file": trunc(b.String()), "rows": nrows, "schema": names, "records": len(recs), "create_err": fmt.Sprint(cerr), "run_err": fmt.Sprint(rerr)}
	coq := fmt.Sprintf("C24Csv (%d%%nat, %s, %s, %s, %s)", ncols, lib.CoqList(rowItems), lib.CoqList(tys), coqRows(recs), lib.CoqBool(rerr == nil))
	if cerr != nil || !flat {
		coq = "C24Parse ([], None, None, None)"
	}
	ci := cf.Add(coq, js, nrows > 100)
	cf.Count("csv_files")
	if nrows > 100 {
		cf.Count("csv_files_beyond_preview")
	}
	if rerr != nil {
		cf.Count("csv_runs_ending_in_error")
	}
	switch {
	case p != nil:
		cf.Violation(ci, fmt.Sprintf("csv source panicked: %v", p), "")
	case cerr != nil:
		cf.Violation(ci, "csv schema inference failed on a well-formed file: "+cerr.Error(), "")
	case !flat:
		cf.Violation(ci, "csv schema has a non-flat column type", "")
	default:
		for i, rec := range recs {
			for j, v := range rec {
				if !typeAdmits(schema.Fields[j].Type, v) {
					cf.Violation(ci, fmt.Sprintf("csv row %d: cell %q in column %s of type %s was produced as the %s value %s",
						i, rows[i][j], schema.Fields[j].Name, schema.Fields[j].Type, v.TypeID, v.String()), "")
					return
				}
			}
		}
		if rerr == nil && len(recs) != len(rows) {
			cf.Violation(ci, fmt.Sprintf("csv source returned %d records for %d rows without an error", len(recs), len(rows)), "")
		}
		if rerr != nil && len(recs) < 100 && len(recs) < len(rows) {
			cf.Violation(ci, fmt.Sprintf("csv source failed on row %d, which is part of the preview the schema was inferred from: %v", len(recs), rerr), "")
		}
	}
}

// ---------- json ----------

func genType(r *lib.Rng, depth int) octosql.Type {
	prims := []octosql.Type{octosql.Null, octosql.Float, octosql.Boolean, octosql.String, octosql.Time, octosql.Duration, octosql.Int}
	if depth <= 0 || r.Chance(1, 2) {
		return prims[r.Intn(len(prims))]
	}
	switch r.Intn(4) {
	case 0:
		if r.Chance(1, 5) {
			return octosql.Type{TypeID: octosql.TypeIDList}
		}
		e := genType(r, depth-1)
		return octosql.Type{TypeID: octosql.TypeIDList, List: struct{ Element *octosql.Type }{Element: &e}}
	case 1:
		n := r.Intn(3)
		fs := make([]octosql.StructField, n)
		for i := range fs {
			fs[i] = octosql.StructField{Name: []string{"x", "y", "z"}[i], Type: genType(r, depth-1)}
		}
		return octosql.Type{TypeID: octosql.TypeIDStruct, Struct: struct{ Fields []octosql.StructField }{Fields: fs}}
	default:
		n := 2 + r.Intn(2)
		alts := make([]octosql.Type, n)
		for i := range alts {
			alts[i] = genType(r, depth-1)
		}
		return octosql.Type{TypeID: octosql.TypeIDUnion, Union: struct{ Alternatives []octosql.Type }{Alternatives: alts}}
	}
}

var jsonScalars = []string{"null", "1", "1.5", "-0", "1e300", "true", "false", "\"a\"", "\"\"", "\"2020-01-02T03:04:05Z\"", "\"1h30m\"", "\"é\"", "\"2020-01-02T03:04:05.5+05:30\""}

func genJSON(r *lib.Rng, depth int) string {
	if depth <= 0 || r.Chance(3, 5) {
		return jsonScalars[r.Intn(len(jsonScalars))]
	}
	if r.Bool() {
		n := r.Intn(3)
		items := make([]string, n)
		for i := range items {
			items[i] = genJSON(r, depth-1)
		}
		return "[" + strings.Join(items, ",") + "]"
	}
	var items []string
	for _, k := range []string{"x", "y", "z", "x"} {
		if r.Chance(1, 2) {
			items = append(items, fmt.Sprintf("\"%s\":%s", k, genJSON(r, depth-1)))
		}
	}
	return "{" + strings.Join(items, ",") + "}"
}

func jvalueCase(cf *lib.CaseFile, r *lib.Rng) {
	t := genType(r, 3)
	var p fastjson.Parser
	var v *fastjson.Value
	text := "(missing key)"
	if r.Chance(7, 8) {
		text = genJSON(r, 3)
		var err error
		v, err = p.Parse(text)
		must(err)
	}
	var out octosql.Value
	var ok bool
	var panicked interface{}
	func() {
		defer func() { panicked = recover() }()
		out, ok = jsonds.VerifGetOctoSQLValue(t, v)
	}()
	ov := "None"
	if v != nil {
		ov = "(Some " + coqJval(v) + ")"
	}
	js := map[string]interface{}{"kind": "getOctoSQLValue", "type": t.String(), "json": text, "ok": ok, "value": out.String()}
	if panicked != nil {
		ci := cf.Add("C24Parse ([], None, None, None)", js, true)
		cf.Violation(ci, fmt.Sprintf("getOctoSQLValue(%s, %s) panicked: %v", t, text, panicked), "")
		return
	}
	if !ok {
		out = octosql.NewNull()
	}
	ci := cf.Add(fmt.Sprintf("C24JValue (%s, %s, %s, %s)", coqJty(t), ov, lib.CoqValue(out), lib.CoqBool(ok)), js, ok && t.TypeID >= octosql.TypeIDList)
	cf.Count("json_values")
	if ok {
		cf.Count("json_values_ok")
		if !typeAdmits(t, out) {
			cf.Violation(ci, fmt.Sprintf("getOctoSQLValue(%s, %s) reported ok with the value %s", t, text, out.String()), "")
		}
	}
}

var jsonEarly = [][]string{
	{"1", "2.5"}, {"\"a\"", "\"b\""}, {"true", "false"}, {"null", "1"}, {"\"2020-01-02T03:04:05Z\""}, {"[]"}, {"[1,2]", "[]"}, {"{\"x\":1}", "{\"y\":\"s\"}"},
	{"{\"x\":[1]}", "{\"x\":[]}"}, {"1", "\"a\""}, {"[1,\"a\"]"}, {"[[1],[2,3]]"},
}
var jsonLate = []string{"\"late\"", "1", "null", "[1]", "{\"x\":true}", "true", "[\"s\"]", "{\"z\":1}", "\"2021-01-01T00:00:00Z\""}

func jsonFileCase(cf *lib.CaseFile, r *lib.Rng, dir string, idx int, flat bool) {
	keys := []string{"a", "b", "c"}
	prof := make([][]string, len(keys))
	for j := range keys {
		prof[j] = jsonEarly[r.Intn(len(jsonEarly))]
		if flat {
			prof[j] = jsonEarly[[]int{0, 1, 2, 3, 4, 9}[r.Intn(6)]]
		}
	}
	nrows := 1 + r.Intn(8)
	if !flat && r.Chance(1, 5) {
		nrows = 99 + r.Intn(12)
	}
	neverMissing := make([]bool, len(keys)) // columns present in every row stay non-nullable
	for j := range keys {
		neverMissing[j] = r.Chance(1, 2)
	}
	lines := make([]string, nrows)
	for i := range lines {
		var items []string
		for j, k := range keys {
			if !neverMissing[j] && r.Chance(1, 5) {
				continue // missing key
			}
			val := prof[j][r.Intn(len(prof[j]))]
			if i >= 100 && r.Chance(1, 3) {
				val = jsonLate[r.Intn(len(jsonLate))] // kind change after the preview
			}
			items = append(items, fmt.Sprintf("\"%s\":%s", k, val))
		}
		lines[i] = "{" + strings.Join(items, ",") + "}"
	}
	data := strings.Join(lines, "\n") + "\n"
	path := filepath.Join(dir, fmt.Sprintf("f%d.json", idx))
	must(os.WriteFile(path, []byte(data), 0o644))
	defer os.Remove(path)
	schema, recs, cerr, rerr, p := runSource(jsonds.Creator, path, map[string]string{})

	var parser fastjson.Parser
	rowItems := make([]string, len(lines))
	for i := range lines {
		v, err := parser.Parse(lines[i])
		must(err)
		rowItems[i] = coqJobj(v)
	}
	fields := make([]string, len(schema.Fields))
	flatFields := make([]string, len(schema.Fields))
	names := make([]string, len(schema.Fields))
	allFlat := true
	for j, f := range schema.Fields {
		fields[j] = fmt.Sprintf("(%s, %s)", lib.CoqBytes(f.Name), coqJty(f.Type))
		ft, ok := coqFty(f.Type)
		allFlat = allFlat && ok
		flatFields[j] = fmt.Sprintf("(%s, %s)", lib.CoqBytes(f.Name), ft)
		names[j] = f.Name + ": " + f.Type.String()
	}
	js := map[string]interface{}{"kind": "json", "file": trunc(data), "rows": nrows, "schema": names, "records": len(recs), "create_err": fmt.Sprint(cerr), "run_err": fmt.Sprint(rerr)}
	coq := fmt.Sprintf("C24JFile (%s, %s, %s, %s)", lib.CoqList(fields), lib.CoqList(rowItems), coqRows(recs), lib.CoqBool(rerr == nil))
	if flat {
		if !allFlat {
			must(fmt.Errorf("flat json rows gave a non-flat schema: %v", names))
		}
		coq = fmt.Sprintf("C24JInfer (%s, %s)", lib.CoqList(rowItems), lib.CoqList(flatFields))
	}
	if cerr != nil {
		coq = "C24Parse ([], None, None, None)"
	}
	ci := cf.Add(coq, js, nrows > 100 || flat)
	if !flat && cerr == nil && (nrows <= 12 || r.Chance(1, 4)) {
		// nested inference: the model's schema against the reported one, and the previewed rows against it
		k := len(rowItems)
		if k > 100 {
			k = 100
		}
		cf.Add(fmt.Sprintf("C24JNested (%s, %s)", lib.CoqList(rowItems[:k]), lib.CoqList(fields)), js, true)
		cf.Count("json_nested_inference")
	}
	if flat {
		cf.Count("json_flat_inference")
	} else {
		cf.Count("json_files")
	}
	if rerr != nil {
		cf.Count("json_runs_ending_in_error")
	}
	switch {
	case p != nil:
		cf.Violation(ci, fmt.Sprintf("json source panicked: %v", p), "")
	case cerr != nil:
		cf.Violation(ci, "json schema inference failed on a well-formed file: "+cerr.Error(), "")
	default:
		for i, rec := range recs {
			for j, v := range rec {
				if !typeAdmits(schema.Fields[j].Type, v) {
					cf.Violation(ci, fmt.Sprintf("json line %d (%s): field %s of type %s was produced as %s", i, lines[i], schema.Fields[j].Name, schema.Fields[j].Type, v.String()), "")
					return
				}
			}
		}
		if rerr == nil && len(recs) != len(lines) {
			cf.Violation(ci, fmt.Sprintf("json source returned %d records for %d lines without an error", len(recs), len(lines)), "")
		}
		if rerr != nil && nrows <= 100 {
			cf.Violation(ci, fmt.Sprintf("json source failed on a line that is part of the preview the schema was inferred from: %v", rerr), "")
		}
	}
}

// repeated keys: at top level and inside nested objects, with values of the same or of different kinds
const dupClass = "json-nested-duplicate-key"

func jsonDupCase(cf *lib.CaseFile, r *lib.Rng, dir string, idx int) {
	vals := []string{"1", "\"s\"", "true", "null", "[1]", "{\"x\":1}", "[]"}
	nrows := 1 + r.Intn(4)
	nested := false
	lines := make([]string, nrows)
	for i := range lines {
		pick := func() string { return vals[r.Intn(len(vals))] }
		var items []string
		if r.Chance(2, 3) { // nested object with a repeated key
			items = append(items, fmt.Sprintf("\"o\":{\"k\":%s,\"j\":%s,\"k\":%s}", pick(), pick(), pick()))
			nested = true
		} else {
			items = append(items, fmt.Sprintf("\"o\":{\"k\":%s}", pick()))
		}
		if r.Chance(1, 2) { // the same at top level
			items = append(items, fmt.Sprintf("\"t\":%s,\"t\":%s", pick(), pick()))
		}
		if r.Chance(1, 3) {
			items = append(items, fmt.Sprintf("\"l\":[{\"k\":%s,\"k\":%s}]", pick(), pick()))
			nested = true
		}
		lines[i] = "{" + strings.Join(items, ",") + "}"
	}
	data := strings.Join(lines, "\n") + "\n"
	path := filepath.Join(dir, fmt.Sprintf("d%d.json", idx))
	must(os.WriteFile(path, []byte(data), 0o644))
	defer os.Remove(path)
	schema, recs, cerr, rerr, p := runSource(jsonds.Creator, path, map[string]string{})
	var parser fastjson.Parser
	rowItems := make([]string, len(lines))
	for i := range lines {
		v, err := parser.Parse(lines[i])
		must(err)
		rowItems[i] = coqJobj(v)
	}
	fields := make([]string, len(schema.Fields))
	names := make([]string, len(schema.Fields))
	for j, f := range schema.Fields {
		fields[j] = fmt.Sprintf("(%s, %s)", lib.CoqBytes(f.Name), coqJty(f.Type))
		names[j] = f.Name + ": " + f.Type.String()
	}
	js := map[string]interface{}{"kind": "json-duplicate-keys", "file": data, "schema": names, "records": len(recs), "create_err": fmt.Sprint(cerr), "run_err": fmt.Sprint(rerr)}
	coq := fmt.Sprintf("C24JNested (%s, %s)", lib.CoqList(rowItems), lib.CoqList(fields))
	if cerr != nil {
		coq = "C24Parse ([], None, None, None)"
	}
	ci := cf.Add(coq, js, nested)
	cf.Count("json_duplicate_key_files")
	class := ""
	if nested {
		class = dupClass
		cf.SetClass(ci, dupClass)
		cf.Count("json_nested_duplicate_key_files")
	}
	switch {
	case p != nil:
		cf.Violation(ci, fmt.Sprintf("json source panicked: %v", p), "")
	case cerr != nil:
		cf.Violation(ci, "json schema inference failed on a well-formed file: "+cerr.Error(), class)
	case rerr != nil:
		cf.Violation(ci, fmt.Sprintf("a row the schema was inferred from is rejected: %v", rerr), class)
	default:
		if w := checkRecords(schema.Fields, recs, rerr, len(lines), "full read"); w != "" {
			cf.Violation(ci, w, class)
		}
	}
}

func main() {
	if len(os.Args) > 1 && os.Args[1] == "cli" {
		cliMain(os.Args[2:])
		return
	}
	f := lib.ParseFlags()
	if f.Cmd != "run" {
		fmt.Fprintln(os.Stderr, "c24: only 'run'")
		os.Exit(2)
	}
	rng := lib.NewRng(f.Seed)
	cf := lib.NewCaseFile("C24", f.Seed, f.Tier)
	cf.Imports = []string{"SourcesCases"}
	cf.CaseType = "c24_case"
	cf.Checks = []lib.Check{{Name: "tie", Kind: "tie", Fn: "c24_tie"}, {Name: "spec", Kind: "spec", Fn: "c24_spec"}}
	cf.Side.Rule = "cell texts through strconv.ParseInt / fastfloat.ParseInt64 / strconv.ParseBool; generated CSV and JSON-lines files (mixed kinds, kind changes after row 100, missing keys, nested values) " +
		"through the real datasources in-process (schema from the Creator, every produced value, the error); random (type, JSON value) pairs through getOctoSQLValue; " +
		"non-trivial = files with rows beyond the preview, flat-inference files, ok values of list/object/union types; distinct by full case text"
	dir, err := os.MkdirTemp("", "c24")
	must(err)
	defer os.RemoveAll(dir)

	// (a) parser acceptance languages
	texts := append(append(append(append([]string{}, intTexts...), floatTexts...), boolTexts...), "", "1", "0")
	for i, n := 0, f.Cases(150, 1500); i < n; i++ {
		texts = append(texts, genCell(rng.Fork()))
	}
	sort.Strings(texts)
	for i, s := range texts {
		if i > 0 && texts[i-1] == s {
			continue
		}
		sc, e1 := strconv.ParseInt(s, 10, 64)
		ff, e2 := fastfloat.ParseInt64(s)
		pb, e3 := strconv.ParseBool(s)
		ob := "None"
		if e3 == nil {
			ob = "(Some " + lib.CoqBool(pb) + ")"
		}
		ci := cf.Add(fmt.Sprintf("C24Parse (%s, %s, %s, %s)", lib.CoqBytes(s), optZ(e1 == nil, lib.Z(sc)), optZ(e2 == nil, lib.Z(ff)), ob),
			map[string]interface{}{"kind": "parse", "text": s, "strconv": fmt.Sprint(sc, e1), "fastfloat": fmt.Sprint(ff, e2)}, e1 == nil || e2 == nil)
		cf.Count("parser_texts")
		if e1 == nil {
			if _, e := strconv.ParseFloat(s, 64); e != nil {
				cf.Violation(ci, fmt.Sprintf("strconv.ParseInt accepts %q but strconv.ParseFloat does not (the model's cell_wf assumption)", s), "")
			}
		}
	}

	// (b) CSV files: the pinned failures first
	for i, n := 0, f.Cases(36, 700); i < n; i++ {
		csvFileCase(cf, rng.Fork(), dir, i)
	}
	// (c) getOctoSQLValue
	for i, n := 0, f.Cases(250, 3000); i < n; i++ {
		jvalueCase(cf, rng.Fork())
	}
	// (d) JSON files, (e) flat inference
	for i, n := 0, f.Cases(30, 500); i < n; i++ {
		jsonFileCase(cf, rng.Fork(), dir, i, false)
	}
	for i, n := 0, f.Cases(50, 600); i < n; i++ {
		jsonFileCase(cf, rng.Fork(), dir, 100000+i, true)
	}

	for i, n := 0, f.Cases(30, 300); i < n; i++ {
		jsonDupCase(cf, rng.Fork(), dir, 200000+i)
	}
	// (f) the systematic sweep: column kind x late shape, full / pruned field lists / command line
	t0 := time.Now()
	cliCases := csvMatrix(cf, f.Seed, dir, f.Tier)
	t1 := time.Now()
	cliCases = append(cliCases, jsonMatrix(cf, f.Seed, dir, f.Tier)...)
	t2 := time.Now()
	jvalueSweep(cf)
	runCLICases(cf, dir, cliCases)
	cf.Side.Notes = append(cf.Side.Notes, fmt.Sprintf("sweep timing: csv matrix %.1fs, json matrix %.1fs, value sweep + command line %.1fs", t1.Sub(t0).Seconds(), t2.Sub(t1).Seconds(), time.Since(t2).Seconds()))

	if err := cf.Write(f.Out); err != nil {
		fmt.Fprintln(os.Stderr, err)
		os.Exit(2)
	}
}
