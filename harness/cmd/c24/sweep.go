// Systematic sweep of c24: for every inferred column kind x every late cell/value shape one small file
// (100 uniform preview rows + one late row, the other columns harmless), run in full, with every proper
// subset of the columns handed to Materialize (what the optimizer does for `SELECT <subset>`), and a share
// through the command line.  The value-vs-type oracle runs on the Go side for all of them; a rotating sample
// goes to Coq.
package main

import (
	"bytes"
	"context"
	"encoding/json"
	"fmt"
	"os"
	"os/exec"
	"path/filepath"
	"regexp"
	"strconv"
	"strings"
	"time"

	"github.com/valyala/fastjson"

	"github.com/cube2222/octosql/cmd"
	csvds "github.com/cube2222/octosql/datasources/csv"
	jsonds "github.com/cube2222/octosql/datasources/json"
	"github.com/cube2222/octosql/execution"
	"github.com/cube2222/octosql/octosql"
	"github.com/cube2222/octosql/physical"

	"verifharness/lib"
)

// runPruned creates the datasource and runs it with the given subset of the schema's fields (in schema order).
func runPruned(cr creator, path string, keep []int) (schema physical.Schema, sub []physical.SchemaField, recs [][]octosql.Value, cerr, rerr error, panicked interface{}) {
	defer func() {
		if p := recover(); p != nil {
			panicked = p
		}
	}()
	ctx := ctxWith()
	impl, schema, err := cr(ctx, path, map[string]string{})
	if err != nil {
		return schema, nil, nil, err, nil, nil
	}
	for _, k := range keep {
		sub = append(sub, schema.Fields[k])
	}
	node, err := impl.Materialize(ctx, physical.Environment{}, physical.NewSchema(sub, -1, physical.WithNoRetractions(true)), nil)
	if err != nil {
		return schema, sub, nil, err, nil, nil
	}
	rerr = node.Run(execution.ExecutionContext{Context: ctx},
		func(pctx execution.ProduceContext, record execution.Record) error {
			vals := make([]octosql.Value, len(record.Values))
			copy(vals, record.Values)
			recs = append(recs, vals)
			return nil
		},
		func(pctx execution.ProduceContext, msg execution.MetadataMessage) error { return nil })
	return
}

// proper non-empty subsets of {0..n-1}, in index order
func properSubsets(n int) [][]int {
	var out [][]int
	for mask := 1; mask < (1<<n)-1; mask++ {
		var s []int
		for i := 0; i < n; i++ {
			if mask&(1<<i) != 0 {
				s = append(s, i)
			}
		}
		out = append(out, s)
	}
	return out
}

var lineInError = regexp.MustCompile(`couldn't parse line (\d+)`)

func valuesEqual(a, b octosql.Value) bool { return a.Compare(b) == 0 && a.TypeID == b.TypeID }

// checkRecords is the property's oracle on one run: every produced value is admitted by the type reported for
// its column; a run without error has one record per row.
func checkRecords(fields []physical.SchemaField, recs [][]octosql.Value, rerr error, nrows int, what string) string {
	for i, rec := range recs {
		if len(rec) != len(fields) {
			return fmt.Sprintf("%s: record %d has %d values for %d columns", what, i, len(rec), len(fields))
		}
		for j, v := range rec {
			if !typeAdmits(fields[j].Type, v) {
				return fmt.Sprintf("%s: row %d, column %s of type %s holds the %s value %s", what, i, fields[j].Name, fields[j].Type, v.TypeID, v.String())
			}
		}
	}
	if rerr == nil && len(recs) != nrows {
		return fmt.Sprintf("%s: %d records for %d rows without an error", what, len(recs), nrows)
	}
	if rerr != nil {
		// csv reads sequentially: the failing row is the one after the last record; the json consumer names the line
		failing := len(recs)
		if m := lineInError.FindStringSubmatch(rerr.Error()); m != nil {
			failing, _ = strconv.Atoi(m[1])
			failing--
		}
		if failing < 100 && failing < nrows {
			return fmt.Sprintf("%s: failed on row %d, which is part of the preview the schema was inferred from: %v", what, failing, rerr)
		}
	}
	return ""
}

// ---------- the command line ----------

// the engine doubles as the octosql command line: `engine cli <octosql args>`
func cliMain(args []string) {
	os.Args = append([]string{"octosql"}, args...)
	cmd.Execute(context.Background())
}

func runCLI(home string, args ...string) (stdout string, failed bool, err error) {
	c := exec.Command(os.Args[0], append([]string{"cli"}, args...)...)
	c.Env = append(os.Environ(), "OCTOSQL_NO_TELEMETRY=1", "HOME="+home)
	var out, errb bytes.Buffer
	c.Stdout, c.Stderr = &out, &errb
	done := make(chan error, 1)
	if err := c.Start(); err != nil {
		return "", false, err
	}
	go func() { done <- c.Wait() }()
	select {
	case werr := <-done:
		return out.String(), werr != nil, nil
	case <-time.After(30 * time.Second):
		c.Process.Kill()
		return "", false, fmt.Errorf("command line timed out")
	}
}

// jsonKindOK: does a decoded `-o json` value look like a value of the column kind (null only when nullable)?
func jsonKindOK(kind string, nullable bool, v interface{}) bool {
	if v == nil {
		return nullable
	}
	if strings.Contains(kind, "|") {
		return true // mixed-kind column: only the NULL clause above is checked through the command line
	}
	switch kind {
	case "Int", "Float":
		_, ok := v.(float64)
		return ok
	case "Boolean":
		_, ok := v.(bool)
		return ok
	case "Time", "String":
		_, ok := v.(string)
		return ok
	}
	switch v.(type) {
	case []interface{}:
		return strings.HasPrefix(kind, "[")
	case map[string]interface{}:
		return strings.HasPrefix(kind, "{")
	}
	return false
}

// ---------- CSV matrix ----------

type csvKind struct {
	name    string
	preview []string
	accepts []string // the kinds of cell the inferred type admits (besides NULL)
}

// single-kind columns and mixed-kind columns (their inferred type is a union without NULL unless a cell is empty)
var csvKinds = []csvKind{
	{"Int", []string{"1", "2", "42", "-7"}, []string{"Int"}},
	{"Float", []string{"1.5", "2.25", "1e3"}, []string{"Float"}},
	{"Boolean", []string{"true", "false"}, []string{"Boolean"}},
	{"Time", []string{"2020-01-02T03:04:05Z", "2021-05-06T07:08:09.5+05:30"}, []string{"Time"}},
	{"String", []string{"abc", "xyz"}, []string{"String"}},
	{"Int | String", []string{"1", "abc", "2"}, []string{"Int", "String"}},
	{"Int | Boolean", []string{"1", "true", "2", "false"}, []string{"Int", "Boolean"}},
	{"Float | Boolean | Time", []string{"1.5", "true", "2020-01-02T03:04:05Z"}, []string{"Float", "Boolean", "Time"}},
	{"Int | Float | Time", []string{"1", "2020-01-02T03:04:05Z", "2.5"}, []string{"Int", "Float", "Time"}},
	{"NULL", []string{""}, nil}, // empty in every previewed row: the column's type is exactly NULL
}

// late cell shapes; SHORT / LONG are row shapes
var csvShapes = []string{"7", "+5", "2.5", "1e3", "0x1p-2", "true", "2022-02-02T02:02:02Z", "abc", "", "SHORT", "LONG"}

func csvTextKind(s string) string {
	if _, err := strconv.ParseInt(s, 10, 64); err == nil {
		return "Int"
	}
	if _, err := strconv.ParseFloat(s, 64); err == nil {
		return "Float"
	}
	if _, err := strconv.ParseBool(s); err == nil {
		return "Boolean"
	}
	if _, err := time.Parse(time.RFC3339Nano, s); err == nil {
		return "Time"
	}
	return "String"
}

// does the late cell fit a column of that kind (so that the row has to be produced)?
func csvFits(kind csvKind, nullable bool, cell string) bool {
	if cell == "" {
		return nullable || len(kind.accepts) == 0
	}
	k := csvTextKind(cell)
	for _, a := range kind.accepts {
		switch {
		case a == "String":
			return true
		case a == "Float" && (k == "Int" || k == "Float"):
			return true
		case a == k:
			return true
		}
	}
	return false
}

func csvMatrix(cf *lib.CaseFile, seed int64, dir string, tier string) (cliFiles []cliCase) {
	idx := 0
	covered := 0
	for _, kind := range csvKinds {
		for _, nullable := range []bool{false, true} {
			for si, shape := range csvShapes {
				idx++
				targetPos := (idx + int(seed)) % 3 // the column under test is first, in the middle or last
				if shape == "SHORT" {
					targetPos = 2
				}
				names := []string{"h1", "h2", "h3"}
				names[targetPos] = "t"
				harmless := []string{"h", "1", "x"}
				rows := make([][]string, 101)
				for i := range rows {
					rows[i] = append([]string{}, harmless...)
					rows[i][targetPos] = kind.preview[i%len(kind.preview)]
					if nullable && i == 50 {
						rows[i][targetPos] = ""
					}
				}
				late := rows[100]
				switch shape {
				case "SHORT":
					rows[100] = late[:2]
				case "LONG":
					rows[100] = append(late, "extra")
				default:
					late[targetPos] = shape
				}
				var b strings.Builder
				b.WriteString(strings.Join(names, ",") + "\n")
				for _, r := range rows {
					b.WriteString(strings.Join(r, ",") + "\n")
				}
				path := filepath.Join(dir, fmt.Sprintf("m%d.csv", idx))
				must(os.WriteFile(path, []byte(b.String()), 0o644))

				schema, recs, cerr, rerr, p := runSource(csvds.Creator(','), path, map[string]string{})
				js := map[string]interface{}{"kind": "csv-matrix", "column_kind": kind.name, "nullable": nullable, "late": shape, "target_column": targetPos,
					"preview_cells": kind.preview, "records": len(recs), "run_err": fmt.Sprint(rerr)}
				// a rotating sample goes to Coq
				coq := "C24Parse ([], None, None, None)"
				sampled := (idx+int(seed))%11 == 0 || tier == "thorough" && (idx+int(seed))%3 == 0
				flat := cerr == nil && p == nil
				tys := make([]string, len(schema.Fields))
				for j, f := range schema.Fields {
					var ok bool
					tys[j], ok = coqFty(f.Type)
					flat = flat && ok
				}
				if sampled && flat {
					rowItems := make([]string, len(rows))
					for i := range rows {
						cells := make([]string, len(rows[i]))
						for j := range cells {
							cells[j] = coqCell(rows[i][j])
						}
						rowItems[i] = lib.CoqList(cells)
					}
					coq = fmt.Sprintf("C24Csv (3%%nat, %s, %s, %s, %s)", lib.CoqList(rowItems), lib.CoqList(tys), coqRows(recs), lib.CoqBool(rerr == nil))
					cf.Count("csv_matrix_sampled_to_coq")
				}
				ci := cf.Add(coq, js, true)
				cf.Count("csv_matrix_files")
				covered++
				_ = si
				fail := func(what string) { cf.Violation(ci, what, "") }
				switch {
				case p != nil:
					fail(fmt.Sprintf("csv source panicked: %v", p))
					continue
				case cerr != nil:
					fail("csv schema inference failed: " + cerr.Error())
					continue
				}
				if w := checkRecords(schema.Fields, recs, rerr, len(rows), "full read"); w != "" {
					fail(w)
					continue
				}
				if w := nonEmptyCellsNotNull(rows, recs, []int{0, 1, 2}, "full read"); w != "" {
					fail(w)
					continue
				}
				fits := shape != "SHORT" && shape != "LONG" && csvFits(kind, nullable, shape)
				if fits && rerr != nil {
					fail(fmt.Sprintf("late cell %q fits the %s column (nullable=%v) but the run failed: %v", shape, kind.name, nullable, rerr))
					continue
				}
				// pruned field lists: every proper subset of the columns
				for _, keep := range properSubsets(3) {
					_, sub, precs, pcerr, prerr, pp := runPruned(csvds.Creator(','), path, keep)
					cf.Count("csv_matrix_pruned_runs")
					what := fmt.Sprintf("read with the field list %v", fieldNames(sub))
					if pp != nil || pcerr != nil {
						fail(fmt.Sprintf("%s: %v %v", what, pp, pcerr))
						break
					}
					if w := checkRecords(sub, precs, prerr, len(rows), what); w != "" {
						fail(w)
						break
					}
					hasTarget := false
					for _, k := range keep {
						hasTarget = hasTarget || k == targetPos
					}
					if prerr != nil && shape != "SHORT" && shape != "LONG" && (fits || !hasTarget) {
						fail(fmt.Sprintf("%s failed although every cell of these columns fits: %v", what, prerr))
						break
					}
					if w := projectionAgrees(recs, precs, keep); w != "" {
						fail(what + ": " + w)
						break
					}
					if w := nonEmptyCellsNotNull(rows, precs, keep, what); w != "" {
						fail(w)
						break
					}
				}
				if !nullable && (shape == "" || shape == "SHORT" || shape == "abc") && (tier == "thorough" || (idx+int(seed))%2 == 0) {
					keep := path + ".cli.csv"
					must(os.WriteFile(keep, []byte(b.String()), 0o644))
					cliFiles = append(cliFiles, cliCase{path: keep, column: "t", kind: kind.name, nullable: false, late: strings.Join(rows[100], ","), ci: ci})
				}
				os.Remove(path)
			}
		}
	}
	cf.Side.Distribution["csv_matrix_cells_covered"] = fmt.Sprintf("%d of %d (column kinds %d x nullable 2 x late shapes %d)", covered, len(csvKinds)*2*len(csvShapes), len(csvKinds), len(csvShapes))
	return
}

// a row that is produced carries the values it contains: a non-empty cell never comes out as NULL
func nonEmptyCellsNotNull(rows [][]string, recs [][]octosql.Value, keep []int, what string) string {
	for i := 0; i < len(recs) && i < len(rows); i++ {
		for a, j := range keep {
			if j < len(rows[i]) && a < len(recs[i]) && rows[i][j] != "" && recs[i][a].TypeID == octosql.TypeIDNull {
				return fmt.Sprintf("%s: row %d: the non-empty cell %q was produced as NULL", what, i, rows[i][j])
			}
		}
	}
	return ""
}

func fieldNames(fs []physical.SchemaField) []string {
	out := make([]string, len(fs))
	for i := range fs {
		out[i] = fs[i].Name
	}
	return out
}

// the records both runs produced must agree on the kept columns
func projectionAgrees(full, pruned [][]octosql.Value, keep []int) string {
	for i := 0; i < len(full) && i < len(pruned); i++ {
		for j, k := range keep {
			if k < len(full[i]) && j < len(pruned[i]) && !valuesEqual(full[i][k], pruned[i][j]) {
				return fmt.Sprintf("row %d: value %s differs from %s of the full read", i, pruned[i][j].String(), full[i][k].String())
			}
		}
	}
	return ""
}

// ---------- JSON matrix ----------

type jsonKind struct {
	name    string
	preview []string
}

var jsonKinds = []jsonKind{
	{"Float", []string{"1.5", "2"}},
	{"Boolean", []string{"true", "false"}},
	{"String", []string{"\"s\"", "\"u\""}},
	{"Time", []string{"\"2020-01-02T03:04:05Z\""}},
	{"[Float]", []string{"[1,2]", "[3]"}},
	{"[String]", []string{"[\"a\"]", "[\"b\",\"c\"]"}},
	{"{x:Float}", []string{"{\"x\":1}", "{\"x\":2.5}"}},
	{"[[Float]]", []string{"[[1],[2,3]]"}},
	{"[{x:Float}]", []string{"[{\"x\":1}]", "[{\"x\":1},{\"x\":2}]"}},
	{"{l:[Float]}", []string{"{\"l\":[1,2]}"}},
}

// late value shapes: scalars of each kind, null, missing key, arrays/objects with a misfit first/middle/last
var jsonShapes = []string{"SAME", "1", "\"late\"", "true", "\"2021-01-01T00:00:00Z\"", "null", "MISSING", "[]", "[1,2,3]",
	"[\"x\",1,2]", "[1,\"x\",3]", "[1,2,\"x\"]", "[null,2]", "[[1],[\"x\"],[3]]", "[[1,\"x\",2]]", "{\"x\":1}", "{\"x\":\"s\"}", "{}",
	"[{\"x\":1},{\"x\":\"s\"},{\"x\":2}]", "{\"l\":[1,\"x\",2]}", "{\"l\":[\"x\",1]}"}

func jsonMatrix(cf *lib.CaseFile, seed int64, dir string, tier string) (cliFiles []cliCase) {
	idx := 0
	covered := 0
	for _, kind := range jsonKinds {
		for nullMode := 0; nullMode < 3; nullMode++ { // 0 never null, 1 an explicit null in the preview, 2 the key missing from a previewed row
			for _, shape := range jsonShapes {
				idx++
				lines := make([]string, 101)
				for i := range lines {
					val := kind.preview[i%len(kind.preview)]
					if i == 100 {
						switch shape {
						case "SAME":
						default:
							val = shape
						}
					}
					var items []string
					if i != 10 && i != 20 { // a0: a nullable column sorting before the column under test
						items = append(items, fmt.Sprintf("\"a0\":%d", i))
					}
					switch {
					case i == 50 && nullMode == 1:
						items = append(items, "\"m\":null")
					case i == 50 && nullMode == 2:
					case i == 100 && shape == "MISSING":
					default:
						items = append(items, "\"m\":"+val)
					}
					items = append(items, "\"z9\":\"z\"")
					lines[i] = "{" + strings.Join(items, ",") + "}"
				}
				data := strings.Join(lines, "\n") + "\n"
				path := filepath.Join(dir, fmt.Sprintf("m%d.json", idx))
				must(os.WriteFile(path, []byte(data), 0o644))
				schema, recs, cerr, rerr, p := runSource(jsonds.Creator, path, map[string]string{})
				js := map[string]interface{}{"kind": "json-matrix", "column_kind": kind.name, "null_mode": []string{"never", "explicit null in preview", "key missing in preview"}[nullMode],
					"late": shape, "preview_values": kind.preview, "late_line": lines[100], "records": len(recs), "run_err": fmt.Sprint(rerr)}
				coq := "C24Parse ([], None, None, None)"
				sampled := (idx+int(seed))%60 == 0 || tier == "thorough" && (idx+int(seed))%6 == 0
				if sampled && cerr == nil && p == nil {
					var parser fastjson.Parser
					rowItems := make([]string, len(lines))
					for i := range lines {
						v, err := parser.Parse(lines[i])
						must(err)
						rowItems[i] = coqJobj(v)
					}
					fields := make([]string, len(schema.Fields))
					for j, f := range schema.Fields {
						fields[j] = fmt.Sprintf("(%s, %s)", lib.CoqBytes(f.Name), coqJty(f.Type))
					}
					coq = fmt.Sprintf("C24JFile (%s, %s, %s, %s)", lib.CoqList(fields), lib.CoqList(rowItems), coqRows(recs), lib.CoqBool(rerr == nil))
					cf.Count("json_matrix_sampled_to_coq")
				}
				ci := cf.Add(coq, js, true)
				cf.Count("json_matrix_files")
				covered++
				fail := func(what string) { cf.Violation(ci, what, "") }
				switch {
				case p != nil:
					fail(fmt.Sprintf("json source panicked: %v", p))
					continue
				case cerr != nil:
					fail("json schema inference failed: " + cerr.Error())
					continue
				}
				if len(schema.Fields) != 3 || schema.Fields[1].Name != "m" {
					fail(fmt.Sprintf("unexpected schema %v", fieldNames(schema.Fields)))
					continue
				}
				if w := checkRecords(schema.Fields, recs, rerr, len(lines), "full read"); w != "" {
					fail(w)
					continue
				}
				fits := shape == "SAME" || (shape == "null" && nullMode != 0) || (shape == "MISSING" && nullMode != 0)
				if fits && rerr != nil {
					fail(fmt.Sprintf("the late value %s fits the column %s but the run failed: %v", lines[100], schema.Fields[1].Type, rerr))
					continue
				}
				// pruned field lists: every proper subset (all of them for the shapes that depend on per-column
				// metadata, a rotating third otherwise)
				if shape == "MISSING" || shape == "null" || shape == "SAME" || (idx+int(seed))%3 == 0 {
					for _, keep := range properSubsets(3) {
						_, sub, precs, pcerr, prerr, pp := runPruned(jsonds.Creator, path, keep)
						cf.Count("json_matrix_pruned_runs")
						what := fmt.Sprintf("read with the field list %v", fieldNames(sub))
						if pp != nil || pcerr != nil {
							fail(fmt.Sprintf("%s: %v %v", what, pp, pcerr))
							break
						}
						if w := checkRecords(sub, precs, prerr, len(lines), what); w != "" {
							fail(w)
							break
						}
						hasTarget := false
						for _, k := range keep {
							hasTarget = hasTarget || k == 1
						}
						if prerr != nil && (fits || !hasTarget) {
							fail(fmt.Sprintf("%s failed although every value of these fields fits: %v", what, prerr))
							break
						}
						if w := projectionAgrees(recs, precs, keep); w != "" {
							fail(what + ": " + w)
							break
						}
					}
				}
				// a share goes through the command line as well
				if nullMode == 0 && (shape == "MISSING" || shape == "[1,\"x\",3]" || shape == "\"late\"") && (tier == "thorough" || (idx+int(seed))%2 == 0) {
					keep := path + ".cli.json"
					must(os.WriteFile(keep, []byte(data), 0o644))
					cliFiles = append(cliFiles, cliCase{path: keep, column: "m", kind: kind.name, nullable: false, late: lines[100], ci: ci})
				}
				os.Remove(path)
			}
		}
	}
	cf.Side.Distribution["json_matrix_cells_covered"] = fmt.Sprintf("%d of %d (column kinds %d x null modes 3 x late shapes %d)", covered, len(jsonKinds)*3*len(jsonShapes), len(jsonKinds), len(jsonShapes))
	return
}

type cliCase struct {
	path, column, kind string
	nullable           bool
	late               string
	ci                 int
}

// `SELECT <column> FROM <file>` through the command line: the optimizer prunes the other columns.
// Either the command fails, or every printed value is of the column's kind (null only if nullable).
func runCLICases(cf *lib.CaseFile, dir string, cases []cliCase) {
	home := filepath.Join(dir, "home")
	must(os.MkdirAll(home, 0o755))
	for _, c := range cases {
		out, failed, err := runCLI(home, fmt.Sprintf("SELECT %s FROM `%s`", c.column, c.path), "-o", "json")
		os.Remove(c.path)
		cf.Count("cli_pruned_queries")
		if err != nil {
			cf.Violation(c.ci, "command line run: "+err.Error(), "")
			continue
		}
		if failed {
			cf.Count("cli_pruned_queries_failed_as_expected")
			continue
		}
		n := 0
		for _, line := range strings.Split(strings.TrimSpace(out), "\n") {
			if line == "" {
				continue
			}
			var rec map[string]interface{}
			if e := json.Unmarshal([]byte(line), &rec); e != nil {
				cf.Violation(c.ci, fmt.Sprintf("SELECT %s through the command line printed %q", c.column, line), "")
				break
			}
			n++
			if !jsonKindOK(c.kind, c.nullable, rec[c.column]) {
				cf.Violation(c.ci, fmt.Sprintf("SELECT %s FROM <file> (late row %s) succeeded and printed %s in the non-nullable %s column", c.column, c.late, line, c.kind), "")
				break
			}
		}
		if n != 101 && n != 0 {
			// fewer rows without a failure is a silent loss
			cf.Violation(c.ci, fmt.Sprintf("SELECT %s through the command line printed %d rows of 101 without failing", c.column, n), "")
		}
	}
}

// ---------- getOctoSQLValue sweep: arrays with a misfit in every position, nested in objects and unions ----------

func listOf(e octosql.Type) octosql.Type {
	return octosql.Type{TypeID: octosql.TypeIDList, List: struct{ Element *octosql.Type }{Element: &e}}
}
func structOf(name string, t octosql.Type) octosql.Type {
	return octosql.Type{TypeID: octosql.TypeIDStruct, Struct: struct{ Fields []octosql.StructField }{Fields: []octosql.StructField{{Name: name, Type: t}}}}
}

func jvalueSweep(cf *lib.CaseFile) {
	elems := []struct {
		t    octosql.Type
		good []string
		bad  string
	}{
		{octosql.Float, []string{"1", "2.5", "3"}, "\"x\""},
		{octosql.String, []string{"\"a\"", "\"b\"", "\"c\""}, "1"},
		{octosql.Boolean, []string{"true", "false", "true"}, "null"},
		{listOf(octosql.Float), []string{"[1]", "[]", "[2,3]"}, "[\"x\"]"},
		{structOf("x", octosql.Float), []string{"{\"x\":1}", "{\"x\":2}", "{\"x\":3}"}, "{\"x\":\"s\"}"},
		{octosql.TypeSum(octosql.Float, octosql.Null), []string{"1", "null", "3"}, "\"x\""},
	}
	var parser fastjson.Parser
	for _, e := range elems {
		for _, wrap := range []string{"list", "struct-of-list", "union-with-list", "list-of-list"} {
			for n := 1; n <= 3; n++ {
				for bad := -1; bad < n; bad++ {
					items := append([]string{}, e.good[:n]...)
					if bad >= 0 {
						items[bad] = e.bad
					}
					text := "[" + strings.Join(items, ",") + "]"
					t := listOf(e.t)
					switch wrap {
					case "struct-of-list":
						t, text = structOf("l", t), "{\"l\":"+text+"}"
					case "union-with-list":
						t = octosql.TypeSum(octosql.String, t)
					case "list-of-list":
						t, text = listOf(t), "[[],"+text+"]"
					}
					v, err := parser.Parse(text)
					must(err)
					out, ok := jsonds.VerifGetOctoSQLValue(t, v)
					if !ok {
						out = octosql.NewNull()
					}
					js := map[string]interface{}{"kind": "getOctoSQLValue-sweep", "type": t.String(), "json": text, "misfit_position": bad, "ok": ok, "value": out.String()}
					ci := cf.Add(fmt.Sprintf("C24JValue (%s, (Some %s), %s, %s)", coqJty(t), coqJval(v), lib.CoqValue(out), lib.CoqBool(ok)), js, true)
					cf.Count("json_value_sweep")
					if ok && !typeAdmits(t, out) {
						cf.Violation(ci, fmt.Sprintf("getOctoSQLValue(%s, %s) reported ok with the value %s", t, text, out.String()), "")
					}
					if bad < 0 && !ok {
						cf.Violation(ci, fmt.Sprintf("getOctoSQLValue(%s, %s) rejected a value that fits", t, text), "")
					}
				}
			}
		}
	}
}
