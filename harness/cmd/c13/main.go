// c13: numeric, time and conversion descriptors of functions.FunctionMap(), execution.Coalesce with its
// ObjectLayoutFixer, run in-process on boundary-heavy argument tuples.  Every Go panic is recovered and
// reported as a violation.
package main

import (
	"context"
	"errors"
	"fmt"
	"math"
	"math/big"
	"os"
	"sort"
	"strconv"
	"strings"
	"time"

	"github.com/cube2222/octosql/execution"
	"github.com/cube2222/octosql/functions"
	"github.com/cube2222/octosql/octosql"
	"github.com/cube2222/octosql/physical"

	"verifharness/lib"
)

// ---------- rendering (own copy: instants are rendered exactly, beyond the int64 nanosecond range) ----------

const unixToInternal int64 = 62135596800

func nsOf(t time.Time) *big.Int {
	ext := t.Unix() + unixToInternal // int64 wrap-around intended: recovers the year-1 second count Go holds
	z := new(big.Int).Sub(big.NewInt(ext), big.NewInt(unixToInternal))
	z.Mul(z, big.NewInt(1000000000))
	return z.Add(z, big.NewInt(int64(t.Nanosecond())))
}

func bigZ(z *big.Int) string {
	if z.Sign() < 0 {
		return "(" + z.String() + ")"
	}
	return z.String()
}

func coqValue(v octosql.Value) string {
	switch v.TypeID {
	case octosql.TypeIDTime:
		return "(VTime " + bigZ(nsOf(v.Time)) + " 0)"
	case octosql.TypeIDList:
		return "(VList " + coqValues(v.List) + ")"
	case octosql.TypeIDStruct:
		return "(VStruct " + coqValues(v.Struct) + ")"
	case octosql.TypeIDTuple:
		return "(VTuple " + coqValues(v.Tuple) + ")"
	}
	return lib.CoqValue(v)
}

func coqValues(vs []octosql.Value) string {
	parts := make([]string, len(vs))
	for i := range vs {
		parts[i] = coqValue(vs[i])
	}
	return lib.CoqList(parts)
}

func valueJSON(v octosql.Value) interface{} {
	switch v.TypeID {
	case octosql.TypeIDTime:
		return map[string]interface{}{"time_ns": nsOf(v.Time).String()}
	case octosql.TypeIDList, octosql.TypeIDStruct, octosql.TypeIDTuple:
		vs, tag := v.List, "list"
		if v.TypeID == octosql.TypeIDStruct {
			vs, tag = v.Struct, "struct"
		} else if v.TypeID == octosql.TypeIDTuple {
			vs, tag = v.Tuple, "tuple"
		}
		out := make([]interface{}, len(vs))
		for i := range vs {
			out[i] = valueJSON(vs[i])
		}
		return map[string]interface{}{tag: out}
	}
	return lib.ValueJSON(v)
}

func valuesJSON(vs []octosql.Value) []interface{} {
	out := make([]interface{}, len(vs))
	for i := range vs {
		out[i] = valueJSON(vs[i])
	}
	return out
}

// observation of one call
type obs struct {
	val      octosql.Value
	err      error
	panicked interface{}
}

func (o obs) coq() string {
	switch {
	case o.panicked != nil:
		return "OPanic"
	case o.err != nil:
		return "OErr"
	}
	return "(OVal " + coqValue(o.val) + ")"
}

func (o obs) json() interface{} {
	switch {
	case o.panicked != nil:
		return map[string]interface{}{"panic": fmt.Sprint(o.panicked)}
	case o.err != nil:
		return map[string]interface{}{"error": o.err.Error()}
	}
	return valueJSON(o.val)
}

func call(f func([]octosql.Value) (octosql.Value, error), args []octosql.Value) (o obs) {
	defer func() {
		if p := recover(); p != nil {
			o = obs{panicked: p}
		}
	}()
	cp := make([]octosql.Value, len(args))
	copy(cp, args)
	v, err := f(cp)
	return obs{val: v, err: err}
}

// ---------- the descriptors under test ----------

type kind int

const (
	kInt kind = iota
	kFloat
	kDur
	kTime
	kStr
	kBool
	kList
	kTuple
	kAny
	kIntStr   // a string drawn from the integer-text domain
	kCount    // an Int used as a repeat count
	kIndex    // an Int used as a list index
	kShortStr // a short string (repeat operand)
	kDivisor  // an Int used as a divisor: zero and -1 are frequent
)

type fnSpec struct {
	ctor string // constructor of Model/NumFns.v's [fn]
	name string // key of functions.FunctionMap()
	args []kind
	fn   func([]octosql.Value) (octosql.Value, error)
}

func typeOfKind(k kind) octosql.Type {
	switch k {
	case kInt, kCount, kIndex, kDivisor:
		return octosql.Int
	case kFloat:
		return octosql.Float
	case kDur:
		return octosql.Duration
	case kTime:
		return octosql.Time
	case kStr, kIntStr, kShortStr:
		return octosql.String
	case kBool:
		return octosql.Boolean
	case kList:
		el := octosql.Int
		return octosql.Type{TypeID: octosql.TypeIDList, List: struct{ Element *octosql.Type }{Element: &el}}
	case kTuple:
		return octosql.Type{TypeID: octosql.TypeIDTuple, Tuple: struct{ Elements []octosql.Type }{Elements: []octosql.Type{octosql.Int}}}
	}
	return octosql.Int
}

var specs = []*fnSpec{
	{ctor: "FAddInt", name: "+", args: []kind{kInt, kInt}},
	{ctor: "FAddFloat", name: "+", args: []kind{kFloat, kFloat}},
	{ctor: "FAddDur", name: "+", args: []kind{kDur, kDur}},
	{ctor: "FAddTimeDur", name: "+", args: []kind{kTime, kDur}},
	{ctor: "FAddDurTime", name: "+", args: []kind{kDur, kTime}},
	{ctor: "FAddStr", name: "+", args: []kind{kStr, kStr}},
	{ctor: "FSubInt", name: "-", args: []kind{kInt, kInt}},
	{ctor: "FNegInt", name: "-", args: []kind{kInt}},
	{ctor: "FSubFloat", name: "-", args: []kind{kFloat, kFloat}},
	{ctor: "FNegFloat", name: "-", args: []kind{kFloat}},
	{ctor: "FSubDur", name: "-", args: []kind{kDur, kDur}},
	{ctor: "FNegDur", name: "-", args: []kind{kDur}},
	{ctor: "FSubTimeDur", name: "-", args: []kind{kTime, kDur}},
	{ctor: "FMulInt", name: "*", args: []kind{kInt, kInt}},
	{ctor: "FMulFloat", name: "*", args: []kind{kFloat, kFloat}},
	{ctor: "FMulDurInt", name: "*", args: []kind{kDur, kInt}},
	{ctor: "FMulIntDur", name: "*", args: []kind{kInt, kDur}},
	{ctor: "FMulStrInt", name: "*", args: []kind{kShortStr, kCount}},
	{ctor: "FMulIntStr", name: "*", args: []kind{kCount, kShortStr}},
	{ctor: "FDivInt", name: "/", args: []kind{kInt, kDivisor}},
	{ctor: "FDivFloat", name: "/", args: []kind{kFloat, kFloat}},
	{ctor: "FDivDurInt", name: "/", args: []kind{kDur, kDivisor}},
	{ctor: "FDivDurDur", name: "/", args: []kind{kDur, kDur}},
	{ctor: "FAbsInt", name: "abs", args: []kind{kInt}},
	{ctor: "FAbsFloat", name: "abs", args: []kind{kFloat}},
	{ctor: "FSqrt", name: "sqrt", args: []kind{kFloat}},
	{ctor: "FCeil", name: "ceil", args: []kind{kFloat}},
	{ctor: "FFloor", name: "floor", args: []kind{kFloat}},
	{ctor: "FTimeFromUnixInt", name: "time_from_unix", args: []kind{kInt}},
	{ctor: "FTimeFromUnixFloat", name: "time_from_unix", args: []kind{kFloat}},
	{ctor: "FTimeToUnix", name: "time_to_unix", args: []kind{kTime}},
	{ctor: "FIntInt", name: "int", args: []kind{kInt}},
	{ctor: "FIntBool", name: "int", args: []kind{kBool}},
	{ctor: "FIntFloat", name: "int", args: []kind{kFloat}},
	{ctor: "FIntStr", name: "int", args: []kind{kIntStr}},
	{ctor: "FIntDur", name: "int", args: []kind{kDur}},
	{ctor: "FFloatFloat", name: "float", args: []kind{kFloat}},
	{ctor: "FFloatInt", name: "float", args: []kind{kInt}},
	{ctor: "FFloatDur", name: "float", args: []kind{kDur}},
	{ctor: "FIndex", name: "[]", args: []kind{kList, kIndex}},
	{ctor: "FInList", name: "in", args: []kind{kAny, kList}},
	{ctor: "FInTuple", name: "in", args: []kind{kAny, kTuple}},
	{ctor: "FNotInList", name: "not in", args: []kind{kAny, kList}},
	{ctor: "FNotInTuple", name: "not in", args: []kind{kAny, kTuple}},
}

// resolve finds, in the real table, the descriptor whose declared argument types (or TypeFn) accept the
// argument kinds of the spec.  Exactly one must.
func resolve(fm map[string]physical.FunctionDetails, name string, args []kind) (func([]octosql.Value) (octosql.Value, error), error) {
	det, ok := fm[name]
	if !ok {
		return nil, fmt.Errorf("function %q is no longer in FunctionMap()", name)
	}
	ts := make([]octosql.Type, len(args))
	for i, k := range args {
		ts[i] = typeOfKind(k)
	}
	var found []int
	for i, d := range det.Descriptors {
		if d.TypeFn != nil {
			if _, ok := d.TypeFn(ts); ok {
				found = append(found, i)
			}
			continue
		}
		if len(d.ArgumentTypes) != len(ts) {
			continue
		}
		match := true
		for j := range ts {
			if args[j] == kAny {
				continue
			}
			if !d.ArgumentTypes[j].Equals(ts[j]) {
				match = false
			}
		}
		if match {
			found = append(found, i)
		}
	}
	if len(found) != 1 {
		return nil, fmt.Errorf("function %q with argument types %v: %d matching descriptors in FunctionMap()", name, ts, len(found))
	}
	return det.Descriptors[found[0]].Function, nil
}

func single(fm map[string]physical.FunctionDetails, name string, t ...octosql.Type) func([]octosql.Value) (octosql.Value, error) {
	det := fm[name]
	for _, d := range det.Descriptors {
		if len(d.ArgumentTypes) == len(t) {
			ok := true
			for i := range t {
				if !d.ArgumentTypes[i].Equals(t[i]) {
					ok = false
				}
			}
			if ok {
				return d.Function
			}
		}
	}
	fmt.Fprintf(os.Stderr, "c13: no descriptor %s%v\n", name, t)
	os.Exit(2)
	return nil
}

// ---------- generators ----------

var intTexts = []string{"", "0", "5", "+5", "-5", " 5", "5 ", "0x10", "1_000", "١٢", "+", "-", "+-5", "--5", "5-", "00012", "-0", "+0",
	"9223372036854775807", "9223372036854775808", "-9223372036854775808", "-9223372036854775809", "+9223372036854775807",
	"18446744073709551615", "18446744073709551616", "18446744073709551617", "99999999999999999999999999", "000000000000000000000000001",
	"1844674407370955161", "1844674407370955162", "18446744073709551609", "18446744073709551620", "92233720368547758070",
	"12a", "a12", "1.5", "1e3", "１２", "5\x00", "\xff", "٣", "2147483648", "-2147483649", "4294967296"}

func genIntText(r *lib.Rng) string {
	switch r.Intn(10) {
	case 0, 1, 2, 3:
		return intTexts[r.Intn(len(intTexts))]
	case 4, 5:
		s := strconv.FormatInt(lib.EdgeInts[r.Intn(len(lib.EdgeInts))], 10)
		if r.Chance(1, 4) {
			// perturb the last digit: values just past the int64 limits
			b := []byte(s)
			b[len(b)-1] = byte('0' + r.Intn(10))
			s = string(b)
		}
		if r.Chance(1, 5) && s[0] != '-' {
			s = "+" + s
		}
		return s
	case 6, 7:
		n := 1 + r.Intn(24)
		b := make([]byte, n)
		for i := range b {
			b[i] = byte('0' + r.Intn(10))
		}
		s := string(b)
		if r.Chance(1, 3) {
			s = []string{"-", "+"}[r.Intn(2)] + s
		}
		return s
	case 8:
		// a digit string with one foreign byte
		n := 1 + r.Intn(6)
		b := make([]byte, n)
		for i := range b {
			b[i] = byte('0' + r.Intn(10))
		}
		b[r.Intn(n)] = []byte{'_', ' ', '-', '+', 'a', 'x', '.', '/', ':', 0xff}[r.Intn(10)]
		return string(b)
	}
	return strconv.FormatInt(int64(r.U64()), 10)
}

var extraFloats = []float64{0.5, -0.5, 1.5, -1.5, 2.5, -2.5, 0.49999999999999994, -0.9999999999999999, 4503599627370495.5, 4503599627370496, 9007199254740992,
	9007199254740993, -4503599627370495.5, 9223372036854775807, 9223372036854774784, -9223372036854775808, -9223372036854777856, 9223372036854775808, 1e19, -1e19, 1e300, 1e-300, 2.2250738585072014e-308, 2.225073858507201e-308,
	4, 9, 2, 3, 10, 100, 0.1, 0.2, 0.3, 1e9, 1.000000001, 1600000000.123456789, -1600000000.987654321, -0.000000001, 0.9999999999, 253402300800, -62135596801.5, 1e15 + 0.5}

func genFloat(r *lib.Rng) float64 {
	switch r.Intn(8) {
	case 0, 1, 2:
		return lib.EdgeFloats[r.Intn(len(lib.EdgeFloats))]
	case 3, 4:
		return extraFloats[r.Intn(len(extraFloats))]
	case 5:
		// an integer or half-integer of moderate size
		return float64(int64(r.U64()>>r.Intn(64))-int64(r.Intn(2))*(1<<20)) / []float64{1, 2, 4, 1000}[r.Intn(4)]
	case 6:
		// around the same exponent as another edge value: cancellation, ties
		f := extraFloats[r.Intn(len(extraFloats))]
		return math.Float64frombits(math.Float64bits(f) + uint64(r.Intn(5)) - 2)
	}
	return math.Float64frombits(r.U64())
}

func genInt(r *lib.Rng) int64 {
	switch r.Intn(6) {
	case 0, 1, 2:
		return lib.EdgeInts[r.Intn(len(lib.EdgeInts))]
	case 3:
		return int64(r.Intn(21)) - 10
	case 4:
		return []int64{3037000499, 3037000500, -3037000500, 4294967296, 1 << 62, -(1 << 62), 1000000000, 999999999, 9223372036, 9223372037, -9223372037,
			math.MaxInt64 - unixToInternal, math.MaxInt64 - unixToInternal + 1, math.MinInt64 + unixToInternal, -unixToInternal, -unixToInternal - 1, 253402300800}[r.Intn(17)]
	}
	return int64(r.U64())
}

func genDur(r *lib.Rng) time.Duration {
	switch r.Intn(4) {
	case 0, 1:
		return lib.EdgeDurations[r.Intn(len(lib.EdgeDurations))]
	case 2:
		return []time.Duration{999999999, -999999999, 1000000001, -1000000001, 500000000, -500000000, 1500 * time.Millisecond, -1500 * time.Millisecond, math.MaxInt64 - 1, math.MinInt64 + 1, 24 * time.Hour}[r.Intn(11)]
	}
	return time.Duration(r.U64())
}

func genTime(r *lib.Rng) time.Time {
	switch r.Intn(5) {
	case 0, 1:
		ts := lib.EdgeTimes()
		return ts[r.Intn(len(ts))]
	case 2:
		return []time.Time{time.Unix(0, 999999999), time.Unix(-1, 1), time.Unix(1, 500), time.Unix(-62135596800, 0), time.Unix(-62135596801, 999999999),
			time.Unix(253402300799, 999999999), time.Unix(math.MaxInt64-unixToInternal-5, 0), time.Unix(math.MinInt64+5, 0).Add(0), time.Unix(1<<62, 0), time.Unix(-(1 << 62), 7),
			time.Unix(math.MaxInt64-unixToInternal-9223372036, 999999999), time.Unix(math.MaxInt64-unixToInternal+6, 0)}[r.Intn(12)]
	case 3:
		return time.Unix(int64(r.U64()>>30), int64(r.Intn(1000000000))).UTC()
	}
	return time.Unix(0, int64(r.U64()>>2)-(1<<60)).UTC()
}

func genScalar(r *lib.Rng) octosql.Value {
	switch r.Intn(8) {
	case 0:
		return octosql.NewNull()
	case 1, 2:
		return octosql.NewInt(int64(r.Intn(4)))
	case 3:
		return octosql.NewFloat([]float64{0, math.Copysign(0, -1), 1, math.NaN(), math.Inf(1)}[r.Intn(5)])
	case 4:
		return octosql.NewString([]string{"", "a", "b"}[r.Intn(3)])
	case 5:
		return octosql.NewBoolean(r.Bool())
	case 6:
		return octosql.NewTime(lib.EdgeTimes()[1+r.Intn(9)])
	}
	return lib.GenValue(r, lib.ScalarProfile, 0)
}

func genElems(r *lib.Rng) []octosql.Value {
	n := r.Intn(5)
	vs := make([]octosql.Value, n)
	for i := range vs {
		if r.Chance(1, 6) {
			vs[i] = octosql.NewList([]octosql.Value{genScalar(r)})
		} else if r.Chance(1, 8) {
			vs[i] = octosql.NewTuple([]octosql.Value{genScalar(r), genScalar(r)})
		} else {
			vs[i] = genScalar(r)
		}
	}
	return vs
}

func genArg(r *lib.Rng, k kind, sofar []octosql.Value) octosql.Value {
	switch k {
	case kInt:
		return octosql.NewInt(genInt(r))
	case kDivisor:
		switch r.Intn(6) {
		case 0:
			return octosql.NewInt(0)
		case 1:
			return octosql.NewInt([]int64{-1, 1, 2, -2, 3, -3, 10, 1000000000}[r.Intn(8)])
		}
		return octosql.NewInt(genInt(r))
	case kFloat:
		return octosql.NewFloat(genFloat(r))
	case kDur:
		return octosql.NewDuration(genDur(r))
	case kTime:
		return octosql.NewTime(genTime(r))
	case kStr:
		return lib.GenValueOfKind(r, lib.ScalarProfile, octosql.TypeIDString, 0)
	case kShortStr:
		return octosql.NewString([]string{"", "a", "ab", "é", "abc", "\x00\xff"}[r.Intn(6)])
	case kIntStr:
		return octosql.NewString(genIntText(r))
	case kBool:
		return octosql.NewBoolean(r.Bool())
	case kCount:
		return octosql.NewInt([]int64{-1, 0, 1, 2, 3, 5, -2, math.MinInt64, -(1 << 31), math.MaxInt64, math.MaxInt64/2 + 1, 1 << 62, 4}[r.Intn(13)])
	case kIndex:
		n := int64(len(sofar[0].List))
		return octosql.NewInt([]int64{-1, 0, 1, n - 1, n, n + 1, -2, math.MinInt64, math.MaxInt64, 2, -n, 1 << 32}[r.Intn(12)])
	case kList:
		return octosql.NewList(genElems(r))
	case kTuple:
		return octosql.NewTuple(genElems(r))
	case kAny:
		if r.Chance(1, 6) {
			return octosql.NewList([]octosql.Value{genScalar(r)})
		}
		return genScalar(r)
	}
	panic("genArg")
}

// ---------- COALESCE: types, values, counting expressions ----------

// ty is the engine's own type tree: rendered to octosql.Type for the implementation and to [lty] for the model.
type ty struct {
	prim   octosql.TypeID // when kindOf == "prim"
	kindOf string         // prim | struct | list | tuple | union
	names  []string
	subs   []*ty // struct fields / tuple elements / union alternatives / the list element (nil slice: no element)
}

func prim(id octosql.TypeID) *ty { return &ty{kindOf: "prim", prim: id} }

func (t *ty) octo() octosql.Type {
	switch t.kindOf {
	case "prim":
		return octosql.Type{TypeID: t.prim}
	case "struct":
		fs := make([]octosql.StructField, len(t.subs))
		for i := range t.subs {
			fs[i] = octosql.StructField{Name: t.names[i], Type: t.subs[i].octo()}
		}
		return octosql.Type{TypeID: octosql.TypeIDStruct, Struct: struct{ Fields []octosql.StructField }{Fields: fs}}
	case "list":
		if len(t.subs) == 0 {
			return octosql.Type{TypeID: octosql.TypeIDList}
		}
		el := t.subs[0].octo()
		return octosql.Type{TypeID: octosql.TypeIDList, List: struct{ Element *octosql.Type }{Element: &el}}
	case "tuple":
		es := make([]octosql.Type, len(t.subs))
		for i := range t.subs {
			es[i] = t.subs[i].octo()
		}
		return octosql.Type{TypeID: octosql.TypeIDTuple, Tuple: struct{ Elements []octosql.Type }{Elements: es}}
	case "union":
		as := make([]octosql.Type, len(t.subs))
		for i := range t.subs {
			as[i] = t.subs[i].octo()
		}
		return octosql.Type{TypeID: octosql.TypeIDUnion, Union: struct{ Alternatives []octosql.Type }{Alternatives: as}}
	}
	panic("ty.octo")
}

func (t *ty) coq() string {
	switch t.kindOf {
	case "prim":
		return fmt.Sprintf("(TPrim %d)", int(t.prim))
	case "struct":
		parts := make([]string, len(t.subs))
		for i := range t.subs {
			parts[i] = "(" + lib.CoqBytes(t.names[i]) + ", " + t.subs[i].coq() + ")"
		}
		return "(TStruct " + lib.CoqList(parts) + ")"
	case "list":
		if len(t.subs) == 0 {
			return "(TList None)"
		}
		return "(TList (Some " + t.subs[0].coq() + "))"
	case "tuple", "union":
		parts := make([]string, len(t.subs))
		for i := range t.subs {
			parts[i] = t.subs[i].coq()
		}
		if t.kindOf == "tuple" {
			return "(TTuple " + lib.CoqList(parts) + ")"
		}
		return "(TUnion " + lib.CoqList(parts) + ")"
	}
	panic("ty.coq")
}

func (t *ty) String() string {
	switch t.kindOf {
	case "prim":
		return t.prim.String()
	case "struct":
		parts := make([]string, len(t.subs))
		for i := range t.subs {
			parts[i] = t.names[i] + ": " + t.subs[i].String()
		}
		return "{" + strings.Join(parts, ", ") + "}"
	case "list":
		if len(t.subs) == 0 {
			return "[]"
		}
		return "[" + t.subs[0].String() + "]"
	}
	parts := make([]string, len(t.subs))
	for i := range t.subs {
		parts[i] = t.subs[i].String()
	}
	if t.kindOf == "tuple" {
		return "(" + strings.Join(parts, ", ") + ")"
	}
	return strings.Join(parts, " | ")
}

// shortTuple is set by deriveSource when it drew an argument tuple type shorter than the output's.
var shortTuple bool

var fieldNames = []string{"a", "b", "c", "id", "name", "é"}
var primIDs = []octosql.TypeID{octosql.TypeIDInt, octosql.TypeIDFloat, octosql.TypeIDBoolean, octosql.TypeIDString, octosql.TypeIDTime, octosql.TypeIDDuration}

// genTarget draws the COALESCE output type: a struct-heavy tree.
func genTarget(r *lib.Rng, depth int) *ty {
	c := r.Intn(10)
	if depth <= 0 || c < 2 {
		return prim(primIDs[r.Intn(len(primIDs))])
	}
	switch {
	case c < 7:
		perm := r.Intn(len(fieldNames))
		n := 1 + r.Intn(4)
		t := &ty{kindOf: "struct"}
		for i := 0; i < n; i++ {
			t.names = append(t.names, fieldNames[(perm+i)%len(fieldNames)])
			t.subs = append(t.subs, genTarget(r, depth-1))
		}
		return t
	case c < 8:
		return &ty{kindOf: "list", subs: []*ty{genTarget(r, depth-1)}}
	default:
		n := 1 + r.Intn(3)
		t := &ty{kindOf: "tuple"}
		for i := 0; i < n; i++ {
			t.subs = append(t.subs, genTarget(r, depth-1))
		}
		return t
	}
}

// deriveSource draws an argument type whose values the target can hold: struct fields dropped and
// reordered, otherwise the same shape.  Returns the source type and the target adjusted so that dropped
// fields are nullable there (done by the caller through nullableWhereMissing).
func deriveSource(r *lib.Rng, t *ty) *ty {
	switch t.kindOf {
	case "prim":
		return t
	case "struct":
		s := &ty{kindOf: "struct"}
		idx := make([]int, 0, len(t.subs))
		for i := range t.subs {
			if !r.Chance(1, 4) {
				idx = append(idx, i)
			}
		}
		// random order
		for i := len(idx) - 1; i > 0; i-- {
			j := r.Intn(i + 1)
			idx[i], idx[j] = idx[j], idx[i]
		}
		for _, i := range idx {
			s.names = append(s.names, t.names[i])
			s.subs = append(s.subs, deriveSource(r, t.subs[i]))
		}
		if r.Chance(1, 5) {
			// a field the target does not know at all
			s.names = append(s.names, "zz")
			s.subs = append(s.subs, prim(octosql.TypeIDInt))
		}
		return s
	case "list":
		return &ty{kindOf: "list", subs: []*ty{deriveSource(r, t.subs[0])}}
	case "tuple":
		s := &ty{kindOf: "tuple"}
		n := len(t.subs)
		if r.Chance(1, 3) {
			// a shorter tuple: TypeSum pads its type with NULL elements, the fixer pads the value
			n = r.Intn(n)
			shortTuple = true
		}
		for i := 0; i < n; i++ {
			s.subs = append(s.subs, deriveSource(r, t.subs[i]))
		}
		return s
	}
	panic("deriveSource")
}

// wrapNullable turns every struct field type and the root of the target into  T | NULL  with the given
// probability: the shape TypeSum gives to fields missing from one argument.
func wrapNullable(r *lib.Rng, t *ty, root bool) *ty {
	var out *ty
	switch t.kindOf {
	case "prim":
		out = t
	default:
		out = &ty{kindOf: t.kindOf, names: t.names}
		for _, s := range t.subs {
			out.subs = append(out.subs, wrapNullable(r, s, false))
		}
	}
	if (root && r.Chance(1, 2)) || (!root && r.Chance(1, 3)) {
		if r.Bool() {
			return &ty{kindOf: "union", subs: []*ty{out, prim(octosql.TypeIDNull)}}
		}
		return &ty{kindOf: "union", subs: []*ty{prim(octosql.TypeIDNull), out}}
	}
	return out
}

func genValueOf(r *lib.Rng, t *ty) octosql.Value {
	switch t.kindOf {
	case "prim":
		if t.prim == octosql.TypeIDNull {
			return octosql.NewNull()
		}
		return lib.GenValueOfKind(r, lib.ScalarProfile, t.prim, 0)
	case "struct":
		vs := make([]octosql.Value, len(t.subs))
		for i := range vs {
			vs[i] = genValueOf(r, t.subs[i])
		}
		return octosql.NewStruct(vs)
	case "list":
		n := r.Intn(3)
		vs := make([]octosql.Value, n)
		for i := range vs {
			vs[i] = genValueOf(r, t.subs[0])
		}
		return octosql.NewList(vs)
	case "tuple":
		vs := make([]octosql.Value, len(t.subs))
		for i := range vs {
			vs[i] = genValueOf(r, t.subs[i])
		}
		return octosql.NewTuple(vs)
	case "union":
		return genValueOf(r, t.subs[r.Intn(len(t.subs))])
	}
	panic("genValueOf")
}

var errArg = errors.New("verif: argument evaluation failed")

type countingExpr struct {
	val   octosql.Value
	fail  bool
	count *int
}

func (e *countingExpr) Evaluate(ctx execution.ExecutionContext) (octosql.Value, error) {
	*e.count++
	if e.fail {
		return octosql.ZeroValue, errArg
	}
	return e.val, nil
}

func runCoalesce(target octosql.Type, sources []octosql.Type, exprs []execution.Expression) (o obs) {
	defer func() {
		if p := recover(); p != nil {
			o = obs{panicked: p}
		}
	}()
	c := execution.NewCoalesce(exprs, execution.NewObjectLayoutFixer(target, sources))
	v, err := c.Evaluate(execution.ExecutionContext{Context: context.Background()})
	return obs{val: v, err: err}
}

// ---------- Go-side oracles for what the Coq model does not define ----------

type textCase struct {
	in string
	ok bool
	f  float64
}

var floatTexts = []textCase{
	{"0", true, 0}, {"-0", true, math.Copysign(0, -1)}, {"+5", true, 5}, {"5", true, 5}, {" 5", false, 0}, {"5 ", false, 0}, {"", false, 0},
	{"0x10", false, 0}, {"0x1p-2", true, 0.25}, {"1_000", true, 1000}, {"1__0", false, 0}, {"_1", false, 0}, {"1_", false, 0},
	{".5", true, 0.5}, {"5.", true, 5}, {".", false, 0}, {"1e", false, 0}, {"1e3", true, 1000}, {"1E-2", true, 0.01}, {"+", false, 0}, {"-", false, 0},
	{"inf", true, math.Inf(1)}, {"-Infinity", true, math.Inf(-1)}, {"+Inf", true, math.Inf(1)}, {"infi", false, 0}, {"nan", true, math.NaN()}, {"NaN", true, math.NaN()},
	{"+nan", false, 0}, {"-nan", false, 0}, {"1e400", false, 0}, {"-1e400", false, 0}, {"1e-400", true, 0}, {"abc", false, 0}, {"1,5", false, 0}, {"1.5.2", false, 0},
	{"9223372036854775808", true, 9223372036854775808}, {"0.1", true, 0.1}, {"2.2250738585072011e-308", true, 2.225073858507201e-308},
	{"4.9e-324", true, 5e-324}, {"2.4e-324", true, 0}, {"1.7976931348623157e308", true, math.MaxFloat64}, {"1.7976931348623159e308", false, 0},
	{"١٢", false, 0}, {"1.5\x00", false, 0},
}

func relClose(a, b, tol float64) bool {
	if a == b {
		return true
	}
	if math.IsNaN(a) || math.IsNaN(b) || math.IsInf(a, 0) || math.IsInf(b, 0) {
		return false
	}
	return math.Abs(a-b) <= tol*math.Max(math.Abs(a), math.Abs(b))
}

func main() {
	f := lib.ParseFlags()
	if f.Cmd != "run" {
		fmt.Fprintln(os.Stderr, "c13: only 'run'")
		os.Exit(2)
	}
	fm := functions.FunctionMap()
	for _, s := range specs {
		fn, err := resolve(fm, s.name, s.args)
		if err != nil {
			fmt.Fprintln(os.Stderr, "c13:", err)
			os.Exit(2)
		}
		s.fn = fn
	}
	rng := lib.NewRng(f.Seed)
	cf := lib.NewCaseFile("C13", f.Seed, f.Tier)
	cf.Imports = []string{"NumFns"}
	cf.CaseType = "c13_case"
	cf.Checks = []lib.Check{{Name: "tie", Kind: "tie", Fn: "c13_tie"}, {Name: "spec", Kind: "spec", Fn: "c13_spec"}}
	cf.Side.Rule = "argument tuples from boundary-heavy domains (0, +-1, MinInt64/MaxInt64, +-0.0, NaN payloads, +-Inf, subnormals, ties, integer texts around the int64 limits and " +
		"with foreign bytes, instants around the year-1 and int64 second limits) through the real descriptor functions of functions.FunctionMap(), and COALESCE through " +
		"execution.NewCoalesce + NewObjectLayoutFixer with counting argument expressions; non-trivial = a call whose arguments are not all zero/empty and whose descriptor does " +
		"real work (identity conversions excluded), or a COALESCE with a NULL before the first non-NULL argument or a struct/list/tuple result; distinct by full case text"

	var heavy []*fnSpec
	for _, s := range specs {
		switch s.ctor {
		case "FAddFloat", "FSubFloat", "FMulFloat", "FDivFloat", "FSqrt", "FCeil", "FFloor", "FIntStr", "FIntFloat", "FFloatInt", "FTimeFromUnixFloat",
			"FAddTimeDur", "FSubTimeDur", "FDivInt", "FDivDurDur", "FMulInt", "FIndex", "FMulStrInt":
			heavy = append(heavy, s)
		}
	}
	nFn := f.Cases(1300, 13000)
	nCo := f.Cases(250, 2500)

	// 1. descriptor calls
	for i := 0; i < nFn; i++ {
		r := rng.Fork()
		s := specs[i%len(specs)]
		if i >= 6*len(specs) {
			// the rest goes to the descriptors with the largest input spaces
			s = heavy[r.Intn(len(heavy))]
		}
		args := make([]octosql.Value, len(s.args))
		for j, k := range s.args {
			args[j] = genArg(r, k, args)
		}
		if s.ctor == "FMulStrInt" || s.ctor == "FMulIntStr" {
			// results beyond a few bytes are a memory question, not a specification one (see the Go-side case below)
			si, ni := 0, 1
			if s.ctor == "FMulIntStr" {
				si, ni = 1, 0
			}
			l, n := int64(len(args[si].Str)), args[ni].Int
			if l > 0 && n > 5 && n <= math.MaxInt64/l {
				args[ni] = octosql.NewInt(3)
			}
		}
		o := call(s.fn, args)
		js := map[string]interface{}{"fn": s.ctor, "name": s.name, "args": valuesJSON(args), "observed": o.json()}
		nontrivial := !strings.HasPrefix(s.ctor, "FIntInt") && s.ctor != "FFloatFloat" && s.ctor != "FIntDur"
		idx := cf.Add(fmt.Sprintf("CFn %s %s %s", s.ctor, coqValues(args), o.coq()), js, nontrivial)
		cf.Count("fn_" + s.ctor)
		switch {
		case o.panicked != nil:
			cf.Count("obs_panic")
			cf.Violation(idx, fmt.Sprintf("%s%v panicked: %v", s.name, valuesJSON(args), o.panicked), "")
		case o.err != nil:
			cf.Count("obs_error")
		case o.val.TypeID == octosql.TypeIDNull:
			cf.Count("obs_null")
		default:
			cf.Count("obs_value")
		}
	}

	// 1b. IN / NOT IN, deterministic family: needles that are the zero value of their kind (0, 0.0, -0.0, "", false,
	// 0s, the epoch, NULL) and a non-zero control, against heterogeneous collections (mixed kinds, NULL elements,
	// other kinds' zero values, nested lists).  Every needle meets every collection through all four descriptors.
	{
		epoch := time.Unix(0, 0).UTC()
		needles := []octosql.Value{octosql.NewInt(0), octosql.NewFloat(0), octosql.NewFloat(math.Copysign(0, -1)), octosql.NewString(""),
			octosql.NewBoolean(false), octosql.NewDuration(0), octosql.NewTime(epoch), octosql.NewNull(), octosql.NewInt(1), octosql.NewList(nil)}
		colls := [][]octosql.Value{
			{},
			{octosql.NewInt(1), octosql.NewNull()},
			{octosql.NewFloat(0.5), octosql.NewFloat(2.5)},
			{octosql.NewString("a"), octosql.NewBoolean(true)},
			{octosql.NewNull()},
			{octosql.NewInt(0)},
			{octosql.NewFloat(0)},
			{octosql.NewString(""), octosql.NewBoolean(false)},
			{octosql.NewDuration(0), octosql.NewTime(epoch)},
			{octosql.NewList(nil), octosql.NewTuple(nil), octosql.NewStruct(nil)},
			{octosql.NewNull(), octosql.NewString("x"), octosql.NewFloat(1.5), octosql.NewBoolean(true), octosql.NewDuration(5), octosql.NewInt(7)},
			{octosql.NewList([]octosql.Value{octosql.NewInt(0)}), octosql.NewFloat(math.NaN()), octosql.NewInt(1)},
		}
		for _, s := range specs {
			if s.name != "in" && s.name != "not in" {
				continue
			}
			for _, nd := range needles {
				for _, c := range colls {
					coll := octosql.NewList(c)
					if s.args[1] == kTuple {
						coll = octosql.NewTuple(c)
					}
					args := []octosql.Value{nd, coll}
					o := call(s.fn, args)
					js := map[string]interface{}{"fn": s.ctor, "name": s.name, "args": valuesJSON(args), "observed": o.json()}
					idx := cf.Add(fmt.Sprintf("CFn %s %s %s", s.ctor, coqValues(args), o.coq()), js, true)
					cf.Count("in_zero_value_family")
					if o.panicked != nil {
						cf.Violation(idx, fmt.Sprintf("%s%v panicked: %v", s.name, valuesJSON(args), o.panicked), "")
					}
				}
			}
		}
	}

	// 2. COALESCE
	for i := 0; i < nCo; i++ {
		r := rng.Fork()
		var target *ty
		if r.Chance(1, 4) {
			target = prim(primIDs[r.Intn(len(primIDs))])
		} else {
			target = genTarget(r, 2)
		}
		nargs := 1 + r.Intn(4)
		shortTuple = false
		var srcs []*ty
		var exprs []execution.Expression
		var cargs []string
		var jsArgs []interface{}
		count := 0
		nullBefore, composite := false, false
		seenNonNull := false
		for j := 0; j < nargs; j++ {
			c := r.Intn(10)
			switch {
			case c < 3: // NULL-valued argument of type NULL or T | NULL
				src := prim(octosql.TypeIDNull)
				if r.Bool() {
					src = &ty{kindOf: "union", subs: []*ty{deriveSource(r, target), prim(octosql.TypeIDNull)}}
				}
				srcs = append(srcs, src)
				exprs = append(exprs, &countingExpr{val: octosql.NewNull(), count: &count})
				cargs = append(cargs, "AVal VNull")
				jsArgs = append(jsArgs, nil)
				if !seenNonNull {
					nullBefore = true
				}
			case c < 4: // failing argument
				srcs = append(srcs, deriveSource(r, target))
				exprs = append(exprs, &countingExpr{fail: true, count: &count})
				cargs = append(cargs, "AErr")
				jsArgs = append(jsArgs, "error")
				seenNonNull = true
			default:
				src := deriveSource(r, target)
				v := genValueOf(r, src)
				if r.Chance(1, 4) {
					if r.Bool() {
						src = &ty{kindOf: "union", subs: []*ty{src, prim(octosql.TypeIDNull)}}
					} else {
						src = &ty{kindOf: "union", subs: []*ty{prim(octosql.TypeIDNull), src}}
					}
				}
				srcs = append(srcs, src)
				exprs = append(exprs, &countingExpr{val: v, count: &count})
				cargs = append(cargs, "AVal "+coqValue(v))
				jsArgs = append(jsArgs, valueJSON(v))
				if !seenNonNull && v.TypeID >= octosql.TypeIDList {
					composite = true
				}
				seenNonNull = true
			}
		}
		tgt := wrapNullable(r, target, true)
		for _, src := range srcs {
			// the output type is an upper bound of every argument type (logical.Coalesce.Typecheck folds TypeSum):
			// a nullable argument makes it nullable
			if tgt.kindOf != "union" && (src.kindOf == "union" || (src.kindOf == "prim" && src.prim == octosql.TypeIDNull)) {
				tgt = &ty{kindOf: "union", subs: []*ty{tgt, prim(octosql.TypeIDNull)}}
			}
		}
		osrcs := make([]octosql.Type, len(srcs))
		csrcs := make([]string, len(srcs))
		ssrcs := make([]string, len(srcs))
		for j := range srcs {
			osrcs[j] = srcs[j].octo()
			csrcs[j] = srcs[j].coq()
			ssrcs[j] = srcs[j].String()
		}
		o := runCoalesce(tgt.octo(), osrcs, exprs)
		js := map[string]interface{}{"coalesce_target": tgt.String(), "argument_types": ssrcs, "args": jsArgs, "observed": o.json(), "evaluated": count}
		idx := cf.Add(fmt.Sprintf("CCoalesce %s %s %s %s %d", tgt.coq(), lib.CoqList(csrcs), lib.CoqList(cargs), o.coq(), count), js, nullBefore || composite)
		cf.Count("coalesce")
		if shortTuple {
			cf.Count("coalesce_shorter_tuple")
		}
		if composite {
			cf.Count("coalesce_composite")
		}
		if o.panicked != nil {
			cf.Violation(idx, fmt.Sprintf("COALESCE%v : %s panicked: %v", jsArgs, tgt.String(), o.panicked), "")
		}
	}

	// 3. Go-side oracles: transcendental functions and float text (no Coq model; see meta/C13.json)
	goSide := func(js interface{}) int {
		idx := cf.Add(fmt.Sprintf("CGoSide %d", len(cf.Items)), js, false)
		cf.Count("go_side")
		return idx
	}
	fl := func(x float64) []octosql.Value { return []octosql.Value{octosql.NewFloat(x)} }
	logf := map[string]struct {
		fn  func([]octosql.Value) (octosql.Value, error)
		inv func(float64) float64
	}{
		"log":   {single(fm, "log", octosql.Float), math.Exp},
		"log2":  {single(fm, "log2", octosql.Float), math.Exp2},
		"log10": {single(fm, "log10", octosql.Float), func(y float64) float64 { return math.Pow(10, y) }},
	}
	names := []string{"log", "log2", "log10"}
	for _, name := range names {
		d := logf[name]
		prev, prevX := math.Inf(-1), 0.0
		xs := []float64{0, math.Copysign(0, -1), 1, -1, math.Inf(1), math.Inf(-1), math.NaN(), 5e-324, math.MaxFloat64, 2, 8, 1024, 10, 1000, math.E, 0.5, 1e-300, 1e300}
		for k := 0; k < 40; k++ {
			xs = append(xs, math.Abs(genFloat(rng.Fork())))
		}
		var pos []float64
		for _, x := range xs {
			o := call(d.fn, fl(x))
			idx := goSide(map[string]interface{}{"fn": name, "x": fmt.Sprint(x), "observed": o.json()})
			if o.panicked != nil || o.err != nil || o.val.TypeID != octosql.TypeIDFloat {
				cf.Violation(idx, fmt.Sprintf("%s(%v) did not return a Float: %v", name, x, o.json()), "")
				continue
			}
			y := o.val.Float
			bad := ""
			switch {
			case math.IsNaN(x) || x < 0:
				if !math.IsNaN(y) {
					bad = "expected NaN"
				}
			case x == 0:
				if !math.IsInf(y, -1) {
					bad = "expected -Inf"
				}
			case math.IsInf(x, 1):
				if !math.IsInf(y, 1) {
					bad = "expected +Inf"
				}
			case x == 1:
				if y != 0 {
					bad = "expected 0"
				}
			case x < 2.2250738585072014e-308 || x > 1e300:
				// subnormal arguments: math.Log of go1.23 on amd64 (log_amd64.s) is itself far off there
				// (math.Log(5e-324) = -709.09 instead of -744.44), which is the platform's library, not octosql;
				// near MaxFloat64 the inverse function overflows.  Only "finite and negative/positive" is checked.
				if math.IsNaN(y) || math.IsInf(y, 0) || (x < 1) != (y < 0) {
					bad = "expected a finite value with the sign of x - 1"
				}
			default:
				if back := d.inv(y); !relClose(back, x, 1e-11*math.Max(1, math.Abs(y))) {
					bad = fmt.Sprintf("inverse function gives %v", back)
				}
				pos = append(pos, x)
			}
			if name == "log2" && x == 1024 && y != 10 {
				bad = "log2(1024) must be exactly 10"
			}
			if bad != "" {
				cf.Violation(idx, fmt.Sprintf("%s(%v) = %v: %s", name, x, y, bad), "")
			}
		}
		// monotone on the sampled positive arguments
		sort.Float64s(pos)
		for _, x := range pos {
			y := call(d.fn, fl(x)).val.Float
			if y < prev {
				idx := goSide(map[string]interface{}{"fn": name, "x": fmt.Sprint(x), "prev_x": fmt.Sprint(prevX)})
				cf.Violation(idx, fmt.Sprintf("%s is not monotone: %s(%v)=%v < %s(%v)=%v", name, name, x, y, name, prevX, prev), "")
			}
			prev, prevX = y, x
		}
	}
	powFn := single(fm, "pow", octosql.Float, octosql.Float)
	for k := 0; k < 120; k++ {
		r := rng.Fork()
		x, y := genFloat(r), genFloat(r)
		switch k % 6 {
		case 0:
			y = 0
		case 1:
			y = 1
		case 2:
			x = 1
		case 3:
			x, y = math.Abs(x), []float64{2, 3, 0.5, -1, -2, 10}[r.Intn(6)]
		case 4:
			x, y = []float64{2, 10, 0.5, 3}[r.Intn(4)], float64(r.Intn(41)-20)
		}
		o := call(powFn, []octosql.Value{octosql.NewFloat(x), octosql.NewFloat(y)})
		idx := goSide(map[string]interface{}{"fn": "pow", "x": fmt.Sprint(x), "y": fmt.Sprint(y), "observed": o.json()})
		if o.panicked != nil || o.err != nil || o.val.TypeID != octosql.TypeIDFloat {
			cf.Violation(idx, fmt.Sprintf("pow(%v,%v) did not return a Float: %v", x, y, o.json()), "")
			continue
		}
		z := o.val.Float
		bad := ""
		if w := math.Pow(x, y); !(math.Float64bits(z) == math.Float64bits(w) || (math.IsNaN(z) && math.IsNaN(w))) {
			cf.Violation(idx, fmt.Sprintf("pow(%v, %v) = %v, math.Pow gives %v", x, y, z, w), "")
		}
		switch {
		case y == 0:
			if z != 1 {
				bad = "pow(x, 0) must be 1"
			}
		case x == 1:
			if z != 1 {
				bad = "pow(1, y) must be 1"
			}
		case math.IsNaN(x) || math.IsNaN(y):
			if !math.IsNaN(z) {
				bad = "expected NaN"
			}
		case y == 1:
			if math.Float64bits(z) != math.Float64bits(x) {
				bad = "pow(x, 1) must be x"
			}
		case x >= 2.2250738585072014e-308 && !math.IsInf(x, 0) && !math.IsInf(y, 0):
			// (subnormal x excluded: the reference below goes through math.Log, which is off there on amd64)
			ref := math.Exp(y * math.Log(x))
			if y == math.Trunc(y) && math.Abs(y) <= 64 {
				// repeated multiplication in big.Float as the reference
				b := new(big.Float).SetPrec(200).SetFloat64(x)
				acc := new(big.Float).SetPrec(200).SetFloat64(1)
				for n := 0; n < int(math.Abs(y)); n++ {
					acc.Mul(acc, b)
				}
				if y < 0 {
					acc.Quo(new(big.Float).SetPrec(200).SetFloat64(1), acc)
				}
				ref, _ = acc.Float64()
			}
			if !(relClose(z, ref, 1e-9) || (math.IsInf(ref, 0) && math.IsInf(z, 0)) || (ref == 0 && z == 0) || (math.Abs(ref) < 1e-300 && math.Abs(z) < 1e-300)) {
				bad = fmt.Sprintf("reference value %v", ref)
			}
		}
		if bad != "" {
			cf.Violation(idx, fmt.Sprintf("pow(%v,%v) = %v: %s", x, y, z, bad), "")
		}
	}
	// the full IEEE special-value grid: pow over grid x grid, log/log2/log10 over the grid, bit for bit against Go's
	// math.Pow / math.Log / math.Log2 / math.Log10 (which are these functions' definition; NaN payloads identified)
	{
		grid := []float64{0, math.Copysign(0, -1), 1, -1, 0.5, -0.5, 2, -2, math.Inf(1), math.Inf(-1), math.NaN(),
			math.MaxFloat64, -math.MaxFloat64, math.SmallestNonzeroFloat64, -math.SmallestNonzeroFloat64, 3, -3, 1.5}
		same := func(a, b float64) bool {
			return math.Float64bits(a) == math.Float64bits(b) || (math.IsNaN(a) && math.IsNaN(b))
		}
		for _, x := range grid {
			for _, y := range grid {
				o := call(powFn, []octosql.Value{octosql.NewFloat(x), octosql.NewFloat(y)})
				idx := goSide(map[string]interface{}{"fn": "pow", "x": fmt.Sprint(x), "y": fmt.Sprint(y), "observed": o.json()})
				cf.Count("pow_special_grid")
				want := math.Pow(x, y)
				if o.panicked != nil || o.err != nil || o.val.TypeID != octosql.TypeIDFloat || !same(o.val.Float, want) {
					cf.Violation(idx, fmt.Sprintf("pow(%v, %v) = %v, math.Pow gives %v (bits %016x)", x, y, o.json(), want, math.Float64bits(want)), "")
				}
			}
		}
		refs := map[string]func(float64) float64{"log": math.Log, "log2": math.Log2, "log10": math.Log10}
		for _, name := range names {
			for _, x := range grid {
				o := call(logf[name].fn, fl(x))
				idx := goSide(map[string]interface{}{"fn": name, "x": fmt.Sprint(x), "observed": o.json()})
				cf.Count("log_special_grid")
				want := refs[name](x)
				if o.panicked != nil || o.err != nil || o.val.TypeID != octosql.TypeIDFloat || !same(o.val.Float, want) {
					cf.Violation(idx, fmt.Sprintf("%s(%v) = %v, math gives %v (bits %016x)", name, x, o.json(), want, math.Float64bits(want)), "")
				}
			}
		}
	}

	// float(String): acceptance table, then round trips through string()
	floatStr := single(fm, "float", octosql.String)
	intStr := single(fm, "int", octosql.String)
	toStr := single(fm, "string", octosql.Any)
	for _, tc := range floatTexts {
		o := call(floatStr, []octosql.Value{octosql.NewString(tc.in)})
		idx := goSide(map[string]interface{}{"fn": "float(String)", "in": fmt.Sprintf("%q", tc.in), "observed": o.json()})
		switch {
		case o.panicked != nil || o.err != nil:
			cf.Violation(idx, fmt.Sprintf("float(%q) failed: %v", tc.in, o.json()), "")
		case !tc.ok && o.val.TypeID != octosql.TypeIDNull:
			cf.Violation(idx, fmt.Sprintf("float(%q) must be NULL (not a float64 text), got %v", tc.in, o.json()), "")
		case tc.ok && (o.val.TypeID != octosql.TypeIDFloat || !(math.Float64bits(o.val.Float) == math.Float64bits(tc.f) || (math.IsNaN(tc.f) && math.IsNaN(o.val.Float)))):
			cf.Violation(idx, fmt.Sprintf("float(%q) must be %v, got %v", tc.in, tc.f, o.json()), "")
		}
	}
	for k := 0; k < 150; k++ {
		r := rng.Fork()
		x := genFloat(r)
		so := call(toStr, fl(x))
		idx := goSide(map[string]interface{}{"fn": "float(string(Float))", "x": fmt.Sprintf("%x", math.Float64bits(x)), "text": so.json()})
		if so.panicked != nil || so.err != nil || so.val.TypeID != octosql.TypeIDString {
			cf.Violation(idx, fmt.Sprintf("string(%v) did not return a String: %v", x, so.json()), "")
			continue
		}
		bo := call(floatStr, []octosql.Value{so.val})
		okBack := bo.panicked == nil && bo.err == nil && bo.val.TypeID == octosql.TypeIDFloat &&
			(math.Float64bits(bo.val.Float) == math.Float64bits(x) || (math.IsNaN(x) && math.IsNaN(bo.val.Float)))
		if !okBack {
			cf.Violation(idx, fmt.Sprintf("float(string(x)) != x for x = %v (bits %x): text %q, back %v", x, math.Float64bits(x), so.val.Str, bo.json()), "")
		}
		// and the shortest text strconv prints parses back too
		txt := strconv.FormatFloat(x, 'g', -1, 64)
		po := call(floatStr, []octosql.Value{octosql.NewString(txt)})
		if !(po.panicked == nil && po.err == nil && po.val.TypeID == octosql.TypeIDFloat && (math.Float64bits(po.val.Float) == math.Float64bits(x) || math.IsNaN(x))) {
			cf.Violation(idx, fmt.Sprintf("float(%q) does not give back the float it was printed from", txt), "")
		}
	}
	for k := 0; k < 80; k++ {
		r := rng.Fork()
		x := genInt(r)
		so := call(toStr, []octosql.Value{octosql.NewInt(x)})
		idx := goSide(map[string]interface{}{"fn": "int(string(Int))", "x": fmt.Sprint(x), "text": so.json()})
		if so.panicked != nil || so.err != nil || so.val.TypeID != octosql.TypeIDString || so.val.Str != new(big.Int).SetInt64(x).String() {
			cf.Violation(idx, fmt.Sprintf("string(%d) is not its decimal text: %v", x, so.json()), "")
			continue
		}
		bo := call(intStr, []octosql.Value{so.val})
		if bo.panicked != nil || bo.err != nil || bo.val.TypeID != octosql.TypeIDInt || bo.val.Int != x {
			cf.Violation(idx, fmt.Sprintf("int(string(%d)) = %v", x, bo.json()), "")
		}
	}
	// the one repeat count that is recoverable in-process although it is far beyond memory
	{
		mul := specs[17].fn
		o := call(mul, []octosql.Value{octosql.NewString("a"), octosql.NewInt(math.MaxInt64)})
		idx := goSide(map[string]interface{}{"fn": "'a' * 9223372036854775807", "observed": o.json()})
		if o.panicked != nil {
			cf.Violation(idx, fmt.Sprintf("'a' * 9223372036854775807 panicked: %v", o.panicked), "repeat-beyond-memory")
		}
	}

	// COALESCE over tuples of different lengths: the output type (TypeSum) takes the longer one and
	// calculateMapping indexed the shorter argument type past its end before the fix (one fixed probe)
	{
		tup := func(ts ...octosql.Type) octosql.Type {
			return octosql.Type{TypeID: octosql.TypeIDTuple, Tuple: struct{ Elements []octosql.Type }{Elements: ts}}
		}
		short, long := tup(octosql.Int, octosql.Int), tup(octosql.Int, octosql.Int, octosql.Int)
		n := 0
		o := runCoalesce(octosql.TypeSum(short, long), []octosql.Type{short, long},
			[]execution.Expression{&countingExpr{val: octosql.NewTuple([]octosql.Value{octosql.NewInt(1), octosql.NewInt(2)}), count: &n}, &countingExpr{val: octosql.NewNull(), count: &n}})
		idx := goSide(map[string]interface{}{"fn": "COALESCE((1, 2), (1, 2, 3))", "observed": o.json()})
		if o.panicked != nil {
			cf.Violation(idx, fmt.Sprintf("COALESCE((1, 2), (1, 2, 3)) panicked: %v", o.panicked), "")
		} else if o.err != nil || o.val.TypeID != octosql.TypeIDTuple || len(o.val.Tuple) < 2 || o.val.Tuple[0].Int != 1 || o.val.Tuple[1].Int != 2 {
			cf.Violation(idx, fmt.Sprintf("COALESCE((1, 2), (1, 2, 3)) = %v", o.json()), "")
		}
	}

	if err := cf.Write(f.Out); err != nil {
		fmt.Fprintln(os.Stderr, err)
		os.Exit(2)
	}
}
