// c21: tumble, range and poll — the real nodes built through their Materialize functions; the exact
// emitted event list is recorded.
package main

import (
	"fmt"
	"math"
	"os"
	"strings"
	"time"

	"github.com/cube2222/octosql/execution"
	"github.com/cube2222/octosql/octosql"

	"verifharness/c18kit"
	"verifharness/lib"
)

const two62 = int64(1) << 62

func pick(r *lib.Rng, xs []int64) int64 { return xs[r.Intn(len(xs))] }

func genLength(r *lib.Rng) int64 {
	switch {
	case r.Chance(1, 10):
		return pick(r, []int64{0, 0, -1, -1000000000, math.MinInt64})
	case r.Chance(1, 12):
		return pick(r, []int64{math.MaxInt64, two62, two62 - 1, 1 << 40})
	case r.Chance(1, 2):
		return pick(r, []int64{1000000000, 60000000000, 3600000000000, 86400000000000, 7 * 86400000000000, 1000000})
	}
	return pick(r, []int64{1, 2, 3, 7, 10, 100, 1000})
}

func small(a int64) int64 {
	if a <= 0 {
		return 1000
	}
	if a > 1<<40 {
		return 1 << 40
	}
	return a
}

func genOffset(r *lib.Rng, length int64) int64 {
	if r.Chance(1, 12) {
		return pick(r, []int64{math.MaxInt64, math.MinInt64, math.MinInt64 + 1, two62, -two62, two62 - 1})
	}
	a := small(length)
	return pick(r, []int64{0, 0, 0, 1, -1, a / 2, a, a + 1, 3 * a, -a - 1, -(a / 3), 1000000000})
}

func genTime(r *lib.Rng, length int64, centre int64) time.Time {
	if r.Chance(1, 40) {
		return time.Time{}
	}
	if r.Chance(1, 25) {
		return time.Unix(0, pick(r, []int64{math.MaxInt64, math.MinInt64, two62, -two62, 0, -1, 1})).UTC()
	}
	a := small(length)
	k := int64(r.Intn(9)) - 4
	delta := pick(r, []int64{0, 0, 1, -1, a / 2, a - 1, -(a / 2), a / 3})
	return time.Unix(0, centre+k*a+delta).UTC()
}

func runGuarded(build func() (execution.Node, error), run func(execution.Node) ([]lib.Event, error, interface{})) (kind int, out []lib.Event, note string) {
	kind = 2
	defer func() {
		if p := recover(); p != nil {
			kind, note = 2, fmt.Sprintf("panic while materializing: %v", p)
		}
	}()
	node, err := build()
	if err != nil {
		return 1, nil, err.Error()
	}
	o, e, p := run(node)
	if p != nil {
		note = fmt.Sprintf("panic: %v", p)
	} else if e != nil {
		note = e.Error()
	}
	return c18kit.Kind(e, p), o, note
}

type tumbleInput struct {
	nfields, idx   int
	length, offset int64
	script         []lib.Event
}

func genTumbleInput(r *lib.Rng, nfields, idx int) tumbleInput {
	length := genLength(r)
	offset := genOffset(r, length)
	centre := pick(r, []int64{0, 0, -5000000000, 1600000000000000000, -1600000000000000000, 7})
	ln := r.Intn(9)
	var script []lib.Event
	wm := centre - 5
	for j := 0; j < ln; j++ {
		if r.Chance(1, 5) {
			wm += int64(r.Intn(4))
			script = append(script, lib.Event{IsWM: true, WM: time.Unix(0, wm).UTC()})
			continue
		}
		vals := make([]octosql.Value, nfields)
		for k := range vals {
			vals[k] = lib.GenValue(r, lib.SmallProfile, 0)
		}
		vals[idx] = octosql.NewTime(genTime(r, length, centre))
		if r.Chance(1, 30) {
			vals[idx] = octosql.NewNull()
		}
		et := time.Time{}
		if r.Chance(1, 2) {
			et = time.Unix(0, wm+int64(r.Intn(5))).UTC()
		}
		script = append(script, lib.Event{Rec: execution.NewRecord(vals, r.Chance(1, 5), et)})
	}
	return tumbleInput{nfields, idx, length, offset, script}
}

func addTumble(cf *lib.CaseFile, in tumbleInput, kind int, out []lib.Event, note, how string) {
	nrec, nwm := 0, 0
	for _, e := range in.script {
		if e.IsWM {
			nwm++
		} else {
			nrec++
		}
	}
	js := map[string]interface{}{"tvf": "tumble", "how": how, "window_length": in.length, "offset": in.offset, "time_field": in.idx,
		"input": c18kit.EventsJSON(in.script), "kind": kind, "output": c18kit.EventsJSON(out), "note": note}
	cf.Add(fmt.Sprintf("CTumble %s %s %d%%nat %s %d %s", lib.Z(in.length), lib.Z(in.offset), in.idx, c18kit.CoqEvents(in.script), kind, c18kit.CoqEvents(out)),
		js, kind == 0 && nrec > 0 && nwm > 0 && in.length > 0)
	cf.Count("tumble")
	cf.Count(fmt.Sprintf("tumble_kind_%d", kind))
	if in.length <= 0 {
		cf.Count("tumble_length_not_positive")
	}
	if in.offset != 0 {
		cf.Count("tumble_with_offset")
	}
}

func tumbleCase(r *lib.Rng, cf *lib.CaseFile) {
	nfields := 1 + r.Intn(3)
	in := genTumbleInput(r, nfields, r.Intn(nfields))
	kind, out, note := runGuarded(
		func() (execution.Node, error) {
			return c18kit.Tumble(&lib.ScriptSource{Events: in.script}, time.Duration(in.length), time.Duration(in.offset), in.idx, in.nfields)
		},
		func(n execution.Node) ([]lib.Event, error, interface{}) { return lib.RunNode(n) })
	addTumble(cf, in, kind, out, note, "constant arguments, one run")
}

// tumble over a source that already has an event time field of its own (what poll, max_diff_watermark or a
// nested tumble hand on): two Time columns a and b, the schema's TimeField is a.  With an explicit
// time_field => DESCRIPTOR(b) the windows are those of column b; without the argument those of column a.
func tumbleTimedSourceCase(r *lib.Rng, cf *lib.CaseFile, explicit bool) {
	nfields := 2 + r.Intn(2)
	a := r.Intn(nfields)
	b := (a + 1 + r.Intn(nfields-1)) % nfields
	used := a
	if explicit {
		used = b
	}
	in := genTumbleInput(r, nfields, used)
	// the other Time column holds an unrelated instant (another window for every length in use)
	other := a + b - used
	for i := range in.script {
		if !in.script[i].IsWM {
			vals := in.script[i].Rec.Values
			t := vals[used].Time
			vals[other] = octosql.NewTime(t.Add(time.Duration(small(in.length))*time.Duration(3+r.Intn(5)) + time.Duration(1+r.Intn(7))))
		}
	}
	explicitIdx := -1
	if explicit {
		explicitIdx = b
	}
	kind, out, note := runGuarded(
		func() (execution.Node, error) {
			return c18kit.TumbleOverTimedSource(&lib.ScriptSource{Events: in.script}, time.Duration(in.length), time.Duration(in.offset), nfields, []int{a, b}, a, explicitIdx)
		},
		func(n execution.Node) ([]lib.Event, error, interface{}) { return lib.RunNode(n) })
	how := fmt.Sprintf("source schema has TimeField f%d; no time_field argument", a)
	if explicit {
		how = fmt.Sprintf("source schema has TimeField f%d; explicit time_field => DESCRIPTOR(f%d)", a, b)
		cf.Count("tumble_explicit_time_field_over_timed_source")
	} else {
		cf.Count("tumble_implicit_time_field")
	}
	addTumble(cf, in, kind, out, note, how)
}

// One materialized tumble node whose window_length and offset are variables of the enclosing record, run
// several times over different inputs and under different outer records (a correlated subquery, or a
// source polled again): every run is a case of its own.
func tumbleRerunCase(r *lib.Rng, cf *lib.CaseFile) {
	nfields := 1 + r.Intn(3)
	idx := r.Intn(nfields)
	src := &c18kit.ResettableSource{}
	var node execution.Node
	kind0, _, note0 := runGuarded(
		func() (execution.Node, error) { n, err := c18kit.TumbleVar(src, idx, nfields); node = n; return n, err },
		func(n execution.Node) ([]lib.Event, error, interface{}) { return nil, nil, nil })
	for run, runs := 0, 2+r.Intn(2); run < runs; run++ {
		in := genTumbleInput(r, nfields, idx)
		if node == nil {
			addTumble(cf, in, kind0, nil, note0, "variable arguments, node could not be built")
			continue
		}
		src.Events = in.script
		outer := []octosql.Value{octosql.NewDuration(time.Duration(in.length)), octosql.NewDuration(time.Duration(in.offset)), octosql.NewNull(), octosql.NewNull()}
		kind, out, note := runGuarded(
			func() (execution.Node, error) { return node, nil },
			func(n execution.Node) ([]lib.Event, error, interface{}) {
				return c18kit.RunInContext(n, outer, nil, 1<<20)
			})
		addTumble(cf, in, kind, out, note, fmt.Sprintf("variable arguments, run %d of the same node", run+1))
		cf.Count("tumble_rerun")
	}
}

func addRange(cf *lib.CaseFile, a, b int64, kind int, out []lib.Event, note, how string) {
	js := map[string]interface{}{"tvf": "range", "how": how, "start": a, "end": b, "kind": kind, "output": c18kit.EventsJSON(out), "note": note}
	cf.Add(fmt.Sprintf("CRange %s %s %d %s", lib.Z(a), lib.Z(b), kind, c18kit.CoqEvents(out)), js, kind == 0 && b-a >= 2 && a > math.MinInt64/2 && b < math.MaxInt64/2)
	cf.Count("range")
	if b <= a {
		cf.Count("range_empty")
	}
}

func rangeCase(a, b int64, cf *lib.CaseFile) {
	kind, out, note := runGuarded(
		func() (execution.Node, error) { return c18kit.Range(a, b) },
		func(n execution.Node) ([]lib.Event, error, interface{}) { return c18kit.RunLimited(n, nil, 1000) }) // every case has < 1000 values
	addRange(cf, a, b, kind, out, note, "constant bounds, one run")
}

// One materialized range node whose bounds are variables of the enclosing record, run once per outer
// record as a correlated subquery does:  SELECT (SELECT COUNT(*) FROM range(start => r.a, end => r.b)) FROM r.
func rangeRerunCase(r *lib.Rng, cf *lib.CaseFile) {
	var node execution.Node
	kind0, _, note0 := runGuarded(
		func() (execution.Node, error) { n, err := c18kit.RangeVar(); node = n; return n, err },
		func(n execution.Node) ([]lib.Event, error, interface{}) { return nil, nil, nil })
	for run, runs := 0, 2+r.Intn(3); run < runs; run++ {
		a, b := int64(r.Intn(41))-20, int64(r.Intn(41))-20
		if r.Chance(1, 12) {
			a, b = math.MaxInt64-int64(r.Intn(4)), math.MaxInt64
		}
		if node == nil {
			addRange(cf, a, b, kind0, nil, note0, "variable bounds, node could not be built")
			continue
		}
		outer := []octosql.Value{octosql.NewInt(a), octosql.NewInt(b), octosql.NewNull(), octosql.NewNull()}
		kind, out, note := runGuarded(
			func() (execution.Node, error) { return node, nil },
			func(n execution.Node) ([]lib.Event, error, interface{}) {
				return c18kit.RunInContext(n, outer, nil, 1000)
			})
		addRange(cf, a, b, kind, out, note, fmt.Sprintf("variable bounds, run %d of the same node", run+1))
		cf.Count("range_rerun")
	}
}

// One materialized poll node; with probability 1/3 it is run a second time over a new sequence of
// snapshots (nothing of the first run may survive in the node).
func pollCase(r *lib.Rng, cf *lib.CaseFile) {
	nfields := 1 + r.Intn(2)
	src := &c18kit.SnapshotSource{}
	interval := time.Duration(20+r.Intn(100)) * time.Microsecond
	var node execution.Node
	kind0, _, note0 := runGuarded(
		func() (execution.Node, error) { n, err := c18kit.Poll(src, nfields, interval); node = n; return n, err },
		func(n execution.Node) ([]lib.Event, error, interface{}) { return nil, nil, nil })
	passes := 1
	if r.Chance(1, 3) {
		passes = 2
	}
	for pass := 0; pass < passes; pass++ {
		*src = c18kit.SnapshotSource{}
		pollPass(r, cf, src, node, nfields, kind0, note0, pass)
	}
}

func pollPass(r *lib.Rng, cf *lib.CaseFile, src *c18kit.SnapshotSource, node execution.Node, nfields, kind0 int, note0 string, pass int) {
	rounds := r.Intn(5)
	withWM := r.Chance(1, 8)
	var coqRounds []string
	var jsRounds []interface{}
	for k := 0; k < rounds; k++ {
		var evs []lib.Event
		for j, nrows := 0, r.Intn(4); j < nrows; j++ {
			vals := make([]octosql.Value, nfields)
			for f := range vals {
				vals[f] = lib.GenValue(r, lib.SmallProfile, 0)
			}
			et := time.Time{}
			if r.Chance(1, 6) {
				et = time.Unix(0, int64(1+r.Intn(9))).UTC() // ignored by poll
			}
			evs = append(evs, lib.Event{Rec: execution.NewRecord(vals, r.Chance(1, 10), et)})
			if withWM && r.Chance(1, 3) {
				evs = append(evs, lib.Event{IsWM: true, WM: time.Unix(0, int64(1+r.Intn(9))).UTC()})
			}
		}
		src.Rounds = append(src.Rounds, evs)
		coqRounds = append(coqRounds, c18kit.CoqEvents(evs))
		jsRounds = append(jsRounds, c18kit.EventsJSON(evs))
	}
	var own []int // indices in out of poll's own watermarks
	kind, out, note := runGuarded(
		func() (execution.Node, error) {
			if node == nil {
				if kind0 == 2 {
					panic(note0)
				}
				return nil, fmt.Errorf("%s", note0)
			}
			return node, nil
		},
		func(n execution.Node) ([]lib.Event, error, interface{}) {
			o, e, p := c18kit.RunRecording(n, func(i int) {
				if src.Returned {
					src.Returned = false
					own = append(own, i)
				}
			})
			return o, e, p
		})
	// the clock as observed: the watermark poll sends at the end of each round; for the last (failing)
	// round the event time of the retractions it emits (when there are any)
	var nows []string
	last := time.Time{}
	for _, i := range own {
		nows = append(nows, c18kit.NsExact(out[i].WM))
		last = out[i].WM
	}
	final := last.Add(time.Nanosecond)
	if len(own) > 0 && own[len(own)-1]+1 < len(out) {
		if e := out[own[len(own)-1]+1]; !e.IsWM && e.Rec.EventTime.After(last) {
			final = e.Rec.EventTime
		}
	}
	if len(own) == 0 {
		final = time.Unix(0, 1).UTC()
	}
	nows = append(nows, c18kit.NsExact(final))
	js := map[string]interface{}{"tvf": "poll", "run_of_the_node": pass + 1, "rounds": jsRounds, "clock": nows, "kind": kind, "output": c18kit.EventsJSON(out), "note": note}
	idx := cf.Add(fmt.Sprintf("CPoll %s %s %d %s", lib.CoqList(nows), lib.CoqList(coqRounds), kind, c18kit.CoqEvents(out)), js,
		kind == 1 && rounds >= 2 && !withWM && len(out) > rounds+1)
	// the watermark that ends round k is the instant at which round k began: read after the source's run
	// k-1 ended and before its run k started (compared on the monotonic clock all these readings carry)
	if kind != 2 {
		if len(own) != rounds {
			cf.Violation(idx, fmt.Sprintf("poll sent %d watermarks of its own in %d rounds", len(own), rounds), "")
		}
		for k, i := range own {
			w := out[i].WM
			if k < len(src.Starts) && w.After(src.Starts[k]) {
				cf.Violation(idx, fmt.Sprintf("poll's watermark of round %d is later than the start of that round's source run", k), "")
			}
			if k > 0 && k-1 < len(src.Ends) && w.Before(src.Ends[k-1]) {
				cf.Violation(idx, fmt.Sprintf("poll's watermark of round %d is earlier than the end of round %d", k, k-1), "")
			}
		}
	}
	cf.Count("poll")
	if pass > 0 {
		cf.Count("poll_rerun")
	}
	cf.Count(fmt.Sprintf("poll_rounds_%d", rounds))
	cf.Count(fmt.Sprintf("poll_kind_%d", kind))
	if kind == 1 && !strings.Contains(note, lib.ErrInjected.Error()) {
		cf.Count("poll_other_error")
	}
}

func main() {
	f := lib.ParseFlags()
	if f.Cmd != "run" {
		fmt.Fprintln(os.Stderr, "c21: only 'run'")
		os.Exit(2)
	}
	rng := lib.NewRng(f.Seed)
	cf := lib.NewCaseFile("C21", f.Seed, f.Tier)
	cf.Imports = []string{"TVF"}
	cf.CaseType = "c21_case"
	cf.Checks = []lib.Check{{Name: "tie", Kind: "tie", Fn: "c21_tie"}, {Name: "spec", Kind: "spec", Fn: "c21_spec"}}
	cf.Side.Rule = "tumble: streams of 0..8 events (times near window boundaries around/before/far from the epoch, zero/NULL/extreme times, watermarks, retractions) x window_length " +
		"(1 ns..1 week, huge, 0, negative) x offset (0, +-, larger than the length, extreme); range: (start,end) in [-20,20]^2 (all of them at the thorough tier) plus int64 edge pairs; " +
		"poll: 0..4 rounds of 0..3 rows over a source that fails after the last round, clock read from poll's own watermarks; " +
		"tumble over a source whose schema has its own TimeField, with an explicit time_field naming another Time column (must win) or none (the source's is used); " +
		"re-runs: one materialized range / tumble node whose bounds / window_length and offset are variables of the enclosing record, run 2..4 times under different outer records " +
		"(correlated subquery) and over different inputs, and one poll node run twice — every run is a case compared with the model; " +
		"non-trivial = tumble with a record and a watermark and a positive length / range with >= 2 values / poll with >= 2 rounds and some rows; distinct by full case text"
	nt := f.Cases(170, 1700)
	for i := 0; i < nt; i++ {
		tumbleCase(rng.Fork(), cf)
	}
	if f.Tier == "thorough" {
		for a := int64(-20); a <= 20; a++ {
			for b := int64(-20); b <= 20; b++ {
				rangeCase(a, b, cf)
			}
		}
	} else {
		for i := 0; i < 100; i++ {
			r := rng.Fork()
			rangeCase(int64(r.Intn(41))-20, int64(r.Intn(41))-20, cf)
		}
	}
	for i, n := 0, f.Cases(40, 400); i < n; i++ {
		rangeRerunCase(rng.Fork(), cf)
	}
	for i, n := 0, f.Cases(30, 300); i < n; i++ {
		tumbleRerunCase(rng.Fork(), cf)
	}
	for i, n := 0, f.Cases(40, 400); i < n; i++ {
		tumbleTimedSourceCase(rng.Fork(), cf, i%4 != 3) // 3 of 4 with an explicit time_field, 1 of 4 with the implicit one
	}
	for _, p := range [][2]int64{{math.MaxInt64 - 3, math.MaxInt64}, {math.MinInt64, math.MinInt64 + 3}, {5, math.MinInt64}, {math.MaxInt64, math.MinInt64},
		{math.MaxInt64, math.MaxInt64}, {math.MaxInt64 - 1, math.MaxInt64}, {0, 0}, {-1, 1}, {math.MinInt64, math.MinInt64}} {
		rangeCase(p[0], p[1], cf)
	}
	np := 80
	if f.Tier == "thorough" {
		np = 600
	}
	for i := 0; i < np; i++ {
		pollCase(rng.Fork(), cf)
	}
	if err := cf.Write(f.Out); err != nil {
		fmt.Fprintln(os.Stderr, err)
		os.Exit(2)
	}
}
