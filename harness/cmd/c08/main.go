// c08: static types are sound.  Generated expressions over generated conforming rows: the REAL Typecheck, the static
// type it reports (physical.Expression.Type), in-process evaluation, value checked against the type on the Go side
// (exprh.Conforms: own structural matcher) and in the model (has_type); the typechecker model tc is compared with
// the physical expression the real typechecker produced.
package main

import (
	"context"
	"fmt"
	"os"
	"sort"
	"strings"
	"time"

	"github.com/cube2222/octosql/aggregates"
	"github.com/cube2222/octosql/execution"
	"github.com/cube2222/octosql/logical"
	"github.com/cube2222/octosql/octosql"
	"github.com/cube2222/octosql/physical"

	"verifharness/cmd/c11/exprh"
	"verifharness/lib"
)

// lx: a logical expression that renders both to logical.Expression and to Model/ExprTc.v's lexpr.
type lx struct {
	op   string // const var and or call coalesce cast
	val  octosql.Value
	idx  int
	name string
	id   octosql.TypeID
	args []*lx
}

func (x *lx) logical(env *exprh.Env) logical.Expression {
	as := make([]logical.Expression, len(x.args))
	for i := range x.args {
		as[i] = x.args[i].logical(env)
	}
	switch x.op {
	case "const":
		return logical.NewConstant(x.val)
	case "var":
		return env.Var(x.idx)
	case "and":
		return logical.NewAnd(as[0], as[1])
	case "or":
		return logical.NewOr(as[0], as[1])
	case "call":
		return logical.NewFunctionExpression(x.name, as)
	case "coalesce":
		return logical.NewCoalesce(as)
	case "cast":
		return logical.NewTypeCast(as[0], x.id)
	}
	panic("lx")
}

func (x *lx) coq() string {
	as := make([]string, len(x.args))
	for i := range x.args {
		as[i] = x.args[i].coq()
	}
	list := "[" + strings.Join(as, "; ") + "]"
	switch x.op {
	case "const":
		return "(LConst " + exprh.CoqValue(x.val) + ")"
	case "var":
		return fmt.Sprintf("(LVar %d)", x.idx)
	case "and":
		return "(LAnd " + as[0] + " " + as[1] + ")"
	case "or":
		return "(LOr " + as[0] + " " + as[1] + ")"
	case "call":
		return "(LCall " + exprh.CoqString(x.name) + "%string " + list + ")"
	case "coalesce":
		return "(LCoalesce " + list + ")"
	case "cast":
		return fmt.Sprintf("(LCast %s %d)", as[0], int(x.id))
	}
	panic("lx")
}

func (x *lx) String() string {
	as := make([]string, len(x.args))
	for i := range x.args {
		as[i] = x.args[i].String()
	}
	switch x.op {
	case "const":
		return x.val.String()
	case "var":
		return fmt.Sprintf("c%d", x.idx)
	case "and":
		return "(" + as[0] + " AND " + as[1] + ")"
	case "or":
		return "(" + as[0] + " OR " + as[1] + ")"
	case "call":
		return x.name + "(" + strings.Join(as, ", ") + ")"
	case "coalesce":
		return "COALESCE(" + strings.Join(as, ", ") + ")"
	}
	return fmt.Sprintf("CAST(%s AS %s)", as[0], x.id.String())
}

func (x *lx) usesCall(name string) bool {
	if x.op == "call" && x.name == name {
		return true
	}
	for _, a := range x.args {
		if a.usesCall(name) {
			return true
		}
	}
	return false
}

func v(i int) *lx             { return &lx{op: "var", idx: i} }
func c(val octosql.Value) *lx { return &lx{op: "const", val: val} }
func call(n string, as ...*lx) *lx {
	if n == "*" {
		for _, a := range as {
			if a.op == "const" {
				vs := []octosql.Value{a.val}
				exprh.ClampRepeatCounts(vs)
				a.val = vs[0]
			}
		}
	}
	return &lx{op: "call", name: n, args: as}
}

var numericStrings = exprh.NumericStrings

// genConforming draws a value admitted by t; strings are numeric-looking half of the time (int('x'), float('1e5') ...)
func genConforming(r *lib.Rng, t octosql.Type) octosql.Value {
	val := exprh.GenOfType(r, t, true)
	if val.TypeID == octosql.TypeIDString && r.Chance(1, 2) {
		return octosql.NewString(numericStrings[r.Intn(len(numericStrings))])
	}
	return val
}

type engine struct{ cf *lib.CaseFile }

// addCase typechecks x over the column types, evaluates on nrows conforming rows, records everything.
func (g *engine) addCase(r *lib.Rng, types []octosql.Type, x *lx, family string, nrows int) {
	g.addCaseRows(r, types, x, family, nrows, 0)
}

// addCaseRows: edge > 0 prepends `edge` systematic edge rows (exprh.EdgeRows; -1 = all of them) to the nrows random rows.
func (g *engine) addCaseRows(r *lib.Rng, types []octosql.Type, x *lx, family string, nrows int, edge int) {
	cf := g.cf
	env := exprh.NewEnv(types)
	envCoq := exprh.Stys(types)
	leCoq := "None"
	inFragment := true
	for _, t := range types {
		inFragment = inFragment && exprh.Flat(t)
	}
	if inFragment {
		leCoq = "(Some " + x.coq() + ")"
	}
	js := map[string]interface{}{"family": family, "expr": x.String()}
	colTypes := make([]string, len(types))
	for i, t := range types {
		colTypes[i] = t.String()
	}
	js["column_types"] = colTypes
	pe, msg, panicked := env.Typecheck(x.logical(env))
	if panicked {
		js["typecheck"] = "panic: " + msg
		cf.Add(fmt.Sprintf("(C8 %s %s (TcPanic 0) [])", envCoq, leCoq), js, false)
		cf.Count("typecheck:rejected")
		cf.Count("family:" + family)
		return
	}
	peCoq, err := env.CoqPexpr(pe)
	if err != nil {
		cf.Count("skipped_outside_fragment:" + family)
		return
	}
	js["typechecked"] = exprh.PexprString(pe)
	js["static_type"] = pe.Type.String()
	ex, merr, mp := env.Materialize(pe)
	if merr != nil || mp != nil {
		idx := cf.Add(fmt.Sprintf("(C8 %s %s (TcOk %s) [])", envCoq, leCoq, peCoq), js, false)
		cf.Violation(idx, fmt.Sprintf("Materialize failed: %v %v", merr, mp), "")
		return
	}
	var runs []string
	var runsJS []interface{}
	type bad struct {
		what string
	}
	var bads []bad
	nullSeen, valueSeen := false, false
	clock := x.usesCall("now")
	repeats := x.usesCall("*")
	var fixedRows [][]octosql.Value
	if edge != 0 && len(types) > 0 {
		n := edge
		if n < 0 {
			n = 0
		}
		fixedRows = exprh.EdgeRows(types, n)
	}
	for k := 0; k < len(fixedRows)+nrows; k++ {
		row := make([]octosql.Value, len(types))
		if k < len(fixedRows) {
			copy(row, fixedRows[k])
		} else {
			for i, t := range types {
				row[i] = genConforming(r, t)
			}
		}
		if repeats {
			exprh.ClampRepeatCounts(row)
		}
		if env.RepeatHazard(pe, [][]octosql.Value{row}) {
			cf.Count("skipped_repeat_hazard")
			continue
		}
		exprh.StartRecording()
		obs := exprh.Eval(ex, [][]octosql.Value{row})
		calls := exprh.StopRecording()
		runsJS = append(runsJS, map[string]interface{}{"row": lib.ValuesJSON(row), "observed": obs.JSON()})
		if obs.Kind == 0 {
			valueSeen = true
			if obs.Val.TypeID == octosql.TypeIDNull {
				nullSeen = true
			}
			if !exprh.Conforms(obs.Val, pe.Type) {
				bads = append(bads, bad{fmt.Sprintf("expression %s has static type %s but evaluated to %s (TypeID %s) on row %v",
					exprh.PexprString(pe), pe.Type.String(), obs.Val.String(), obs.Val.TypeID.String(), rowString(row))})
			}
			cf.Count("value:" + obs.Val.TypeID.String())
		} else if obs.Kind == 1 {
			cf.Count(fmt.Sprintf("error_class_%d", obs.Class))
		} else {
			cf.Count("panic")
		}
		if clock && obs.Kind == 0 {
			continue // reads the wall clock: checked against its type above, not replayed in the model
		}
		runs = append(runs, fmt.Sprintf("(%s, %s, %s)", exprh.CoqFrames([][]octosql.Value{row}), exprh.CoqCalls(calls), obs.Coq()))
	}
	js["runs"] = runsJS
	idx := cf.Add(fmt.Sprintf("(C8 %s %s (TcOk %s) [%s])", envCoq, leCoq, peCoq, strings.Join(runs, "; ")), js, valueSeen)
	for _, b := range bads {
		cf.Violation(idx, b.what, "")
	}
	cf.Count("family:" + family)
	cf.Count("typecheck:ok")
	if nullSeen {
		cf.Count("cases_with_null_result")
	}
	if pe.ExpressionType == physical.ExpressionTypeFunctionCall {
		cf.Count("root_function:" + pe.FunctionCall.Name)
	}
}

func rowString(row []octosql.Value) string {
	parts := make([]string, len(row))
	for i := range row {
		parts[i] = row[i].String()
	}
	return "[" + strings.Join(parts, ", ") + "]"
}

// descriptorSweep: every descriptor of FunctionMap(), arguments = columns typed (a) exactly as declared,
// (b) declared | NULL, (c) declared | another kind (| NULL): the Maybe pass with type assertions.
func (g *engine) descriptorSweep(rng *lib.Rng, reps int) {
	rows := exprh.Table(exprh.FunctionMap())
	cands := exprh.CandidateTypes()
	for _, row := range rows {
		var vectors [][]octosql.Type
		if row.Desc.TypeFn == nil {
			vectors = [][]octosql.Type{append([]octosql.Type{}, row.Desc.ArgumentTypes...)}
		} else {
			for _, a := range cands {
				if _, ok := row.Desc.TypeFn([]octosql.Type{a}); ok {
					vectors = append(vectors, []octosql.Type{a})
				}
				for _, b := range cands {
					if _, ok := row.Desc.TypeFn([]octosql.Type{a, b}); ok {
						vectors = append(vectors, []octosql.Type{a, b})
					}
				}
			}
		}
		if len(vectors) == 0 {
			g.cf.Count("typefn_descriptor_without_candidate_arguments:" + row.Name)
			continue
		}
		for rep := 0; rep < reps; rep++ {
			for mode := 0; mode < 3; mode++ {
				r := rng.Fork()
				vec := vectors[r.Intn(len(vectors))]
				types := make([]octosql.Type, len(vec))
				args := make([]*lx, len(vec))
				for i, t := range vec {
					if t.TypeID == octosql.TypeIDAny {
						t = exprh.ScalarTypes[1+r.Intn(6)]
					}
					switch mode {
					case 1:
						t = octosql.TypeSum(t, octosql.Null)
					case 2:
						other := exprh.ScalarTypes[1+r.Intn(6)]
						t = octosql.TypeSum(t, other)
						if r.Bool() {
							t = octosql.TypeSum(t, octosql.Null)
						}
					}
					types[i] = t
					args[i] = v(i)
				}
				if mode == 0 {
					// exactly-typed columns: every edge value of every argument kind (NaN, +-Inf, -0, MinInt64, non-numeric strings ...)
					g.addCaseRows(r, types, call(row.Name, args...), "descriptor_mode0", 2, -1)
				} else {
					g.addCaseRows(r, types, call(row.Name, args...), fmt.Sprintf("descriptor_mode%d", mode), 4, 4)
				}
			}
			// one argument whose static type is exactly NULL (the literal; a column that was null in every record) or Any
			for _, vec := range vectors {
				for pos := range vec {
					for _, typing := range []string{"null_literal", "null_column", "any_column"} {
						r := rng.Fork()
						types := make([]octosql.Type, len(vec))
						args := make([]*lx, len(vec))
						for i, t := range vec {
							if t.TypeID == octosql.TypeIDAny {
								t = exprh.ScalarTypes[1+r.Intn(6)]
							}
							types[i] = t
							args[i] = v(i)
							if i == pos {
								switch typing {
								case "null_literal":
									types[i] = octosql.Null
									args[i] = c(octosql.NewNull())
								case "null_column":
									types[i] = octosql.Null
								case "any_column":
									types[i] = octosql.Any
								}
							}
						}
						g.addCaseRows(r, types, call(row.Name, args...), "descriptor_"+typing, 2, 6)
					}
				}
				if row.Desc.TypeFn != nil {
					break // one candidate vector is enough for the TypeFn descriptors here
				}
			}
		}
	}
}

// structuralSweep: AND / OR / NOT / COALESCE / CAST over every combination of operand typings (what decides their
// static type is only whether operands admit NULL / which alternatives they have).
func (g *engine) structuralSweep(rng *lib.Rng) {
	B, N := octosql.Boolean, octosql.Null
	bn := octosql.TypeSum(B, N)
	operandTypes := []octosql.Type{B, bn, octosql.TypeSum(bn, octosql.Int), octosql.TypeSum(B, octosql.Int), octosql.TypeSum(bn, octosql.String)}
	operand := func(k, col int, types *[]octosql.Type) *lx {
		switch k {
		case len(operandTypes):
			return c(octosql.NewNull())
		case len(operandTypes) + 1:
			return c(octosql.NewBoolean(true))
		}
		*types = append(*types, operandTypes[k])
		return v(len(*types) - 1)
	}
	for a := 0; a < len(operandTypes)+2; a++ {
		for b := 0; b < len(operandTypes)+2; b++ {
			for _, op := range []string{"and", "or"} {
				var types []octosql.Type
				l := operand(a, 0, &types)
				r := operand(b, 1, &types)
				g.addCase(rng.Fork(), types, &lx{op: op, args: []*lx{l, r}}, "structural_"+op, 6)
			}
		}
		if a < len(operandTypes) {
			var types []octosql.Type
			g.addCase(rng.Fork(), types0(operandTypes[a]), call("not", v(0)), "structural_not", 6)
			_ = types
		}
	}
	// COALESCE over pairs / triples of column typings, CAST of every union column to every scalar kind
	cols := []octosql.Type{octosql.Int, octosql.TypeSum(octosql.Int, N), octosql.TypeSum(octosql.String, N), octosql.String,
		octosql.TypeSum(octosql.Int, octosql.String), octosql.TypeSum(octosql.TypeSum(octosql.Int, octosql.Float), N), octosql.TypeSum(octosql.Duration, N)}
	for i := range cols {
		g.addCase(rng.Fork(), []octosql.Type{cols[i]}, &lx{op: "coalesce", args: []*lx{v(0)}}, "structural_coalesce", 4)
		for j := range cols {
			g.addCase(rng.Fork(), []octosql.Type{cols[i], cols[j]}, &lx{op: "coalesce", args: []*lx{v(0), v(1)}}, "structural_coalesce", 4)
			g.addCase(rng.Fork(), []octosql.Type{cols[i], cols[j]}, &lx{op: "coalesce", args: []*lx{v(0), v(1), c(octosql.NewInt(0))}}, "structural_coalesce", 4)
		}
		for k := 1; k <= 6; k++ {
			g.addCase(rng.Fork(), []octosql.Type{cols[i]}, &lx{op: "cast", id: octosql.TypeID(k), args: []*lx{v(0)}}, "structural_cast", 4)
		}
	}
}

func types0(t octosql.Type) []octosql.Type { return []octosql.Type{t} }

// compositionSweep: outer(inner(columns...), columns...) over exactly-typed columns holding edge values: function results
// (non-finite floats out of sqrt / log / division, NULLs out of failed parses, huge ints ...) feeding other functions.
func (g *engine) compositionSweep(rng *lib.Rng, sample int, rows int) {
	comps := exprh.Compositions(exprh.Table(exprh.FunctionMap()))
	g.cf.Side.Distribution["composition_pairs_total"] = len(comps)
	for ci, comp := range comps {
		r := rng.Fork()
		if sample > 1 && ci%sample != int(r.U64()%uint64(sample)) {
			continue
		}
		var types []octosql.Type
		concrete := func(t octosql.Type) octosql.Type {
			if t.TypeID == octosql.TypeIDAny {
				return exprh.ScalarTypes[1+r.Intn(6)]
			}
			return t
		}
		inner := make([]*lx, len(comp.Inner.Desc.ArgumentTypes))
		for i, t := range comp.Inner.Desc.ArgumentTypes {
			inner[i] = v(len(types))
			types = append(types, concrete(t))
		}
		outer := make([]*lx, len(comp.Outer.Desc.ArgumentTypes))
		for i, t := range comp.Outer.Desc.ArgumentTypes {
			if i == comp.Pos {
				outer[i] = call(comp.Inner.Name, inner...)
				continue
			}
			outer[i] = v(len(types))
			types = append(types, concrete(t))
		}
		g.addCaseRows(r, types, call(comp.Outer.Name, outer...), "composition", 1, rows)
	}
}

// ---- query slice: GROUP BY with every aggregate, typechecked and run in-process; every produced value is checked
// against the schema the typechecked plan reports (what --describe prints) ----

type memSource struct {
	fields  []physical.SchemaField
	mapping map[string]string
	records []execution.Record
}

func (m *memSource) Typecheck(ctx context.Context, env physical.Environment, logicalEnv logical.Environment) (physical.Node, map[string]string) {
	return physical.Node{
		Schema:          physical.NewSchema(m.fields, -1),
		NodeType:        physical.NodeTypeInMemoryRecords,
		InMemoryRecords: &physical.InMemoryRecords{Records: m.records},
	}, m.mapping
}

func (g *engine) aggregateSlice(rng *lib.Rng, reps int) {
	var names []string
	for n := range aggregates.Aggregates {
		names = append(names, n)
	}
	sort.Strings(names)
	N := octosql.Null
	inputTypes := []octosql.Type{octosql.Int, octosql.Float, octosql.Duration, octosql.Time, octosql.String, octosql.Boolean}
	for _, name := range names {
		for _, base := range inputTypes {
			// static typing of the aggregated column: T, T | NULL, T | other | NULL (Maybe pass), exactly NULL
			typings := []octosql.Type{base, octosql.TypeSum(base, N), octosql.TypeSum(octosql.TypeSum(base, N), octosql.String), N}
			for ti, xt := range typings {
				for _, trigger := range []string{"end_of_stream", "counting"} {
					for rep := 0; rep < reps; rep++ {
						g.aggregateCase(rng.Fork(), name, base, xt, ti, trigger)
					}
				}
			}
		}
	}
}

func (g *engine) aggregateCase(r *lib.Rng, name string, base, xt octosql.Type, typing int, trigger string) {
	cf := g.cf
	fields := []physical.SchemaField{{Name: "t.k_0", Type: octosql.Int}, {Name: "t.x_0", Type: xt}}
	mapping := map[string]string{"t.k": "t.k_0", "t.x": "t.x_0"}
	nullable := octosql.Null.Is(xt) == octosql.TypeRelationIs
	// groups: 0 = every aggregated value NULL (when the type allows), 1 = mixed, 2 = no NULL, 3 = a single record
	var recs []execution.Record
	var rowsJS []interface{}
	add := func(k int64, x octosql.Value) {
		recs = append(recs, execution.NewRecord([]octosql.Value{octosql.NewInt(k), x}, false, time.Time{}))
		rowsJS = append(rowsJS, lib.ValuesJSON([]octosql.Value{octosql.NewInt(k), x}))
	}
	val := func() octosql.Value {
		if xt.TypeID == octosql.TypeIDNull {
			return octosql.NewNull()
		}
		return exprh.GenOfType(r, base, false)
	}
	if nullable {
		for i := 0; i < 1+r.Intn(3); i++ {
			add(0, octosql.NewNull())
		}
		for i := 0; i < 2+r.Intn(3); i++ {
			if r.Bool() {
				add(1, octosql.NewNull())
			} else {
				add(1, val())
			}
		}
		add(1, octosql.NewNull())
	}
	for i := 0; i < 1+r.Intn(4); i++ {
		add(2, val())
	}
	add(3, val())
	src := &memSource{fields: fields, mapping: mapping, records: recs}
	var triggers []logical.Trigger
	if trigger == "counting" {
		triggers = []logical.Trigger{logical.NewCountingTrigger(1)}
	}
	gb := logical.NewGroupBy(src, []logical.Expression{logical.NewVariable("t.k")}, []string{"k"},
		[]logical.Expression{logical.NewVariable("t.x")}, []string{name}, []string{name + "_x"}, triggers)
	env := physical.Environment{Aggregates: aggregates.Aggregates, Functions: exprh.FunctionMap()}
	logEnv := logical.Environment{UniqueNameGenerator: map[string]int{}}
	js := map[string]interface{}{"family": "aggregate", "query": fmt.Sprintf("SELECT k, %s(x) FROM t GROUP BY k  [trigger %s]", name, trigger),
		"x_type": xt.String(), "records": rowsJS}
	var node physical.Node
	var tcPanic interface{}
	func() {
		defer func() { tcPanic = recover() }()
		node, _ = gb.Typecheck(context.Background(), env, logEnv)
	}()
	if tcPanic != nil {
		cf.Count("aggregate:typecheck_rejected")
		return
	}
	schemaTypes := make([]octosql.Type, len(node.Schema.Fields))
	described := make([]string, len(node.Schema.Fields))
	for i, f := range node.Schema.Fields {
		schemaTypes[i] = f.Type
		described[i] = f.Type.String()
	}
	js["described_types"] = described
	var exNode execution.Node
	var merr error
	var mp interface{}
	func() {
		defer func() { mp = recover() }()
		exNode, merr = node.Materialize(context.Background(), env)
	}()
	if merr != nil || mp != nil {
		cf.Count("aggregate:materialize_failed")
		return
	}
	out, runErr, runPanic := lib.RunNode(exNode)
	var rows []string
	var outJS []interface{}
	var bads []string
	nullOut := false
	for _, e := range out {
		if e.IsWM {
			continue
		}
		rows = append(rows, exprh.CoqValues(e.Rec.Values))
		outJS = append(outJS, lib.ValuesJSON(e.Rec.Values))
		for i, val := range e.Rec.Values {
			if i < len(schemaTypes) && !exprh.Conforms(val, schemaTypes[i]) {
				bads = append(bads, fmt.Sprintf("%s over x : %s [trigger %s]: output column %d is described as %s but a record holds %s (TypeID %s); input records (k, x): %v",
					name, xt.String(), trigger, i, schemaTypes[i].String(), val.String(), val.TypeID.String(), rowsJS))
			}
			if i == 1 && val.TypeID == octosql.TypeIDNull {
				nullOut = true
			}
		}
	}
	js["produced"] = outJS
	if runErr != nil {
		js["error"] = runErr.Error()
		cf.Count("aggregate:run_error")
	}
	if runPanic != nil {
		js["panic"] = fmt.Sprint(runPanic)
		cf.Count("aggregate:run_panic")
	}
	idx := cf.Add(fmt.Sprintf("(C8Q %s [%s])", exprh.Stys(schemaTypes), strings.Join(rows, "; ")), js, len(rows) > 0)
	for _, b := range bads {
		cf.Violation(idx, b, "")
	}
	cf.Count("family:aggregate")
	cf.Count(fmt.Sprintf("aggregate:x_typing_%d", typing))
	if nullOut {
		cf.Count("aggregate:null_result_groups")
	}
}

// ---- structured values: objects, lists of objects, tuples.  Field access (on columns whose object fields are NOT in
// alphabetical order too, and on objects built by multi-column subquery expressions in SELECT order), COALESCE over
// objects / lists / tuples whose nested shapes differ, list indexing, tuple construction.  Outside the Coq expression
// fragment: typechecked, materialised and evaluated by the real code; every value is checked against the full static
// type (element and field types, recursively) by exprh.Conforms and by `conforms` in Coq (C8S cases). ----

type objCase struct {
	class string // known-finding class the case falls in ("" = none)
	what  string
	types []octosql.Type
	build func(env *exprh.Env) logical.Expression
}

func (g *engine) objectCase(r *lib.Rng, oc objCase, nrows int) {
	cf := g.cf
	env := exprh.NewEnv(oc.types)
	js := map[string]interface{}{"family": "objects", "expr": oc.what}
	colTypes := make([]string, len(oc.types))
	for i, t := range oc.types {
		colTypes[i] = t.String()
	}
	js["column_types"] = colTypes
	pe, msg, panicked := env.Typecheck(oc.build(env))
	if panicked {
		cf.Count("objects:typecheck_rejected")
		_ = msg
		return
	}
	js["static_type"] = pe.Type.String()
	ex, merr, mp := env.Materialize(pe)
	if merr != nil || mp != nil {
		cf.Count("objects:materialize_failed")
		return
	}
	rows := exprh.EdgeRows(oc.types, 6)
	for k := 0; k < nrows; k++ {
		row := make([]octosql.Value, len(oc.types))
		for i, t := range oc.types {
			row[i] = exprh.GenOfType(r, t, true)
		}
		rows = append(rows, row)
	}
	if len(oc.types) == 0 {
		rows = [][]octosql.Value{{}}
	}
	var vals []string
	var runsJS []interface{}
	var bads []string
	for _, row := range rows {
		obs := exprh.Eval(ex, [][]octosql.Value{row})
		runsJS = append(runsJS, map[string]interface{}{"row": lib.ValuesJSON(row), "observed": obs.JSON()})
		switch obs.Kind {
		case 0:
			vals = append(vals, exprh.CoqValue(obs.Val))
			cf.Count("objects:value_" + obs.Val.TypeID.String())
			if !exprh.Conforms(obs.Val, pe.Type) {
				bads = append(bads, fmt.Sprintf("%s over columns %v has static type %s but evaluated to %s on row %s",
					oc.what, colTypes, pe.Type.String(), obs.Val.String(), rowString(row)))
			}
		case 1:
			cf.Count("objects:error")
		default:
			cf.Count("objects:panic")
		}
	}
	js["runs"] = runsJS
	idx := cf.Add(fmt.Sprintf("(C8S %s [%s])", exprh.Dty(pe.Type), strings.Join(vals, "; ")), js, len(vals) > 0)
	for _, b := range bads {
		cf.Violation(idx, b, oc.class)
	}
	if oc.class != "" {
		cf.SetClass(idx, oc.class)
		cf.Count("objects:in_class_" + oc.class)
	}
	cf.Count("family:objects")
	cf.Count("objects:" + strings.SplitN(oc.what, " ", 2)[0])
}

func (g *engine) objectSlice(rng *lib.Rng, nrows int) {
	N := octosql.Null
	I, F, S, B := octosql.Int, octosql.Float, octosql.String, octosql.Boolean
	st := func(names string, ts ...octosql.Type) octosql.Type {
		return exprh.StructOf(strings.Split(names, ","), ts)
	}
	nullable := func(t octosql.Type) octosql.Type { return octosql.TypeSum(t, N) }
	var cases []objCase
	access := func(obj func(*exprh.Env) logical.Expression, fields ...string) func(*exprh.Env) logical.Expression {
		return func(env *exprh.Env) logical.Expression {
			x := obj(env)
			for _, f := range fields {
				x = logical.NewObjectFieldAccess(x, f)
			}
			return x
		}
	}
	col := func(i int) func(*exprh.Env) logical.Expression {
		return func(env *exprh.Env) logical.Expression { return env.Var(i) }
	}

	// 1. field access on object columns: sorted and unsorted field orders, nested, nullable, union with a scalar
	inner := st("y,x", S, I)
	structs := []struct {
		t      octosql.Type
		fields [][]string
	}{
		{st("a,b", I, S), [][]string{{"a"}, {"b"}}},
		{st("b,a", S, F), [][]string{{"a"}, {"b"}}},
		{st("c,a,b", B, nullable(F), inner), [][]string{{"a"}, {"b"}, {"c"}, {"b", "x"}, {"b", "y"}}},
		{st("z,m,a,k", I, S, F, nullable(exprh.ListOf(I))), [][]string{{"z"}, {"m"}, {"a"}, {"k"}}},
	}
	for _, sc := range structs {
		for ti, ct := range []octosql.Type{sc.t, nullable(sc.t), octosql.TypeSum(nullable(sc.t), I)} {
			for _, fs := range sc.fields {
				class := ""
				if ti == 2 && fs[0] != sc.t.Struct.Fields[0].Name {
					// finding on main (fix c9d25fa pending): the object sits in a union with another non-NULL alternative
					// and the accessed field is not the object's first field
					class = "field-access-object-in-wider-union"
				}
				cases = append(cases, objCase{class: class, what: fmt.Sprintf("field_access c0->%s  (column typing %d)", strings.Join(fs, "->"), ti),
					types: []octosql.Type{ct}, build: access(col(0), fs...)})
			}
		}
	}

	// 2. objects built by multi-column subquery expressions keep SELECT order: (SELECT ... )[i]->field
	for _, order := range [][]string{{"b", "a"}, {"a", "b"}, {"name", "id", "age"}, {"id", "age", "name"}} {
		order := order
		ftypes := map[string]octosql.Type{"a": F, "b": S, "name": S, "id": F, "age": nullable(I)}
		mk := func() *memSource {
			var fields []physical.SchemaField
			mapping := map[string]string{}
			for _, n := range order {
				fields = append(fields, physical.SchemaField{Name: "sub." + n + "_0", Type: ftypes[n]})
				mapping[n] = "sub." + n + "_0"
			}
			r := rng.Fork()
			var recs []execution.Record
			for k := 0; k < 3; k++ {
				vs := make([]octosql.Value, len(order))
				for i, n := range order {
					vs[i] = exprh.GenOfType(r, ftypes[n], true)
				}
				recs = append(recs, execution.NewRecord(vs, false, time.Time{}))
			}
			return &memSource{fields: fields, mapping: mapping, records: recs}
		}
		q := func(*exprh.Env) logical.Expression { return logical.NewQueryExpression(mk()) }
		cases = append(cases, objCase{what: "subquery (SELECT " + strings.Join(order, ", ") + ")", build: q})
		for _, idx := range []int64{0, 2, 7} {
			idx := idx
			at := func(env *exprh.Env) logical.Expression {
				return logical.NewFunctionExpression("[]", []logical.Expression{q(env), logical.NewConstant(octosql.NewInt(idx))})
			}
			cases = append(cases, objCase{what: fmt.Sprintf("subquery (SELECT %s)[%d]", strings.Join(order, ", "), idx), build: at})
			for _, f := range order {
				cases = append(cases, objCase{what: fmt.Sprintf("subquery (SELECT %s)[%d]->%s", strings.Join(order, ", "), idx, f), build: access(at, f)})
			}
		}
	}

	// 3. COALESCE over objects / lists of objects / tuples of objects whose shapes differ at some depth
	small, big := st("x", F), st("x,y", F, nullable(S))
	pairs := [][2]octosql.Type{
		{st("p,q", small, S), st("p,q", big, S)}, // same top-level names, nested object differs
		{st("p,q", big, S), st("p,q", small, S)},
		{exprh.ListOf(small), exprh.ListOf(big)},                             // lists of objects
		{st("l,q", exprh.ListOf(small), S), st("l,q", exprh.ListOf(big), S)}, // object holding a list of objects
		{st("a", I), st("b", S)},                                             // disjoint fields
		{st("a,b", I, S), st("b,a", S, I)},                                   // same fields, other order
		{st("a,b", I, S), st("a,b,c", I, S, B)},                              // one more field
		{st("p", st("q", small)), st("p", st("q", big))},                     // difference two levels down
		{exprh.TupleOf(small, I), exprh.TupleOf(big, I)},                     // tuples of objects
		{st("a", I), I}, // object or scalar
	}
	for pi, pr := range pairs {
		for _, firstNullable := range []bool{false, true} {
			for _, swap := range []bool{false, true} {
				a, b := pr[0], pr[1]
				if swap {
					a, b = b, a
				}
				t0 := a
				if firstNullable {
					t0 = nullable(a)
				}
				cases = append(cases, objCase{what: fmt.Sprintf("coalesce pair %d (first nullable %v, swapped %v): COALESCE(c0, c1)", pi, firstNullable, swap),
					types: []octosql.Type{t0, b},
					build: func(env *exprh.Env) logical.Expression {
						return logical.NewCoalesce([]logical.Expression{env.Var(0), env.Var(1)})
					}})
			}
		}
		// and the nested field of the coalesced object, where there is one
		if pi <= 1 {
			cases = append(cases, objCase{what: fmt.Sprintf("coalesce pair %d then ->p->x", pi), types: []octosql.Type{nullable(pr[0]), pr[1]},
				build: access(func(env *exprh.Env) logical.Expression {
					return logical.NewCoalesce([]logical.Expression{env.Var(0), env.Var(1)})
				}, "p", "x")})
		}
	}

	// 4. list indexing and tuples
	for _, lt := range []octosql.Type{exprh.ListOf(st("b,a", S, F)), exprh.ListOf(nullable(I)), nullable(exprh.ListOf(S)), exprh.ListOf(exprh.ListOf(I))} {
		for _, idx := range []int64{0, 1, 3} {
			idx := idx
			cases = append(cases, objCase{what: fmt.Sprintf("index c0[%d]", idx), types: []octosql.Type{lt},
				build: func(env *exprh.Env) logical.Expression {
					return logical.NewFunctionExpression("[]", []logical.Expression{env.Var(0), logical.NewConstant(octosql.NewInt(idx))})
				}})
		}
		cases = append(cases, objCase{what: "index c0[c1]", types: []octosql.Type{lt, nullable(I)},
			build: func(env *exprh.Env) logical.Expression {
				return logical.NewFunctionExpression("[]", []logical.Expression{env.Var(0), env.Var(1)})
			}})
	}
	for _, tt := range [][]octosql.Type{{I, S}, {nullable(I), st("b,a", S, F)}, {F}} {
		tt := tt
		cases = append(cases, objCase{what: "tuple (c0, ...)", types: tt,
			build: func(env *exprh.Env) logical.Expression {
				as := make([]logical.Expression, len(tt))
				for i := range as {
					as[i] = env.Var(i)
				}
				return logical.NewTuple(as)
			}})
	}
	for _, oc := range cases {
		g.objectCase(rng.Fork(), oc, nrows)
	}
}

// ---- random expressions ----
var columnPool = []octosql.Type{
	octosql.Int, octosql.TypeSum(octosql.Int, octosql.Null), octosql.TypeSum(octosql.Float, octosql.Null), octosql.Boolean,
	octosql.TypeSum(octosql.Boolean, octosql.Null), octosql.String, octosql.TypeSum(octosql.String, octosql.Null),
	octosql.TypeSum(octosql.Time, octosql.Null), octosql.TypeSum(octosql.Duration, octosql.Null), octosql.Duration,
	octosql.TypeSum(octosql.Int, octosql.String), octosql.TypeSum(octosql.TypeSum(octosql.Int, octosql.Float), octosql.Null),
	octosql.TypeSum(octosql.TypeSum(octosql.Boolean, octosql.Int), octosql.Null), octosql.Float,
}

var scalarFns = []string{"=", "!=", "<", "<=", ">", ">=", "is null", "is not null", "not", "+", "-", "*", "/", "abs", "int", "float",
	"string", "len", "upper", "lower", "position", "substr", "replace", "sqrt", "floor", "ceil", "time_to_unix", "time_from_unix",
	"like", "parse_time", "reverse", "pow", "log2"}

func constOfKind(r *lib.Rng, k octosql.TypeID) *lx {
	if k == octosql.TypeIDString && r.Chance(1, 2) {
		return c(octosql.NewString(numericStrings[r.Intn(len(numericStrings))]))
	}
	return c(exprh.GenOfType(r, octosql.Type{TypeID: k}, true))
}

// genExpr: mostly type-directed (want = a TypeID the result should admit, or -1), sometimes arbitrary
func genExpr(r *lib.Rng, types []octosql.Type, want int, depth int) *lx {
	leaf := func() *lx {
		var fits []int
		for i, t := range types {
			ids, any := exprh.Kinds(t)
			for _, k := range ids {
				if any || want < 0 || k == want {
					fits = append(fits, i)
					break
				}
			}
		}
		if len(fits) > 0 && r.Chance(3, 4) {
			return v(fits[r.Intn(len(fits))])
		}
		if want >= 0 && r.Chance(5, 6) {
			return constOfKind(r, octosql.TypeID(want))
		}
		if r.Chance(1, 8) {
			return c(octosql.NewNull())
		}
		return constOfKind(r, octosql.TypeID(1+r.Intn(6)))
	}
	if depth <= 0 || r.Chance(1, 5) {
		return leaf()
	}
	sub := func(w int) *lx { return genExpr(r, types, w, depth-1) }
	I, F, B, S, D := int(octosql.TypeIDInt), int(octosql.TypeIDFloat), int(octosql.TypeIDBoolean), int(octosql.TypeIDString), int(octosql.TypeIDDuration)
	T := int(octosql.TypeIDTime)
	switch {
	case want == B || (want < 0 && r.Chance(1, 3)):
		switch r.Intn(8) {
		case 0:
			return &lx{op: "and", args: []*lx{sub(B), sub(B)}}
		case 1:
			return &lx{op: "or", args: []*lx{sub(B), sub(B)}}
		case 2:
			return call("not", sub(B))
		case 3:
			return call([]string{"is null", "is not null"}[r.Intn(2)], sub(-1))
		case 4:
			return call("like", sub(S), sub(S))
		default:
			k := []int{I, F, S, B, D, T}[r.Intn(6)]
			return call([]string{"=", "!=", "<", "<=", ">", ">="}[r.Intn(6)], sub(k), sub(k))
		}
	case want == I:
		switch r.Intn(8) {
		case 0:
			return call("int", sub([]int{I, B, F, S, D}[r.Intn(5)]))
		case 1:
			return call("len", sub(S))
		case 2:
			return call("abs", sub(I))
		case 3:
			return call("position", sub(S), sub(S))
		case 4:
			return call("time_to_unix", sub(T))
		case 5:
			return call("-", sub(I))
		default:
			return call([]string{"+", "-", "*", "/"}[r.Intn(4)], sub(I), sub(I))
		}
	case want == F:
		switch r.Intn(5) {
		case 0:
			return call("float", sub([]int{F, I, S, D}[r.Intn(4)]))
		case 1:
			return call([]string{"sqrt", "floor", "ceil", "log2", "abs"}[r.Intn(5)], sub(F))
		case 2:
			return call("/", sub(D), sub(D))
		default:
			return call([]string{"+", "-", "*", "/", "pow"}[r.Intn(5)], sub(F), sub(F))
		}
	case want == S:
		switch r.Intn(6) {
		case 0:
			return call("string", sub(-1))
		case 1:
			return call([]string{"upper", "lower", "reverse"}[r.Intn(3)], sub(S))
		case 2:
			return call("+", sub(S), sub(S))
		case 3:
			return call("replace", sub(S), sub(S), sub(S))
		case 4:
			return call("substr", sub(S), sub(I))
		default:
			return call("*", sub(S), c(octosql.NewInt(int64(r.Intn(3)))))
		}
	case want == D:
		switch r.Intn(4) {
		case 0:
			return call("*", sub(D), sub(I))
		case 1:
			return call("-", sub(D))
		default:
			return call([]string{"+", "-"}[r.Intn(2)], sub(D), sub(D))
		}
	case want == T:
		switch r.Intn(3) {
		case 0:
			return call("time_from_unix", sub([]int{I, F}[r.Intn(2)]))
		case 1:
			return call("parse_time", sub(S), sub(S))
		default:
			return call("+", sub(T), sub(D))
		}
	}
	// arbitrary
	switch r.Intn(4) {
	case 0:
		n := 1 + r.Intn(3)
		k := -1
		if r.Bool() {
			k = 1 + r.Intn(6)
		}
		as := make([]*lx, n)
		for i := range as {
			as[i] = sub(k)
		}
		return &lx{op: "coalesce", args: as}
	case 1:
		return &lx{op: "cast", id: octosql.TypeID(1 + r.Intn(6)), args: []*lx{sub(-1)}}
	case 2:
		name := scalarFns[r.Intn(len(scalarFns))]
		n := 1 + r.Intn(2)
		as := make([]*lx, n)
		for i := range as {
			as[i] = sub(-1)
		}
		return call(name, as...)
	}
	return sub(1 + r.Intn(6))
}

func main() {
	f := lib.ParseFlags()
	if f.Cmd == "gen" {
		if err := exprh.Gen(f.Out); err != nil {
			fmt.Fprintln(os.Stderr, err)
			os.Exit(2)
		}
		return
	}
	if f.Cmd != "run" {
		fmt.Fprintln(os.Stderr, "c08: run | gen")
		os.Exit(2)
	}
	rng := lib.NewRng(f.Seed)
	cf := lib.NewCaseFile("C08", f.Seed, f.Tier)
	cf.Imports = []string{"ExprTcCases"}
	cf.CaseType = "c08_case"
	cf.Checks = []lib.Check{
		{Name: "tie_tc", Kind: "tie", Fn: "c08_tie_tc"},
		{Name: "tie_eval", Kind: "tie", Fn: "c08_tie_eval"},
		{Name: "tie_pwt", Kind: "tie", Fn: "c08_tie_pwt"},
		{Name: "spec_type", Kind: "spec", Fn: "c08_spec_type"},
	}
	cf.Side.Rule = "every descriptor of FunctionMap() called on columns typed exactly as declared / declared|NULL / declared|other kind (Maybe pass), " +
		"and random type-directed expression trees (depth <= 3: AND OR NOT comparisons arithmetic conversions string functions COALESCE CAST) over 2..4 " +
		"columns drawn from a pool of scalar and union types; typechecked by the real Typecheck, evaluated in-process on 4 generated conforming rows " +
		"(numeric-looking strings half of the time); value checked against physical.Expression.Type by exprh.Conforms (own structural matcher) and by has_type in Coq. " +
		"non-trivial = typechecked and at least one row evaluated to a value; distinct by full case text"
	g := &engine{cf: cf}
	reps := 1
	if f.Tier == "thorough" {
		reps = 6
	}
	g.descriptorSweep(rng.Fork(), reps)
	g.structuralSweep(rng.Fork())
	if f.Tier == "thorough" {
		g.compositionSweep(rng.Fork(), 1, 12)
		g.aggregateSlice(rng.Fork(), 4)
	} else {
		g.compositionSweep(rng.Fork(), 4, 5)
		g.aggregateSlice(rng.Fork(), 1)
	}
	g.objectSlice(rng.Fork(), 4)
	n := f.Cases(300, 6000)
	for i := 0; i < n; i++ {
		r := rng.Fork()
		ncols := 2 + r.Intn(3)
		types := make([]octosql.Type, ncols)
		for j := range types {
			types[j] = columnPool[r.Intn(len(columnPool))]
		}
		want := -1
		if r.Chance(4, 5) {
			want = 1 + r.Intn(6)
		}
		x := genExpr(r, types, want, 1+r.Intn(3))
		g.addCase(r, types, x, "random_expr", 4)
	}
	if err := cf.Write(f.Out); err != nil {
		fmt.Fprintln(os.Stderr, err)
		os.Exit(2)
	}
}
