// c11: three-valued logic and NULL propagation.  Boolean trees / n-ary AND, OR nodes / every function descriptor
// with NULL in each argument position / the Filter node — typechecked, materialised and evaluated by the real code.
package main

import (
	"fmt"
	"os"
	"strings"
	"time"

	"github.com/cube2222/octosql/execution"
	"github.com/cube2222/octosql/execution/nodes"
	"github.com/cube2222/octosql/logical"
	"github.com/cube2222/octosql/octosql"
	"github.com/cube2222/octosql/physical"

	"verifharness/cmd/c11/exprh"
	"verifharness/lib"
)

var boolNull = octosql.TypeSum(octosql.Boolean, octosql.Null)

// ---- boolean trees ----
type btree struct {
	op   byte // 'l' leaf, 'n' not, 'a' and, 'o' or
	leaf int  // 0 TRUE 1 FALSE 2 NULL
	a, b *btree
}

var tvNames = []string{"TT", "FF", "NN"}
var tvVals = []octosql.Value{octosql.NewBoolean(true), octosql.NewBoolean(false), octosql.NewNull()}

func (t *btree) coq() string {
	switch t.op {
	case 'l':
		return "(BLeaf " + tvNames[t.leaf] + ")"
	case 'n':
		return "(BNotT " + t.a.coq() + ")"
	case 'a':
		return "(BAndT " + t.a.coq() + " " + t.b.coq() + ")"
	}
	return "(BOrT " + t.a.coq() + " " + t.b.coq() + ")"
}

func (t *btree) String() string {
	switch t.op {
	case 'l':
		return []string{"TRUE", "FALSE", "NULL"}[t.leaf]
	case 'n':
		return "NOT(" + t.a.String() + ")"
	case 'a':
		return "(" + t.a.String() + " AND " + t.b.String() + ")"
	}
	return "(" + t.a.String() + " OR " + t.b.String() + ")"
}

func (t *btree) depth() int {
	switch t.op {
	case 'l':
		return 0
	case 'n':
		return 1 + t.a.depth()
	}
	d := t.a.depth()
	if e := t.b.depth(); e > d {
		d = e
	}
	return 1 + d
}

// allTrees(d): every tree of depth <= d
func allTrees(d int) []*btree {
	out := []*btree{{op: 'l', leaf: 0}, {op: 'l', leaf: 1}, {op: 'l', leaf: 2}}
	if d == 0 {
		return out
	}
	sub := allTrees(d - 1)
	for _, a := range sub {
		out = append(out, &btree{op: 'n', a: a})
	}
	for _, a := range sub {
		for _, b := range sub {
			out = append(out, &btree{op: 'a', a: a, b: b}, &btree{op: 'o', a: a, b: b})
		}
	}
	// the depth <= d-1 trees are in `sub` shapes again as subtrees only; drop duplicates of the leaves
	seen := map[string]bool{}
	var uniq []*btree
	for _, t := range out {
		k := t.coq()
		if !seen[k] {
			seen[k] = true
			uniq = append(uniq, t)
		}
	}
	return uniq
}

func randTree(r *lib.Rng, d int) *btree {
	if d == 0 || r.Chance(1, 6) {
		return &btree{op: 'l', leaf: r.Intn(3)}
	}
	switch r.Intn(5) {
	case 0:
		return &btree{op: 'n', a: randTree(r, d-1)}
	case 1, 2:
		return &btree{op: 'a', a: randTree(r, d-1), b: randTree(r, d-1)}
	}
	return &btree{op: 'o', a: randTree(r, d-1), b: randTree(r, d-1)}
}

// toLogical: leaves become constants (mode 0) or variables c_k : Boolean | NULL bound to the leaf value (mode 1),
// or a per-leaf mix (mode 2).
type leafBinder struct {
	mode  int
	r     *lib.Rng
	types []octosql.Type
	vals  []octosql.Value
}

func (lb *leafBinder) build(t *btree, underNot bool) func(e *exprh.Env) logical.Expression {
	switch t.op {
	case 'l':
		asVar := lb.mode == 1 || (lb.mode == 2 && lb.r.Bool()) || (underNot && t.leaf == 2) // NOT <NULL literal> does not typecheck
		if !asVar {
			v := tvVals[t.leaf]
			return func(*exprh.Env) logical.Expression { return logical.NewConstant(v) }
		}
		k := len(lb.types)
		ty := boolNull
		if t.leaf != 2 && lb.mode == 2 && lb.r.Chance(1, 3) {
			ty = octosql.Boolean // a non-nullable column
		}
		lb.types = append(lb.types, ty)
		lb.vals = append(lb.vals, tvVals[t.leaf])
		return func(e *exprh.Env) logical.Expression { return e.Var(k) }
	case 'n':
		a := lb.build(t.a, true)
		return func(e *exprh.Env) logical.Expression {
			return logical.NewFunctionExpression("not", []logical.Expression{a(e)})
		}
	}
	a, b := lb.build(t.a, false), lb.build(t.b, false)
	if t.op == 'a' {
		return func(e *exprh.Env) logical.Expression { return logical.NewAnd(a(e), b(e)) }
	}
	return func(e *exprh.Env) logical.Expression { return logical.NewOr(a(e), b(e)) }
}

type engine struct {
	cf *lib.CaseFile
}

// addExpr typechecks (already done), materialises, evaluates and records one CExpr case.
func (g *engine) addExpr(env *exprh.Env, pe physical.Expression, frames [][]octosql.Value, tree, nary, family string, js map[string]interface{}, nontrivial bool) int {
	cf := g.cf
	coqPe, err := env.CoqPexpr(pe)
	if err != nil {
		cf.Count("skipped_outside_fragment:" + family)
		return -1
	}
	ex, merr, mp := env.Materialize(pe)
	js["family"] = family
	js["expr"] = exprh.PexprString(pe)
	js["frames"] = framesJSON(frames)
	if merr != nil || mp != nil {
		idx := cf.Add(fmt.Sprintf("(CExpr %s %s %s %s (Panic 0))", tree, nary, coqPe, exprh.CoqFrames(frames)), js, nontrivial)
		cf.Violation(idx, fmt.Sprintf("Materialize failed: %v %v", merr, mp), "")
		return idx
	}
	if env.RepeatHazard(pe, frames) {
		cf.Count("skipped_repeat_hazard")
		return -1
	}
	obs := exprh.Eval(ex, frames)
	js["observed"] = obs.JSON()
	idx := cf.Add(fmt.Sprintf("(CExpr %s %s %s %s %s)", tree, nary, coqPe, exprh.CoqFrames(frames), obs.Coq()), js, nontrivial)
	cf.Count("family:" + family)
	switch obs.Kind {
	case 0:
		cf.Count("obs:" + obs.Val.TypeID.String())
	case 1:
		cf.Count(fmt.Sprintf("obs:error_class_%d", obs.Class))
	default:
		cf.Count("obs:panic")
	}
	return idx
}

func framesJSON(frames [][]octosql.Value) interface{} {
	out := make([]interface{}, len(frames))
	for i := range frames {
		out[i] = lib.ValuesJSON(frames[i])
	}
	return out
}

func (g *engine) treeCase(r *lib.Rng, t *btree, mode int, family string) {
	lb := &leafBinder{mode: mode, r: r}
	mk := lb.build(t, false)
	env := exprh.NewEnv(lb.types)
	pe, msg, panicked := env.Typecheck(mk(env))
	if panicked {
		g.cf.Count("typecheck_rejected:" + family)
		_ = msg
		return
	}
	js := map[string]interface{}{"tree": t.String(), "leaf_mode": mode}
	g.addExpr(env, pe, [][]octosql.Value{lb.vals}, "(Some "+t.coq()+")", "None", family, js, t.depth() >= 2)
}

// naryCase builds the physical And/Or node with k operands directly (what the optimizer's merges produce).
func (g *engine) naryCase(isAnd bool, operands []int, asVars bool) {
	var types []octosql.Type
	var vals []octosql.Value
	var args []physical.Expression
	nullable := false
	for _, o := range operands {
		if asVars {
			types = append(types, boolNull)
			vals = append(vals, tvVals[o])
		}
	}
	env := exprh.NewEnv(types)
	for i, o := range operands {
		if asVars {
			args = append(args, physical.Expression{Type: boolNull, ExpressionType: physical.ExpressionTypeVariable,
				Variable: &physical.Variable{Name: env.Fields[i].Name, IsLevel0: true}})
			nullable = true
		} else {
			args = append(args, physical.Expression{Type: tvVals[o].Type(), ExpressionType: physical.ExpressionTypeConstant,
				Constant: &physical.Constant{Value: tvVals[o]}})
			nullable = nullable || o == 2
		}
	}
	ty := octosql.Boolean
	if nullable {
		ty = boolNull
	}
	var pe physical.Expression
	name := "OR"
	if isAnd {
		name = "AND"
		pe = physical.Expression{Type: ty, ExpressionType: physical.ExpressionTypeAnd, And: &physical.And{Arguments: args}}
	} else {
		pe = physical.Expression{Type: ty, ExpressionType: physical.ExpressionTypeOr, Or: &physical.Or{Arguments: args}}
	}
	names := make([]string, len(operands))
	for i, o := range operands {
		names[i] = tvNames[o]
	}
	nary := fmt.Sprintf("(Some (%s, [%s]))", lib.CoqBool(isAnd), strings.Join(names, "; "))
	js := map[string]interface{}{"nary": name, "operands": names, "as_variables": asVars}
	g.addExpr(env, pe, [][]octosql.Value{vals}, "None", nary, "nary", js, len(operands) >= 2)
}

func tuples(k int) [][]int {
	if k == 0 {
		return [][]int{{}}
	}
	var out [][]int
	for _, t := range tuples(k - 1) {
		for v := 0; v < 3; v++ {
			out = append(out, append(append([]int{}, t...), v))
		}
	}
	return out
}

// strictCases: every descriptor of FunctionMap(), arguments = nullable variables of its declared types, NULL in
// each position (plus no NULL, plus all NULL).
func (g *engine) strictCases(rng *lib.Rng, reps int) {
	rows := exprh.Table(exprh.FunctionMap())
	cands := exprh.CandidateTypes()
	for _, row := range rows {
		var vectors [][]octosql.Type
		if row.Desc.TypeFn == nil {
			vec := make([]octosql.Type, len(row.Desc.ArgumentTypes))
			copy(vec, row.Desc.ArgumentTypes)
			vectors = [][]octosql.Type{vec}
		} else {
			for _, a := range cands {
				if _, ok := row.Desc.TypeFn([]octosql.Type{a}); ok {
					vectors = append(vectors, []octosql.Type{a})
				}
				for _, b := range cands {
					if _, ok := row.Desc.TypeFn([]octosql.Type{a, b}); ok {
						vectors = append(vectors, []octosql.Type{a, b})
					}
				}
			}
			if len(vectors) == 0 {
				g.cf.Count("typefn_descriptor_without_candidate_arguments:" + row.Name)
				continue
			}
		}
		for rep := 0; rep < reps; rep++ {
			r := rng.Fork()
			vec := vectors[r.Intn(len(vectors))]
			concrete := make([]octosql.Type, len(vec))
			for i, t := range vec {
				if t.TypeID == octosql.TypeIDAny {
					t = exprh.ScalarTypes[1+r.Intn(6)]
				}
				concrete[i] = t
			}
			n := len(vec)
			// null patterns: none, each single position, all
			patterns := [][]bool{make([]bool, n)}
			for i := 0; i < n; i++ {
				p := make([]bool, n)
				p[i] = true
				patterns = append(patterns, p)
			}
			if n > 1 {
				p := make([]bool, n)
				for i := range p {
					p[i] = true
				}
				patterns = append(patterns, p)
			}
			// every static typing a NULL-valued argument can have: a column typed T | NULL, the NULL literal (type
			// exactly NULL), a column typed exactly NULL (null in every record), a column typed Any
			type variant struct {
				pat    []bool
				typing string
			}
			var variants []variant
			for _, pat := range patterns {
				variants = append(variants, variant{pat, "union"})
				anyNull := false
				for _, b := range pat {
					anyNull = anyNull || b
				}
				if anyNull {
					variants = append(variants, variant{pat, "literal"}, variant{pat, "nullcol"}, variant{pat, "anycol"})
				}
			}
			for _, vr := range variants {
				pat := vr.pat
				types := make([]octosql.Type, n)
				vals := make([]octosql.Value, n)
				for i := range vec {
					types[i] = octosql.TypeSum(concrete[i], octosql.Null)
					if pat[i] {
						vals[i] = octosql.NewNull()
						switch vr.typing {
						case "nullcol", "literal":
							types[i] = octosql.Null
						case "anycol":
							types[i] = octosql.Any
						}
					} else {
						vals[i] = exprh.GenOfType(r, concrete[i], false)
					}
				}
				// a non-nullable column in a non-NULL position now and then (no null check is materialised for it)
				for i := range vec {
					if !pat[i] && r.Chance(1, 4) {
						types[i] = concrete[i]
					}
				}
				if row.Name == "*" {
					exprh.ClampRepeatCounts(vals)
				}
				env := exprh.NewEnv(types)
				args := make([]logical.Expression, n)
				for i := range args {
					args[i] = env.Var(i)
					if pat[i] && vr.typing == "literal" {
						args[i] = logical.NewConstant(octosql.NewNull())
					}
				}
				pe, _, panicked := env.Typecheck(logical.NewFunctionExpression(row.Name, args))
				if panicked {
					g.cf.Count("typecheck_rejected:strict_" + vr.typing)
					continue
				}
				if pe.ExpressionType != physical.ExpressionTypeFunctionCall {
					continue
				}
				chosen := env.DescIndex(row.Name, pe.FunctionCall.FunctionDescriptor)
				if chosen != row.Idx {
					g.cf.Count("overload_resolved_to_other_descriptor")
				}
				anyNull := false
				for _, b := range pat {
					anyNull = anyNull || b
				}
				if row.Name == "now" {
					continue // reads the clock: not a function of its arguments
				}
				js := map[string]interface{}{"function": row.Name, "descriptor": row.Idx, "chosen": chosen, "strict": pe.FunctionCall.FunctionDescriptor.Strict, "null_pattern": pat, "null_typing": vr.typing}
				if anyNull {
					g.cf.Count("null_argument_typing:" + vr.typing)
				}
				idx := g.addExpr(env, pe, [][]octosql.Value{vals}, "None", "None", "descriptor", js, anyNull)
				if idx >= 0 {
					if pe.FunctionCall.FunctionDescriptor.Strict {
						g.cf.Count("descriptor_case:strict")
					} else {
						g.cf.Count("descriptor_case:non_strict")
					}
				}
			}
		}
	}
}

// compositionCases: outer(inner(columns...), columns...) for every pair of descriptors whose declared types fit;
// columns are NON-nullable and hold edge values (non-numeric strings, NaN, ...), so a NULL can only appear at run
// time, out of the inner call.  The runtime values of the outer call's arguments are observed separately (each
// argument expression is materialised and evaluated on its own) and handed to the oracle.
func (g *engine) compositionCases(rng *lib.Rng, perPair int, sample int) {
	comps := exprh.Compositions(exprh.Table(exprh.FunctionMap()))
	g.cf.Side.Distribution["composition_pairs_total"] = len(comps)
	for ci, comp := range comps {
		r := rng.Fork()
		if sample > 1 && ci%sample != int(r.U64()%uint64(sample)) && !(comp.Inner.Desc.OutputType.TypeID == octosql.TypeIDUnion) {
			continue // quick tier: a seeded 1/sample of the pairs whose inner result is declared non-nullable...
		}
		// columns: the inner call's arguments, then the outer call's other arguments
		var types []octosql.Type
		concrete := func(t octosql.Type) octosql.Type {
			if t.TypeID == octosql.TypeIDAny {
				return exprh.ScalarTypes[1+r.Intn(6)]
			}
			return octosql.NonNullable(t)
		}
		innerArgs := make([]int, len(comp.Inner.Desc.ArgumentTypes))
		for i, t := range comp.Inner.Desc.ArgumentTypes {
			innerArgs[i] = len(types)
			types = append(types, concrete(t))
		}
		outerArgs := make([]int, len(comp.Outer.Desc.ArgumentTypes))
		for i, t := range comp.Outer.Desc.ArgumentTypes {
			if i == comp.Pos {
				continue
			}
			outerArgs[i] = len(types)
			types = append(types, concrete(t))
		}
		env := exprh.NewEnv(types)
		ia := make([]logical.Expression, len(innerArgs))
		for i := range ia {
			ia[i] = env.Var(innerArgs[i])
		}
		oa := make([]logical.Expression, len(outerArgs))
		for i := range oa {
			if i == comp.Pos {
				oa[i] = logical.NewFunctionExpression(comp.Inner.Name, ia)
			} else {
				oa[i] = env.Var(outerArgs[i])
			}
		}
		pe, _, panicked := env.Typecheck(logical.NewFunctionExpression(comp.Outer.Name, oa))
		if panicked || pe.ExpressionType != physical.ExpressionTypeFunctionCall {
			g.cf.Count("typecheck_rejected:composition")
			continue
		}
		coqPe, err := env.CoqPexpr(pe)
		if err != nil {
			continue
		}
		ex, merr, mp := env.Materialize(pe)
		if merr != nil || mp != nil {
			continue
		}
		argEx := make([]execution.Expression, len(pe.FunctionCall.Arguments))
		ok := true
		for i := range argEx {
			a, e1, p1 := env.Materialize(pe.FunctionCall.Arguments[i])
			if e1 != nil || p1 != nil {
				ok = false
			}
			argEx[i] = a
		}
		if !ok {
			continue
		}
		rows := exprh.EdgeRows(types, 0)
		// spread the per-pair budget over the edge rows, different rows for different pairs
		step := 1
		if len(rows) > perPair {
			step = len(rows) / perPair
		}
		for k := (ci % step); k < len(rows); k += step {
			row := rows[k]
			if comp.Outer.Name == "*" || comp.Inner.Name == "*" {
				exprh.ClampRepeatCounts(row)
			}
			frames := [][]octosql.Value{row}
			if env.RepeatHazard(pe, frames) {
				g.cf.Count("skipped_repeat_hazard")
				continue
			}
			obs := exprh.Eval(ex, frames)
			argObs := make([]string, len(argEx))
			argJS := make([]interface{}, len(argEx))
			runtimeNull := false
			for i := range argEx {
				o := exprh.Eval(argEx[i], frames)
				argObs[i] = o.Coq()
				argJS[i] = o.JSON()
				if i == comp.Pos && o.Kind == 0 && o.Val.TypeID == octosql.TypeIDNull {
					runtimeNull = true
				}
			}
			js := map[string]interface{}{"family": "composition", "expr": exprh.PexprString(pe), "frames": framesJSON(frames),
				"argument_values": argJS, "observed": obs.JSON(), "outer_strict": pe.FunctionCall.FunctionDescriptor.Strict}
			g.cf.Add(fmt.Sprintf("(CCall %s %s [%s] %s)", coqPe, exprh.CoqFrames(frames), strings.Join(argObs, "; "), obs.Coq()), js, runtimeNull)
			g.cf.Count("family:composition")
			if runtimeNull {
				g.cf.Count("composition:inner_call_returned_null_at_run_time")
				if !exprh.Conforms(octosql.NewNull(), pe.FunctionCall.Arguments[comp.Pos].Type) {
					g.cf.Count("composition:runtime_null_under_non_nullable_static_type")
				}
			}
		}
	}
}

// filterCases: nodes.Filter over a scripted source; predicate = a typechecked expression over the row.
func (g *engine) filterCases(rng *lib.Rng, n int) {
	for c := 0; c < n; c++ {
		r := rng.Fork()
		// row schema: two three-valued columns, one Int|NULL, one Boolean|Int|NULL (type assertion can fail)
		types := []octosql.Type{boolNull, boolNull, octosql.TypeSum(octosql.Int, octosql.Null),
			octosql.TypeSum(boolNull, octosql.Int)}
		env := exprh.NewEnv(types)
		var pred logical.Expression
		desc := ""
		switch r.Intn(6) {
		case 0:
			pred, desc = env.Var(0), "c0"
		case 1:
			pred, desc = logical.NewAnd(env.Var(0), env.Var(1)), "c0 AND c1"
		case 2:
			pred, desc = logical.NewOr(env.Var(0), logical.NewFunctionExpression("not", []logical.Expression{env.Var(1)})), "c0 OR NOT c1"
		case 3:
			pred, desc = logical.NewFunctionExpression(">", []logical.Expression{env.Var(2), logical.NewConstant(octosql.NewInt(1))}), "c2 > 1"
		case 4:
			pred, desc = logical.NewFunctionExpression("is null", []logical.Expression{env.Var(2)}), "c2 IS NULL"
		default:
			pred, desc = logical.NewAnd(env.Var(3), env.Var(0)), "c3 AND c0 (c3 : Boolean | Int | NULL)"
		}
		pe, msg, panicked := env.TypecheckExpected(pred, boolNull)
		if panicked {
			g.cf.Count("typecheck_rejected:filter")
			_ = msg
			continue
		}
		coqPe, err := env.CoqPexpr(pe)
		if err != nil {
			continue
		}
		ex, merr, mp := env.Materialize(pe)
		if merr != nil || mp != nil {
			continue
		}
		var rows [][]octosql.Value
		nrows := 1 + r.Intn(7)
		if c < 6 {
			// exhaustive over the two three-valued columns
			for _, t := range tuples(2) {
				c2 := octosql.NewInt(int64(t[0] + t[1]))
				if t[0] == 2 {
					c2 = octosql.NewNull()
				}
				rows = append(rows, []octosql.Value{tvVals[t[0]], tvVals[t[1]], c2, tvVals[t[1]]})
			}
		} else {
			for i := 0; i < nrows; i++ {
				c2 := octosql.NewNull()
				if r.Chance(2, 3) {
					c2 = octosql.NewInt(int64(r.Intn(4)))
				}
				c3 := tvVals[r.Intn(3)]
				if r.Chance(1, 8) {
					c3 = octosql.NewInt(7) // makes the type assertion fail
				}
				rows = append(rows, []octosql.Value{tvVals[r.Intn(3)], tvVals[r.Intn(3)], c2, c3})
			}
		}
		var script []lib.Event
		rowObs := make([]string, len(rows))
		rowObsJS := make([]interface{}, len(rows))
		for i, row := range rows {
			script = append(script, lib.Event{Rec: execution.NewRecord(row, r.Chance(1, 5), time.Time{})})
			o := exprh.Eval(ex, [][]octosql.Value{row})
			rowObs[i] = o.Coq()
			rowObsJS[i] = o.JSON()
		}
		out, ferr, fp := lib.RunNode(nodes.NewFilter(&lib.ScriptSource{Events: script}, ex))
		var outRows [][]octosql.Value
		for _, e := range out {
			if !e.IsWM {
				outRows = append(outRows, e.Rec.Values)
			}
		}
		res := "(Ok tt)"
		if fp != nil {
			res = "(Panic 0)"
		} else if ferr != nil {
			res = fmt.Sprintf("(Err %d)", exprh.ClassifyErr(ferr))
		}
		js := map[string]interface{}{"family": "filter", "predicate": desc, "expr": exprh.PexprString(pe), "rows": framesJSON(rows),
			"row_observations": rowObsJS, "produced": framesJSON(outRows), "result": res}
		g.cf.Add(fmt.Sprintf("(CFilter %s [] %s [%s] %s %s)", coqPe, exprh.CoqFrames(rows), strings.Join(rowObs, "; "), exprh.CoqFrames(outRows), res), js, len(rows) > 1)
		g.cf.Count("family:filter")
		// the retraction flag and event time of a kept record must be untouched
		k := 0
		for i, e := range script {
			o := exprh.Eval(ex, [][]octosql.Value{rows[i]})
			if o.Kind != 0 {
				break
			}
			if o.Val.TypeID == octosql.TypeIDBoolean && o.Val.Boolean {
				if k < len(out) && (out[k].Rec.Retraction != e.Rec.Retraction || !out[k].Rec.EventTime.Equal(e.Rec.EventTime)) {
					g.cf.Violation(len(g.cf.Items)-1, "Filter changed the retraction flag or event time of a kept record", "")
				}
				k++
			}
		}
	}
}

func main() {
	f := lib.ParseFlags()
	if f.Cmd == "gen" {
		if err := exprh.Gen(f.Out); err != nil {
			fmt.Fprintln(os.Stderr, err)
			os.Exit(2)
		}
		return
	}
	if f.Cmd != "run" {
		fmt.Fprintln(os.Stderr, "c11: run | gen")
		os.Exit(2)
	}
	rng := lib.NewRng(f.Seed)
	cf := lib.NewCaseFile("C11", f.Seed, f.Tier)
	cf.Imports = []string{"ExprCases"}
	cf.CaseType = "c11_case"
	cf.Checks = []lib.Check{
		{Name: "tie", Kind: "tie", Fn: "c11_tie"},
		{Name: "spec_kleene", Kind: "spec", Fn: "c11_spec_kleene"},
		{Name: "spec_null", Kind: "spec", Fn: "c11_spec_null"},
		{Name: "spec_filter", Kind: "spec", Fn: "c11_spec_filter"},
	}
	cf.Side.Rule = "exhaustive {TRUE,FALSE,NULL}^k (k<=3) for directly built n-ary AND/OR nodes (constants and nullable columns); every boolean tree " +
		"of depth <= 2 over {TRUE,FALSE,NULL} and random trees of depth 3, built as logical expressions (constant / column leaves), typechecked, " +
		"materialised and evaluated by the real code; every descriptor of FunctionMap() with NULL in no / each / every argument position " +
		"(argument values drawn from its declared types, TypeFn descriptors from a candidate pool); nodes.Filter on three-valued predicates. " +
		"non-trivial = tree depth >= 2, >= 2 operands, a NULL argument, or > 1 row; distinct by full case text"
	g := &engine{cf: cf}

	// 1. n-ary nodes, exhaustive
	for k := 0; k <= 3; k++ {
		for _, t := range tuples(k) {
			for _, isAnd := range []bool{true, false} {
				g.naryCase(isAnd, t, false)
				g.naryCase(isAnd, t, true)
			}
		}
	}
	if f.Tier == "thorough" {
		for _, t := range tuples(4) {
			g.naryCase(true, t, true)
			g.naryCase(false, t, true)
		}
	}
	// 2. trees: depth <= 1 in both leaf modes, depth 2 exhaustive with a seeded per-leaf mix, depth 3 sampled
	for _, t := range allTrees(1) {
		g.treeCase(rng.Fork(), t, 0, "tree_d1")
		g.treeCase(rng.Fork(), t, 1, "tree_d1")
	}
	for _, t := range allTrees(2) {
		if t.depth() == 2 {
			g.treeCase(rng.Fork(), t, 2, "tree_d2")
		}
	}
	for i := 0; i < f.Cases(150, 6000); i++ {
		r := rng.Fork()
		t := randTree(r, 3)
		g.treeCase(r, t, 1+r.Intn(2), "tree_d3_random")
	}
	// 3. descriptors x NULL positions
	reps := 1
	if f.Tier == "thorough" {
		reps = 8
	}
	g.strictCases(rng.Fork(), reps)
	// 3b. compositions: NULLs that only exist at run time
	if f.Tier == "thorough" {
		g.compositionCases(rng.Fork(), 12, 1)
	} else {
		g.compositionCases(rng.Fork(), 3, 4)
	}
	// 4. Filter node
	g.filterCases(rng.Fork(), f.Cases(40, 400))

	if err := cf.Write(f.Out); err != nil {
		fmt.Fprintln(os.Stderr, err)
		os.Exit(2)
	}
}
