// c27: crash safety of `octosql plugin install` and `octosql plugin repository add`.
//
// For generated scenarios (installed plugin versions, configured databases, extension-handler file, leftovers of an
// earlier interrupted installation, repository entries) the real CLI (built with -tags verif) runs against a local
// HTTP fixture; the hooks in plugins/verifhook log the elementary filesystem steps and kill the process before a
// chosen step, optionally after a torn prefix of a write. After each kill the tree below ~/.octosql is serialised and
// octosql is started again: `SELECT 1`, one query per configured database (a stub plugin binary records which version
// directory was executed) and `SELECT * FROM plugins.repositories`. Coq then compares: the step list with the model's
// step list, the tree with the model's crash state, the probes with the model's start-up; and applies the property's
// oracle to the probes.
package main

import (
	"archive/tar"
	"bytes"
	"compress/gzip"
	"encoding/json"
	"fmt"
	"io/fs"
	"net"
	"net/http"
	"os"
	"os/exec"
	"path/filepath"
	"sort"
	"strconv"
	"strings"
	"sync"
	"time"

	"github.com/Masterminds/semver"

	"verifharness/lib"
)

// ---------------------------------------------------------------- scenario

type dbSpec struct {
	name, plugin, repo string
	consText, consCoq  string // "" / "None"
}

type scenario struct {
	id       int
	kind     string                       // "install" | "add"
	files    map[string]string            // relative path below ~/.octosql -> content (initial state)
	dirs     map[string]bool              // relative directory paths (initial state)
	dbs      []dbSpec                     // configured databases
	plugin   string                       // install: plugin name
	version  string                       // install: version
	exts     []string                     // install: file extensions
	members  [][2]string                  // install: archive members (name, content)
	archive  []byte                       // install: tar.gz
	slug     string                       // add: slug
	url      string                       // add: url (set when the fixture address is known)
	good     map[string]string            // relative binary path -> complete content (initial state)
	goodNew  map[string]string            // relative binary path -> complete content (from the archive)
	plugin2  string                       // two-command scenarios: a second installation, run to completion afterwards
	version2 string
	exts2    []string
	members2 [][2]string
	archive2 []byte
	describe string
}

func stub(tag string) string {
	return "#!/bin/sh\necho \"$0\" >> \"$VERIF_MARKER\"\nexit 1\n# " + tag + "\n"
}

var consPool = [][2]string{
	{"", "None"},
	{"", "None"},
	{"*", "(Some [[mkCS OpEq SX None []]])"},
	{">=1.0.0", "(Some [[mkCS OpGe (SN 1) (Some (SN 0, Some (SN 0))) []]])"},
	{"^1", "(Some [[mkCS OpCaret (SN 1) None []]])"},
	{"<2.0.0", "(Some [[mkCS OpLt (SN 2) (Some (SN 0, Some (SN 0))) []]])"},
	{"~1.2", "(Some [[mkCS OpTilde (SN 1) (Some (SN 2, None)) []]])"},
	{"1.x", "(Some [[mkCS OpEq (SN 1) (Some (SX, None)) []]])"},
	{">=1.0.0-0", "(Some [[mkCS OpGe (SN 1) (Some (SN 0, Some (SN 0))) [[48]]]])"},
	{"<=1.2.0 || >=3", "(Some [[mkCS OpLe (SN 1) (Some (SN 2, Some (SN 0))) []]; [mkCS OpGe (SN 3) None []]])"},
}

func (s *scenario) addInstalled(repo, plugin, version string) {
	d := "plugins/" + repo + "/octosql-plugin-" + plugin + "/" + version
	s.mkdirs(d)
	bin := d + "/octosql-plugin-" + plugin
	content := stub(repo + "/" + plugin + "@" + version + " installed")
	s.files[bin] = content
	s.good[bin] = content
}

func (s *scenario) mkdirs(d string) {
	parts := strings.Split(d, "/")
	for i := 1; i <= len(parts); i++ {
		s.dirs[strings.Join(parts[:i], "/")] = true
	}
}

func makeArchive(members [][2]string) []byte {
	var buf bytes.Buffer
	gz := gzip.NewWriter(&buf)
	tw := tar.NewWriter(gz)
	for _, m := range members {
		tw.WriteHeader(&tar.Header{Name: m[0], Mode: 0o755, Size: int64(len(m[1])), Typeflag: tar.TypeReg, ModTime: time.Unix(0, 0)})
		tw.Write([]byte(m[1]))
	}
	tw.Close()
	gz.Close()
	return buf.Bytes()
}

func genScenario(r *lib.Rng, id int, kind string, mode string) *scenario {
	s := &scenario{id: id, kind: kind, files: map[string]string{}, dirs: map[string]bool{}, good: map[string]string{}, goodNew: map[string]string{}}
	plugins := []string{"json", "my-plugin", "pg"}
	s.plugin = plugins[r.Intn(len(plugins))]
	other := "other"
	versionPool := []string{"0.9.0", "1.0.0", "1.2.0", "1.2.0-rc.1", "1.3.0-beta", "2.0.0", "2.1.0", "3.0.0-alpha.1", "1.2.1+b7"}
	// installed versions of the plugin
	scen := 1 + r.Intn(9)
	if mode == "first" || (mode == "" && r.Chance(1, 10)) {
		scen = 0
	}
	var installed []string
	switch {
	case kind == "add":
		installed = []string{"1.0.0"}
		if r.Bool() {
			installed = append(installed, "1.2.0")
		}
	case scen == 0: // first installation of this plugin
	default:
		n := 1 + r.Intn(3)
		seen := map[string]bool{}
		for len(installed) < n {
			v := versionPool[r.Intn(len(versionPool))]
			if !seen[v] {
				seen[v] = true
				installed = append(installed, v)
			}
		}
	}
	if mode == "reinstall" { // the version that a database without a constraint resolves to is installed again
		installed = [][]string{{"1.0.0"}, {"1.0.0", "1.2.0"}, {"2.0.0", "0.9.0", "2.1.0-rc.1"}}[r.Intn(3)]
	}
	for _, v := range installed {
		s.addInstalled("core", s.plugin, v)
	}
	// a first installation happens next to plugins that work: their databases must keep starting
	if len(installed) == 0 || mode == "chain" || r.Chance(2, 3) {
		s.addInstalled("core", other, "1.0.0")
		if r.Bool() {
			s.addInstalled("core", other, "0.5.0")
		}
	}
	if r.Chance(1, 5) {
		s.mkdirs("plugins")
	}
	// configured databases
	nDB := 1 + r.Intn(2)
	for d := 0; d < nDB; d++ {
		if mode == "reinstall" && d == 0 {
			s.dbs = append(s.dbs, dbSpec{name: "db0", plugin: s.plugin, repo: "core", consText: "", consCoq: "None"})
			continue
		}
		pl := s.plugin
		if d == 1 && s.dirs["plugins/core/octosql-plugin-"+other] && r.Bool() {
			pl = other
		}
		if len(installed) == 0 && !(d == 1 && r.Chance(1, 4)) {
			pl = other // the plugin being installed for the first time has no database yet (mostly)
		}
		// mostly constraints that an installed version satisfies, so that start-up works before the command
		c := consPool[r.Intn(len(consPool))]
		for try := 0; try < 6 && !r.Chance(1, 10); try++ {
			ok := false
			cons, _ := semver.NewConstraint(c[0])
			if c[0] == "" {
				cons, _ = semver.NewConstraint("*")
			}
			for p := range s.good {
				if strings.HasPrefix(p, "plugins/core/octosql-plugin-"+pl+"/") {
					if v, err := semver.NewVersion(strings.Split(p, "/")[3]); err == nil && cons.Check(v) {
						ok = true
					}
				}
			}
			if ok {
				break
			}
			c = consPool[r.Intn(len(consPool))]
		}
		s.dbs = append(s.dbs, dbSpec{name: fmt.Sprintf("db%d", d), plugin: pl, repo: "core", consText: c[0], consCoq: c[1]})
	}
	// extension handlers
	switch r.Intn(3) {
	case 0:
		s.files["file_extension_handlers.json"] = `{"csvx":"other"}`
	case 1:
		s.files["file_extension_handlers.json"] = `{"jsonl":"old","zz":"other"}`
	}
	// leftovers of an interrupted installation
	if r.Chance(1, 3) {
		s.mkdirs("plugins/.staging")
		s.files["plugins/.staging/archive.tar.gz"] = "\x1f\x8b\x08half"
		if r.Bool() {
			s.files["plugins/.staging/octosql-plugin-"+s.plugin] = "#!/bin"
		}
	}
	if r.Chance(1, 6) {
		s.files["file_extension_handlers.json.tmp"] = `{"csv`
	}
	// repositories
	if kind == "add" || r.Chance(1, 4) {
		if kind != "add" || r.Chance(2, 3) {
			s.mkdirs("repositories")
			if r.Chance(2, 3) {
				s.files["repositories/extra"] = "@URL:extra@"
			}
		}
	}
	if kind == "install" {
		switch {
		case len(installed) > 0 && mode != "chain" && (mode == "reinstall" || (mode == "" && r.Chance(1, 5))): // re-install an existing version
			s.version = installed[r.Intn(len(installed))]
			if mode == "reinstall" {
				s.version = installed[0]
				if len(installed) == 2 {
					s.version = installed[1]
				}
			}
			s.describe = "re-install"
		default:
			for {
				s.version = versionPool[r.Intn(len(versionPool))]
				fresh := true
				for _, v := range installed {
					if v == s.version {
						fresh = false
					}
				}
				if fresh {
					break
				}
			}
			s.describe = "fresh version"
			if len(installed) == 0 {
				s.describe = "first installation of the plugin"
			}
		}
		binName := "octosql-plugin-" + s.plugin
		content := stub("core/" + s.plugin + "@" + s.version + " from the archive")
		s.members = [][2]string{{binName, content}}
		if r.Chance(1, 3) {
			s.members = append([][2]string{{"README.md", "# readme\n"}}, s.members...)
		}
		if r.Chance(1, 4) {
			s.members = append(s.members, [2]string{"LICENSE", "MIT\n"})
		}
		s.archive = makeArchive(s.members)
		s.goodNew["plugins/core/octosql-plugin-"+s.plugin+"/"+s.version+"/"+binName] = content
		s.exts = [][]string{{}, {"jsonl"}, {"jsonl", "abc"}, {"zz"}}[r.Intn(4)]
		if mode == "chain" {
			// the first installation registers long extension names, the second a short one: whatever the first leaves in
			// the temporary registry file is LONGER than what the second writes there
			s.exts = [][]string{{"averyveryverylongextensionname", "anotherquitelongextension"}, {"thelongestextensionnameonecouldthinkof"},
				{"ext-one-long-enough", "ext-two-long-enough", "ext-three-long-enough"}}[r.Intn(3)]
			s.plugin2, s.version2 = other, []string{"1.1.0", "2.0.0", "1.0.1"}[r.Intn(3)]
			s.exts2 = [][]string{{"z"}, {}, {"q"}}[r.Intn(3)]
			bin2 := "octosql-plugin-" + other
			c2 := stub("core/" + other + "@" + s.version2 + " from the archive")
			s.members2 = [][2]string{{bin2, c2}}
			s.archive2 = makeArchive(s.members2)
			s.goodNew["plugins/core/octosql-plugin-"+other+"/"+s.version2+"/"+bin2] = c2
			s.describe = "two commands: install killed, then another install completes"
		}
	} else {
		s.slug = []string{"extra", "second", "my-repo"}[r.Intn(3)]
		s.describe = "repository add " + s.slug
		if r.Chance(1, 4) {
			s.files[".repository-"+s.slug+".tmp"] = `{"ur`
		}
	}
	return s
}

// ---------------------------------------------------------------- fixture

type fixture struct {
	mu    sync.Mutex
	scens map[string]*scenario
	addr  string
}

func newFixture() (*fixture, error) {
	f := &fixture{scens: map[string]*scenario{}}
	ln, err := net.Listen("tcp", "127.0.0.1:0")
	if err != nil {
		return nil, err
	}
	f.addr = "http://" + ln.Addr().String()
	go http.Serve(ln, http.HandlerFunc(func(w http.ResponseWriter, r *http.Request) {
		parts := strings.SplitN(strings.TrimPrefix(r.URL.Path, "/"), "/", 2)
		f.mu.Lock()
		s := f.scens[parts[0]]
		f.mu.Unlock()
		if s == nil || len(parts) < 2 {
			http.NotFound(w, r)
			return
		}
		base := f.addr + "/" + parts[0]
		switch {
		case parts[1] == "official.json":
			type pl struct {
				Name           string   `json:"name"`
				FileExtensions []string `json:"file_extensions"`
				ManifestURL    string   `json:"manifest_url"`
			}
			pls := []pl{{Name: s.plugin, FileExtensions: s.exts, ManifestURL: base + "/manifest.json"}}
			if s.plugin2 != "" {
				pls = append(pls, pl{Name: s.plugin2, FileExtensions: s.exts2, ManifestURL: base + "/manifest2.json"})
			}
			doc := map[string]interface{}{"name": "official", "slug": "core", "plugins": pls}
			json.NewEncoder(w).Encode(doc)
		case parts[1] == "manifest2.json":
			json.NewEncoder(w).Encode(map[string]interface{}{"binary_download_url_pattern": base + "/dl2/{{version}}.tar.gz",
				"versions": []map[string]string{{"number": s.version2}}})
		case strings.HasPrefix(parts[1], "dl2/"):
			w.Write(s.archive2)
		case parts[1] == "manifest.json":
			json.NewEncoder(w).Encode(map[string]interface{}{"binary_download_url_pattern": base + "/dl/{{version}}.tar.gz",
				"versions": []map[string]string{{"number": s.version}}})
		case strings.HasPrefix(parts[1], "dl/"):
			w.Write(s.archive)
		case strings.HasPrefix(parts[1], "repos/"):
			slug := strings.TrimSuffix(strings.TrimPrefix(parts[1], "repos/"), ".json")
			json.NewEncoder(w).Encode(map[string]interface{}{"name": slug, "slug": slug, "plugins": []string{}})
		default:
			http.NotFound(w, r)
		}
	}))
	return f, nil
}

// ---------------------------------------------------------------- running the CLI

func buildCLI(dir string) (string, error) {
	repoDir := os.Getenv("VERIF_REPO")
	if repoDir == "" {
		repoDir = "/repo"
	}
	bin := filepath.Join(dir, "octosql-cli")
	cmd := exec.Command("go", "build", "-tags", "verif", "-o", bin, ".")
	cmd.Dir = repoDir
	out, err := cmd.CombinedOutput()
	if err != nil {
		return "", fmt.Errorf("building the CLI in %s: %v\n%s", repoDir, err, out)
	}
	return bin, nil
}

func (s *scenario) materialize(home string, fx *fixture) error {
	root := filepath.Join(home, ".octosql")
	if err := os.MkdirAll(root, 0o755); err != nil {
		return err
	}
	var dirs []string
	for d := range s.dirs {
		dirs = append(dirs, d)
	}
	sort.Strings(dirs)
	for _, d := range dirs {
		if err := os.MkdirAll(filepath.Join(root, d), 0o755); err != nil {
			return err
		}
	}
	for p, c := range s.files {
		if err := os.WriteFile(filepath.Join(root, p), []byte(s.content(c, fx)), 0o755); err != nil {
			return err
		}
	}
	yml := "databases:\n"
	for _, d := range s.dbs {
		yml += fmt.Sprintf("  - name: %s\n    type: %q\n", d.name, d.repo+"/"+d.plugin)
		if d.consText != "" {
			yml += fmt.Sprintf("    version: %q\n", d.consText)
		}
	}
	return os.WriteFile(filepath.Join(root, "octosql.yml"), []byte(yml), 0o644)
}

func (s *scenario) content(c string, fx *fixture) string {
	if strings.HasPrefix(c, "@URL:") {
		slug := strings.TrimSuffix(strings.TrimPrefix(c, "@URL:"), "@")
		return fmt.Sprintf(`{"url":"%s/s%d/repos/%s.json"}`, fx.addr, s.id, slug)
	}
	return c
}

func (s *scenario) env(home string, fx *fixture) []string {
	return []string{"HOME=" + home, "OCTOSQL_NO_TELEMETRY=1", "PATH=" + os.Getenv("PATH"),
		"OCTOSQL_PLUGIN_TMP_DIR=" + filepath.Join(home, "tmp"),
		"OCTOSQL_PLUGIN_REPOSITORY_OFFICIAL_URL=" + fmt.Sprintf("%s/s%d/official.json", fx.addr, s.id),
		"VERIF_CRASH_BASE=" + filepath.Join(home, ".octosql")}
}

func (s *scenario) command() []string {
	if s.kind == "install" {
		return []string{"plugin", "install", s.plugin + "@" + s.version}
	}
	return []string{"plugin", "repository", "add", s.url}
}

func runCLI(cli string, env []string, timeout time.Duration, args ...string) (int, string) {
	cmd := exec.Command(cli, args...)
	cmd.Env = env
	var out bytes.Buffer
	cmd.Stdout, cmd.Stderr = &out, &out
	if err := cmd.Start(); err != nil {
		return -1, err.Error()
	}
	done := make(chan error, 1)
	go func() { done <- cmd.Wait() }()
	select {
	case err := <-done:
		if ee, ok := err.(*exec.ExitError); ok {
			return ee.ExitCode(), out.String()
		} else if err != nil {
			return -1, err.Error()
		}
		return 0, out.String()
	case <-time.After(timeout):
		cmd.Process.Kill()
		<-done
		return -2, out.String() + "\n[timeout]"
	}
}

type step struct {
	name        string // name#i
	kind        string
	path, dest  string
	length      int
}

func parseLog(path string) ([]step, error) {
	data, err := os.ReadFile(path)
	if err != nil {
		return nil, err
	}
	var steps []step
	for _, line := range strings.Split(strings.TrimSpace(string(data)), "\n") {
		f := strings.Fields(line)
		if len(f) != 5 {
			return nil, fmt.Errorf("bad log line %q", line)
		}
		n, _ := strconv.Atoi(f[4])
		steps = append(steps, step{name: f[0], kind: f[1], path: f[2], dest: f[3], length: n})
	}
	return steps, nil
}

// ---------------------------------------------------------------- Coq rendering

func coqPath(rel string) string {
	var parts []string
	for _, c := range strings.Split(rel, "/") {
		parts = append(parts, lib.CoqBytes(c))
	}
	return lib.CoqList(parts)
}

type entry struct {
	path    string
	isDir   bool
	content string
	names   []string
}

func coqFs(entries []entry) string {
	var items []string
	for _, e := range entries {
		if e.isDir {
			var ns []string
			for _, n := range e.names {
				ns = append(ns, lib.CoqBytes(n))
			}
			items = append(items, fmt.Sprintf("(%s, Dir %s)", coqPath(e.path), lib.CoqList(ns)))
		} else {
			items = append(items, fmt.Sprintf("(%s, File %s)", coqPath(e.path), lib.CoqBytes(e.content)))
		}
	}
	return "[" + strings.Join(items, ";\n    ") + "]"
}

func snapshot(home string) ([]entry, error) {
	root := filepath.Join(home, ".octosql")
	var out []entry
	err := filepath.WalkDir(root, func(p string, d fs.DirEntry, err error) error {
		if err != nil {
			return err
		}
		rel, _ := filepath.Rel(root, p)
		if rel == "." || rel == "logs.txt" || rel == "octosql.yml" {
			return nil
		}
		rel = filepath.ToSlash(rel)
		if d.IsDir() {
			ents, _ := os.ReadDir(p)
			var names []string
			for _, e := range ents {
				names = append(names, e.Name())
			}
			out = append(out, entry{path: rel, isDir: true, names: names})
		} else {
			data, err := os.ReadFile(p)
			if err != nil {
				return err
			}
			out = append(out, entry{path: rel, content: string(data)})
		}
		return nil
	})
	return out, err
}

func coqVersion(text string) (string, error) {
	v, err := semver.NewVersion(text)
	if err != nil {
		return "", err
	}
	var pre []string
	if v.Prerelease() != "" {
		for _, p := range strings.Split(v.Prerelease(), ".") {
			pre = append(pre, lib.CoqBytes(p))
		}
	}
	return fmt.Sprintf("%s, %s, %s, %s, %s", lib.Z(v.Major()), lib.Z(v.Minor()), lib.Z(v.Patch()), lib.CoqList(pre), lib.CoqBytes(v.Metadata())), nil
}

// ---------------------------------------------------------------- probes

type probe struct {
	start int
	dbs   []string // coq outcome per database
	dbsJS []interface{}
	repos bool
	ran   []string // version directory that ran, per database ("" if none)
	panic string   // output of an invocation that panicked
}

func clip(s string, n int) string {
	if len(s) > n {
		return s[:n]
	}
	return s
}

func startCode(code int, out string) int {
	switch {
	case code == 0:
		return 0
	case strings.Contains(out, "panic:") || strings.Contains(out, "goroutine 1 ["):
		return 7
	case strings.Contains(out, "couldn't parse plugin"):
		return 1
	case strings.Contains(out, "couldn't list installed plugins"):
		return 4
	case strings.Contains(out, "is not installed with the required version"):
		return 2
	case strings.Contains(out, "couldn't get file extension handlers"):
		return 5
	}
	return 99
}

func runProbes(cli string, s *scenario, home string, fx *fixture) probe {
	env := s.env(home, fx)
	var pr probe
	code, out := runCLI(cli, env, 60*time.Second, "SELECT 1")
	pr.start = startCode(code, out)
	if pr.start == 7 {
		pr.panic = out
	}
	for i, d := range s.dbs {
		marker := filepath.Join(home, fmt.Sprintf("marker-%d", i))
		os.Remove(marker)
		code, out := runCLI(cli, append(env, "VERIF_MARKER="+marker), 5*time.Second, fmt.Sprintf("SELECT * FROM %s.t", d.name))
		if code == -2 { // a loaded machine, or a cut stub that exits 0 and never opens its socket: try once more, patiently
			os.Remove(marker)
			code, out = runCLI(cli, append(env, "VERIF_MARKER="+marker), 40*time.Second, fmt.Sprintf("SELECT * FROM %s.t", d.name))
		}
		m, _ := os.ReadFile(marker)
		line := strings.Split(strings.TrimSpace(string(m)), "\n")[0]
		obs, js, ran := "", interface{}(nil), ""
		switch {
		case line != "":
			rel, _ := filepath.Rel(filepath.Join(home, ".octosql"), line)
			rel = filepath.ToSlash(rel)
			content, _ := os.ReadFile(line)
			vdir := filepath.Base(filepath.Dir(line))
			if (s.good[rel] != "" && s.good[rel] == string(content)) || (s.goodNew[rel] != "" && s.goodNew[rel] == string(content)) {
				cv, err := coqVersion(vdir)
				if err != nil {
					obs, js = "(Err 98)", "ran from "+rel
				} else {
					obs, js, ran = "(Ok ("+cv+"))", "ran "+vdir, vdir
				}
			} else {
				obs, js = "(Err 6)", "ran an incomplete binary: "+rel
			}
		case startCode(code, out) != 99 && startCode(code, out) != 0:
			c := startCode(code, out)
			obs, js = fmt.Sprintf("(Err %d)", c), fmt.Sprintf("start-up error %d", c)
		default:
			obs, js = "(Err 6)", "no complete binary ran: "+strings.TrimSpace(out)
		}
		pr.dbs = append(pr.dbs, fmt.Sprintf("(%s, %s)", lib.CoqBytes(d.name), obs))
		pr.dbsJS = append(pr.dbsJS, map[string]interface{}{"database": d.name, "result": js})
		pr.ran = append(pr.ran, ran)
	}
	pr.repos = pr.start == 0 // no query runs when start-up fails
	if _, err := os.Stat(filepath.Join(home, ".octosql", "repositories")); err == nil && pr.start == 0 {
		code, out := runCLI(cli, env, 60*time.Second, "SELECT slug FROM plugins.repositories")
		pr.repos = code == 0
		_ = out
	}
	return pr
}

func copyTree(src, dst string) error {
	return filepath.WalkDir(src, func(p string, d fs.DirEntry, err error) error {
		if err != nil {
			return err
		}
		rel, _ := filepath.Rel(src, p)
		target := filepath.Join(dst, rel)
		if d.IsDir() {
			return os.MkdirAll(target, 0o755)
		}
		data, err := os.ReadFile(p)
		if err != nil {
			return err
		}
		info, _ := d.Info()
		return os.WriteFile(target, data, info.Mode().Perm())
	})
}

// ---------------------------------------------------------------- main

type crashSpec struct {
	k    int
	torn int
	at   string // VERIF_CRASH_AT, "" = run to completion
}

func main() {
	f := lib.ParseFlags()
	if f.Cmd != "run" {
		fmt.Fprintln(os.Stderr, "c27: only 'run'")
		os.Exit(2)
	}
	if err := run(f); err != nil {
		fmt.Fprintln(os.Stderr, "c27:", err)
		os.Exit(2)
	}
}

func run(f lib.Flags) error {
	rng := lib.NewRng(f.Seed)
	cf := lib.NewCaseFile("C27", f.Seed, f.Tier)
	cf.Imports = []string{"PluginsFs"}
	cf.CaseType = "c27_case"
	cf.Checks = []lib.Check{{Name: "tie", Kind: "tie", Fn: "c27_tie"}, {Name: "spec", Kind: "spec", Fn: "c27_spec"}}
	cf.Side.Rule = "generated scenarios (1-3 installed versions incl. prereleases and build metadata, a second plugin, 1-2 configured databases with constraints, " +
		"extension-handler file, staging / temporary-file leftovers, repository entries) x {install of a fresh version, re-install, first installation, repository add} " +
		"x every elementary filesystem step x torn prefixes {0, 1, half, len-1} of every write, through the real CLI with the verifhook crash points; " +
		"non-trivial = killed strictly inside the command with at least one configured database"
	cli, err := buildCLI(filepath.Dir(f.Out))
	if err != nil {
		return err
	}
	fx, err := newFixture()
	if err != nil {
		return err
	}
	scratch, err := os.MkdirTemp("", "c27-")
	if err != nil {
		return err
	}
	defer os.RemoveAll(scratch)

	nInstall, nAdd := 5, 2 // forced: fresh, re-install, first installation, two commands; one random
	if f.Tier == "thorough" {
		nInstall, nAdd = 40, 10
	}
	if f.N > 0 {
		nInstall, nAdd = f.N, (f.N+2)/3
	}
	for si := 0; si < nInstall+nAdd; si++ {
		kind := "install"
		if si >= nInstall {
			kind = "add"
		}
		mode := ""
		if kind == "install" && si < 4 {
			mode = []string{"fresh", "reinstall", "first", "chain"}[si]
		}
		s := genScenario(rng.Fork(), si, kind, mode)
		s.url = fmt.Sprintf("%s/s%d/repos/%s.json", fx.addr, s.id, s.slug)
		fx.mu.Lock()
		fx.scens[fmt.Sprintf("s%d", s.id)] = s
		fx.mu.Unlock()
		template := filepath.Join(scratch, fmt.Sprintf("t%d", si))
		if err := s.materialize(template, fx); err != nil {
			return err
		}
		initial, err := snapshot(template)
		if err != nil {
			return err
		}
		// the complete run, logging its steps
		full := filepath.Join(scratch, fmt.Sprintf("full%d", si))
		if err := copyTree(template, full); err != nil {
			return err
		}
		logPath := filepath.Join(scratch, fmt.Sprintf("log%d", si))
		code, out := runCLI(cli, append(s.env(full, fx), "VERIF_CRASH_LOG="+logPath), 60*time.Second, s.command()...)
		if code != 0 {
			return fmt.Errorf("scenario %d (%s): the command failed without a crash: %s", si, s.describe, out)
		}
		steps, err := parseLog(logPath)
		if err != nil {
			return err
		}
		// Coq definitions of the scenario
		pre := fmt.Sprintf("sc%d", si)
		cf.Preamble = append(cf.Preamble, fmt.Sprintf("Definition %s_f0 : fs :=\n   %s.", pre, coqFs(initial)))
		var dbs []string
		var dbsJS []interface{}
		for _, d := range s.dbs {
			dbs = append(dbs, fmt.Sprintf("(mkDB %s %s %s %s)", lib.CoqBytes(d.name), lib.CoqBytes(d.plugin), lib.CoqBytes(d.repo), d.consCoq))
			dbsJS = append(dbsJS, map[string]interface{}{"name": d.name, "type": d.repo + "/" + d.plugin, "version": d.consText})
		}
		cf.Preamble = append(cf.Preamble, fmt.Sprintf("Definition %s_cfg : list dbcfg := %s.", pre, lib.CoqList(dbs)))
		var opCoq string
		if kind == "install" {
			cv, err := coqVersion(s.version)
			if err != nil {
				return err
			}
			var ms, es []string
			for _, m := range s.members {
				ms = append(ms, fmt.Sprintf("(%s, %s)", lib.CoqBytes(m[0]), lib.CoqBytes(m[1])))
			}
			for _, e := range s.exts {
				es = append(es, lib.CoqBytes(e))
			}
			opCoq = fmt.Sprintf("DoInstall (mkInst %s %s (of_obs (%s)) %s %s %s)", lib.CoqBytes("core"), lib.CoqBytes(s.plugin), cv,
				lib.CoqBytes(string(s.archive)), lib.CoqList(ms), lib.CoqList(es))
		} else {
			opCoq = fmt.Sprintf("DoAdd (mkRadd %s %s)", lib.CoqBytes(s.slug), lib.CoqBytes(s.url))
		}
		cf.Preamble = append(cf.Preamble, fmt.Sprintf("Definition %s_op : c27_op := %s.", pre, opCoq))
		if s.plugin2 != "" {
			cv2, err := coqVersion(s.version2)
			if err != nil {
				return err
			}
			var ms, es []string
			for _, m := range s.members2 {
				ms = append(ms, fmt.Sprintf("(%s, %s)", lib.CoqBytes(m[0]), lib.CoqBytes(m[1])))
			}
			for _, e := range s.exts2 {
				es = append(es, lib.CoqBytes(e))
			}
			cf.Preamble = append(cf.Preamble, fmt.Sprintf("Definition %s_op2 : c27_op := DoInstall (mkInst %s %s (of_obs (%s)) %s %s %s).", pre,
				lib.CoqBytes("core"), lib.CoqBytes(s.plugin2), cv2, lib.CoqBytes(string(s.archive2)), lib.CoqList(ms), lib.CoqList(es)))
		}
		scenJS := map[string]interface{}{"scenario": si, "what": s.describe, "command": strings.Join(s.command(), " "), "databases": dbsJS}
		var initJS []string
		for _, e := range initial {
			if !e.isDir {
				initJS = append(initJS, e.path)
			}
		}
		scenJS["initial_files"] = initJS

		// the step list
		var obs, stepsJS []string
		for _, st := range steps {
			switch st.kind {
			case "mkdir":
				obs = append(obs, "OMkdir "+coqPath(st.path))
			case "unlink":
				obs = append(obs, "OUnlink "+coqPath(st.path))
			case "create":
				obs = append(obs, "OCreate "+coqPath(st.path))
			case "write":
				obs = append(obs, fmt.Sprintf("OWrite %s %s", coqPath(st.path), lib.Z(int64(st.length))))
			case "rename":
				obs = append(obs, fmt.Sprintf("ORename %s %s", coqPath(st.path), coqPath(st.dest)))
			}
			stepsJS = append(stepsJS, st.name+" "+st.kind+" "+st.path)
		}
		cf.Add(fmt.Sprintf("KSteps %s_f0 %s_op %s", pre, pre, lib.CoqList(obs)), map[string]interface{}{"kind": "steps", "scenario": scenJS, "steps": stepsJS}, false)
		cf.Count("scenario_" + strings.ReplaceAll(s.describe, " ", "_"))

		// what ran before the command (for the class tag)
		before := runProbes(cli, s, template, fx)
		firstRemoval, move := -1, -1
		for i, st := range steps {
			if strings.HasPrefix(st.name, "install.remove-old#") && firstRemoval < 0 {
				firstRemoval = i
			}
			if strings.HasPrefix(st.name, "install.move#") {
				move = i
			}
		}

		// crash points
		var specs []crashSpec
		for k, st := range steps {
			if st.kind == "write" {
				n := st.length
				if n < 0 {
					n = len(s.archive)
				}
				seen := map[int]bool{}
				for _, t := range []int{0, 1, n / 2, n - 1} {
					if t >= 0 && t <= n && !seen[t] {
						seen[t] = true
						specs = append(specs, crashSpec{k: k, torn: t, at: fmt.Sprintf("%s:%d", st.name, t)})
					}
				}
			} else {
				specs = append(specs, crashSpec{k: k, at: st.name})
			}
		}
		specs = append(specs, crashSpec{k: len(steps)})

		type result struct {
			after []entry
			pr    probe
			err   error
		}
		results := make([]result, len(specs))
		var wg sync.WaitGroup
		sem := make(chan struct{}, 8)
		for ci, sp := range specs {
			wg.Add(1)
			go func(ci int, sp crashSpec) {
				defer wg.Done()
				sem <- struct{}{}
				defer func() { <-sem }()
				home := filepath.Join(scratch, fmt.Sprintf("c%d-%d", si, ci))
				defer os.RemoveAll(home)
				if err := copyTree(template, home); err != nil {
					results[ci].err = err
					return
				}
				env := s.env(home, fx)
				want := 0
				if sp.at != "" {
					env = append(env, "VERIF_CRASH_AT="+sp.at)
					want = 97
				}
				code, out := runCLI(cli, env, 60*time.Second, s.command()...)
				if code != want {
					results[ci].err = fmt.Errorf("scenario %d crash %q: exit code %d, expected %d: %s", si, sp.at, code, want, out)
					return
				}
				after, err := snapshot(home)
				if err != nil {
					results[ci].err = err
					return
				}
				results[ci].after = after
				results[ci].pr = runProbes(cli, s, home, fx)
			}(ci, sp)
		}
		wg.Wait()
		for ci, sp := range specs {
			res := results[ci]
			if res.err != nil {
				return res.err
			}
			prCoq := fmt.Sprintf("(mkProbe %d %s %s)", res.pr.start, lib.CoqList(res.pr.dbs), lib.CoqBool(res.pr.repos))
			js := map[string]interface{}{"kind": "crash", "scenario": scenJS, "killed_before_step": sp.k, "of_steps": len(steps), "torn_bytes": sp.torn,
				"crash_at": sp.at, "start_code": res.pr.start, "databases_after": res.pr.dbsJS, "repositories_readable": res.pr.repos}
			if sp.k < len(steps) {
				js["step"] = stepsJS[sp.k]
			}
			idx := cf.Add(fmt.Sprintf("KCrash %s_f0 %s_cfg %s_op %d %d\n   %s\n   %s", pre, pre, pre, sp.k, sp.torn, coqFs(res.after), prCoq), js,
				sp.k > 0 && sp.k < len(steps) && len(s.dbs) > 0)
			cf.Count("crash_points")
			if res.pr.start != 0 {
				cf.Count("start_failed_after_crash")
			}
			if res.pr.panic != "" {
				cf.Violation(idx, "octosql panics at start-up after this kill: "+clip(strings.TrimSpace(res.pr.panic), 400), "")
			}
			if s.describe == "first installation of the plugin" && sp.k > 0 && sp.k < len(steps) {
				cf.Count("first_installation_crash_points")
			}
			// finding class: re-installation, killed after the first removal of the old copy and before the rename,
			// the version being one a configured database ran before
			if kind == "install" && firstRemoval >= 0 && sp.k > firstRemoval && sp.k <= move {
				for _, ran := range before.ran {
					if ran == s.version {
						cf.SetClass(idx, "reinstall-window")
						cf.Count("in_class_reinstall_window")
						break
					}
				}
			}
		}

		// two commands: the first killed at or after the rename of its version directory (every step and torn prefix of the
		// registry phase) or in the middle of unpacking; then a second installation runs to completion; then the probes
		if s.plugin2 != "" {
			var chain []crashSpec
			unpackSeen := false
			for _, sp := range specs {
				if sp.at == "" {
					continue
				}
				isUnpackWrite := strings.HasPrefix(sp.at, "install.unarchive#") && sp.torn > 1
				if sp.k >= move || (isUnpackWrite && !unpackSeen) {
					chain = append(chain, sp)
					if isUnpackWrite {
						unpackSeen = true
					}
				}
			}
			cres := make([]result, len(chain))
			var wg2 sync.WaitGroup
			for ci, sp := range chain {
				wg2.Add(1)
				go func(ci int, sp crashSpec) {
					defer wg2.Done()
					sem <- struct{}{}
					defer func() { <-sem }()
					home := filepath.Join(scratch, fmt.Sprintf("ch%d-%d", si, ci))
					defer os.RemoveAll(home)
					if err := copyTree(template, home); err != nil {
						cres[ci].err = err
						return
					}
					env := s.env(home, fx)
					if code, out := runCLI(cli, append(env, "VERIF_CRASH_AT="+sp.at), 60*time.Second, s.command()...); code != 97 {
						cres[ci].err = fmt.Errorf("scenario %d crash %q: exit code %d, expected 97: %s", si, sp.at, code, out)
						return
					}
					code2, out2 := runCLI(cli, env, 60*time.Second, "plugin", "install", s.plugin2+"@"+s.version2)
					after, err := snapshot(home)
					if err != nil {
						cres[ci].err = err
						return
					}
					cres[ci].after = after
					cres[ci].pr = runProbes(cli, s, home, fx)
					if code2 != 0 {
						cres[ci].pr.panic = fmt.Sprintf("the second command failed (exit %d): %s", code2, out2)
					}
				}(ci, sp)
			}
			wg2.Wait()
			for ci, sp := range chain {
				res := cres[ci]
				if res.err != nil {
					return res.err
				}
				prCoq := fmt.Sprintf("(mkProbe %d %s %s)", res.pr.start, lib.CoqList(res.pr.dbs), lib.CoqBool(res.pr.repos))
				js := map[string]interface{}{"kind": "crash then second command", "scenario": scenJS, "killed_before_step": sp.k, "of_steps": len(steps),
					"torn_bytes": sp.torn, "crash_at": sp.at, "step": stepsJS[sp.k], "second_command": "plugin install " + s.plugin2 + "@" + s.version2,
					"start_code": res.pr.start, "databases_after": res.pr.dbsJS, "repositories_readable": res.pr.repos}
				idx := cf.Add(fmt.Sprintf("KCrash2 %s_f0 %s_cfg %s_op %d %d %s_op2\n   %s\n   %s", pre, pre, pre, sp.k, sp.torn, pre, coqFs(res.after), prCoq), js, len(s.dbs) > 0)
				cf.Count("two_command_crash_points")
				if res.pr.panic != "" {
					cf.Violation(idx, "after the kill and the second command: "+clip(strings.TrimSpace(res.pr.panic), 400), "")
				}
			}
		}
	}
	return cf.Write(f.Out)
}
