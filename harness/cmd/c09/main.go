// c09: Value.Compare / Equal / Hash, CompareValueSlices, HashManyValues on generated tuples of values, and the
// partitions into "equal" rows that Distinct, both group-bys, count_distinct and ORDER BY induce.
package main

import (
	"context"
	"fmt"
	"math"
	"os"
	"time"

	"github.com/cube2222/octosql/aggregates"
	"github.com/cube2222/octosql/execution"
	"github.com/cube2222/octosql/execution/nodes"
	"github.com/cube2222/octosql/functions"
	"github.com/cube2222/octosql/logical"
	"github.com/cube2222/octosql/octosql"
	"github.com/cube2222/octosql/physical"

	"verifharness/lib"
)

// ---- generators --------------------------------------------------------------------------------

var nanPayloads = []uint64{0x7FF8000000000001, 0x7FF8000000000002, 0xFFF8000000000001, 0x7FF0000000000001, 0xFFFFFFFFFFFFFFFF}

var locs = []*time.Location{time.UTC, time.FixedZone("", 5*3600+1800), time.FixedZone("x", -7*3600), time.FixedZone("", 5*3600+1800)}

// variant returns a value that ought to Compare equal to v but is (where possible) not identical:
// other NaN payload, other zero sign, same instant in another location; recursively inside containers.
func variant(r *lib.Rng, v octosql.Value) octosql.Value {
	switch v.TypeID {
	case octosql.TypeIDFloat:
		if v.Float != v.Float {
			return octosql.NewFloat(math.Float64frombits(nanPayloads[r.Intn(len(nanPayloads))]))
		}
		if v.Float == 0 {
			return octosql.NewFloat(math.Copysign(0, float64(1-2*r.Intn(2))))
		}
	case octosql.TypeIDTime:
		return octosql.NewTime(v.Time.In(locs[r.Intn(len(locs))]))
	case octosql.TypeIDList:
		return octosql.NewList(variants(r, v.List))
	case octosql.TypeIDStruct:
		return octosql.NewStruct(variants(r, v.Struct))
	case octosql.TypeIDTuple:
		return octosql.NewTuple(variants(r, v.Tuple))
	}
	return v
}

func variants(r *lib.Rng, vs []octosql.Value) []octosql.Value {
	out := make([]octosql.Value, len(vs))
	for i := range vs {
		out[i] = variant(r, vs[i])
	}
	return out
}

// perturb changes v a little: one leaf replaced, an element dropped or appended, the container kind changed.
func perturb(r *lib.Rng, v octosql.Value) octosql.Value {
	elems := func(vs []octosql.Value) []octosql.Value {
		out := append([]octosql.Value{}, vs...)
		switch {
		case r.Chance(1, 3): // the prefix family: a proper prefix / extension whose length differs by 1, 2, 3 or more
			d := 1 + r.Intn(4)
			if len(out) >= d && r.Bool() {
				return out[:len(out)-d]
			}
			for i := 0; i < d; i++ {
				out = append(out, lib.GenValue(r, lib.AllProfile, 0))
			}
			return out
		case len(out) > 0 && r.Chance(1, 3):
			return out[:len(out)-1]
		case len(out) > 0 && r.Chance(1, 2):
			i := r.Intn(len(out))
			out[i] = perturb(r, out[i])
			return out
		default:
			return append(out, lib.GenValue(r, lib.AllProfile, 0))
		}
	}
	switch v.TypeID {
	case octosql.TypeIDList, octosql.TypeIDStruct, octosql.TypeIDTuple:
		if r.Chance(1, 6) { // same elements, another container kind
			vs := append(append(append([]octosql.Value{}, v.List...), v.Struct...), v.Tuple...)
			return []func([]octosql.Value) octosql.Value{octosql.NewList, octosql.NewStruct, octosql.NewTuple}[r.Intn(3)](vs)
		}
		switch v.TypeID {
		case octosql.TypeIDList:
			return octosql.NewList(elems(v.List))
		case octosql.TypeIDStruct:
			return octosql.NewStruct(elems(v.Struct))
		default:
			return octosql.NewTuple(elems(v.Tuple))
		}
	case octosql.TypeIDInt:
		return octosql.NewInt(v.Int + int64(r.Intn(3)) - 1)
	case octosql.TypeIDFloat:
		return octosql.NewFloat(math.Float64frombits(math.Float64bits(v.Float) + uint64(r.Intn(3)) - 1))
	case octosql.TypeIDString:
		if r.Bool() {
			return octosql.NewString(v.Str + string([]byte{byte(r.Intn(256))}))
		}
		if len(v.Str) > 0 {
			return octosql.NewString(v.Str[:len(v.Str)-1])
		}
	case octosql.TypeIDTime:
		if !v.Time.IsZero() { // the zero time +-1ns has no int64 UnixNano: the case printer could not name the instant
			return octosql.NewTime(v.Time.Add(time.Duration(r.Intn(3) - 1)))
		}
	case octosql.TypeIDDuration:
		return octosql.NewDuration(v.Duration + time.Duration(r.Intn(3)-1))
	}
	return lib.GenValueOfKind(r, lib.AllProfile, v.TypeID, 1)
}

// longPrefixPair draws a container and a Compare-equal proper prefix of it that is 2..4 elements shorter.
func longPrefixPair(r *lib.Rng) (octosql.Value, octosql.Value) {
	n := r.Intn(3)
	d := 2 + r.Intn(3)
	long := make([]octosql.Value, n+d)
	for i := range long {
		long[i] = lib.GenValue(r, lib.AllProfile, r.Intn(2))
	}
	mk := []func([]octosql.Value) octosql.Value{octosql.NewList, octosql.NewStruct, octosql.NewTuple}[r.Intn(3)]
	a, b := mk(long), mk(variants(r, long[:n]))
	if r.Chance(1, 3) { // nested one level down
		a, b = octosql.NewList([]octosql.Value{a}), octosql.NewList([]octosql.Value{b})
	}
	return a, b
}

func genValue(r *lib.Rng) octosql.Value {
	if r.Chance(1, 30) {
		return octosql.NewTime(time.Time{}) // Go's zero time as a value
	}
	return lib.GenValue(r, lib.AllProfile, r.Intn(4))
}

// related draws a value related to one of prev: equal-by-Compare variant, small perturbation, or fresh.
func related(r *lib.Rng, prev []octosql.Value) octosql.Value {
	if len(prev) == 0 {
		return genValue(r)
	}
	p := prev[r.Intn(len(prev))]
	switch r.Intn(8) {
	case 0, 1, 2:
		return variant(r, p)
	case 3, 4:
		return perturb(r, variant(r, p))
	case 5:
		return p
	}
	return genValue(r)
}

// universe is the fixed set whose triples are checked exhaustively.
func universe() []octosql.Value {
	f := octosql.NewFloat
	fb := func(b uint64) octosql.Value { return octosql.NewFloat(math.Float64frombits(b)) }
	i := octosql.NewInt
	s := octosql.NewString
	l, st, tu := octosql.NewList, octosql.NewStruct, octosql.NewTuple
	vs := func(v ...octosql.Value) []octosql.Value { return v }
	base := time.Unix(1600000000, 0)
	return []octosql.Value{
		octosql.NewNull(),
		i(0), i(1), i(-1), i(math.MinInt64), i(math.MaxInt64),
		f(0), f(math.Copysign(0, -1)), f(1), f(-1), f(2), f(math.Inf(1)), f(math.Inf(-1)),
		fb(nanPayloads[0]), fb(nanPayloads[1]), fb(nanPayloads[2]), f(math.SmallestNonzeroFloat64), f(-math.SmallestNonzeroFloat64),
		octosql.NewBoolean(false), octosql.NewBoolean(true),
		s(""), s("a"), s("A"), s("ab"), s("b"), s("\xff"), s("é"),
		octosql.NewTime(base.UTC()), octosql.NewTime(base.In(locs[1])), octosql.NewTime(base.Add(1).UTC()), octosql.NewTime(time.Unix(0, 0).UTC()), octosql.NewTime(time.Time{}),
		octosql.NewDuration(0), octosql.NewDuration(1), octosql.NewDuration(-1),
		l(nil), l(vs(i(1))), l(vs(i(1), i(2))), l(vs(fb(nanPayloads[0]))), l(vs(fb(nanPayloads[2]))), l(vs(f(0))), l(vs(f(math.Copysign(0, -1)))),
		l(vs(octosql.NewNull())), l(vs(l(vs(i(1))))), l(vs(l(nil))),
		st(nil), st(vs(i(1))), st(vs(i(1), s("a"))), st(vs(f(0))), st(vs(f(math.Copysign(0, -1)))),
		tu(nil), tu(vs(i(1))), tu(vs(fb(nanPayloads[0]), i(1))), tu(vs(fb(nanPayloads[1]), i(1))), tu(vs(fb(nanPayloads[1]), i(2))),
		tu(vs(octosql.NewTime(base.UTC()))), tu(vs(octosql.NewTime(base.In(locs[1])))),
	}
}

// prefixFamily: containers that are proper prefixes of one another with length differences 1, 2 and 3, at the top
// level and nested; part of the universe in both tiers.
func prefixFamily() []octosql.Value {
	i := octosql.NewInt
	l, st, tu := octosql.NewList, octosql.NewStruct, octosql.NewTuple
	vs := func(v ...octosql.Value) []octosql.Value { return v }
	return []octosql.Value{
		l(vs(i(1), i(2), i(3))), l(vs(i(1), i(2), i(3), i(4))), l(vs(i(1), i(3))),
		st(vs(i(1), octosql.NewString("a"), i(3))), st(vs(i(1), octosql.NewString("a"), i(3), i(4))),
		tu(vs(i(1), i(2), i(3))), tu(vs(i(1), i(2), i(3), i(4))),
		l(vs(l(vs(i(1))))), l(vs(l(vs(i(1), i(2), i(3))))), l(vs(l(vs(i(1))), i(0))), tu(vs(l(nil), i(0))), tu(vs(l(vs(i(1), i(2))), i(0))),
	}
}

// hasLongPrefixPair: two containers of one kind, one a Compare-equal proper prefix of the other, lengths differing by >= 2.
func hasLongPrefixPair(vals []octosql.Value) bool {
	parts := func(v octosql.Value) []octosql.Value {
		switch v.TypeID {
		case octosql.TypeIDList:
			return v.List
		case octosql.TypeIDStruct:
			return v.Struct
		}
		return v.Tuple
	}
	var walk func(a, b octosql.Value) bool
	walk = func(a, b octosql.Value) bool {
		if a.TypeID != b.TypeID || a.TypeID < octosql.TypeIDList || a.TypeID > octosql.TypeIDTuple {
			return false
		}
		pa, pb := parts(a), parts(b)
		n := len(pa)
		if len(pb) < n {
			n = len(pb)
		}
		for k := 0; k < n; k++ {
			if pa[k].Compare(pb[k]) != 0 {
				return walk(pa[k], pb[k])
			}
		}
		d := len(pa) - len(pb)
		return d >= 2 || d <= -2
	}
	for x := range vals {
		for y := range vals {
			if x != y && walk(vals[x], vals[y]) {
				return true
			}
		}
	}
	return false
}

// ---- observation -------------------------------------------------------------------------------

func coqZs(zs []int) string {
	parts := make([]string, len(zs))
	for i, z := range zs {
		parts[i] = lib.Z(int64(z))
	}
	return lib.CoqList(parts)
}

func coqRows(rows [][]octosql.Value) string {
	parts := make([]string, len(rows))
	for i := range rows {
		parts[i] = lib.CoqValues(rows[i])
	}
	return lib.CoqList(parts)
}

func rowsJSON(rows [][]octosql.Value) []interface{} {
	out := make([]interface{}, len(rows))
	for i := range rows {
		out[i] = lib.ValuesJSON(rows[i])
	}
	return out
}

func addMatrix(cf *lib.CaseFile, vals []octosql.Value, kind string) {
	n := len(vals)
	cmpRows, eqRows := make([]string, n), make([]string, n)
	hashes := make([]string, n)
	cmpJS := make([][]int, n)
	hashJS := make([]string, n)
	anyEq := false
	var panicked interface{}
	func() {
		defer func() { panicked = recover() }()
		for i := 0; i < n; i++ {
			cs := make([]int, n)
			es := make([]string, n)
			for j := 0; j < n; j++ {
				cs[j] = vals[i].Compare(vals[j])
				es[j] = lib.CoqBool(vals[i].Equal(vals[j]))
				if i != j && cs[j] == 0 {
					anyEq = true
				}
			}
			cmpRows[i], eqRows[i], cmpJS[i] = coqZs(cs), lib.CoqList(es), cs
			h := vals[i].Hash()
			hashes[i], hashJS[i] = lib.U(h), fmt.Sprintf("0x%016x", h)
		}
	}()
	js := map[string]interface{}{"kind": kind, "values": lib.ValuesJSON(vals), "compare": cmpJS, "hash": hashJS}
	idx := cf.Add(fmt.Sprintf("CMatrix %s %s %s %s", lib.CoqValues(vals), lib.CoqList(cmpRows), lib.CoqList(hashes), lib.CoqList(eqRows)), js, anyEq)
	cf.Count(kind)
	if anyEq {
		cf.Count(kind + "_with_equal_pair")
	}
	if panicked == nil && hasLongPrefixPair(vals) {
		cf.Count(kind + "_with_prefix_pair_len_diff_ge2")
	}
	if panicked != nil {
		cf.Violation(idx, fmt.Sprintf("Compare/Equal/Hash panicked: %v", panicked), "")
	}
}

func addSlices(cf *lib.CaseFile, k1, k2 []octosql.Value) {
	l12, l21 := execution.CompareValueSlices(k1, k2), execution.CompareValueSlices(k2, k1)
	h1, h2 := octosql.HashManyValues(k1), octosql.HashManyValues(k2)
	n := len(k1)
	if len(k2) < n {
		n = len(k2)
	}
	c12, c21 := make([]int, n), make([]int, n)
	for i := 0; i < n; i++ {
		c12[i], c21[i] = k1[i].Compare(k2[i]), k2[i].Compare(k1[i])
	}
	js := map[string]interface{}{"kind": "slices", "k1": lib.ValuesJSON(k1), "k2": lib.ValuesJSON(k2), "less12": l12, "less21": l21,
		"hash1": fmt.Sprintf("0x%016x", h1), "hash2": fmt.Sprintf("0x%016x", h2), "compare12": c12, "compare21": c21}
	cf.Add(fmt.Sprintf("CSlices %s %s %s %s %s %s %s %s", lib.CoqValues(k1), lib.CoqValues(k2), lib.CoqBool(l12), lib.CoqBool(l21), lib.U(h1), lib.U(h2), coqZs(c12), coqZs(c21)),
		js, len(k1) == len(k2) && len(k1) > 0 && !l12 && !l21)
	cf.Count("slices")
	if hasLongPrefixPair(append(append([]octosql.Value{}, k1...), k2...)) {
		cf.Count("slices_with_prefix_pair_len_diff_ge2")
	}
	if len(k1) == len(k2) && !l12 && !l21 {
		cf.Count("slices_equal_keys")
	}
}

func source(rows [][]octosql.Value) execution.Node {
	evs := make([]lib.Event, len(rows))
	for i := range rows {
		evs[i] = lib.Event{Rec: execution.NewRecord(rows[i], false, time.Time{})}
	}
	return &lib.ScriptSource{Events: evs}
}

func outRows(evs []lib.Event) (rows [][]octosql.Value, retraction bool) {
	for _, e := range evs {
		if e.IsWM {
			continue
		}
		if e.Rec.Retraction {
			retraction = true
		}
		rows = append(rows, e.Rec.Values)
	}
	return
}

// rowCmp: lexicographic Compare over rows of one length, with the implementation's own Compare.
func rowCmp(a, b []octosql.Value) int {
	for i := range a {
		if c := a[i].Compare(b[i]); c != 0 {
			return c
		}
	}
	return 0
}

// classOf: index (into rows) of the first row that is Compare-equal column by column.
func classOf(rows [][]octosql.Value, r []octosql.Value) int {
	for i := range rows {
		if len(rows[i]) == len(r) && rowCmp(rows[i], r) == 0 {
			return i
		}
	}
	return -1
}

// partitionOracle: do the output rows (keys, optionally followed by a count) hit every Compare=0 class of the
// input exactly `want(class size)` times?
func partitionOracle(name string, rows, out [][]octosql.Value, arity int, withCount bool, repeated bool) string {
	size := map[int]int{}
	for _, r := range rows {
		size[classOf(rows, r)]++
	}
	seen := map[int]int{}
	for _, o := range out {
		if len(o) < arity {
			return fmt.Sprintf("%s: output row %v is shorter than the key", name, o)
		}
		c := classOf(rows, o[:arity])
		if c < 0 {
			return fmt.Sprintf("%s: output key %v is Compare-equal to no input row", name, o[:arity])
		}
		seen[c]++
		if withCount {
			if len(o) != arity+1 || o[arity].TypeID != octosql.TypeIDInt || int(o[arity].Int) != size[c] {
				return fmt.Sprintf("%s: group of key %v has count %v, but %d input rows are Compare-equal to it", name, o[:arity], o[arity:], size[c])
			}
		}
	}
	for c, n := range size {
		want := 1
		if repeated {
			want = n
		}
		if seen[c] != want {
			return fmt.Sprintf("%s: the class of input row %v (%d rows Compare-equal) appears %d times in the output, expected %d", name, rows[c], n, seen[c], want)
		}
	}
	return ""
}

func addOps(cf *lib.CaseFile, rows [][]octosql.Value, desc bool) {
	arity := 0
	if len(rows) > 0 {
		arity = len(rows[0])
	}
	keyExprs := func() []execution.Expression {
		es := make([]execution.Expression, arity)
		for i := range es {
			es[i] = execution.NewVariable(0, i)
		}
		return es
	}
	one := []execution.Expression{execution.NewConstant(octosql.NewInt(1))}
	countProto := aggregates.Aggregates["count"].Descriptors[0].Prototype
	countDistinctProto := aggregates.Aggregates["count_distinct"].Descriptors[0].Prototype
	mults := make([]int, arity)
	for i := range mults {
		mults[i] = 1
		if desc {
			mults[i] = -1
		}
	}

	var problems []string
	run := func(name string, n execution.Node) [][]octosql.Value {
		evs, err, p := lib.RunNode(n)
		if err != nil {
			problems = append(problems, fmt.Sprintf("%s returned an error: %v", name, err))
		}
		if p != nil {
			problems = append(problems, fmt.Sprintf("%s panicked: %v", name, p))
		}
		out, retr := outRows(evs)
		if retr {
			problems = append(problems, name+" emitted a retraction on an addition-only input")
		}
		return out
	}
	oDistinct := run("Distinct", nodes.NewDistinct(source(rows)))
	oSGB := run("SimpleGroupBy", nodes.NewSimpleGroupBy([]func() nodes.Aggregate{countProto}, one, keyExprs(), source(rows)))
	oCTGB := run("CustomTriggerGroupBy", nodes.NewCustomTriggerGroupBy([]func() nodes.Aggregate{countProto}, one, keyExprs(), -1, source(rows), execution.NewEndOfStreamTriggerPrototype()))
	oOrder := run("OrderSensitiveTransform", nodes.NewOrderSensitiveTransform(source(rows), keyExprs(), mults, nil, true))
	cd := int64(-1)
	if arity > 0 || len(rows) == 0 {
		oCD := run("count_distinct", nodes.NewSimpleGroupBy([]func() nodes.Aggregate{countDistinctProto}, []execution.Expression{execution.NewVariable(0, 0)}, nil, source(rows)))
		switch {
		case len(oCD) == 0:
			cd = -1
		case len(oCD) == 1 && len(oCD[0]) == 1 && oCD[0][0].TypeID == octosql.TypeIDNull:
			cd = -2
		case len(oCD) == 1 && len(oCD[0]) == 1 && oCD[0][0].TypeID == octosql.TypeIDInt:
			cd = oCD[0][0].Int
		default:
			cd = -3
			problems = append(problems, fmt.Sprintf("count_distinct produced %v", oCD))
		}
	}

	// the oracle on the implementation's own Compare: every operator's partition is the Compare=0 partition
	for _, p := range []string{
		partitionOracle("DISTINCT", rows, oDistinct, arity, false, false),
		partitionOracle("GROUP BY (hashmap)", rows, oSGB, arity, true, false),
		partitionOracle("GROUP BY (btree)", rows, oCTGB, arity, true, false),
		partitionOracle("ORDER BY", rows, oOrder, arity, false, true),
	} {
		if p != "" {
			problems = append(problems, p)
		}
	}
	for i := 1; i < len(oOrder); i++ {
		if len(oOrder[i]) == arity && len(oOrder[i-1]) == arity {
			c := rowCmp(oOrder[i-1], oOrder[i])
			if desc {
				c = -c
			}
			if c > 0 {
				problems = append(problems, fmt.Sprintf("ORDER BY output is not sorted: %v before %v", oOrder[i-1], oOrder[i]))
				break
			}
		}
	}
	if arity > 0 {
		var col [][]octosql.Value
		for _, r := range rows {
			if r[0].TypeID != octosql.TypeIDNull {
				col = append(col, r[:1])
			}
		}
		classes := map[int]bool{}
		for _, r := range col {
			classes[classOf(col, r)] = true
		}
		want := int64(len(classes))
		if len(col) == 0 {
			want = -2
		}
		if cd != want {
			problems = append(problems, fmt.Sprintf("COUNT(DISTINCT) answered %d, but column 0 has %d classes of Compare-equal non-NULL values (-2 = NULL)", cd, want))
		}
	}

	// self equi-join on every column (StreamJoin key trees), rows without a NULL key only:
	// the pairs it produces are exactly the pairs of Compare-equal rows
	joined := -1
	if arity > 0 {
		var nn [][]octosql.Value
		for _, r := range rows {
			ok := true
			for _, v := range r {
				if v.TypeID == octosql.TypeIDNull {
					ok = false
				}
			}
			if ok {
				nn = append(nn, r)
			}
		}
		oJoin := run("StreamJoin", nodes.NewStreamJoin(source(nn), source(nn), keyExprs(), keyExprs()))
		joined = len(oJoin)
		want := 0
		for _, x := range nn {
			for _, y := range nn {
				if rowCmp(x, y) == 0 {
					want++
				}
			}
		}
		if len(oJoin) != want {
			problems = append(problems, fmt.Sprintf("self equi-join produced %d rows, but %d ordered pairs of input rows are Compare-equal", len(oJoin), want))
		}
		for _, o := range oJoin {
			if len(o) != 2*arity {
				problems = append(problems, fmt.Sprintf("self equi-join row %v does not have %d values", o, 2*arity))
				break
			}
			if rowCmp(o[:arity], o[arity:]) != 0 {
				problems = append(problems, fmt.Sprintf("self equi-join paired %v with %v, which are not Compare-equal", o[:arity], o[arity:]))
				break
			}
		}
		cf.Count("self_joins")
	}

	classes := map[int]int{}
	for _, r := range rows {
		classes[classOf(rows, r)]++
	}
	nontrivial := false // some class holds two rows that are not identical
	for c, n := range classes {
		if n > 1 {
			for _, r := range rows {
				if classOf(rows, r) == c && lib.CoqValues(r) != lib.CoqValues(rows[c]) {
					nontrivial = true
				}
			}
		}
	}
	js := map[string]interface{}{"kind": "operators", "desc": desc, "rows": rowsJSON(rows), "distinct": rowsJSON(oDistinct), "group_by_hashmap": rowsJSON(oSGB),
		"group_by_btree": rowsJSON(oCTGB), "count_distinct": cd, "order_by": rowsJSON(oOrder), "self_join_rows": joined}
	idx := cf.Add(fmt.Sprintf("COps %s %s %s %s %s %s %s", lib.CoqBool(desc), coqRows(rows), coqRows(oDistinct), coqRows(oSGB), coqRows(oCTGB), lib.Z(cd), coqRows(oOrder)),
		js, nontrivial)
	cf.Count("operators")
	if nontrivial {
		cf.Count("operators_with_equal_but_different_rows")
	}
	for _, p := range problems {
		cf.Violation(idx, p, "")
	}
}

// ---- the comparison operators through the real typechecker -----------------------------------------

var functionMap = functions.FunctionMap()

// exprEnv: three columns of one static type; = != < <= > >= and IN typechecked (logical -> physical) and materialised
// once, then evaluated on value triples.  Specialised descriptors, if the tree has any, are picked by the typechecker here.
type exprEnv struct {
	id    int
	name  string
	typ   octosql.Type
	exprs []execution.Expression // nil entry: did not typecheck / materialise
	why   []string
	vals  []octosql.Value
}

var exprOps = []string{"=", "!=", "<", "<=", ">", ">="}

func newExprEnv(id int, name string, typ octosql.Type, vals []octosql.Value) *exprEnv {
	e := &exprEnv{id: id, name: name, typ: typ, vals: vals}
	fields := make([]physical.SchemaField, 3)
	mapping := map[string]string{}
	for i := range fields {
		fields[i] = physical.SchemaField{Name: fmt.Sprintf("t.c%d_0", i), Type: typ}
		mapping[fmt.Sprintf("t.c%d", i)] = fields[i].Name
	}
	phys := physical.Environment{Functions: functionMap, VariableContext: &physical.VariableContext{Fields: fields}}
	log := logical.Environment{UniqueVariableNames: &logical.VariableMapping{Mapping: mapping}, UniqueNameGenerator: map[string]int{}}
	v := func(i int) logical.Expression { return logical.NewVariable(fmt.Sprintf("t.c%d", i)) }
	var les []logical.Expression
	for _, op := range exprOps {
		les = append(les, logical.NewFunctionExpression(op, []logical.Expression{v(0), v(1)}))
	}
	les = append(les, logical.NewFunctionExpression("in", []logical.Expression{v(0), logical.NewTuple([]logical.Expression{v(1), v(2)})}))
	for _, le := range les {
		func() {
			defer func() {
				if p := recover(); p != nil {
					e.exprs, e.why = append(e.exprs, nil), append(e.why, fmt.Sprint("typecheck: ", p))
				}
			}()
			pe := le.Typecheck(context.Background(), phys, log)
			ee, err := pe.Materialize(context.Background(), phys)
			if err != nil {
				e.exprs, e.why = append(e.exprs, nil), append(e.why, "materialize: "+err.Error())
				return
			}
			e.exprs, e.why = append(e.exprs, ee), append(e.why, "")
		}()
	}
	return e
}

func (e *exprEnv) eval(i int, a, b, b2 octosql.Value) (code int, note string) {
	if e.exprs[i] == nil {
		return 3, e.why[i]
	}
	defer func() {
		if p := recover(); p != nil {
			code, note = 3, fmt.Sprint("panic: ", p)
		}
	}()
	ctx := execution.ExecutionContext{Context: context.Background(), VariableContext: &execution.VariableContext{Values: []octosql.Value{a, b, b2}}}
	v, err := e.exprs[i].Evaluate(ctx)
	switch {
	case err != nil:
		return 3, "error: " + err.Error()
	case v.TypeID == octosql.TypeIDNull:
		return 2, ""
	case v.TypeID == octosql.TypeIDBoolean && v.Boolean:
		return 1, ""
	case v.TypeID == octosql.TypeIDBoolean:
		return 0, ""
	}
	return 3, "value " + v.String()
}

func addExpr(cf *lib.CaseFile, e *exprEnv, a, b, b2 octosql.Value) {
	outs := make([]int, len(e.exprs))
	names := append(append([]string{}, exprOps...), "in")
	js := map[string]interface{}{"kind": "operators_through_typechecker", "static_type": e.name, "a": lib.ValueJSON(a), "b": lib.ValueJSON(b), "b2": lib.ValueJSON(b2)}
	res := map[string]interface{}{}
	for i := range e.exprs {
		var note string
		outs[i], note = e.eval(i, a, b, b2)
		res[names[i]] = []interface{}{outs[i], note}
	}
	cab, cab2 := a.Compare(b), a.Compare(b2)
	js["results_0false_1true_2null_3other"], js["a_compare_b"], js["a_compare_b2"] = res, cab, cab2
	cf.Add(fmt.Sprintf("CExpr %d %s %s %s %s %s %s", e.id, lib.CoqValue(a), lib.CoqValue(b), lib.CoqValue(b2), lib.Z(int64(cab)), lib.Z(int64(cab2)), coqZs(outs)),
		js, cab == 0 && lib.CoqValue(a) != lib.CoqValue(b))
	cf.Count("expr_" + e.name)
}

func exprEnvs() []*exprEnv {
	nan := func(i int) octosql.Value { return octosql.NewFloat(math.Float64frombits(nanPayloads[i])) }
	f, i, s := octosql.NewFloat, octosql.NewInt, octosql.NewString
	base := time.Unix(1600000000, 0)
	floats := []octosql.Value{f(0), f(math.Copysign(0, -1)), nan(0), nan(1), nan(2), f(1), f(-1), f(math.Inf(1)), f(math.Inf(-1)), f(math.SmallestNonzeroFloat64)}
	ints := []octosql.Value{i(0), i(1), i(-1), i(math.MinInt64), i(math.MaxInt64)}
	bools := []octosql.Value{octosql.NewBoolean(false), octosql.NewBoolean(true)}
	strs := []octosql.Value{s(""), s("a"), s("A"), s("ab"), s("\xff"), s("é")}
	times := []octosql.Value{octosql.NewTime(base.UTC()), octosql.NewTime(base.In(locs[1])), octosql.NewTime(base.In(locs[2])), octosql.NewTime(base.Add(1).UTC()), octosql.NewTime(time.Unix(0, 0).UTC())}
	durs := []octosql.Value{octosql.NewDuration(0), octosql.NewDuration(1), octosql.NewDuration(-1), octosql.NewDuration(math.MaxInt64)}
	fl := func(v ...octosql.Value) octosql.Value { return octosql.NewList(v) }
	lists := []octosql.Value{fl(), fl(f(0)), fl(f(math.Copysign(0, -1))), fl(nan(0)), fl(nan(2)), fl(f(0), f(1), f(2)), fl(f(0), f(1))}
	listOfFloat := octosql.Type{TypeID: octosql.TypeIDList, List: struct{ Element *octosql.Type }{Element: &octosql.Float}}
	null := octosql.NewNull()
	withNull := func(vs []octosql.Value) []octosql.Value { return append(append([]octosql.Value{}, vs...), null) }
	var mixed []octosql.Value
	for _, vs := range [][]octosql.Value{floats[:4], ints[:2], bools[:1], strs[:2], times[:2], durs[:1], lists[:3]} {
		mixed = append(mixed, vs...)
	}
	var envs []*exprEnv
	add := func(name string, t octosql.Type, vals []octosql.Value) {
		envs = append(envs, newExprEnv(len(envs), name, t, vals))
	}
	add("Float", octosql.Float, floats)
	add("Int", octosql.Int, ints)
	add("Boolean", octosql.Boolean, bools)
	add("String", octosql.String, strs)
	add("Time", octosql.Time, times)
	add("Duration", octosql.Duration, durs)
	add("ListOfFloat", listOfFloat, lists)
	add("NullableFloat", octosql.TypeSum(octosql.Float, octosql.Null), withNull(floats[:6]))
	add("NullableInt", octosql.TypeSum(octosql.Int, octosql.Null), withNull(ints[:3]))
	add("NullableString", octosql.TypeSum(octosql.String, octosql.Null), withNull(strs[:3]))
	add("Any", octosql.Any, withNull(mixed))
	return envs
}

func main() {
	f := lib.ParseFlags()
	if f.Cmd != "run" {
		fmt.Fprintln(os.Stderr, "c09: only 'run'")
		os.Exit(2)
	}
	rng := lib.NewRng(f.Seed)
	cf := lib.NewCaseFile("C09", f.Seed, f.Tier)
	cf.Imports = []string{"Values", "C09Spec"}
	cf.CaseType = "c09_case"
	cf.Checks = []lib.Check{{Name: "tie", Kind: "tie", Fn: "c09_tie"}, {Name: "spec", Kind: "spec", Fn: "c09_spec"}}
	cf.Side.Rule = "triples of related values (nested to depth 3; NaN payloads, signed zeros, one instant in several locations, zero time): full 3x3 Compare/Equal matrix + Hash; " +
		"key pairs through CompareValueSlices/HashManyValues; addition-only batches of 0..12 rows (arity 1..2) from a small pool through Distinct, SimpleGroupBy, CustomTriggerGroupBy, " +
		"count_distinct, OrderSensitiveTransform and a self equi-join (StreamJoin); one fixed universe incl. a family of proper prefixes with length differences 1..3 (all triples; larger in the thorough tier); " +
		"= != < <= > >= IN typechecked by the real typechecker for two columns statically typed Float/Int/Boolean/String/Time/Duration/[Float]/nullable/Any, evaluated on pairs of edge values (all NaN payloads, both zeros). " +
		"non-trivial = matrix with a Compare-equal pair of distinct positions / equal keys / a class holding two non-identical rows; distinct by full case text"

	uni := universe()
	fam := prefixFamily()
	if f.Tier != "thorough" {
		// quick: every third value of the universe plus the float block (still all triples of those)
		var small []octosql.Value
		for i, v := range uni {
			if i%3 == 0 || v.TypeID == octosql.TypeIDFloat {
				small = append(small, v)
			}
		}
		uni = small
	}
	addMatrix(cf, append(uni, fam...), "universe")

	// the comparison operators, typechecked for every static scalar type: all ordered pairs of the type's edge values
	// (third operand = the next value), sampled down in the quick tier
	for _, e := range exprEnvs() {
		r := rng.Fork()
		for x := range e.vals {
			for y := range e.vals {
				if f.Tier != "thorough" && len(e.vals) > 6 && x != y && e.vals[x].Compare(e.vals[y]) != 0 && !r.Chance(1, 3) {
					continue
				}
				addExpr(cf, e, e.vals[x], e.vals[y], e.vals[(y+1+r.Intn(len(e.vals)-1))%len(e.vals)])
			}
		}
	}

	nTriples, nSlices, nOps := f.Cases(300, 3000), f.Cases(120, 1200), f.Cases(160, 1600)
	for i := 0; i < nTriples; i++ {
		r := rng.Fork()
		n := 3
		if r.Chance(1, 10) {
			n = 4 + r.Intn(3)
		}
		var vals []octosql.Value
		if r.Chance(1, 8) {
			a, b := longPrefixPair(r)
			vals = append(vals, a, b)
		}
		for len(vals) < n {
			vals = append(vals, related(r, vals))
		}
		addMatrix(cf, vals, "triple")
	}
	for i := 0; i < nSlices; i++ {
		r := rng.Fork()
		n := r.Intn(4)
		k1 := make([]octosql.Value, n)
		for j := range k1 {
			k1[j] = genValue(r)
		}
		var k2 []octosql.Value
		switch r.Intn(6) {
		case 0:
			k2 = variants(r, k1)
			if len(k2) > 0 {
				j := r.Intn(len(k2))
				k2[j] = perturb(r, k2[j])
			}
		case 1:
			k2 = append(variants(r, k1), genValue(r)) // proper extension
		case 2:
			if n > 0 {
				k2 = variants(r, k1[:n-1]) // proper prefix
			}
		case 3: // one column holds a container and a much shorter prefix of it
			a, b := longPrefixPair(r)
			if r.Bool() {
				a, b = b, a
			}
			j := r.Intn(n + 1)
			k2 = variants(r, k1)
			k1 = append(append(append([]octosql.Value{}, k1[:j]...), a), k1[j:]...)
			k2 = append(append(append([]octosql.Value{}, k2[:j]...), b), k2[j:]...)
		default:
			k2 = variants(r, k1)
		}
		addSlices(cf, k1, k2)
	}
	for i := 0; i < nOps; i++ {
		r := rng.Fork()
		arity := 1
		if r.Chance(1, 3) {
			arity = 2
		}
		var pool []octosql.Value
		for len(pool) < 2+r.Intn(4) {
			pool = append(pool, related(r, pool))
		}
		if r.Chance(1, 2) {
			pool = append(pool, octosql.NewNull())
		}
		if r.Chance(1, 3) {
			a, b := longPrefixPair(r)
			pool = append(pool, a, b)
			if r.Bool() { // and one in between, so that a non-transitive comparator has something to break
				pool = append(pool, perturb(r, b))
			}
			cf.Count("operators_with_prefix_pair_len_diff_ge2")
		}
		rows := make([][]octosql.Value, r.Intn(13))
		for j := range rows {
			rows[j] = make([]octosql.Value, arity)
			for k := range rows[j] {
				rows[j][k] = pool[r.Intn(len(pool))]
				if r.Chance(1, 3) {
					rows[j][k] = variant(r, rows[j][k])
				}
			}
		}
		addOps(cf, rows, r.Chance(1, 3))
	}
	if err := cf.Write(f.Out); err != nil {
		fmt.Fprintln(os.Stderr, err)
		os.Exit(2)
	}
}
