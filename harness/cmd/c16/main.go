// c16: GROUP BY (SimpleGroupBy / CustomTriggerGroupBy behind an EventTimeBuffer, all trigger
// configurations) built through the planner path and run on generated changelogs with watermarks.
package main

import (
	"fmt"
	"os"

	"verifharness/cmd/c16/gb"
	"verifharness/lib"
)

func main() {
	f := lib.ParseFlags()
	if f.Cmd != "run" {
		fmt.Fprintln(os.Stderr, "c16: only 'run'")
		os.Exit(2)
	}
	gb.Init()
	rng := lib.NewRng(f.Seed)
	cf := lib.NewCaseFile("C16", f.Seed, f.Tier)
	cf.Imports = []string{"GroupBy"}
	cf.CaseType = "gb_case"
	cf.Checks = []lib.Check{{Name: "tie", Kind: "tie", Fn: "gb_tie"}, {Name: "spec", Kind: "spec", Fn: "c16_spec"}}
	cf.Side.Rule = "random structured changelogs (0..14 events; 1..2 key columns over 2..4 distinct keys, optionally an event-time key column with " +
		"equal instants in different zones; COUNT / SUM(Int) arguments with NULLs and int64 extremes; duplicates, retractions (1 in 10 of an absent row), " +
		"monotone watermarks, late and zero event times, retractions with an earlier event time than their insertion) through logical.GroupBy.Typecheck -> " +
		"physical.Node.Materialize for all 20 trigger sets (COUNTING 1..4 or none x ON WATERMARK x ON END OF STREAM; 1 in 5 permuted, 1 in 25 with a duplicate); " +
		gb.Rule
	n := f.Cases(500, 5000)
	for i := 0; i < n; i++ {
		r := rng.Fork()
		gb.RandomCase(cf, r, i, false)
	}
	if err := cf.Write(f.Out); err != nil {
		fmt.Fprintln(os.Stderr, err)
		os.Exit(2)
	}
}
