// Package gb: shared pieces of the C16 / C17 engines: GROUP BY configurations, changelog generator,
// construction of the real node through logical.GroupBy.Typecheck -> physical.Node.Materialize,
// case rendering (Coq type gb_case of Model/GroupBy.v), bounded-exhaustive enumeration for C17.
package gb

import (
	"context"
	"fmt"
	"math"
	"sort"
	"strings"
	"time"

	"github.com/cube2222/octosql/aggregates"
	"github.com/cube2222/octosql/execution"
	"github.com/cube2222/octosql/execution/nodes"
	"github.com/cube2222/octosql/logical"
	"github.com/cube2222/octosql/octosql"
	"github.com/cube2222/octosql/physical"

	"verifharness/lib"
)

// OvertakeClass is the class name of the recorded finding: the event-time buffer hands the group-by
// a record sequence that is not a valid changelog (a retraction overtakes its insertion).
const OvertakeClass = "retraction-overtakes-insertion"

// ---------- configuration ----------

type TrigKind int

const (
	Counting TrigKind = iota
	Watermark
	EndOfStream
)

type Trig struct {
	Kind TrigKind
	N    uint // Counting only
}

type Agg int

const (
	Count Agg = iota
	Sum
)

type Config struct {
	NK    int
	Aggs  []Agg
	KTI   int // keyEventTimeIndex the harness intends; -1 = none
	Trigs []Trig
}

func (c Config) Arity() int { return c.NK + len(c.Aggs) }

func (c Config) HasWatermark() bool {
	for _, t := range c.Trigs {
		if t.Kind == Watermark {
			return true
		}
	}
	return false
}

// IsSimple mirrors physical/nodes.go: SimpleGroupBy iff the assembled trigger is END OF STREAM.
func (c Config) IsSimple() bool {
	return len(c.Trigs) == 0 || (len(c.Trigs) == 1 && c.Trigs[0].Kind == EndOfStream)
}

func (t Trig) Coq() string {
	switch t.Kind {
	case Counting:
		return fmt.Sprintf("TCounting %d", t.N)
	case Watermark:
		return "TWatermark"
	}
	return "TEndOfStream"
}

func (t Trig) short() string {
	switch t.Kind {
	case Counting:
		return fmt.Sprintf("C%d", t.N)
	case Watermark:
		return "W"
	}
	return "E"
}

func (t Trig) String() string {
	switch t.Kind {
	case Counting:
		return fmt.Sprintf("counting %d", t.N)
	case Watermark:
		return "on watermark"
	}
	return "on end of stream"
}

func (c Config) CoqTrigs() string {
	parts := make([]string, len(c.Trigs))
	for i, t := range c.Trigs {
		parts[i] = t.Coq()
	}
	return lib.CoqList(parts)
}

func (c Config) CoqAggs() string {
	parts := make([]string, len(c.Aggs))
	for i, a := range c.Aggs {
		if a == Count {
			parts[i] = "ACount"
		} else {
			parts[i] = "ASum"
		}
	}
	return lib.CoqList(parts)
}

func (c Config) CoqKTI() string {
	if c.KTI < 0 {
		return "None"
	}
	return fmt.Sprintf("(Some %d%%nat)", c.KTI)
}

// SetName is the canonical name of the trigger set (order and duplicates ignored).
func (c Config) SetName() string {
	seen := map[string]bool{}
	var cs, rest []string
	for _, t := range c.Trigs {
		s := t.short()
		if seen[s] {
			continue
		}
		seen[s] = true
		if t.Kind == Counting {
			cs = append(cs, s)
		} else {
			rest = append(rest, s)
		}
	}
	sort.Strings(cs)
	sort.Sort(sort.Reverse(sort.StringSlice(rest))) // W before E
	all := append(cs, rest...)
	if len(all) == 0 {
		return "none"
	}
	return strings.Join(all, "_")
}

// BaseSets: the 20 trigger sets, canonical order [Counting; Watermark; EndOfStream].
func BaseSets() [][]Trig {
	var out [][]Trig
	for n := 0; n <= 4; n++ {
		for _, w := range []bool{false, true} {
			for _, e := range []bool{false, true} {
				var ts []Trig
				if n > 0 {
					ts = append(ts, Trig{Kind: Counting, N: uint(n)})
				}
				if w {
					ts = append(ts, Trig{Kind: Watermark})
				}
				if e {
					ts = append(ts, Trig{Kind: EndOfStream})
				}
				out = append(out, ts)
			}
		}
	}
	return out
}

// PureSets: configurations with one kind of trigger behaviour (C17's bias).
func PureSets() [][]Trig {
	return [][]Trig{
		{{Kind: Counting, N: 1}}, {{Kind: Counting, N: 2}}, {{Kind: Counting, N: 3}}, {{Kind: Counting, N: 4}},
		{{Kind: Watermark}}, {{Kind: Watermark}, {Kind: EndOfStream}}, {}, {{Kind: EndOfStream}},
	}
}

// ---------- locations ----------

var locs []*time.Location // UTC, +05:30 (a), +05:30 (b): three distinct *time.Location values

// Init fixes the location ids (UTC = 0, then lib's two distinct +05:30 zones) before anything is printed.
func Init() {
	lib.LocID(time.Unix(0, 0).UTC())
	var a, b *time.Location
	for _, t := range lib.EdgeTimes() {
		l := t.Location()
		if l == time.UTC {
			continue
		}
		if a == nil {
			a = l
		} else if l != a && b == nil {
			b = l
		}
	}
	if a == nil || b == nil || a == b {
		panic("gb.Init: lib.EdgeTimes() does not carry two distinct non-UTC locations")
	}
	lib.LocID(time.Unix(0, 0).In(a))
	lib.LocID(time.Unix(0, 0).In(b))
	locs = []*time.Location{time.UTC, a, b}
}

func otherLoc(r *lib.Rng, t time.Time) *time.Location {
	for {
		l := locs[r.Intn(len(locs))]
		if l != t.Location() {
			return l
		}
	}
}

// ---------- random configurations ----------

// GenConfig draws the configuration of case number i. The 20 base sets are cycled; with pure=true
// the set is one of PureSets. 1 in 5 a random permutation, 1 in 25 a duplicated trigger.
func GenConfig(r *lib.Rng, i int, pure bool) (cfg Config, permuted, duplicated bool) {
	var ts []Trig
	if pure {
		ps := PureSets()
		ts = append(ts, ps[i%len(ps)]...)
	} else {
		bs := BaseSets()
		ts = append(ts, bs[i%len(bs)]...)
	}
	if !pure {
		if r.Chance(1, 25) {
			duplicated = true
			if len(ts) == 0 {
				ts = []Trig{{Kind: EndOfStream}, {Kind: EndOfStream}}
			} else {
				d := ts[r.Intn(len(ts))]
				at := r.Intn(len(ts) + 1)
				ts = append(ts[:at:at], append([]Trig{d}, ts[at:]...)...)
			}
		}
		if len(ts) > 1 && r.Chance(1, 5) {
			permuted = true
			for k := len(ts) - 1; k > 0; k-- {
				j := r.Intn(k + 1)
				ts[k], ts[j] = ts[j], ts[k]
			}
		}
	}
	cfg.Trigs = ts
	cfg.NK = 1 + r.Intn(2)
	na := 1 + r.Intn(2)
	for k := 0; k < na; k++ {
		cfg.Aggs = append(cfg.Aggs, Agg(r.Intn(2)))
	}
	cfg.KTI = -1
	if cfg.HasWatermark() || r.Chance(1, 2) {
		cfg.KTI = r.Intn(cfg.NK)
	}
	return
}

// ---------- random changelogs ----------

func timeKeyVal(r *lib.Rng) octosql.Value {
	switch {
	case r.Chance(1, 25):
		return octosql.NewNull()
	case r.Chance(1, 10):
		ts := lib.EdgeTimes()
		return octosql.NewTime(ts[1+r.Intn(len(ts)-1)]) // never the zero time as a value
	}
	n := int64(2 * (1 + r.Intn(4)))
	return octosql.NewTime(time.Unix(0, n).In(locs[r.Intn(len(locs))]))
}

func argVal(r *lib.Rng, a Agg) octosql.Value {
	if a == Count {
		return lib.GenValue(r, lib.SmallProfile, 0)
	}
	switch {
	case r.Chance(1, 5):
		return octosql.NewNull()
	case r.Chance(1, 15):
		if r.Bool() {
			return octosql.NewInt(math.MaxInt64)
		}
		return octosql.NewInt(math.MinInt64)
	}
	return octosql.NewInt(int64(r.Intn(5)) - 1)
}

func sameKey(a, b []octosql.Value) bool { return RowsEqual(a, b) }

// RowsEqual: equal length and pairwise Value.Compare == 0 (how the group-by identifies keys/rows).
func RowsEqual(a, b []octosql.Value) bool {
	if len(a) != len(b) {
		return false
	}
	for i := range a {
		if a[i].Compare(b[i]) != 0 {
			return false
		}
	}
	return true
}

func genPool(r *lib.Rng, cfg Config) [][]octosql.Value {
	want := 2 + r.Intn(3)
	var pool [][]octosql.Value
	for tries := 0; len(pool) < want && tries < 40; tries++ {
		key := make([]octosql.Value, cfg.NK)
		for j := range key {
			if j == cfg.KTI {
				key[j] = timeKeyVal(r)
			} else {
				key[j] = lib.GenValue(r, lib.SmallProfile, 0)
			}
		}
		// a twin: the same instant in a different *time.Location, in a different group
		if cfg.KTI >= 0 && cfg.NK == 2 && len(pool) > 0 && r.Chance(1, 2) {
			p := pool[r.Intn(len(pool))]
			if p[cfg.KTI].TypeID == octosql.TypeIDTime {
				key[cfg.KTI] = octosql.NewTime(p[cfg.KTI].Time.In(otherLoc(r, p[cfg.KTI].Time)))
			}
		}
		dup := false
		for _, p := range pool {
			if sameKey(p, key) {
				dup = true
			}
		}
		if !dup {
			pool = append(pool, key)
		}
	}
	return pool
}

type presentRow struct {
	vals []octosql.Value
	et   time.Time
}

func late(et time.Time, wm int64) bool { return !et.IsZero() && et.UnixNano() <= wm }

// GenScript draws a structured, mostly valid changelog with watermarks for cfg (0..14 events).
func GenScript(r *lib.Rng, cfg Config) []lib.Event {
	return GenScriptPool(r, cfg, genPool(r, cfg))
}

// GenScriptPool draws a script over the given key pool (so that several runs of one node share groups).
func GenScriptPool(r *lib.Rng, cfg Config, pool [][]octosql.Value) []lib.Event {
	n := r.Intn(15)
	allowLate := r.Chance(1, 5)
	overtakeAt := -1
	if n >= 2 && r.Chance(1, 12) {
		overtakeAt = r.Intn(n - 1)
	}
	var evs []lib.Event
	var present []presentRow
	wm := int64(0)

	rezone := func(vals []octosql.Value, num, den int) []octosql.Value {
		out := append([]octosql.Value(nil), vals...)
		if cfg.KTI >= 0 && out[cfg.KTI].TypeID == octosql.TypeIDTime && r.Chance(num, den) {
			out[cfg.KTI] = octosql.NewTime(out[cfg.KTI].Time.In(otherLoc(r, out[cfg.KTI].Time)))
		}
		return out
	}
	freshRow := func() []octosql.Value {
		key := pool[r.Intn(len(pool))]
		vals := rezone(key, 1, 5)
		for _, a := range cfg.Aggs {
			vals = append(vals, argVal(r, a))
		}
		return vals
	}
	eventTimeFor := func(vals []octosql.Value) time.Time {
		if cfg.KTI >= 0 && vals[cfg.KTI].TypeID == octosql.TypeIDTime && r.Chance(3, 4) {
			return vals[cfg.KTI].Time
		}
		if r.Chance(1, 2) {
			return lib.T(0)
		}
		return lib.T(int64(1 + r.Intn(9)))
	}
	rec := func(vals []octosql.Value, retraction bool, et time.Time) {
		evs = append(evs, lib.Event{Rec: execution.NewRecord(vals, retraction, et)})
	}
	removePresent := func(vals []octosql.Value) {
		for k := range present {
			if RowsEqual(present[k].vals, vals) {
				present = append(present[:k:k], present[k+1:]...)
				return
			}
		}
	}
	insertion := func() {
		var vals []octosql.Value
		var et time.Time
		if len(present) > 0 && r.Chance(1, 4) { // duplicate row
			p := present[r.Intn(len(present))]
			vals, et = rezone(p.vals, 1, 6), p.et
			if r.Chance(1, 4) {
				et = eventTimeFor(vals)
			}
			if !allowLate && late(et, wm) {
				et = lib.T(0)
			}
		} else {
			for try := 0; ; try++ {
				vals = freshRow()
				et = eventTimeFor(vals)
				if allowLate || !late(et, wm) {
					break
				}
				if try >= 6 {
					if r.Bool() {
						et = lib.T(0)
					} else {
						et = lib.T(wm + 1 + int64(r.Intn(3)))
					}
					break
				}
			}
		}
		present = append(present, presentRow{vals, et})
		rec(vals, false, et)
	}

	for len(evs) < n {
		switch {
		case len(evs) == overtakeAt:
			// insertion at e1, at once retracted at an earlier non-zero e2, no watermark in between
			// (2 in 3: in a group that already holds a delivered row, where the overtaking retraction
			// empties the group's item and its aggregate state is lost)
			vals := freshRow()
			if r.Chance(2, 3) {
				var delivered []presentRow
				for _, p := range present {
					if p.et.IsZero() || late(p.et, wm) {
						delivered = append(delivered, p)
					}
				}
				if len(delivered) > 0 {
					p := delivered[r.Intn(len(delivered))]
					vals = rezone(p.vals[:cfg.NK], 1, 6)
					for _, a := range cfg.Aggs {
						vals = append(vals, argVal(r, a))
					}
				}
			}
			e1 := wm + 2 + int64(r.Intn(3))
			e2 := wm + 1 + int64(r.Intn(int(e1-wm-1)))
			rec(vals, false, lib.T(e1))
			rec(rezone(vals, 1, 6), true, lib.T(e2))
			overtakeAt = -1
		case r.Chance(1, 4):
			wm += int64(r.Intn(4))
			if wm == 0 {
				wm = 1
			}
			evs = append(evs, lib.Event{IsWM: true, WM: lib.T(wm)})
		case len(present) > 0 && r.Chance(1, 3):
			if r.Chance(1, 10) { // retraction of a row that is (very likely) absent: invalid changelog
				vals := freshRow()
				removePresent(vals)
				rec(vals, true, eventTimeFor(vals))
				continue
			}
			k := r.Intn(len(present))
			if !allowLate {
				for try := 0; try < 4 && late(present[k].et, wm); try++ {
					k = r.Intn(len(present))
				}
				if late(present[k].et, wm) {
					insertion()
					continue
				}
			}
			p := present[k]
			present = append(present[:k:k], present[k+1:]...)
			et := p.et
			if r.Chance(1, 8) {
				et = eventTimeFor(p.vals)
				if !allowLate && late(et, wm) {
					et = p.et
				}
			}
			rec(rezone(p.vals, 1, 6), true, et)
		default:
			insertion()
		}
	}
	return evs
}

// ---------- observations about a script ----------

// ValidChangelog: no prefix of the record sequence retracts an absent row.
func ValidChangelog(evs []lib.Event) bool {
	var present [][]octosql.Value
	for _, e := range evs {
		if e.IsWM {
			continue
		}
		if !e.Rec.Retraction {
			present = append(present, e.Rec.Values)
			continue
		}
		found := false
		for k := range present {
			if RowsEqual(present[k], e.Rec.Values) {
				present = append(present[:k:k], present[k+1:]...)
				found = true
				break
			}
		}
		if !found {
			return false
		}
	}
	return true
}

type Stats struct {
	Retraction, WM   bool
	Groups           int
	EqInstDiffZone   bool // two records of different groups carry equal instants in different locations in the time key column
	ValidInput       bool
	NullTimeKey      bool
	ZeroEventTime    bool
	LateRecord       bool
	SameGroupTwoZone bool
}

func Observe(cfg Config, script []lib.Event) Stats {
	var s Stats
	var keys [][]octosql.Value
	wm := int64(-1)
	for _, e := range script {
		if e.IsWM {
			s.WM = true
			wm = e.WM.UnixNano()
			continue
		}
		if e.Rec.Retraction {
			s.Retraction = true
		}
		if e.Rec.EventTime.IsZero() {
			s.ZeroEventTime = true
		} else if wm >= 0 && e.Rec.EventTime.UnixNano() <= wm {
			s.LateRecord = true
		}
		key := e.Rec.Values[:cfg.NK]
		if cfg.KTI >= 0 && key[cfg.KTI].TypeID == octosql.TypeIDNull {
			s.NullTimeKey = true
		}
		isNew := true
		for _, k := range keys {
			if sameKey(k, key) {
				isNew = false
			}
			if cfg.KTI >= 0 && k[cfg.KTI].TypeID == octosql.TypeIDTime && key[cfg.KTI].TypeID == octosql.TypeIDTime &&
				k[cfg.KTI].Time.Equal(key[cfg.KTI].Time) && k[cfg.KTI].Time.Location() != key[cfg.KTI].Time.Location() {
				if sameKey(k, key) {
					s.SameGroupTwoZone = true
				} else {
					s.EqInstDiffZone = true
				}
			}
		}
		keys = append(keys, key) // every occurrence is kept: zone variants of one group matter
		if isNew {
			s.Groups++
		}
	}
	s.ValidInput = ValidChangelog(script)
	return s
}

// ---------- building the real node ----------

// runsSource replays scripts[0] on its first Run, scripts[1] on its second, ...: the node above it is one
// object that is run several times (as the joined side of a LookupJoin or a correlated subquery is).
type runsSource struct {
	scripts [][]lib.Event
	run     int
}

func (s *runsSource) Run(ctx execution.ExecutionContext, produce execution.ProduceFn, metaSend execution.MetaSendFn) error {
	i := s.run
	s.run++
	if i >= len(s.scripts) {
		return fmt.Errorf("verif: source run %d times, only %d scripts", i+1, len(s.scripts))
	}
	return (&lib.ScriptSource{Events: s.scripts[i]}).Run(ctx, produce, metaSend)
}

type scriptImpl struct{ scripts [][]lib.Event }

func (s *scriptImpl) Materialize(ctx context.Context, env physical.Environment, schema physical.Schema, pushedDownPredicates []physical.Expression) (execution.Node, error) {
	return &runsSource{scripts: s.scripts}, nil
}

func (s *scriptImpl) PushDownPredicates(newPredicates, pushedDownPredicates []physical.Expression) (rejected, pushedDown []physical.Expression, changed bool) {
	return newPredicates, nil, false
}

// fakeSource is the logical source node: a datasource "t" with columns c0, c1, ...
type fakeSource struct {
	types     []octosql.Type
	timeField int
	scripts   [][]lib.Event
}

func (f *fakeSource) Typecheck(ctx context.Context, env physical.Environment, logicalEnv logical.Environment) (physical.Node, map[string]string) {
	mapping := map[string]string{}
	fields := make([]physical.SchemaField, len(f.types))
	for i := range f.types {
		name := fmt.Sprintf("t.c%d", i)
		unique := logicalEnv.GetUnique(name)
		mapping[name] = unique
		fields[i] = physical.SchemaField{Name: unique, Type: f.types[i]}
	}
	return physical.Node{
		Schema:   physical.NewSchema(fields, f.timeField),
		NodeType: physical.NodeTypeDatasource,
		Datasource: &physical.Datasource{
			Name:                     "t",
			Alias:                    "t",
			DatasourceImplementation: &scriptImpl{scripts: f.scripts},
			VariableMapping:          mapping,
		},
	}, mapping
}

// columnTypes gives every column an honest type: the union of the types of the values it holds, on
// top of the type its role implies (Time for the event-time key, Int for SUM's argument).
func columnTypes(cfg Config, script []lib.Event) []octosql.Type {
	ts := make([]octosql.Type, cfg.Arity())
	set := make([]bool, cfg.Arity())
	add := func(i int, t octosql.Type) {
		if !set[i] {
			ts[i], set[i] = t, true
		} else {
			ts[i] = octosql.TypeSum(ts[i], t)
		}
	}
	for i := range ts {
		switch {
		case i == cfg.KTI:
			add(i, octosql.Time)
		case i >= cfg.NK && cfg.Aggs[i-cfg.NK] == Sum:
			add(i, octosql.Int)
		}
	}
	for _, e := range script {
		if e.IsWM {
			continue
		}
		for i, v := range e.Rec.Values {
			if i < len(ts) {
				add(i, v.Type())
			}
		}
	}
	for i := range ts {
		if !set[i] {
			ts[i] = octosql.Int
		}
	}
	return ts
}

// Build constructs the execution node the planner would: logical.GroupBy.Typecheck (trigger
// assembly, keyEventTimeIndex from the source's time field, aggregate overload resolution), then
// physical.Node.Materialize (SimpleGroupBy / CustomTriggerGroupBy + EventTimeBuffer, triggers).
// Typecheck panics on error; the panic is returned.
func Build(cfg Config, scripts ...[]lib.Event) (node execution.Node, phys physical.Node, err error) {
	var script []lib.Event // all runs together, for the column types
	for _, sc := range scripts {
		script = append(script, sc...)
	}
	defer func() {
		if p := recover(); p != nil {
			err = fmt.Errorf("planner panicked: %v", p)
		}
	}()
	src := &fakeSource{types: columnTypes(cfg, script), timeField: cfg.KTI, scripts: scripts}
	varName := func(i int) string {
		if i%2 == 0 {
			return fmt.Sprintf("c%d", i)
		}
		return fmt.Sprintf("t.c%d", i)
	}
	var key, exprs []logical.Expression
	var keyNames, aggs, aggNames []string
	for i := 0; i < cfg.NK; i++ {
		key = append(key, logical.NewVariable(varName(i)))
		keyNames = append(keyNames, fmt.Sprintf("c%d", i))
	}
	for j, a := range cfg.Aggs {
		exprs = append(exprs, logical.NewVariable(varName(cfg.NK+j)))
		if a == Count {
			aggs = append(aggs, "count")
		} else {
			aggs = append(aggs, "sum")
		}
		aggNames = append(aggNames, fmt.Sprintf("agg%d", j))
	}
	var trigs []logical.Trigger
	for _, t := range cfg.Trigs {
		switch t.Kind {
		case Counting:
			trigs = append(trigs, logical.NewCountingTrigger(t.N))
		case Watermark:
			trigs = append(trigs, logical.NewWatermarkTrigger())
		default:
			trigs = append(trigs, logical.NewEndOfStreamTrigger())
		}
	}
	ctx := context.Background()
	env := physical.Environment{Aggregates: aggregates.Aggregates}
	lenv := logical.Environment{UniqueNameGenerator: map[string]int{}}
	g := logical.NewGroupBy(src, key, keyNames, exprs, aggs, aggNames, trigs)
	phys, _ = g.Typecheck(ctx, env, lenv)
	if phys.NodeType != physical.NodeTypeGroupBy || phys.GroupBy == nil {
		return nil, phys, fmt.Errorf("typecheck did not produce a group-by node")
	}
	if phys.GroupBy.KeyEventTimeIndex != cfg.KTI {
		return nil, phys, fmt.Errorf("typecheck derived keyEventTimeIndex %d, the case says %d", phys.GroupBy.KeyEventTimeIndex, cfg.KTI)
	}
	for j, a := range cfg.Aggs {
		// the overload picked must be COUNT / SUM over Int (that is what the model's ACount / ASum are)
		want := octosql.Int
		if got := phys.GroupBy.Aggregates[j].AggregateDescriptor.OutputType; !got.Equals(want) {
			return nil, phys, fmt.Errorf("aggregate %d (%v): overload with output type %s picked", j, a, got)
		}
	}
	node, err = phys.Materialize(ctx, env)
	if err != nil {
		return nil, phys, err
	}
	switch node.(type) {
	case *nodes.SimpleGroupBy:
		if !cfg.IsSimple() {
			return nil, phys, fmt.Errorf("planner built SimpleGroupBy for a custom trigger configuration")
		}
	case *nodes.CustomTriggerGroupBy:
		if cfg.IsSimple() {
			return nil, phys, fmt.Errorf("planner built CustomTriggerGroupBy for an end-of-stream configuration")
		}
	default:
		return nil, phys, fmt.Errorf("planner built %T", node)
	}
	return node, phys, nil
}

// ---------- one case ----------

func lenBucket(n int) string {
	switch {
	case n == 0:
		return "len_00"
	case n <= 3:
		return "len_01_03"
	case n <= 7:
		return "len_04_07"
	case n <= 11:
		return "len_08_11"
	}
	return "len_12_14"
}

// Rule is the non-trivial rule shared by both engines.
const Rule = "every node object is run twice (first a priming stream over the same groups, then the main stream; each run is one case); non-trivial = the input has at least one retraction, at least one watermark and at least two distinct groups (keys compared by Value.Compare); distinct by full case text"

// RunCase builds the real node for cfg over script, runs it, records the case and its counters.
// Non-simple configurations whose event-time buffer delivers an invalid changelog are tagged with
// OvertakeClass (and nothing else is ever tagged).
// Priming derives the deterministic first-run stream of a node from its main stream: the first record of
// every distinct group, as an insertion, no watermarks.  Every group of the main run has then been seen
// exactly once by whatever the node (wrongly) keeps between runs.
func Priming(cfg Config, script []lib.Event) []lib.Event {
	var out []lib.Event
	var seen [][]octosql.Value
outer:
	for _, e := range script {
		if e.IsWM || e.Fail {
			continue
		}
		key := e.Rec.Values[:cfg.NK]
		for _, k := range seen {
			if sameKey(k, key) {
				continue outer
			}
		}
		seen = append(seen, key)
		out = append(out, lib.Event{Rec: execution.NewRecord(append([]octosql.Value(nil), e.Rec.Values...), false, e.Rec.EventTime)})
	}
	return out
}

// RunCase builds ONE node object and runs it once per script (first the priming stream(s), last the main
// stream); every run is a case of its own: compared with the model and judged by the oracles.
// Returns the index of the case of the last run.
func RunCase(cf *lib.CaseFile, cfg Config, origin string, scripts ...[]lib.Event) int {
	node, _, buildErr := Build(cfg, scripts...)
	idx := -1
	for run, script := range scripts {
		idx = runOnce(cf, cfg, node, buildErr, script, origin, run)
	}
	return idx
}

func runOnce(cf *lib.CaseFile, cfg Config, node execution.Node, buildErr error, script []lib.Event, origin string, run int) int {
	st := Observe(cfg, script)
	var out []lib.Event
	var runErr error
	var panicked interface{}
	if buildErr == nil {
		out, runErr, panicked = lib.RunNode(node)
	}
	trigNames := make([]string, len(cfg.Trigs))
	for i, t := range cfg.Trigs {
		trigNames[i] = t.String()
	}
	aggNames := make([]string, len(cfg.Aggs))
	for i, a := range cfg.Aggs {
		aggNames[i] = map[Agg]string{Count: "count", Sum: "sum"}[a]
	}
	kind := "custom_trigger_group_by"
	if cfg.IsSimple() {
		kind = "simple_group_by"
	}
	js := map[string]interface{}{
		"nk": cfg.NK, "aggregates": aggNames, "key_event_time_index": cfg.KTI, "triggers": trigNames, "node": kind,
		"origin": origin, "run_of_the_node_object": run + 1, "input": lib.EventsJSON(script), "output": lib.EventsJSON(out),
	}
	coq := fmt.Sprintf("(%d%%nat, %s, %s, %s, %s, %s)", cfg.NK, cfg.CoqAggs(), cfg.CoqKTI(), cfg.CoqTrigs(), lib.CoqEvents(script), lib.CoqEvents(out))
	idx := cf.Add(coq, js, st.Retraction && st.WM && st.Groups >= 2)

	cf.Count("trigset_" + cfg.SetName())
	cf.Count("node_" + kind)
	cf.Count("origin_" + origin)
	cf.Count(fmt.Sprintf("node_run_%d", run+1))
	cf.Count(lenBucket(len(script)))
	cf.Count(fmt.Sprintf("nk_%d", cfg.NK))
	if cfg.KTI >= 0 {
		cf.Count("with_event_time_key")
	}
	count := func(b bool, key string) {
		if b {
			cf.Count(key)
		}
	}
	count(st.Retraction, "with_retraction")
	count(st.WM, "with_watermark")
	count(st.Groups >= 2, "with_two_or_more_groups")
	count(st.EqInstDiffZone, "equal_instant_different_zone_keys")
	count(st.EqInstDiffZone && cfg.HasWatermark(), "equal_instant_different_zone_keys_under_watermark_trigger")
	count(st.SameGroupTwoZone, "one_group_in_two_zones")
	count(!st.ValidInput, "invalid_input")
	count(st.NullTimeKey, "null_time_key")
	count(st.ZeroEventTime, "with_zero_event_time")
	count(st.LateRecord, "with_late_record")

	if buildErr != nil {
		cf.Violation(idx, "could not build the group-by node: "+buildErr.Error(), "")
		return idx
	}
	if runErr != nil {
		cf.Violation(idx, "group-by returned an error on an error-free source: "+runErr.Error(), "")
	}
	if panicked != nil {
		cf.Violation(idx, fmt.Sprintf("group-by panicked: %v", panicked), "")
	}
	if !cfg.IsSimple() {
		delivered, derr, dp := lib.RunNode(nodes.NewEventTimeBuffer(&lib.ScriptSource{Events: script}))
		if derr != nil || dp != nil {
			cf.Violation(idx, fmt.Sprintf("event-time buffer failed: %v %v", derr, dp), "")
		} else if !ValidChangelog(delivered) {
			cf.SetClass(idx, OvertakeClass)
			cf.Count("class_" + OvertakeClass)
			count(st.ValidInput, "class_"+OvertakeClass+"_on_valid_input")
		}
	}
	return idx
}

// RandomCase draws and runs random case number i.
func RandomCase(cf *lib.CaseFile, r *lib.Rng, i int, pure bool) int {
	cfg, permuted, duplicated := GenConfig(r, i, pure)
	pool := genPool(r, cfg)
	script := GenScriptPool(r, cfg, pool)
	// the same node object is run twice: first over a priming stream (alternately the deterministic one
	// derived from the main stream, and an independent random stream over the same groups), then the main one
	var first []lib.Event
	if i%2 == 0 {
		first = Priming(cfg, script)
		cf.Count("first_run_priming_derived")
	} else {
		first = GenScriptPool(r, cfg, pool)
		cf.Count("first_run_random_same_groups")
	}
	idx := RunCase(cf, cfg, "random", first, script)
	if permuted {
		cf.Count("trig_permuted")
	}
	if duplicated {
		cf.Count("trig_duplicated")
	}
	return idx
}

// ---------- bounded-exhaustive enumeration (C17) ----------

type ExCase struct {
	Cfg    Config
	Script []lib.Event
	Len    int
}

// ExhaustiveTrigs: the trigger kinds of the enumeration.
func ExhaustiveTrigs() [][]Trig {
	return [][]Trig{
		{{Kind: Counting, N: 2}},
		{{Kind: Counting, N: 3}},
		{{Kind: Watermark}},
		{{Kind: Watermark}, {Kind: EndOfStream}},
		{},
		{{Kind: Counting, N: 2}, {Kind: Watermark}},
	}
}

// Exhaustive enumerates every valid changelog over {+k1, +k2, -k1, -k2, WM} up to maxLen events
// (never more retractions than insertions per key), in two event-time modes (key instant / zero),
// for each of ExhaustiveTrigs, with nk = 1, the key column being the event-time key.
// k1 = time 2 (UTC) with arguments (1, 5); k2 = time 4 (UTC) with arguments (NULL, 7); the i-th
// watermark of a sequence carries instant 2i-1.
func Exhaustive(maxLen int) []ExCase {
	var seqs [][]int // symbols: 0 +k1, 1 +k2, 2 -k1, 3 -k2, 4 WM
	var rec func(prefix []int, c1, c2 int)
	rec = func(prefix []int, c1, c2 int) {
		seqs = append(seqs, append([]int(nil), prefix...))
		if len(prefix) == maxLen {
			return
		}
		for s := 0; s < 5; s++ {
			switch s {
			case 0:
				rec(append(prefix, s), c1+1, c2)
			case 1:
				rec(append(prefix, s), c1, c2+1)
			case 2:
				if c1 > 0 {
					rec(append(prefix, s), c1-1, c2)
				}
			case 3:
				if c2 > 0 {
					rec(append(prefix, s), c1, c2-1)
				}
			default:
				rec(append(prefix, s), c1, c2)
			}
		}
	}
	rec(nil, 0, 0)
	sort.SliceStable(seqs, func(i, j int) bool { return len(seqs[i]) < len(seqs[j]) })

	k1 := []octosql.Value{octosql.NewTime(time.Unix(0, 2).UTC()), octosql.NewInt(1), octosql.NewInt(5)}
	k2 := []octosql.Value{octosql.NewTime(time.Unix(0, 4).UTC()), octosql.NewNull(), octosql.NewInt(7)}
	var out []ExCase
	for _, seq := range seqs {
		for mode := 0; mode < 2; mode++ {
			var script []lib.Event
			nwm := 0
			for _, s := range seq {
				if s == 4 {
					nwm++
					script = append(script, lib.Event{IsWM: true, WM: lib.T(int64(2*nwm - 1))})
					continue
				}
				row := k1
				if s == 1 || s == 3 {
					row = k2
				}
				et := lib.T(0)
				if mode == 0 {
					et = row[0].Time
				}
				script = append(script, lib.Event{Rec: execution.NewRecord(append([]octosql.Value(nil), row...), s >= 2, et)})
			}
			for _, ts := range ExhaustiveTrigs() {
				out = append(out, ExCase{
					Cfg:    Config{NK: 1, Aggs: []Agg{Count, Sum}, KTI: 0, Trigs: append([]Trig(nil), ts...)},
					Script: script, Len: len(seq),
				})
			}
		}
	}
	return out
}

// NullTimeFamily: ON WATERMARK with a key whose time component is NULL (its .Time is the zero time, at or
// below every watermark, also before the first one) next to an ordinary key: every valid sequence over
// {+kNull, -kNull, +k1, WM} up to 3 events, for [ON WATERMARK] and [COUNTING 2; ON WATERMARK].
// kNull = (NULL; 1, 5) with no event time; k1 = (time 2; NULL, 7) at event time 2; i-th watermark = 2i-1.
func NullTimeFamily() []ExCase {
	kNull := []octosql.Value{octosql.NewNull(), octosql.NewInt(1), octosql.NewInt(5)}
	k1 := []octosql.Value{octosql.NewTime(time.Unix(0, 2).UTC()), octosql.NewNull(), octosql.NewInt(7)}
	var out []ExCase
	var rec func(prefix []int, c int)
	rec = func(prefix []int, c int) {
		if len(prefix) > 0 {
			var script []lib.Event
			nwm := 0
			for _, s := range prefix {
				switch s {
				case 0, 1:
					script = append(script, lib.Event{Rec: execution.NewRecord(append([]octosql.Value(nil), kNull...), s == 1, lib.T(0))})
				case 2:
					script = append(script, lib.Event{Rec: execution.NewRecord(append([]octosql.Value(nil), k1...), false, k1[0].Time)})
				default:
					nwm++
					script = append(script, lib.Event{IsWM: true, WM: lib.T(int64(2*nwm - 1))})
				}
			}
			for _, ts := range [][]Trig{{{Kind: Watermark}}, {{Kind: Counting, N: 2}, {Kind: Watermark}}} {
				out = append(out, ExCase{Cfg: Config{NK: 1, Aggs: []Agg{Count, Sum}, KTI: 0, Trigs: ts}, Script: script, Len: len(prefix)})
			}
		}
		if len(prefix) == 3 {
			return
		}
		for s := 0; s < 4; s++ {
			if s == 1 && c == 0 {
				continue
			}
			d := 0
			if s == 0 {
				d = 1
			} else if s == 1 {
				d = -1
			}
			rec(append(append([]int(nil), prefix...), s), c+d)
		}
	}
	rec(nil, 0)
	return out
}

// Sample keeps k of the cases (seeded), preserving their order.
func Sample(r *lib.Rng, cases []ExCase, k int) []ExCase {
	if k >= len(cases) {
		return cases
	}
	idx := make([]int, len(cases))
	for i := range idx {
		idx[i] = i
	}
	for i := 0; i < k; i++ {
		j := i + r.Intn(len(idx)-i)
		idx[i], idx[j] = idx[j], idx[i]
	}
	pick := append([]int(nil), idx[:k]...)
	sort.Ints(pick)
	out := make([]ExCase, k)
	for i, p := range pick {
		out[i] = cases[p]
	}
	return out
}
