// c14: every prototype in aggregates.Aggregates (all overloads, DISTINCT variants included) is fed
// add/retract histories through Add; Trigger is called after every Add and its value (or panic) recorded.
package main

import (
	"fmt"
	"math"
	"os"
	"sort"
	"strings"
	"time"

	"github.com/cube2222/octosql/aggregates"
	"github.com/cube2222/octosql/execution/nodes"
	"github.com/cube2222/octosql/octosql"

	"verifharness/lib"
)

const (
	classNonFinite = "nonfinite_float_sum"
	classOverflow  = "float_sum_overflow"
)

// proto is one entry of the table together with the model's name for it and the kind of values it is fed.
type proto struct {
	name     string // aggregates.Aggregates key + "#" + overload index
	kind     string // Coq term of type agg_kind
	arg      octosql.TypeID
	floatSum bool
	mk       func() nodes.Aggregate
}

func baseKind(name string, arg octosql.TypeID, hasTypeFn bool) (string, bool) {
	switch name {
	case "count":
		if arg == octosql.TypeIDAny {
			return "KCount", true
		}
	case "array_agg":
		if hasTypeFn {
			return "KArray", true
		}
	case "sum":
		switch arg {
		case octosql.TypeIDInt:
			return "KSumInt", true
		case octosql.TypeIDFloat:
			return "KSumFloat", true
		case octosql.TypeIDDuration:
			return "KSumDur", true
		}
	case "avg":
		switch arg {
		case octosql.TypeIDInt:
			return "KAvgInt", true
		case octosql.TypeIDFloat:
			return "KAvgFloat", true
		case octosql.TypeIDDuration:
			return "KAvgDur", true
		}
	case "min":
		switch arg {
		case octosql.TypeIDInt, octosql.TypeIDFloat, octosql.TypeIDDuration, octosql.TypeIDTime:
			return "KMin", true
		}
	case "max":
		switch arg {
		case octosql.TypeIDInt, octosql.TypeIDFloat, octosql.TypeIDDuration, octosql.TypeIDTime:
			return "KMax", true
		}
	}
	return "", false
}

// table reads aggregates.Aggregates; an entry the model has no name for stops the run.
func table() ([]proto, error) {
	var names []string
	for n := range aggregates.Aggregates {
		names = append(names, n)
	}
	sort.Strings(names)
	var out []proto
	seen := map[string]bool{}
	for _, n := range names {
		base, distinct := n, false
		if strings.HasSuffix(n, "_distinct") {
			base, distinct = strings.TrimSuffix(n, "_distinct"), true
		}
		for i, d := range aggregates.Aggregates[n].Descriptors {
			arg := d.ArgumentType.TypeID
			if d.TypeFn != nil {
				arg = octosql.TypeIDAny
			}
			k, ok := baseKind(base, arg, d.TypeFn != nil)
			if !ok {
				return nil, fmt.Errorf("aggregates.Aggregates[%q] overload %d (argument %v) is not modelled in Model/Aggregates.v", n, i, d.ArgumentType.TypeID)
			}
			fs := k == "KSumFloat" || k == "KAvgFloat"
			if distinct {
				k = "(KDistinct " + k + ")"
			}
			seen[n] = true
			out = append(out, proto{name: fmt.Sprintf("%s#%d", n, i), kind: k, arg: arg, floatSum: fs, mk: d.Prototype})
		}
	}
	for _, want := range []string{"count", "count_distinct", "sum", "sum_distinct", "avg", "avg_distinct", "min", "max", "array_agg", "array_agg_distinct"} {
		if !seen[want] {
			return nil, fmt.Errorf("aggregates.Aggregates has no %q", want)
		}
	}
	return out, nil
}

// ---- value domains ----

var negZero = math.Copysign(0, -1)
var nan2 = math.Float64frombits(0x7FF8000000000002)

func ints(xs ...int64) []octosql.Value {
	out := make([]octosql.Value, len(xs))
	for i, x := range xs {
		out[i] = octosql.NewInt(x)
	}
	return out
}
func floats(xs ...float64) []octosql.Value {
	out := make([]octosql.Value, len(xs))
	for i, x := range xs {
		out[i] = octosql.NewFloat(x)
	}
	return out
}
func durs(xs ...int64) []octosql.Value {
	out := make([]octosql.Value, len(xs))
	for i, x := range xs {
		out[i] = octosql.NewDuration(time.Duration(x))
	}
	return out
}

// smallDomains: 3-value domains for the bounded-exhaustive histories.
func smallDomains(arg octosql.TypeID) [][]octosql.Value {
	ts := lib.EdgeTimes()
	switch arg {
	case octosql.TypeIDInt:
		return [][]octosql.Value{ints(1, 2, 3), ints(math.MaxInt64, math.MinInt64, 1), ints(0, -7, 2), ints(math.MaxInt64, math.MaxInt64-1, 2)}
	case octosql.TypeIDDuration:
		return [][]octosql.Value{durs(1, 2, 3), durs(math.MaxInt64, math.MinInt64, -1), durs(0, -7, 2)}
	case octosql.TypeIDFloat:
		return [][]octosql.Value{floats(0, negZero, math.NaN()), floats(1, 2.5, -1), floats(math.NaN(), nan2, 1), floats(0.1, 0.2, 1e100),
			floats(math.Inf(1), 1, math.Inf(-1)), floats(math.MaxFloat64, 1, -math.MaxFloat64), floats(negZero, 1, -1)}
	case octosql.TypeIDTime:
		return [][]octosql.Value{{octosql.NewTime(ts[5]), octosql.NewTime(ts[6]), octosql.NewTime(ts[8])},
			{octosql.NewTime(ts[3]), octosql.NewTime(ts[1]), octosql.NewTime(ts[2])}}
	default: // Any
		return [][]octosql.Value{
			{octosql.NewInt(1), octosql.NewString("a"), octosql.NewFloat(math.NaN())},
			{octosql.NewFloat(0), octosql.NewFloat(negZero), octosql.NewInt(0)},
			{octosql.NewList(ints(1)), octosql.NewList(ints(1, 2)), octosql.NewList(nil)},
			{octosql.NewString("b"), octosql.NewString("a"), octosql.NewString("ab")},
			{octosql.NewTime(ts[5]), octosql.NewTime(ts[6]), octosql.NewBoolean(true)},
			{octosql.NewStruct(ints(1)), octosql.NewStruct(ints(2)), octosql.NewTuple(ints(1))},
			{octosql.NewNull(), octosql.NewInt(3), octosql.NewInt(2)},
		}
	}
}

// pool draws an edge-heavy domain of 4..10 values for a random long history.
func pool(r *lib.Rng, p proto) []octosql.Value {
	n := 4 + r.Intn(7)
	out := make([]octosql.Value, 0, n)
	prof := lib.ValueProfile{}
	for len(out) < n {
		var v octosql.Value
		switch p.arg {
		case octosql.TypeIDInt:
			prof = lib.ValueProfile{Int: true}
			v = lib.GenValueOfKind(r, prof, octosql.TypeIDInt, 0)
		case octosql.TypeIDDuration:
			prof = lib.ValueProfile{Dur: true}
			v = lib.GenValueOfKind(r, prof, octosql.TypeIDDuration, 0)
		case octosql.TypeIDTime:
			prof = lib.ValueProfile{Time: true}
			v = lib.GenValueOfKind(r, prof, octosql.TypeIDTime, 0)
		case octosql.TypeIDFloat:
			prof = lib.ValueProfile{Float: true}
			v = lib.GenValueOfKind(r, prof, octosql.TypeIDFloat, 0)
			if p.floatSum && r.Chance(4, 5) {
				// mostly moderate finite floats, so that the rounding-error oracle is exercised outside the known-finding classes
				v = octosql.NewFloat([]float64{0, negZero, 1, -1, 0.1, 0.2, 0.3, 1e100, -1e100, 1e-300, 3.141592653589793, 1 << 53, 1e16, 123456.789, math.SmallestNonzeroFloat64}[r.Intn(15)])
				if r.Chance(1, 4) {
					v = octosql.NewFloat((float64(r.Intn(2000001)) - 1000000) / 64)
				}
			}
		default:
			v = lib.GenValue(r, lib.AllProfile, 1)
		}
		out = append(out, v)
	}
	return out
}

// classes of a domain under Value.Compare
func classes(dom []octosql.Value) []int {
	cls := make([]int, len(dom))
	for i := range dom {
		cls[i] = i
		for j := 0; j < i; j++ {
			if dom[j].Compare(dom[i]) == 0 {
				cls[i] = cls[j]
				break
			}
		}
	}
	return cls
}

type step struct {
	retr bool
	v    octosql.Value
}

// exhaustive enumerates every history of length exactly n over dom (its prefixes are the shorter ones).
// free = false: only histories in which no prefix retracts an absent class; free = true: every interleaving,
// retractions may come before the additions they cancel (negative intermediate multiplicities).
func exhaustive(dom []octosql.Value, n int, free bool, emit func([]step)) {
	cls := classes(dom)
	cnt := make([]int, len(dom))
	cur := make([]step, 0, n)
	var rec func()
	rec = func() {
		if len(cur) == n {
			h := make([]step, n)
			copy(h, cur)
			emit(h)
			return
		}
		for i := range dom {
			cur = append(cur, step{false, dom[i]})
			cnt[cls[i]]++
			rec()
			cnt[cls[i]]--
			cur = cur[:len(cur)-1]
		}
		for i := range dom {
			if free || cnt[cls[i]] > 0 {
				cur = append(cur, step{true, dom[i]})
				cnt[cls[i]]--
				rec()
				cnt[cls[i]]++
				cur = cur[:len(cur)-1]
			}
		}
	}
	rec()
}

// randomHistory: a history of length n over dom; retractions may name any member of a present class, and
// (early > 0) with probability early/10 a retraction names a value that is absent or already owed; owed values are
// then added back preferentially so that the net multiset is a multiset again for long stretches.
func randomHistory(r *lib.Rng, dom []octosql.Value, n int, early int) []step {
	cls := classes(dom)
	cnt := make([]int, len(dom))
	total, owed := 0, 0 // members present; retractions owed
	var h []step
	draining := false
	bump := func(i, d int) {
		c := cnt[cls[i]]
		if c > 0 {
			total -= c
		} else {
			owed += c
		}
		c += d
		cnt[cls[i]] = c
		if c > 0 {
			total += c
		} else {
			owed -= c
		}
	}
	for len(h) < n {
		if total == 0 {
			draining = false
		} else if !draining && r.Chance(1, 25) {
			draining = true // run the multiset down to empty now and then
		}
		switch {
		case owed > 0 && r.Chance(1, 2): // pay back an early retraction
			var cands []int
			for i := range dom {
				if cnt[cls[i]] < 0 {
					cands = append(cands, i)
				}
			}
			i := cands[r.Intn(len(cands))]
			bump(i, 1)
			h = append(h, step{false, dom[i]})
		case early > 0 && r.Chance(early, 10): // a retraction that arrives before its addition
			i := r.Intn(len(dom))
			bump(i, -1)
			h = append(h, step{true, dom[i]})
		case total > 0 && (draining || r.Chance(2, 5)):
			var cands []int
			for i := range dom {
				if cnt[cls[i]] > 0 {
					cands = append(cands, i)
				}
			}
			i := cands[r.Intn(len(cands))]
			bump(i, -1)
			h = append(h, step{true, dom[i]})
		default:
			i := r.Intn(len(dom))
			bump(i, 1)
			h = append(h, step{false, dom[i]})
		}
	}
	return h
}

// ---- running the implementation ----

type obs struct {
	panicSite int // 0 = returned a value
	v         octosql.Value
	text      string
}

func trigger(a nodes.Aggregate) (o obs) {
	defer func() {
		if p := recover(); p != nil {
			s := fmt.Sprint(p)
			o.text = s
			switch {
			case strings.Contains(s, "interface conversion"):
				o.panicSite = 1
			case strings.Contains(s, "divide by zero"):
				o.panicSite = 2
			default:
				o.panicSite = 99
			}
		}
	}()
	o.v = a.Trigger()
	return
}

func runImpl(p proto, h []step) (out []obs, addPanic interface{}) {
	defer func() {
		if q := recover(); q != nil {
			addPanic = q
		}
	}()
	a := p.mk()
	for _, s := range h {
		a.Add(s.retr, s.v)
		out = append(out, trigger(a))
	}
	return
}

func coqHist(h []step) string {
	parts := make([]string, len(h))
	for i, s := range h {
		parts[i] = "(" + lib.CoqBool(s.retr) + ", " + lib.CoqValue(s.v) + ")"
	}
	return lib.CoqList(parts)
}
func coqObs(os []obs) string {
	parts := make([]string, len(os))
	for i, o := range os {
		if o.panicSite != 0 {
			parts[i] = fmt.Sprintf("Panic %d", o.panicSite)
		} else {
			parts[i] = "Ok " + lib.CoqValue(o.v)
		}
	}
	return lib.CoqList(parts)
}
func jsonHist(h []step) []interface{} {
	out := make([]interface{}, len(h))
	for i, s := range h {
		sign := "+"
		if s.retr {
			sign = "-"
		}
		out[i] = []interface{}{sign, lib.ValueJSON(s.v)}
	}
	return out
}
func jsonObs(os []obs) []interface{} {
	out := make([]interface{}, len(os))
	for i, o := range os {
		if o.panicSite != 0 {
			out[i] = map[string]interface{}{"panic": o.text}
		} else {
			out[i] = lib.ValueJSON(o.v)
		}
	}
	return out
}

func main() {
	f := lib.ParseFlags()
	if f.Cmd != "run" {
		fmt.Fprintln(os.Stderr, "c14: only 'run'")
		os.Exit(2)
	}
	protos, err := table()
	if err != nil {
		fmt.Fprintln(os.Stderr, "c14:", err)
		os.Exit(2)
	}
	rng := lib.NewRng(f.Seed)
	cf := lib.NewCaseFile("C14", f.Seed, f.Tier)
	cf.Imports = []string{"Aggregates"}
	cf.CaseType = "c14_case"
	cf.Checks = []lib.Check{{Name: "tie", Kind: "tie", Fn: "c14_tie"}, {Name: "spec", Kind: "spec", Fn: "c14_spec"}}
	thorough := f.Tier == "thorough"
	exLen, nRandom, randLen := 3, 4, 40
	if thorough {
		exLen, nRandom, randLen = 4, 12, 150
	}
	cf.Side.Rule = fmt.Sprintf("every prototype of aggregates.Aggregates (%d overloads incl. DISTINCT), Trigger() after every Add: "+
		"(a) all add/retract histories of length %d in which no prefix retracts an absent class, over a seed-chosen 3-value domain per overload; "+
		"(b) ALL interleavings of length %d over a 2-value sub-domain (retractions may precede the additions they cancel: negative intermediate multiplicities)%s; "+
		"(c) one overload per run also at length %d (valid over 3 values or free over 2 values); "+
		"(d) %d random histories of length up to %d over edge-heavy 4..10-value domains (duplicates, MinInt64/MaxInt64, NaN payloads, +-0, +-Inf, equal instants in different zones, nested lists), half of them with early retractions; "+
		"the oracle applies at every step whose net multiset has no negative class and is non-empty (counted in steps_where_the_oracle_applies); "+
		"non-trivial = at least one retraction and at least two such steps; distinct by full case text",
		len(protos), exLen, exLen, map[bool]string{true: " and of length 3 over the 3-value domain", false: ""}[thorough], exLen+1, nRandom, randLen)

	stepsChecked := 0
	addCase := func(p proto, h []step, tag string) {
		out, addPanic := runImpl(p, h)
		// signed multiplicity per Compare-class along the history: which steps does the property speak about?
		var reps []octosql.Value
		var nets []int
		retractions, checkedSteps, checkedAfterEarly := 0, 0, 0
		early := false
		nonFinite, absSum := false, 0.0
		for _, s := range h {
			ci := -1
			for j := range reps {
				if reps[j].Compare(s.v) == 0 {
					ci = j
					break
				}
			}
			if ci < 0 {
				reps, nets = append(reps, s.v), append(nets, 0)
				ci = len(reps) - 1
			}
			if s.retr {
				retractions++
				nets[ci]--
				if nets[ci] < 0 {
					early = true
				}
			} else {
				nets[ci]++
			}
			neg, pos := false, false
			for _, c := range nets {
				if c < 0 {
					neg = true
				} else if c > 0 {
					pos = true
				}
			}
			if pos && !neg {
				checkedSteps++
				if early {
					checkedAfterEarly++
				}
			}
			if s.v.TypeID == octosql.TypeIDFloat {
				if math.IsNaN(s.v.Float) || math.IsInf(s.v.Float, 0) {
					nonFinite = true
				} else {
					absSum += math.Abs(s.v.Float)
				}
			}
		}
		total := 0
		for _, c := range nets {
			total += c
		}
		js := map[string]interface{}{"aggregate": p.name, "model_kind": p.kind, "history": jsonHist(h), "trigger_after_each_add": jsonObs(out)}
		idx := cf.Add(fmt.Sprintf("(%s, %s, %s)", p.kind, coqHist(h), coqObs(out)), js, retractions > 0 && checkedSteps >= 2)
		cf.Count(tag + ":" + strings.SplitN(p.name, "#", 2)[0])
		if retractions > 0 {
			cf.Count("with_retraction")
		}
		if total == 0 {
			cf.Count("ends_empty")
		}
		if early {
			cf.Count("with_early_retraction")
		}
		if checkedAfterEarly > 0 {
			cf.Count("oracle_applies_after_an_early_retraction")
		}
		cf.Side.Distribution["steps_where_the_oracle_applies"] = stepsChecked + checkedSteps
		stepsChecked += checkedSteps
		if p.floatSum {
			// known-finding classes, decided on the input alone
			if nonFinite {
				cf.SetClass(idx, classNonFinite)
				cf.Count("class_" + classNonFinite)
			} else if math.IsInf(absSum, 0) || absSum >= math.MaxFloat64 {
				cf.SetClass(idx, classOverflow)
				cf.Count("class_" + classOverflow)
			}
		}
		if addPanic != nil {
			cf.Violation(idx, fmt.Sprintf("%s: Add panicked: %v", p.name, addPanic), "")
		}
		for i, o := range out {
			if o.panicSite == 99 {
				cf.Violation(idx, fmt.Sprintf("%s: Trigger after step %d panicked: %s", p.name, i+1, o.text), "")
			}
		}
	}

	deep := rng.Intn(len(protos)) // this overload also gets the next length
	for pi, p := range protos {
		r := rng.Fork()
		doms := smallDomains(p.arg)
		dom := doms[r.Intn(len(doms))]
		exhaustive(dom, exLen, false, func(h []step) { addCase(p, h, "exhaustive") })
		// every interleaving, early retractions included, over two of the three values of another domain
		domF := doms[r.Intn(len(doms))]
		drop := r.Intn(3)
		var two []octosql.Value
		for i, v := range domF {
			if i != drop {
				two = append(two, v)
			}
		}
		exhaustive(two, exLen, true, func(h []step) { addCase(p, h, "exhaustive_free") })
		if thorough {
			exhaustive(domF, 3, true, func(h []step) { addCase(p, h, "exhaustive_free3") })
		}
		if pi == deep {
			dom2 := doms[r.Intn(len(doms))]
			if r.Bool() {
				exhaustive(dom2, exLen+1, false, func(h []step) { addCase(p, h, "exhaustive_deep") })
			} else {
				exhaustive(dom2[:2], exLen+1, true, func(h []step) { addCase(p, h, "exhaustive_free_deep") })
			}
		}
		for i := 0; i < nRandom; i++ {
			rr := r.Fork()
			n := 8 + rr.Intn(randLen-7)
			if strings.Contains(p.kind, "KArray") && n > 120 {
				n = 120 // the observation after every step is the whole array
			}
			early := 0
			if i%2 == 1 {
				early = 2
			}
			addCase(p, randomHistory(rr, pool(rr, p), n, early), "random")
		}
	}
	if err := cf.Write(f.Out); err != nil {
		fmt.Fprintln(os.Stderr, err)
		os.Exit(2)
	}
}
